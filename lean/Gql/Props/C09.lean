import Gql.Proofs.LexerBasic
import Gql.Proofs.LexerGrammar
import Gql.Proofs.LexerBlock
import Gql.Proofs.GapReplace
import Gql.Proofs.StripProofs
import Gql.Proofs.SpecLex
import Gql.Proofs.C09Misc
/-!
# C09 — Ignored tokens are ignored: layout changes never change the token stream or AST

Property theorems only.  Models: `Gql.Text.lexAll` / `readNextToken` (lexer.py, index-based,
crash-faithful), `Gql.Text.stripIgnoredCharacters` (strip_ignored_characters.py),
`Gql.Text.advanceAll` (the counter of `Parser.advance_lexer`).  Specification:
`Gql.Spec.Lex` — the lexical grammar of spec §2.1 as suffix recognisers per class, the executable
`specTokenize`, and the relation `SpecTokens` ("tokens in order, every gap consists of Ignored
items only, every token is the longest match at its position, then `<EOF>`").

`sig` maps a model token to (kind, start, stop, value); `kv` keeps kinds and values only.

Status: clause 1 (lexer = grammar), the gap clause and clause 3 (gap replacement with prefix
stability) are proved for every text and every token class (Ignored, Punctuator, Name, IntValue,
FloatValue, StringValue with the three escape forms and the surrogate-pair rule, BlockString with
`BlockStringValue()`).  `strip_tokens` / `strip_idem` are proved at full strength (`strip_tokens :
strip_tokens_full`, `strip_idem : strip_idem_full`): for every source text that lexes, including
texts with verbatim surrogate pairs (a leading surrogate immediately followed by a trailing one)
inside strings, block strings and comments; the earlier `_partial` forms (scalar values only) are
kept as corollaries.
-/
namespace Gql.Props.C09
open Gql Gql.Text Gql.Spec.Lex Gql.Text.Pairs

/-! ## Clause 0 — the lexer is total and makes progress (needed by everything else, and by C01) -/

/-- `read_next_token` never raises anything but a syntax error: every subscript is guarded. -/
theorem lex_no_crash (body : List Nat) (st : LexState) (pos : Nat) :
    ¬ (readNextToken body st pos).isCrash := Gql.Text.lex_no_crash body st pos

/-- A token read at `pos ≤ |body|` starts at or after `pos`; a non-EOF token has
`start < stop ≤ |body|`; the EOF token is `(|body|, |body|)`. -/
theorem lex_progress (body : List Nat) (st st' : LexState) (pos : Nat) (t : Token)
    (hp : pos ≤ body.length) (h : readNextToken body st pos = .ok (t, st')) :
    pos ≤ t.start ∧ (t.kind ≠ .eof → t.start < t.stop ∧ t.stop ≤ body.length) ∧
    (t.kind = .eof → t.start = body.length ∧ t.stop = body.length) :=
  Gql.Text.lex_progress body st st' pos t hp h

/-- The whole-text driver never crashes: the fuel `|body| + 2` is never exhausted. -/
theorem lexAll_no_crash (body : List Nat) : ¬ (lexAll body).isCrash := Gql.Text.lexAll_no_crash body

example : ¬ (readNextToken [34, 92] {} 0).isCrash := lex_no_crash _ _ _

/-! ## Clause 1 — the tokens are exactly those of the lexical grammar -/

/-- The executable specification tokenizer decides the token-sequence relation of the grammar. -/
theorem specTokenize_iff_SpecTokens (body : List Nat) (ts : List SpecToken) :
    specTokenize body = some ts ↔ SpecTokens body ts := specTokenize_iff body ts

/-- Clause 1, for every text: the lexer returns tokens `ts` exactly when the grammar's token
sequence is `sig ts` (same kinds, spans and values, for every token class including both string
forms), and it raises a syntax error exactly when the text has no token sequence. -/
theorem lexer_eq_grammar (body : List Nat) :
    (∀ ts, lexAll body = .ok ts → specTokenize body = some (sig ts)) ∧
    (∀ e, lexAll body = .err e → specTokenize body = none) ∧
    (∀ ss, specTokenize body = some ss → ∃ ts, lexAll body = .ok ts ∧ sig ts = ss) ∧
    (specTokenize body = none → ∃ e, lexAll body = .err e) := by
  have h := lexAll_agree_all body
  refine ⟨?_, ?_, ?_, ?_⟩
  · intro ts hts; rw [hts] at h; exact h
  · intro e he; rw [he] at h; exact h
  · intro ss hss
    cases hl : lexAll body with
    | ok ts => rw [hl] at h; exact ⟨ts, rfl, by rw [hss] at h; exact (Option.some.inj h).symm⟩
    | err e => rw [hl] at h; rw [hss] at h; exact absurd h (by simp [LexAgree])
    | crash c => rw [hl] at h; exact h.elim
  · intro hn
    cases hl : lexAll body with
    | ok ts => rw [hl] at h; rw [hn] at h; exact absurd h (by simp [LexAgree])
    | err e => exact ⟨e, rfl⟩
    | crash c => rw [hl] at h; exact h.elim

/-- Clause 1 in relational form: the tokens of a text that lexes form a derivation of the
grammar's token-sequence relation, and every derivation is what the lexer returns. -/
theorem lexer_eq_SpecTokens (body : List Nat) :
    (∀ ts, lexAll body = .ok ts → SpecTokens body (sig ts)) ∧
    (∀ ss, SpecTokens body ss → ∃ ts, lexAll body = .ok ts ∧ sig ts = ss) :=
  ⟨fun ts h => (specTokenize_iff body _).mp ((lexer_eq_grammar body).1 ts h),
   fun ss h => (lexer_eq_grammar body).2.2.1 ss ((specTokenize_iff body ss).mpr h)⟩

-- a string with all three escape forms and a surrogate pair, and a block string with indentation
example : specTokenize [34, 92, 110, 92, 117, 48, 48, 52, 49, 92, 117, 123, 49, 70, 54, 48, 48, 125,
      92, 117, 68, 56, 51, 68, 92, 117, 68, 69, 48, 48, 34] =
    some [⟨.string, 0, 31, some [10, 65, 0x1F600, 0x1F600]⟩, ⟨.eof, 31, 31, none⟩] := by decide
example : specTokenize [34, 34, 34, 10, 32, 32, 97, 10, 32, 32, 32, 98, 92, 34, 34, 34, 10, 32, 34, 34, 34] =
    some [⟨.blockString, 0, 21, some [97, 10, 32, 98, 34, 34, 34]⟩, ⟨.eof, 21, 21, none⟩] := by decide
-- a lone surrogate escape, an unpaired lead surrogate, a 9-digit braced escape are not strings
example : specTokenize [34, 92, 117, 68, 56, 48, 48, 34] = none ∧
    specTokenize [34, 92, 117, 123, 48, 48, 48, 48, 48, 48, 48, 52, 49, 125, 34] = none := by decide

-- `{a -1.5e3 ...,}` : the hypotheses hold and the grammar gives five tokens and EOF
example : 34 ∉ [123, 97, 32, 45, 49, 46, 53, 101, 51, 32, 46, 46, 46, 44, 125] ∧
    specTokenize [123, 97, 32, 45, 49, 46, 53, 101, 51, 32, 46, 46, 46, 44, 125] =
      some [⟨.braceL, 0, 1, none⟩, ⟨.name, 1, 2, some [97]⟩, ⟨.float, 3, 9, some [45, 49, 46, 53, 101, 51]⟩,
            ⟨.spread, 10, 13, none⟩, ⟨.braceR, 14, 15, none⟩, ⟨.eof, 15, 15, none⟩] := by decide
-- `1.e3`, `1a`, `01`, `.5` are not in the language
example : specTokenize [49, 46, 101, 51] = none ∧ specTokenize [49, 97] = none ∧
    specTokenize [48, 49] = none ∧ specTokenize [46, 53] = none := by decide

/-! ## Clause 2 — spans are disjoint, ordered, in bounds; gaps contain Ignored items only -/

/-- For every text that lexes: no comment or SOF token is returned, every token is non-empty and
inside the text, each token starts at or after the end of the previous one (so spans are disjoint
and strictly ordered), and the last token is `<EOF>` at `(|body|, |body|)`. -/
theorem spans (body : List Nat) (ts : List Token) (h : lexAll body = .ok ts) :
    SpanChain body.length 0 ts := by
  obtain ⟨rest, hts, hch⟩ := lexAllAux_spans body _ {} 0 [] ts (by omega) h
  simpa [hts] using hch

/-- The gap clause, for every text that lexes: the returned tokens with the text between them form
a derivation `Ignored* (Token Ignored*)* <EOF>` of the grammar (`SpecTokens`), i.e. every gap
between consecutive tokens, before the first and after the last consists of Ignored items only. -/
theorem gaps_ignored (body : List Nat) (ts : List Token) (h : lexAll body = .ok ts) :
    SpecTokens body (sig ts) := (lexer_eq_SpecTokens body).1 ts h

example : SpanChain 3 0 [⟨.braceL, 0, 1, 1, 1, none⟩, ⟨.braceR, 2, 3, 1, 3, none⟩, ⟨.eof, 3, 3, 1, 4, none⟩] := by
  simp [SpanChain]

/-! ## Clause 3 — rewriting the ignored material leaves kinds and values unchanged -/

/-- On the specification side, with no hypothesis: dropping (equivalently: inserting) a run of
Ignored items in front of a suffix changes no kind and no value of its token sequence. -/
theorem ignored_invariance_spec (t : List Nat) (k : Nat) (h : IgnoredRun t k) :
    (specTokenize t).map kv = (specTokenize (t.drop k)).map kv := specTokenize_drop_ignored h

/-- Clause 3, gap replacement (with prefix stability): let `pre` end right after a token of the text
(or be empty), and let `G` be a run of Ignored items between `pre` and `post`.  Replacing `G` by
any other run of Ignored items `G'` that keeps the last token of `pre` separated from `post`
(`Inert (G' ++ post)`: `G'` non-empty, or `post` empty, or `post` starting with a code point that
cannot extend a token) gives a text that lexes to the same kinds and values — the tokens before
the gap and the tokens after it.  `G = []` is insertion, `G' = []` is removal. -/
theorem ignored_invariance (pre G G' post : List Nat) (ts : List Token)
    (h : lexAll (pre ++ (G ++ post)) = .ok ts)
    (hb : pre = [] ∨ ∃ t ∈ ts, t.kind ≠ .eof ∧ t.stop = pre.length)
    (hG : IgnoredRun (G ++ post) G.length) (hG' : IgnoredRun (G' ++ post) G'.length)
    (hI : Inert (G' ++ post)) :
    ∃ ts', lexAll (pre ++ (G' ++ post)) = .ok ts' ∧ kv (sig ts') = kv (sig ts) :=
  lexAll_gap_replace pre G G' post ts h hb hG hG' hI

/-- Clause 3, insertion: inserting a run of Ignored items `g` (white space, commas, line
terminators, BOMs, comments — `IgnoredRun (g ++ post) g.length` says that `g` is such a run in
front of `post`, e.g. a comment must be closed by a line terminator of `g` or of `post`) right
after any token of a text that lexes, or in front of the text, leaves the kinds and values of
all tokens unchanged. -/
theorem ignored_insertion (pre g post : List Nat) (ts : List Token)
    (h : lexAll (pre ++ post) = .ok ts)
    (hb : pre = [] ∨ ∃ t ∈ ts, t.kind ≠ .eof ∧ t.stop = pre.length)
    (hg : IgnoredRun (g ++ post) g.length) :
    ∃ ts', lexAll (pre ++ (g ++ post)) = .ok ts' ∧ kv (sig ts') = kv (sig ts) := by
  by_cases hg0 : g = []
  · subst hg0; exact ⟨ts, by simpa using h, rfl⟩
  · exact ignored_invariance pre [] g post ts (by simpa using h) hb (.zero _) hg (hg.inert hg0)

/-- Clause 3, rejection is preserved too: if the text with the run `g` inserted after a token
lexes, so does the text without it whenever `post` cannot extend that token (so a text that does
not lex is not repaired by inserting Ignored items at such a place, and conversely). -/
theorem ignored_removal (pre g post : List Nat) (ts : List Token)
    (h : lexAll (pre ++ (g ++ post)) = .ok ts)
    (hb : pre = [] ∨ ∃ t ∈ ts, t.kind ≠ .eof ∧ t.stop = pre.length)
    (hg : IgnoredRun (g ++ post) g.length) (hI : Inert post) :
    ∃ ts', lexAll (pre ++ post) = .ok ts' ∧ kv (sig ts') = kv (sig ts) := by
  have := ignored_invariance pre g [] post ts h hb hg (.zero _) (by simpa using hI)
  simpa using this

-- a BOM, a comment with its line terminator, a comma and a CR LF in front of `a`
example : IgnoredRun ([0xFEFF, 35, 120, 10, 44, 13, 10] ++ [97]) 7 :=
  .step (n := 1) (k := 6) (by decide) (.step (n := 2) (k := 4) (by decide)
    (.step (n := 1) (k := 3) (by decide) (.step (n := 1) (k := 2) (by decide)
      (.step (n := 2) (k := 0) (by decide) (.zero _)))))

/-! ## Clause 4 — strip_ignored_characters -/

/-- `strip_ignored_characters` rejects exactly the texts the lexer rejects, with the same error;
it never crashes. -/
theorem strip_rejects (s : List Nat) :
    (∀ e, lexAll s = .err e ↔ stripIgnoredCharacters s = .err e) ∧
    ¬ (stripIgnoredCharacters s).isCrash := by
  unfold stripIgnoredCharacters
  have hnc := Gql.Text.lexAll_no_crash s
  cases h : lexAll s with
  | ok ts => simp [Out.isCrash]
  | err e => simp [Out.isCrash]
  | crash c => rw [h] at hnc; simp [Out.isCrash] at hnc

/-- FULL STATEMENT: stripping preserves the token signature (block strings compared by value). -/
def strip_tokens_full : Prop :=
  ∀ s out ts, stripIgnoredCharacters s = .ok out → lexAll s = .ok ts →
    ∃ ts', lexAll out = .ok ts' ∧ kv (sig ts') = kv (sig ts)

/-- FULL STATEMENT: stripping is idempotent. -/
def strip_idem_full : Prop :=
  ∀ s out, stripIgnoredCharacters s = .ok out → stripIgnoredCharacters out = .ok out

/-- Ingredient of clause 4, lexer side: the value of every block string token of the grammar is
block-representable and is a sequence of Unicode scalar values and surrogate pairs (`Paired`: a
leading surrogate is immediately followed by a trailing one and every trailing one is so preceded) —
splitting the raw value at line terminators, removing the common indentation and dropping blank
lines never separates a pair. -/
theorem block_token_value (u : List Nat) (m : Match) (h : lexToken? u = some m)
    (hk : m.kind = .blockString) : ∃ v, m.value = some v ∧ BlockRepresentable v ∧ Paired v := by
  obtain ⟨v, hv, hrep, _, hp⟩ := lexToken?_block_value h hk
  exact ⟨v, hv, hrep, hp⟩

/-- Ingredient of clause 4, printer side: `print_block_string(v, minimize=True)` of a
block-representable value of scalar values and surrogate pairs, followed by any text, is read by
the grammar as one block string token with exactly that value (the C08 round trip extended from
scalar values to surrogate pairs). -/
theorem block_reprint (v rest : List Nat) (hs : Paired v) (hrep : BlockRepresentable v) :
    lexToken? (printBlockString v true ++ rest) =
      some ⟨.blockString, (printBlockString v true).length, some v⟩ :=
  lexToken?_printed_block v rest hs hrep

-- ` <pair>"""<LF><pair>` is such a value; a lone, a reversed and a separated pair are not `Paired`
example : Paired [32, 0xD83D, 0xDE00, 34, 34, 34, 10, 0xDBFF, 0xDFFF] ∧
    BlockRepresentable [32, 0xD83D, 0xDE00, 34, 34, 34, 10, 0xDBFF, 0xDFFF] := by decide
example : ¬ Paired [0xD83D] ∧ ¬ Paired [0xDE00, 0xD83D] ∧ ¬ Paired [0xD83D, 10, 0xDE00] := by decide

/-- `strip_tokens`, full statement, for every source text that lexes — Unicode scalar values
and verbatim surrogate pairs (a leading surrogate immediately followed by a trailing one, which the
lexer accepts inside strings, block strings and comments; lone surrogates do not lex): the stripped
text lexes, and to the same kinds and values (block strings are re-printed minimised and compared
by value).  The block-string part rests on `printBlockStringW_roundtrip_paired` (print then lex is
the identity on every representable value of scalar values and pairs) and on
`blockString?_value_paired` (the value of a block string token is such a sequence: neither the line
split nor the removal of the common indentation separates a pair). -/
theorem strip_tokens : strip_tokens_full := by
  intro s out ts h hl
  obtain ⟨out', ts', h1, h2, h3, _⟩ := strip_correct s ts hl
  rw [h] at h1
  have : out = out' := Out.ok.inj h1
  subst this
  exact ⟨ts', h2, h3⟩

/-- `strip_idem`, full statement, for every source text (surrogate pairs included): stripping the
stripped text returns it unchanged. -/
theorem strip_idem : strip_idem_full := by
  intro s out h
  have hnc := (strip_rejects s).2
  cases hl : lexAll s with
  | ok ts =>
    obtain ⟨out', ts', h1, _, _, h4⟩ := strip_correct s ts hl
    rw [h] at h1
    have : out = out' := Out.ok.inj h1
    subst this
    exact h4
  | err e =>
    have := ((strip_rejects s).1 e).mp hl
    rw [h] at this; simp at this
  | crash c =>
    exact absurd hl (by
      intro hc
      have := Gql.Text.lexAll_no_crash s
      rw [hc] at this; simp [Out.isCrash] at this)

/-- `strip_tokens` restricted to source texts made of Unicode scalar values (the earlier partial
result; now a corollary of `strip_tokens`). -/
theorem strip_tokens_partial (s out : List Nat) (ts : List Token) (_hs : ∀ c ∈ s, isScalar c = true)
    (h : stripIgnoredCharacters s = .ok out) (hl : lexAll s = .ok ts) :
    ∃ ts', lexAll out = .ok ts' ∧ kv (sig ts') = kv (sig ts) := strip_tokens s out ts h hl

/-- `strip_idem` restricted to source texts made of Unicode scalar values (corollary of
`strip_idem`). -/
theorem strip_idem_partial (s out : List Nat) (_hs : ∀ c ∈ s, isScalar c = true)
    (h : stripIgnoredCharacters s = .ok out) : stripIgnoredCharacters out = .ok out :=
  strip_idem s out h

-- `{ a ...b }` consists of scalar values: the two theorems apply to it
example : ∀ c ∈ [123, 32, 97, 32, 46, 46, 46, 98, 32, 125], isScalar c = true := by decide

-- a text with verbatim surrogate pairs (U+D83D U+DE00) in a block string (indented second line),
-- in a comment and in a string is in the language, so it lexes and the two theorems apply to it:
-- `"""<LF>  <pair>a<LF>   <pair>""" #<pair><LF>"<pair>"`
example : ∃ ts out ts', lexAll [34, 34, 34, 10, 32, 32, 0xD83D, 0xDE00, 97, 10, 32, 32, 32, 0xD83D, 0xDE00,
      34, 34, 34, 32, 35, 0xD83D, 0xDE00, 10, 34, 0xD83D, 0xDE00, 34] = .ok ts ∧
    stripIgnoredCharacters [34, 34, 34, 10, 32, 32, 0xD83D, 0xDE00, 97, 10, 32, 32, 32, 0xD83D, 0xDE00,
      34, 34, 34, 32, 35, 0xD83D, 0xDE00, 10, 34, 0xD83D, 0xDE00, 34] = .ok out ∧
    lexAll out = .ok ts' ∧ kv (sig ts') = kv (sig ts) ∧
    sig ts = [⟨.blockString, 0, 18, some [0xD83D, 0xDE00, 97, 10, 32, 0xD83D, 0xDE00]⟩,
      ⟨.string, 23, 27, some [0xD83D, 0xDE00]⟩, ⟨.eof, 27, 27, none⟩] := by
  obtain ⟨ts, hts, hsig⟩ := (lexer_eq_grammar _).2.2.1 _ (show specTokenize [34, 34, 34, 10, 32, 32,
      0xD83D, 0xDE00, 97, 10, 32, 32, 32, 0xD83D, 0xDE00, 34, 34, 34, 32, 35, 0xD83D, 0xDE00, 10,
      34, 0xD83D, 0xDE00, 34] = some [⟨.blockString, 0, 18, some [0xD83D, 0xDE00, 97, 10, 32, 0xD83D, 0xDE00]⟩,
      ⟨.string, 23, 27, some [0xD83D, 0xDE00]⟩, ⟨.eof, 27, 27, none⟩] by decide)
  obtain ⟨out, ts', h1, h2, h3, _⟩ := strip_correct _ ts hts
  exact ⟨ts, out, ts', hts, h1, h2, h3, hsig⟩
-- a lone leading surrogate in a block string is not in the language
example : specTokenize [34, 34, 34, 0xD83D, 34, 34, 34] = none := by decide

example : (∃ e, lexAll [49, 97] = .err e) := by
  have := (lexer_eq_grammar [49, 97]).2.2.2 (by decide)
  exact this

/-! ## Clause 5 — the token limit -/

/-- The counter of `advance_lexer` over a token stream: with `max_tokens = n` all tokens are
accepted exactly when the stream has at most `n` significant tokens, the final counter
(`document.token_count`) is that number, and without a limit everything is accepted. -/
theorem token_limit (n : Nat) (ts : List Token) :
    (sigCount ts ≤ n → advanceAll (some n) ts 0 = .ok (sigCount ts)) ∧
    (n < sigCount ts → ∃ p, advanceAll (some n) ts 0 = .err p) ∧
    advanceAll none ts 0 = .ok (sigCount ts) := by
  have h := advanceAll_some_ok n ts 0 (by omega)
  refine ⟨?_, ?_, ?_⟩
  · intro hle; simpa using h.1 (by omega)
  · intro hlt; exact h.2 (by omega)
  · simpa using advanceAll_none ts 0

example : sigCount [⟨.braceL, 0, 1, 1, 1, none⟩, ⟨.braceR, 2, 3, 1, 3, none⟩, ⟨.eof, 3, 3, 1, 4, none⟩] = 2 ∧
    advanceAll (some 1) [⟨.braceL, 0, 1, 1, 1, none⟩, ⟨.braceR, 2, 3, 1, 3, none⟩, ⟨.eof, 3, 3, 1, 4, none⟩] 0 = .err 2 := by
  decide

end Gql.Props.C09
