import Gql.Proofs.LexerBasic
import Gql.Proofs.LexerGrammar
import Gql.Proofs.LexerBlock
import Gql.Proofs.GapReplace
import Gql.Proofs.StripProofs
import Gql.Proofs.SpecLex
import Gql.Proofs.C09Misc
/-!
# C09 — Ignored tokens are ignored: layout changes never change the token stream or AST

Property theorems only.  Models: `Gql.Text.lexAll` / `readNextToken` (lexer.py, index-based,
crash-faithful), `Gql.Text.stripIgnoredCharacters` (strip_ignored_characters.py),
`Gql.Text.advanceAll` (the counter of `Parser.advance_lexer`).  Specification:
`Gql.Spec.Lex` — the lexical grammar of spec §2.1 as suffix recognisers per class, the executable
`specTokenize`, and the relation `SpecTokens` ("tokens in order, every gap consists of Ignored
items only, every token is the longest match at its position, then `<EOF>`").

`sig` maps a model token to (kind, start, stop, value); `kv` keeps kinds and values only.

Status: clause 1 (lexer = grammar), the gap clause and clause 3 (gap replacement with prefix
stability) are proved for every text and every token class (Ignored, Punctuator, Name, IntValue,
FloatValue, StringValue with the three escape forms and the surrogate-pair rule, BlockString with
`BlockStringValue()`).  `strip_tokens` / `strip_idem` are proved for source texts made of Unicode
scalar values (`_partial`; the full statements, which also cover texts with surrogate pairs, are
kept as `def …_full : Prop`).
-/
namespace Gql.Props.C09
open Gql Gql.Text Gql.Spec.Lex

/-! ## Clause 0 — the lexer is total and makes progress (needed by everything else, and by C01) -/

/-- `read_next_token` never raises anything but a syntax error: every subscript is guarded. -/
theorem lex_no_crash (body : List Nat) (st : LexState) (pos : Nat) :
    ¬ (readNextToken body st pos).isCrash := Gql.Text.lex_no_crash body st pos

/-- A token read at `pos ≤ |body|` starts at or after `pos`; a non-EOF token has
`start < stop ≤ |body|`; the EOF token is `(|body|, |body|)`. -/
theorem lex_progress (body : List Nat) (st st' : LexState) (pos : Nat) (t : Token)
    (hp : pos ≤ body.length) (h : readNextToken body st pos = .ok (t, st')) :
    pos ≤ t.start ∧ (t.kind ≠ .eof → t.start < t.stop ∧ t.stop ≤ body.length) ∧
    (t.kind = .eof → t.start = body.length ∧ t.stop = body.length) :=
  Gql.Text.lex_progress body st st' pos t hp h

/-- The whole-text driver never crashes: the fuel `|body| + 2` is never exhausted. -/
theorem lexAll_no_crash (body : List Nat) : ¬ (lexAll body).isCrash := Gql.Text.lexAll_no_crash body

example : ¬ (readNextToken [34, 92] {} 0).isCrash := lex_no_crash _ _ _

/-! ## Clause 1 — the tokens are exactly those of the lexical grammar -/

/-- The executable specification tokenizer decides the token-sequence relation of the grammar. -/
theorem specTokenize_iff_SpecTokens (body : List Nat) (ts : List SpecToken) :
    specTokenize body = some ts ↔ SpecTokens body ts := specTokenize_iff body ts

/-- Clause 1, for every text: the lexer returns tokens `ts` exactly when the grammar's token
sequence is `sig ts` (same kinds, spans and values, for every token class including both string
forms), and it raises a syntax error exactly when the text has no token sequence. -/
theorem lexer_eq_grammar (body : List Nat) :
    (∀ ts, lexAll body = .ok ts → specTokenize body = some (sig ts)) ∧
    (∀ e, lexAll body = .err e → specTokenize body = none) ∧
    (∀ ss, specTokenize body = some ss → ∃ ts, lexAll body = .ok ts ∧ sig ts = ss) ∧
    (specTokenize body = none → ∃ e, lexAll body = .err e) := by
  have h := lexAll_agree_all body
  refine ⟨?_, ?_, ?_, ?_⟩
  · intro ts hts; rw [hts] at h; exact h
  · intro e he; rw [he] at h; exact h
  · intro ss hss
    cases hl : lexAll body with
    | ok ts => rw [hl] at h; exact ⟨ts, rfl, by rw [hss] at h; exact (Option.some.inj h).symm⟩
    | err e => rw [hl] at h; rw [hss] at h; exact absurd h (by simp [LexAgree])
    | crash c => rw [hl] at h; exact h.elim
  · intro hn
    cases hl : lexAll body with
    | ok ts => rw [hl] at h; rw [hn] at h; exact absurd h (by simp [LexAgree])
    | err e => exact ⟨e, rfl⟩
    | crash c => rw [hl] at h; exact h.elim

/-- Clause 1 in relational form: the tokens of a text that lexes form a derivation of the
grammar's token-sequence relation, and every derivation is what the lexer returns. -/
theorem lexer_eq_SpecTokens (body : List Nat) :
    (∀ ts, lexAll body = .ok ts → SpecTokens body (sig ts)) ∧
    (∀ ss, SpecTokens body ss → ∃ ts, lexAll body = .ok ts ∧ sig ts = ss) :=
  ⟨fun ts h => (specTokenize_iff body _).mp ((lexer_eq_grammar body).1 ts h),
   fun ss h => (lexer_eq_grammar body).2.2.1 ss ((specTokenize_iff body ss).mpr h)⟩

-- a string with all three escape forms and a surrogate pair, and a block string with indentation
example : specTokenize [34, 92, 110, 92, 117, 48, 48, 52, 49, 92, 117, 123, 49, 70, 54, 48, 48, 125,
      92, 117, 68, 56, 51, 68, 92, 117, 68, 69, 48, 48, 34] =
    some [⟨.string, 0, 31, some [10, 65, 0x1F600, 0x1F600]⟩, ⟨.eof, 31, 31, none⟩] := by decide
example : specTokenize [34, 34, 34, 10, 32, 32, 97, 10, 32, 32, 32, 98, 92, 34, 34, 34, 10, 32, 34, 34, 34] =
    some [⟨.blockString, 0, 21, some [97, 10, 32, 98, 34, 34, 34]⟩, ⟨.eof, 21, 21, none⟩] := by decide
-- a lone surrogate escape, an unpaired lead surrogate, a 9-digit braced escape are not strings
example : specTokenize [34, 92, 117, 68, 56, 48, 48, 34] = none ∧
    specTokenize [34, 92, 117, 123, 48, 48, 48, 48, 48, 48, 48, 52, 49, 125, 34] = none := by decide

-- `{a -1.5e3 ...,}` : the hypotheses hold and the grammar gives five tokens and EOF
example : 34 ∉ [123, 97, 32, 45, 49, 46, 53, 101, 51, 32, 46, 46, 46, 44, 125] ∧
    specTokenize [123, 97, 32, 45, 49, 46, 53, 101, 51, 32, 46, 46, 46, 44, 125] =
      some [⟨.braceL, 0, 1, none⟩, ⟨.name, 1, 2, some [97]⟩, ⟨.float, 3, 9, some [45, 49, 46, 53, 101, 51]⟩,
            ⟨.spread, 10, 13, none⟩, ⟨.braceR, 14, 15, none⟩, ⟨.eof, 15, 15, none⟩] := by decide
-- `1.e3`, `1a`, `01`, `.5` are not in the language
example : specTokenize [49, 46, 101, 51] = none ∧ specTokenize [49, 97] = none ∧
    specTokenize [48, 49] = none ∧ specTokenize [46, 53] = none := by decide

/-! ## Clause 2 — spans are disjoint, ordered, in bounds; gaps contain Ignored items only -/

/-- For every text that lexes: no comment or SOF token is returned, every token is non-empty and
inside the text, each token starts at or after the end of the previous one (so spans are disjoint
and strictly ordered), and the last token is `<EOF>` at `(|body|, |body|)`. -/
theorem spans (body : List Nat) (ts : List Token) (h : lexAll body = .ok ts) :
    SpanChain body.length 0 ts := by
  obtain ⟨rest, hts, hch⟩ := lexAllAux_spans body _ {} 0 [] ts (by omega) h
  simpa [hts] using hch

/-- The gap clause, for every text that lexes: the returned tokens with the text between them form
a derivation `Ignored* (Token Ignored*)* <EOF>` of the grammar (`SpecTokens`), i.e. every gap
between consecutive tokens, before the first and after the last consists of Ignored items only. -/
theorem gaps_ignored (body : List Nat) (ts : List Token) (h : lexAll body = .ok ts) :
    SpecTokens body (sig ts) := (lexer_eq_SpecTokens body).1 ts h

example : SpanChain 3 0 [⟨.braceL, 0, 1, 1, 1, none⟩, ⟨.braceR, 2, 3, 1, 3, none⟩, ⟨.eof, 3, 3, 1, 4, none⟩] := by
  simp [SpanChain]

/-! ## Clause 3 — rewriting the ignored material leaves kinds and values unchanged -/

/-- On the specification side, with no hypothesis: dropping (equivalently: inserting) a run of
Ignored items in front of a suffix changes no kind and no value of its token sequence. -/
theorem ignored_invariance_spec (t : List Nat) (k : Nat) (h : IgnoredRun t k) :
    (specTokenize t).map kv = (specTokenize (t.drop k)).map kv := specTokenize_drop_ignored h

/-- Clause 3, gap replacement (with prefix stability): let `pre` end right after a token of the text
(or be empty), and let `G` be a run of Ignored items between `pre` and `post`.  Replacing `G` by
any other run of Ignored items `G'` that keeps the last token of `pre` separated from `post`
(`Inert (G' ++ post)`: `G'` non-empty, or `post` empty, or `post` starting with a code point that
cannot extend a token) gives a text that lexes to the same kinds and values — the tokens before
the gap and the tokens after it.  `G = []` is insertion, `G' = []` is removal. -/
theorem ignored_invariance (pre G G' post : List Nat) (ts : List Token)
    (h : lexAll (pre ++ (G ++ post)) = .ok ts)
    (hb : pre = [] ∨ ∃ t ∈ ts, t.kind ≠ .eof ∧ t.stop = pre.length)
    (hG : IgnoredRun (G ++ post) G.length) (hG' : IgnoredRun (G' ++ post) G'.length)
    (hI : Inert (G' ++ post)) :
    ∃ ts', lexAll (pre ++ (G' ++ post)) = .ok ts' ∧ kv (sig ts') = kv (sig ts) :=
  lexAll_gap_replace pre G G' post ts h hb hG hG' hI

/-- Clause 3, insertion: inserting a run of Ignored items `g` (white space, commas, line
terminators, BOMs, comments — `IgnoredRun (g ++ post) g.length` says that `g` is such a run in
front of `post`, e.g. a comment must be closed by a line terminator of `g` or of `post`) right
after any token of a text that lexes, or in front of the text, leaves the kinds and values of
all tokens unchanged. -/
theorem ignored_insertion (pre g post : List Nat) (ts : List Token)
    (h : lexAll (pre ++ post) = .ok ts)
    (hb : pre = [] ∨ ∃ t ∈ ts, t.kind ≠ .eof ∧ t.stop = pre.length)
    (hg : IgnoredRun (g ++ post) g.length) :
    ∃ ts', lexAll (pre ++ (g ++ post)) = .ok ts' ∧ kv (sig ts') = kv (sig ts) := by
  by_cases hg0 : g = []
  · subst hg0; exact ⟨ts, by simpa using h, rfl⟩
  · exact ignored_invariance pre [] g post ts (by simpa using h) hb (.zero _) hg (hg.inert hg0)

/-- Clause 3, rejection is preserved too: if the text with the run `g` inserted after a token
lexes, so does the text without it whenever `post` cannot extend that token (so a text that does
not lex is not repaired by inserting Ignored items at such a place, and conversely). -/
theorem ignored_removal (pre g post : List Nat) (ts : List Token)
    (h : lexAll (pre ++ (g ++ post)) = .ok ts)
    (hb : pre = [] ∨ ∃ t ∈ ts, t.kind ≠ .eof ∧ t.stop = pre.length)
    (hg : IgnoredRun (g ++ post) g.length) (hI : Inert post) :
    ∃ ts', lexAll (pre ++ post) = .ok ts' ∧ kv (sig ts') = kv (sig ts) := by
  have := ignored_invariance pre g [] post ts h hb hg (.zero _) (by simpa using hI)
  simpa using this

-- a BOM, a comment with its line terminator, a comma and a CR LF in front of `a`
example : IgnoredRun ([0xFEFF, 35, 120, 10, 44, 13, 10] ++ [97]) 7 :=
  .step (n := 1) (k := 6) (by decide) (.step (n := 2) (k := 4) (by decide)
    (.step (n := 1) (k := 3) (by decide) (.step (n := 1) (k := 2) (by decide)
      (.step (n := 2) (k := 0) (by decide) (.zero _)))))

/-! ## Clause 4 — strip_ignored_characters -/

/-- `strip_ignored_characters` rejects exactly the texts the lexer rejects, with the same error;
it never crashes. -/
theorem strip_rejects (s : List Nat) :
    (∀ e, lexAll s = .err e ↔ stripIgnoredCharacters s = .err e) ∧
    ¬ (stripIgnoredCharacters s).isCrash := by
  unfold stripIgnoredCharacters
  have hnc := Gql.Text.lexAll_no_crash s
  cases h : lexAll s with
  | ok ts => simp [Out.isCrash]
  | err e => simp [Out.isCrash]
  | crash c => rw [h] at hnc; simp [Out.isCrash] at hnc

/-- FULL STATEMENT: stripping preserves the token signature (block strings compared by value). -/
def strip_tokens_full : Prop :=
  ∀ s out ts, stripIgnoredCharacters s = .ok out → lexAll s = .ok ts →
    ∃ ts', lexAll out = .ok ts' ∧ kv (sig ts') = kv (sig ts)

/-- FULL STATEMENT: stripping is idempotent. -/
def strip_idem_full : Prop :=
  ∀ s out, stripIgnoredCharacters s = .ok out → stripIgnoredCharacters out = .ok out

/-- `strip_tokens`, proved for every source text made of Unicode scalar values (the
specification's SourceCharacter): the stripped text lexes, and to the same kinds and values
(block strings are re-printed minimised and compared by value).  Missing for the full statement:
texts that contain surrogate code points (the block-string print/lex round trip of C08 is stated
for scalar values). -/
theorem strip_tokens_partial (s out : List Nat) (ts : List Token) (hs : ∀ c ∈ s, isScalar c = true)
    (h : stripIgnoredCharacters s = .ok out) (hl : lexAll s = .ok ts) :
    ∃ ts', lexAll out = .ok ts' ∧ kv (sig ts') = kv (sig ts) := by
  obtain ⟨out', ts', h1, h2, h3, _⟩ := strip_correct s hs ts hl
  rw [h] at h1
  have : out = out' := Out.ok.inj h1
  subst this
  exact ⟨ts', h2, h3⟩

/-- `strip_idem`, proved for every source text made of Unicode scalar values: stripping the
stripped text returns it unchanged.  Missing: as for `strip_tokens_partial`. -/
theorem strip_idem_partial (s out : List Nat) (hs : ∀ c ∈ s, isScalar c = true)
    (h : stripIgnoredCharacters s = .ok out) : stripIgnoredCharacters out = .ok out := by
  have hnc := (strip_rejects s).2
  cases hl : lexAll s with
  | ok ts =>
    obtain ⟨out', ts', h1, _, _, h4⟩ := strip_correct s hs ts hl
    rw [h] at h1
    have : out = out' := Out.ok.inj h1
    subst this
    exact h4
  | err e =>
    have := ((strip_rejects s).1 e).mp hl
    rw [h] at this; simp at this
  | crash c =>
    exact absurd hl (by
      intro hc
      have := Gql.Text.lexAll_no_crash s
      rw [hc] at this; simp [Out.isCrash] at this)

-- `{ a ...b }` consists of scalar values: the two theorems apply to it
example : ∀ c ∈ [123, 32, 97, 32, 46, 46, 46, 98, 32, 125], isScalar c = true := by decide

example : (∃ e, lexAll [49, 97] = .err e) := by
  have := (lexer_eq_grammar [49, 97]).2.2.2 (by decide)
  exact this

/-! ## Clause 5 — the token limit -/

/-- The counter of `advance_lexer` over a token stream: with `max_tokens = n` all tokens are
accepted exactly when the stream has at most `n` significant tokens, the final counter
(`document.token_count`) is that number, and without a limit everything is accepted. -/
theorem token_limit (n : Nat) (ts : List Token) :
    (sigCount ts ≤ n → advanceAll (some n) ts 0 = .ok (sigCount ts)) ∧
    (n < sigCount ts → ∃ p, advanceAll (some n) ts 0 = .err p) ∧
    advanceAll none ts 0 = .ok (sigCount ts) := by
  have h := advanceAll_some_ok n ts 0 (by omega)
  refine ⟨?_, ?_, ?_⟩
  · intro hle; simpa using h.1 (by omega)
  · intro hlt; exact h.2 (by omega)
  · simpa using advanceAll_none ts 0

example : sigCount [⟨.braceL, 0, 1, 1, 1, none⟩, ⟨.braceR, 2, 3, 1, 3, none⟩, ⟨.eof, 3, 3, 1, 4, none⟩] = 2 ∧
    advanceAll (some 1) [⟨.braceL, 0, 1, 1, 1, none⟩, ⟨.braceR, 2, 3, 1, 3, none⟩, ⟨.eof, 3, 3, 1, 4, none⟩] 0 = .err 2 := by
  decide

end Gql.Props.C09
