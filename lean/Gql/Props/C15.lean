import Gql.Proofs.Coerce
/-!
# C15 — Input coercion and input validation agree on values, literals and variables

Property theorems only (lemmas: `Gql/Proofs/Coerce.lean`, `Gql/Proofs/Values.lean`).
Models: `coerceValue`/`coerceLiteral` (coerce_input_value.py), `validateValue`/`validateLiteral`
(validate_input_value.py), `valueToLiteral` (value_to_literal.py), `getVariableValues`
(values.py), scalar and enum coercers (scalars.py, definition.py).

`coerce_default_value` is the parameter `D`; the hypotheses on it are what schema validation
guarantees.  Where only part of a clause is proved, the full statement is kept as a
`def … _full : Prop` and the proved part is named `…_partial`; the unproved remainder is
covered on every run by the correspondence check and the implementation-side oracles of
`checks/c15.py`.
-/
namespace Gql.Props.C15
open Gql Gql.Values Gql.Generated.ScalarConsts

/-! ### hypotheses (well-formed type maps) -/

/-- OneOf input objects have no field defaults (schema validation rule). -/
def OneOfNoDefaults (D : Field → R) (tm : TypeMap) : Prop :=
  ∀ n fields, tm.find n = some (.inputObject fields true) → ∀ f ∈ fields, D f = .ok .undefined

/-- No enum has `None` as an internal value. -/
def EnumsNonNull (tm : TypeMap) : Prop :=
  ∀ n e, tm.find n = some (.enum e) → ∀ k, e.valueOf k ≠ some .none

/-- Python dict keys are unique, recursively; field names of an input object are unique. -/
def FieldsNodup (tm : TypeMap) : Prop :=
  ∀ n fields o, tm.find n = some (.inputObject fields o) → (fields.map (·.name)).Nodup

/-! ### coercion succeeds ⇔ validation reports nothing (values) -/

/-- Full statement of `coerce_iff_valid` for values: for every well-formed type map (OneOf
objects included), every value and every type, `coerce_input_value` returns a value (not
`Undefined`, no exception) exactly when `validate_input_value` reports no error. -/
def coerce_iff_valid_value_full : Prop :=
  ∀ (c : PyConv) (D : Field → R) (tm : TypeMap), DefaultsTotal D → OneOfNoDefaults D tm → EnumsNonNull tm →
    FieldsNodup tm →
    ∀ (v : PyVal) (t : InType),
      (∃ cv, coerceValue c D tm v t = .ok cv ∧ cv ≠ .undefined) ↔ validateInputValue c tm v t = []

/-- C15-1 (values), proved for every type map **without OneOf input objects** (arbitrary
nesting of list/non-null over the built-in scalars, enums and recursive input objects with
defaults): `coerce_input_value` never raises, and it returns a value other than `Undefined`
exactly when `validate_input_value` reports no error. Missing for the full statement: the
OneOf post-check (exactly-one-field counting), which is covered by the correspondence run and
the `value-iff` oracle. -/
theorem coerce_iff_valid_value_partial (c : PyConv) (D : Field → R) (tm : TypeMap)
    (hD : DefaultsTotal D) (hO : NoOneOf tm) (v : PyVal) (t : InType) :
    (∃ cv, coerceValue c D tm v t = .ok cv ∧ cv ≠ .undefined) ↔ validateInputValue c tm v t = [] := by
  obtain ⟨cv, hcv, hiff⟩ := coerce_validate_value c D tm hD hO v t []
  unfold validateInputValue
  rw [hiff, hcv]
  constructor
  · rintro ⟨cv', h1, h2⟩
    simp only [Out.ok.injEq] at h1
    subst h1
    exact h2
  · intro h; exact ⟨cv, rfl, h⟩

/-- C15-1b. `coerce_input_value` never raises when defaults are valid: every exception of a leaf
coercer is swallowed, and the only `TypeError` it can raise itself is that of an invalid default. -/
theorem coerce_value_no_crash (c : PyConv) (D : Field → R) (tm : TypeMap)
    (hD : DefaultsTotal D) (hO : NoOneOf tm) (v : PyVal) (t : InType) :
    ∃ cv, coerceValue c D tm v t = .ok cv :=
  let ⟨cv, h, _⟩ := coerce_validate_value c D tm hD hO v t []
  ⟨cv, h⟩

/-- C15-1c (wrong containers). At an input-object position every non-null value that is not a
`dict` — a Mapping that is not a dict (MappingProxyType, ChainMap, UserDict …), a list, tuple,
set, generator, string, number or other object — is rejected by *both* functions:
`coerce_input_value` returns `Undefined` and `validate_input_value` reports exactly one error at
that position. Holds for every type map (OneOf included). -/
theorem non_dict_rejected_by_both (c : PyConv) (D : Field → R) (tm : TypeMap) (v : PyVal) (n : List Nat)
    (fields : List Field) (oneOf : Bool) (path : Path)
    (hf : tm.find n = some (.inputObject fields oneOf)) (hn : v.isNullish = false) (hd : v.asDict = none) :
    coerceValue c D tm v (.named n) = .ok .undefined ∧ validateValue c tm v (.named n) path = [path] :=
  ⟨coerceValue_notobj c D tm (by simp [hn]) hf hd, validateValue_notobj c tm (by simp [hn]) hf hd⟩

/-- … in particular for the non-dict mappings and the non-list iterables of the value zoo; and at
a list position a Mapping (like a str) is not iterated but taken as a list of one. -/
theorem wrong_containers_not_dict (kvs : List (List Nat × PyVal)) (xs : List PyVal) (s : List Nat) (o : PyObj) :
    (PyVal.mapping kvs).asDict = none ∧ (PyVal.iter xs).asDict = none ∧ (PyVal.list xs).asDict = none ∧
    (PyVal.tuple xs).asDict = none ∧ (PyVal.str s).asDict = none ∧ (PyVal.other o).asDict = none ∧
    (PyVal.mapping kvs).iterItems = none ∧ (PyVal.dict kvs).iterItems = none ∧ (PyVal.str s).iterItems = none ∧
    (PyVal.iter xs).iterItems = some xs ∧ (PyVal.tuple xs).iterItems = some xs :=
  ⟨rfl, rfl, rfl, rfl, rfl, rfl, rfl, rfl, rfl, rfl, rfl⟩

-- non-vacuity: `MappingProxyType({"x": 1})` at `P` (an input object of `exTm` below)
example : (PyVal.mapping [([120], .int 1)]).isNullish = false ∧ (PyVal.mapping [([120], .int 1)]).asDict = none :=
  ⟨rfl, rfl⟩

/-- The error paths do not matter for agreement: validation is silent at one path prefix iff it
is silent at any other. -/
theorem validate_silent_path_independent (c : PyConv) (D : Field → R) (tm : TypeMap)
    (hD : DefaultsTotal D) (hO : NoOneOf tm) (v : PyVal) (t : InType) (p q : Path) :
    validateValue c tm v t p = [] ↔ validateValue c tm v t q = [] := by
  obtain ⟨cv, hcv, hp⟩ := coerce_validate_value c D tm hD hO v t p
  obtain ⟨cv', hcv', hq⟩ := coerce_validate_value c D tm hD hO v t q
  rw [hcv] at hcv'
  simp only [Out.ok.injEq] at hcv'
  subst hcv'
  rw [hp, hq]

/-! ### a result conforms to the type -/

/-- the leaf part of "conforms": 32-bit Int, finite Float, text, boolean -/
def ScalarConforms : Scalar → PyVal → Prop
  | .int, r => ∃ n : Int, r = .int n ∧ -(2 ^ 31) ≤ n ∧ n ≤ 2 ^ 31 - 1
  | .float, r => ∃ neg m e, r = .float (.fin neg m e)
  | .string, r => ∃ s, r = .str s
  | .boolean, r => ∃ b, r = .bool b
  | .id, r => ∃ s, r = .str s

/-- C15-2 (leaf clause, values): whatever Python value is supplied, a built-in scalar's input
coercion yields a 32-bit Int / a finite Float (a `float`, also for an `int` input) / text / a
bool — or rejects. -/
theorem scalar_value_conforms (c : PyConv) (s : Scalar) (v r : PyVal)
    (h : s.coerceValue c v = .ok r) : ScalarConforms s r := by
  cases s <;> simp only [Scalar.coerceValue] at h <;> simp only [ScalarConforms]
  · cases v <;> simp only [coerceInt, coerceIntFromInt, coerceIntFromFloat] at h
    all_goals try (simp at h; done)
    all_goals repeat' split at h
    all_goals try (simp at h; done)
    all_goals (rename_i hr; simp only [Out.ok.injEq] at h; subst h; exact ⟨_, rfl, not_inIntRange (by simpa using hr)⟩)
  · cases v <;> simp only [coerceFloat, coerceFloatFromFloat, coerceFloatFromInt] at h
    all_goals try (simp at h; done)
    · split at h
      · simp at h
      · rename_i num _
        cases num <;> simp only [PyFloat.toIntPy] at h
        all_goals try (simp at h; done)
        split at h
        · simp at h
        · simp only [Out.ok.injEq] at h; subst h; exact ⟨_, _, _, rfl⟩
    · rename_i f
      split at h
      · simp at h
      · simp only [Out.ok.injEq] at h; subst h
        cases f <;> simp_all [PyFloat.isFinite]
  · cases v <;> simp only [coerceString] at h
    all_goals try (simp at h; done)
    simp only [Out.ok.injEq] at h; subst h; exact ⟨_, rfl⟩
  · cases v <;> simp only [coerceBoolean] at h
    all_goals try (simp at h; done)
    simp only [Out.ok.injEq] at h; subst h; exact ⟨_, rfl⟩
  · cases v <;> simp only [coerceID, coerceIdFromFloat, strOfIntPy] at h
    all_goals try (simp at h; done)
    all_goals repeat' split at h
    all_goals try (simp at h; done)
    all_goals (simp only [Out.ok.injEq] at h; subst h; exact ⟨_, rfl⟩)

/-- C15-2 (leaf clause, literals): the same for literals. For Float this is the theorem that did
**not** hold on the code as found: `parse_float_literal` returned `float('1e1000') = inf`
(witness below); it holds for the repaired code (repo_patches/float_literal_finite.diff). -/
theorem scalar_literal_conforms (c : PyConv) (s : Scalar) (l : Lit) (r : PyVal)
    (h : s.coerceLiteral c l = .ok r) : ScalarConforms s r := by
  cases s <;> simp only [Scalar.coerceLiteral] at h <;> simp only [ScalarConforms]
  · cases l <;> simp only [parseIntLiteral] at h
    all_goals try (simp at h; done)
    repeat' split at h
    all_goals try (simp at h; done)
    rename_i hr; simp only [Out.ok.injEq] at h; subst h; exact ⟨_, rfl, not_inIntRange (by simpa using hr)⟩
  · cases l <;> simp only [parseFloatLiteral] at h
    all_goals try (simp at h; done)
    all_goals repeat' split at h
    all_goals try (simp at h; done)
    all_goals (rename_i f _ hf; simp only [Out.ok.injEq] at h; subst h; cases f <;> simp_all [PyFloat.isFinite])
  · cases l <;> simp only [parseStringLiteral] at h
    all_goals try (simp at h; done)
    simp only [Out.ok.injEq] at h; subst h; exact ⟨_, rfl⟩
  · cases l <;> simp only [parseBooleanLiteral] at h
    all_goals try (simp at h; done)
    simp only [Out.ok.injEq] at h; subst h; exact ⟨_, rfl⟩
  · cases l <;> simp only [parseIDLiteral] at h
    all_goals try (simp at h; done)
    all_goals (simp only [Out.ok.injEq] at h; subst h; exact ⟨_, rfl⟩)

/-- the code as found: `return float(value_node.value)` without a finiteness test -/
def parseFloatLiteralAsFound (c : PyConv) : Lit → R
  | .float s | .int s =>
    match c.floatOfStr s with
    | Option.none => .crash "ValueError"
    | some f => .ok (.float f)
  | _ => .err ()

/-- Witness (replayed on the implementation by `checks/c15.py`, corpus W1): with CPython's
`float('1e1000') = inf`, the literal `1e1000` coerced to a non-finite Float. -/
example : ∃ c : PyConv, parseFloatLiteralAsFound c (.float [49, 101, 49, 48, 48, 48]) = .ok (.float (.inf false)) :=
  ⟨⟨fun _ => none, fun _ => some (.inf false), fun _ => none, fun _ => [], fun _ => none⟩, rfl⟩

/-- An enum's input coercion yields one of its internal values. -/
theorem enum_value_conforms (e : EnumType) (v r : PyVal) (h : e.coerceInputValue v = .ok r) :
    ∃ name, (name, r) ∈ e.values := by
  cases v <;> simp only [EnumType.coerceInputValue] at h
  all_goals try (simp at h; done)
  rename_i s
  split at h
  · rename_i w hw
    simp only [Out.ok.injEq] at h; subst h
    refine ⟨s, ?_⟩
    unfold EnumType.valueOf at hw
    generalize e.values = vals at hw
    induction vals with
    | nil => simp [PyVal.dictGet] at hw
    | cons hd tl ih =>
      obtain ⟨k0, v0⟩ := hd
      unfold PyVal.dictGet at hw
      split at hw
      · rename_i hk; simp only [Option.some.injEq] at hw; subst hw; subst hk; simp
      · simp [ih hw]
  · simp at h

/-- Full statement of `coerced_conforms` (kept as the obligation; see `Conforms`). -/
inductive Conforms (D : Field → R) (tm : TypeMap) : InType → PyVal → Prop where
  | null (t : InType) : t.isNonNull = false → Conforms D tm t .none
  | nonNull (t : InType) (cv : PyVal) : cv ≠ .none → Conforms D tm t cv → Conforms D tm (.nonNull t) cv
  | list (t : InType) (cs : List PyVal) : (∀ x ∈ cs, Conforms D tm t x) → Conforms D tm (.list t) (.list cs)
  | scalar (n : List Nat) (s : Scalar) (cv : PyVal) : tm.find n = some (.scalar s) → ScalarConforms s cv →
      Conforms D tm (.named n) cv
  | enum (n : List Nat) (e : EnumType) (name : List Nat) (cv : PyVal) : tm.find n = some (.enum e) →
      (name, cv) ∈ e.values → Conforms D tm (.named n) cv
  | obj (n : List Nat) (fields : List Field) (oneOf : Bool) (es : List (List Nat × PyVal)) :
      tm.find n = some (.inputObject fields oneOf) →
      -- exactly the declared fields, in declared order …
      (es.map (·.1)).Sublist (fields.map (·.name)) →
      (∀ k cv, (k, cv) ∈ es → ∀ f ∈ fields, f.name = k → Conforms D tm f.type cv) →
      -- … non-null fields present, defaults applied …
      (∀ f ∈ fields, (f.type.isNonNull = true ∨ D f ≠ .ok .undefined) → f.name ∈ es.map (·.1)) →
      -- … and exactly one non-null entry for OneOf
      (oneOf = true → ∃ k cv, es = [(k, cv)] ∧ cv ≠ .none) →
      Conforms D tm (.named n) (.dict es)

def coerced_conforms_full : Prop :=
  ∀ (c : PyConv) (D : Field → R) (tm : TypeMap), DefaultsTotal D → OneOfNoDefaults D tm → EnumsNonNull tm →
    FieldsNodup tm → (∀ f cv, D f = .ok cv → cv ≠ .undefined → Conforms D tm f.type cv) →
    ∀ (v : PyVal) (t : InType) (cv : PyVal),
      coerceValue c D tm v t = .ok cv → cv ≠ .undefined → Conforms D tm t cv

/-- C15-2 (non-null clause, proved): under a non-null type the result is never `None` — a
nullish input is rejected. (The structural clauses of `Conforms` for lists and objects are
checked on the implementation for every generated case by the `value-conform` /
`literal-conform` oracles.) -/
theorem coerced_conforms_nonNull_partial (c : PyConv) (D : Field → R) (tm : TypeMap) (v : PyVal) (t : InType)
    (hv : v.isNullish = true) : coerceValue c D tm v (.nonNull t) = .ok .undefined := by
  rw [coerceValue]; simp [hv]

/-- … and under a nullable type `None`/`Undefined` coerce to `None` and validate silently. -/
theorem null_is_valid_nullable (c : PyConv) (D : Field → R) (tm : TypeMap) (v : PyVal) (t : InType)
    (hv : v.isNullish = true) (ht : t.isNonNull = false) :
    coerceValue c D tm v t = .ok .none ∧ validateInputValue c tm v t = [] := by
  unfold validateInputValue
  cases t with
  | nonNull t' => simp [InType.isNonNull] at ht
  | list t' => rw [coerceValue, validateValue]; simp [hv]
  | named n => rw [coerceValue, validateValue]; simp [hv]

/-! ### literals -/

def coerce_iff_valid_literal_full : Prop :=
  ∀ (c : PyConv) (D : Field → R) (tm : TypeMap), DefaultsTotal D → OneOfNoDefaults D tm → EnumsNonNull tm →
    FieldsNodup tm →
    ∀ (vars : Option VarValues) (l : Lit) (t : InType),
      -- constant literals are validated statically; variable-bearing ones against the map
      (vars = none → l.isConst = true) →
      -- a bare variable without runtime value is "no value", which callers test first
      (∀ x, l = .var x → varGet vars x ≠ .undefined) →
      -- unique field names (UniqueInputFieldNamesRule)
      True →
      ((∃ cv, coerceLiteral c D tm vars l t = .ok cv ∧ cv ≠ .undefined) ↔ validateInputLiteral c tm vars l t = [])

/-- C15-1 (literals, leaf clause, proved): at a leaf type the literal coercer returns a value
exactly when the literal validator is silent — both call the same `coerce_input_literal` of the
scalar/enum and swallow or report every exception. -/
theorem coerce_iff_valid_literal_leaf_partial (c : PyConv) (D : Field → R) (tm : TypeMap) (vars : Option VarValues)
    (n : List Nat) (d : NamedDef) (leaf : Leaf) (hf : tm.find n = some d) (hl : d.asLeaf = some leaf)
    (l : Lit) (hv : l.asVar = none) (hn : l.isNull = false) :
    (∃ cv, coerceLiteral c D tm vars l (.named n) = .ok cv ∧ cv ≠ .undefined) ↔
      validateInputLiteral c tm vars l (.named n) = [] := by
  unfold validateInputLiteral
  rw [coerceLiteral, validateLiteral]
  cases d with
  | scalar s =>
    simp only [NamedDef.asLeaf, Option.some.injEq] at hl; subst hl
    simp only [hv, hn, hf, Bool.false_eq_true, ↓reduceIte]
    by_cases hd : isDefined (leafLiteral c (.scalar s) l) = true
    · simp [hd, (isDefined_iff _).1 hd]
    · have : leafLiteral c (.scalar s) l = .undefined := by
        by_cases h : leafLiteral c (.scalar s) l = .undefined
        · exact h
        · exact absurd ((isDefined_iff _).2 h) hd
      simp [this, isDefined]
  | enum e =>
    simp only [NamedDef.asLeaf, Option.some.injEq] at hl; subst hl
    simp only [hv, hn, hf, Bool.false_eq_true, ↓reduceIte]
    by_cases hd : isDefined (leafLiteral c (.enum e) l) = true
    · simp [hd, (isDefined_iff _).1 hd]
    · have : leafLiteral c (.enum e) l = .undefined := by
        by_cases h : leafLiteral c (.enum e) l = .undefined
        · exact h
        · exact absurd ((isDefined_iff _).2 h) hd
      simp [this, isDefined]
  | inputObject fields o => simp [NamedDef.asLeaf] at hl

/-- `rule_iff_coerce`: `ValuesOfCorrectTypeRule` calls `validate_input_literal` statically on the
argument literal, so for a constant argument its verdict is `validateInputLiteral … none`; the
rule/coercion agreement is `coerce_iff_valid_literal_full` at `vars = none` (leaf clause proved
above; checked on the implementation by the `rule-iff` oracle through `validate()`). -/
def rule_iff_coerce_full : Prop :=
  ∀ (c : PyConv) (D : Field → R) (tm : TypeMap), DefaultsTotal D → OneOfNoDefaults D tm → EnumsNonNull tm →
    FieldsNodup tm → ∀ (l : Lit) (t : InType), l.isConst = true →
      ((∃ cv, coerceLiteral c D tm none l t = .ok cv ∧ cv ≠ .undefined) ↔ validateInputLiteral c tm none l t = [])

/-- `literal_roundtrip`, full statement: converting an accepted value to a literal and coercing
the literal gives the same result. The conversions of CPython enter through three laws. -/
structure RoundTripLaws (c : PyConv) : Prop where
  int_str : ∀ z s, c.strOfInt z = some s → c.intOfStr s = some z
  float_str : ∀ f, f.isFinite = true → c.floatOfStr (c.strOfFloat f) = some f
  float_int_str : ∀ z s, c.strOfInt z = some s → c.floatOfStr s = c.floatOfInt z

def literal_roundtrip_full : Prop :=
  ∀ (c : PyConv) (D : Field → R) (tm : TypeMap), RoundTripLaws c → DefaultsTotal D → EnumsNonNull tm →
    ∀ (v : PyVal) (t : InType) (cv : PyVal),
      coerceValue c D tm v t = .ok cv → cv ≠ .undefined →
      ∃ l, valueToLiteral c tm v t = some l ∧ coerceLiteral c D tm none l t = .ok cv

/-- `literal_roundtrip` for String, Boolean and ID values (proved; no law needed): the literal
produced by the scalar's `value_to_literal` is read back by its `coerce_input_literal` as exactly
the coerced value. (Int/Float need the `RoundTripLaws`; lists and objects the induction — both are
checked on the implementation by the `roundtrip-*` oracles.) -/
theorem literal_roundtrip_text_partial (c : PyConv) (s : List Nat) (b : Bool) :
    (stringValueToLiteral c (.str s) = .ok (some (.str s)) ∧ parseStringLiteral (.str s) = coerceString (.str s)) ∧
    (booleanValueToLiteral c (.bool b) = .ok (some (.bool b)) ∧ parseBooleanLiteral (.bool b) = coerceBoolean (.bool b)) ∧
    (∃ l, idValueToLiteral c (.str s) = .ok (some l) ∧ parseIDLiteral l = coerceID c (.str s)) := by
  refine ⟨⟨by simp [stringValueToLiteral, defaultLit], rfl⟩, ⟨by simp [booleanValueToLiteral, defaultLit], rfl⟩, ?_⟩
  by_cases h : isIntegerString s = true
  · exact ⟨.int s, by simp [idValueToLiteral, h], rfl⟩
  · exact ⟨.str s, by simp [idValueToLiteral, h], rfl⟩

/-! ### variables -/

def variables_total_full : Prop :=
  ∀ (c : PyConv) (D : Field → R) (tm : TypeMap), DefaultsTotal D → OneOfNoDefaults D tm → EnumsNonNull tm →
    FieldsNodup tm → ∀ (defs : List VarDef) (inputs : List (List Nat × PyVal)),
      (∃ errs, getVariableValues c D tm defs inputs = .ok (.inl errs) ∧ errs ≠ []) ∨
      (∃ vv, getVariableValues c D tm defs inputs = .ok (.inr vv) ∧
        ∀ d ∈ defs, (dictGetDefined inputs d.name ≠ none ∨ d.default ≠ none) →
          ∃ cv, PyVal.dictGet vv.coerced d.name = some cv)

/-- C15-5 (one variable, proved for type maps without OneOf objects): processing a *provided*
variable never raises and either records a coerced value for it or reports at least one
error — it is never silently dropped. This is where `coerce ok ⇔ validation silent` is used:
a failed coercion always finds a validation error to report. -/
theorem variables_step_total_partial (c : PyConv) (D : Field → R) (tm : TypeMap)
    (hD : DefaultsTotal D) (hO : NoOneOf tm) (inputs : List (List Nat × PyVal)) (d : VarDef) (t : InType)
    (value : PyVal) (st : VarState) (ht : d.type = some t) (hv : dictGetDefined inputs d.name = some value) :
    ∃ st', coerceVariable c D tm inputs d st = .ok st' ∧
      ((∃ cv, st'.coerced = st.coerced ++ [(d.name, cv)] ∧ st'.errors = st.errors) ∨
       (st'.coerced = st.coerced ∧ st.errors.length < st'.errors.length)) := by
  obtain ⟨cv, hcv, hiff⟩ := coerce_validate_value c D tm hD hO value t []
  unfold coerceVariable
  simp only [ht, hv, hcv]
  by_cases hu : cv = .undefined
  · subst hu
    refine ⟨_, rfl, Or.inr ⟨rfl, ?_⟩⟩
    have hne : validateInputValue c tm value t ≠ [] := by
      unfold validateInputValue
      intro h
      exact (hiff.1 h) rfl
    simp only [List.length_append, List.length_map]
    have : 0 < (validateInputValue c tm value t).length := List.length_pos_iff.2 hne
    omega
  · cases cv <;> first | exact absurd rfl hu | exact ⟨_, rfl, Or.inl ⟨_, rfl, rfl⟩⟩

/-! ### non-vacuity -/

/-- a type map without OneOf objects: `input P { x: Int!, y: [Float] }` -/
def exTm : TypeMap :=
  [([73], .scalar .int), ([70], .scalar .float),
   ([80], .inputObject [⟨[120], .nonNull (.named [73]), .none⟩, ⟨[121], .list (.named [70]), .none⟩] false)]

def exD : Field → R := fun _ => .ok .undefined

example : DefaultsTotal exD := fun _ => ⟨_, rfl⟩

example : NoOneOf exTm := by
  intro n fields o h
  simp only [exTm, TypeMap.find] at h
  repeat' split at h
  all_goals simp_all

-- the hypotheses of `variables_step_total_partial` / `coerce_iff_valid_value_partial` are met by
-- `{"x": 2147483648}` at type `P` (rejected: validation reports `x`), and by a nullish value
example : ∃ kvs, (PyVal.dict [([120], .int 2147483648)]).asDict = some kvs ∧
    dictGetDefined kvs [120] = some (.int 2147483648) ∧ coerceInt (.int 2147483648) = .err () ∧
    coerceInt (.int 2147483647) = .ok (.int 2147483647) := ⟨_, rfl, rfl, rfl, rfl⟩

example : parseFloatLiteral ⟨fun _ => none, fun _ => some (.inf false), fun _ => none, fun _ => [], fun _ => none⟩
    (.float [49, 101, 49, 48, 48, 48]) = .err () := rfl

end Gql.Props.C15
