import Gql.Proofs.VariablesTotal
import Gql.Proofs.Conforms
import Gql.Proofs.ConformsLiteral
import Gql.Proofs.RoundTripMain
import Gql.Proofs.Scoping
/-!
# C15 — Input coercion and input validation agree on values, literals and variables

Property theorems only (lemmas: `Gql/Proofs/{Coerce,CoerceOneOf,LiteralBasics,CoerceLiteral*,
Conforms,VariablesTotal,RoundTripLeaf,ScalarConforms,Values}.lean`).
Models: `coerceValue`/`coerceLiteral` (coerce_input_value.py), `validateValue`/`validateLiteral`
(validate_input_value.py), `valueToLiteral` (value_to_literal.py), `getVariableValues`
(values.py), scalar and enum coercers (scalars.py, definition.py).

`coerce_default_value` is the parameter `D`.  The hypotheses are what schema validation and
Python itself guarantee, spelled out:
* `TmWF D tm`: defaults valid (`D` returns), OneOf fields nullable and without defaults, no enum
  with internal value `None`, field names of an input object pairwise different;
* `v.WF`: dict keys pairwise different (true of every Python dict);
* `l.Unique`: object literals have unique field names (`UniqueInputFieldNamesRule`);
* `VarOK vars l t`: a bare variable without runtime value at a nullable position is "no value"
  (callers test it first) — the one excluded case.
All clauses of the property are proved; no `_full` statement remains open.
-/
namespace Gql.Props.C15
open Gql Gql.Values Gql.Generated.ScalarConsts

/-! ### coercion succeeds ⇔ validation reports nothing (values) -/

/-- C15-1 (values). For every well-formed type map — any nesting of list/non-null over the
built-in scalars, enums, recursive input objects with defaults **and OneOf input objects** —
every Python value and every type: `coerce_input_value` never raises, and it returns a value
other than `Undefined` exactly when `validate_input_value` reports no error. -/
theorem coerce_iff_valid_value (c : PyConv) (D : Field → R) (tm : TypeMap) (hW : TmWF D tm)
    (v : PyVal) (hv : v.WF) (t : InType) :
    (∃ cv, coerceValue c D tm v t = .ok cv ∧ cv ≠ .undefined) ↔ validateInputValue c tm v t = [] := by
  obtain ⟨cv, hcv, hiff⟩ := coerce_validate_value_full c D tm hW v t [] hv
  unfold validateInputValue
  rw [hiff, hcv]
  constructor
  · rintro ⟨cv', h1, h2⟩
    simp only [Out.ok.injEq] at h1
    subst h1
    exact h2
  · intro h; exact ⟨cv, rfl, h⟩

/-- The same without OneOf objects needs no hypothesis on enums, field names or dict keys. -/
theorem coerce_iff_valid_value_noOneOf (c : PyConv) (D : Field → R) (tm : TypeMap)
    (hD : DefaultsTotal D) (hO : NoOneOf tm) (v : PyVal) (t : InType) :
    (∃ cv, coerceValue c D tm v t = .ok cv ∧ cv ≠ .undefined) ↔ validateInputValue c tm v t = [] := by
  obtain ⟨cv, hcv, hiff⟩ := coerce_validate_value c D tm hD hO v t []
  unfold validateInputValue
  rw [hiff, hcv]
  constructor
  · rintro ⟨cv', h1, h2⟩
    simp only [Out.ok.injEq] at h1
    subst h1
    exact h2
  · intro h; exact ⟨cv, rfl, h⟩

/-- C15-1b. `coerce_input_value` never raises when defaults are valid: every exception of a leaf
coercer is swallowed, and the only `TypeError` it can raise itself is that of an invalid default. -/
theorem coerce_value_no_crash (c : PyConv) (D : Field → R) (tm : TypeMap) (hW : TmWF D tm)
    (v : PyVal) (hv : v.WF) (t : InType) : ∃ cv, coerceValue c D tm v t = .ok cv :=
  let ⟨cv, h, _⟩ := coerce_validate_value_full c D tm hW v t [] hv
  ⟨cv, h⟩

/-- C15-1c (wrong containers). At an input-object position every non-null value that is not a
`dict` — a Mapping that is not a dict (MappingProxyType, ChainMap, UserDict …), a list, tuple,
set, generator, string, number or other object — is rejected by *both* functions:
`coerce_input_value` returns `Undefined` and `validate_input_value` reports exactly one error at
that position. Holds for every type map (OneOf included). -/
theorem non_dict_rejected_by_both (c : PyConv) (D : Field → R) (tm : TypeMap) (v : PyVal) (n : List Nat)
    (fields : List Field) (oneOf : Bool) (path : Path)
    (hf : tm.find n = some (.inputObject fields oneOf)) (hn : v.isNullish = false) (hd : v.asDict = none) :
    coerceValue c D tm v (.named n) = .ok .undefined ∧ validateValue c tm v (.named n) path = [path] :=
  ⟨coerceValue_notobj c D tm (by simp [hn]) hf hd, validateValue_notobj c tm (by simp [hn]) hf hd⟩

/-- … in particular for the non-dict mappings and the non-list iterables of the value zoo; and at
a list position a Mapping (like a str) is not iterated but taken as a list of one. -/
theorem wrong_containers_not_dict (kvs : List (List Nat × PyVal)) (xs : List PyVal) (s : List Nat) (o : PyObj) :
    (PyVal.mapping kvs).asDict = none ∧ (PyVal.iter xs).asDict = none ∧ (PyVal.list xs).asDict = none ∧
    (PyVal.tuple xs).asDict = none ∧ (PyVal.str s).asDict = none ∧ (PyVal.other o).asDict = none ∧
    (PyVal.mapping kvs).iterItems = none ∧ (PyVal.dict kvs).iterItems = none ∧ (PyVal.str s).iterItems = none ∧
    (PyVal.iter xs).iterItems = some xs ∧ (PyVal.tuple xs).iterItems = some xs :=
  ⟨rfl, rfl, rfl, rfl, rfl, rfl, rfl, rfl, rfl, rfl, rfl⟩

-- non-vacuity: `MappingProxyType({"x": 1})` at `P` (an input object of `exTm` below)
example : (PyVal.mapping [([120], .int 1)]).isNullish = false ∧ (PyVal.mapping [([120], .int 1)]).asDict = none :=
  ⟨rfl, rfl⟩

/-- The error paths do not matter for agreement: validation is silent at one path prefix iff it
is silent at any other. -/
theorem validate_silent_path_independent (c : PyConv) (D : Field → R) (tm : TypeMap) (hW : TmWF D tm)
    (v : PyVal) (hv : v.WF) (t : InType) (p q : Path) :
    validateValue c tm v t p = [] ↔ validateValue c tm v t q = [] := by
  obtain ⟨cv, hcv, hp⟩ := coerce_validate_value_full c D tm hW v t p hv
  obtain ⟨cv', hcv', hq⟩ := coerce_validate_value_full c D tm hW v t q hv
  rw [hcv] at hcv'
  simp only [Out.ok.injEq] at hcv'
  subst hcv'
  rw [hp, hq]

/-! ### coercion succeeds ⇔ validation reports nothing (literals) -/

/-- C15-1 (literals), static and with a variable map. For every well-formed type map (OneOf
included), every literal with unique field names — constant when validated statically
(`vars = none`), arbitrary with a variable map — at every type: `coerce_input_literal` never
raises, and returns a value other than `Undefined` exactly when `validate_input_literal` reports
no error. Lists (a missing variable in a list becomes null), objects (a missing variable counts
as an absent field), OneOf (exactly one field, not null, variable with a non-null runtime value)
and the leaf coercers are all covered. -/
theorem coerce_iff_valid_literal (c : PyConv) (D : Field → R) (tm : TypeMap) (hW : TmWF D tm)
    (vars : Option VarValues) (l : Lit) (t : InType)
    (hconst : vars = none → l.isConst = true) (hu : l.Unique) (hok : VarOK vars l t) :
    (∃ cv, coerceLiteral c D tm vars l t = .ok cv ∧ cv ≠ .undefined) ↔
      validateInputLiteral c tm vars l t = [] := by
  obtain ⟨cv, hcv, hiff⟩ := coerce_validate_literal_full c D tm hW vars l t [] hconst hu hok
  unfold validateInputLiteral
  rw [hiff, hcv]
  constructor
  · rintro ⟨cv', h1, h2⟩
    simp only [Out.ok.injEq] at h1
    subst h1
    exact h2
  · intro h; exact ⟨cv, rfl, h⟩

/-- C15-1 (fragment variables, the scoping rule). With experimental fragment arguments both
functions receive the operation's `VariableValues` and the fragment's `FragmentVariableValues`;
the variable a name refers to is `scopeVars vars fvars`: a name the fragment declares (a key of
`.sources` — with a value, with a default or *without any value*) is looked up in the fragment's
coerced values only, so it shadows an operation variable of the same name even when it has no
value; any other name is the operation's. -/
theorem fragment_scope_shadows (vars : Option VarValues) (fv : FragVarValues) (x : List Nat) :
    varGet (scopeVars vars (some fv)) x = if x ∈ fv.sources then fragLookup fv x else varGet vars x :=
  varGet_scopeVars vars fv x

/-- C15-1 (literals, with operation *and* fragment variables): coercion returns a value exactly
when validation is silent, both reading variables through the same scoping rule. "Static" means
that neither map is given (`scopeVars_isNone`). -/
theorem coerce_iff_valid_literal_scoped (c : PyConv) (D : Field → R) (tm : TypeMap) (hW : TmWF D tm)
    (vars : Option VarValues) (fvars : Option FragVarValues) (l : Lit) (t : InType)
    (hconst : vars = none → fvars = none → l.isConst = true) (hu : l.Unique)
    (hok : VarOK (scopeVars vars fvars) l t) :
    (∃ cv, coerceLiteral c D tm (scopeVars vars fvars) l t = .ok cv ∧ cv ≠ .undefined) ↔
      validateInputLiteral c tm (scopeVars vars fvars) l t = [] := by
  apply coerce_iff_valid_literal c D tm hW (scopeVars vars fvars) l t _ hu hok
  intro hnone
  have h := scopeVars_isNone vars fvars
  rw [hnone] at h
  simp only [Option.isNone_none, Bool.true_eq, Bool.and_eq_true, Option.isNone_iff_eq_none] at h
  exact hconst h.1 h.2

-- a fragment that declares `$x` without a value hides the operation's `$x = 5`
example : varGet (scopeVars (some ⟨[], [([120], .int 5)]⟩) (some ⟨[[120]], []⟩)) [120] = .undefined ∧
    varGet (scopeVars (some ⟨[], [([120], .int 5)]⟩) (some ⟨[[121]], []⟩)) [120] = .int 5 := by
  rw [varGet_scopeVars, varGet_scopeVars]
  simp [fragLookup, PyVal.dictGet, varGet]

/-- `coerce_input_literal` never raises on such literals. -/
theorem coerce_literal_no_crash (c : PyConv) (D : Field → R) (tm : TypeMap) (hW : TmWF D tm)
    (vars : Option VarValues) (l : Lit) (t : InType)
    (hconst : vars = none → l.isConst = true) (hu : l.Unique) (hok : VarOK vars l t) :
    ∃ cv, coerceLiteral c D tm vars l t = .ok cv :=
  let ⟨cv, h, _⟩ := coerce_validate_literal_full c D tm hW vars l t [] hconst hu hok
  ⟨cv, h⟩

/-- C15-4 `rule_iff_coerce`. `ValuesOfCorrectTypeRule` calls `validate_input_literal` statically
(no variable map) on the argument literal and reports each of its errors, so its verdict on a
constant argument is `validateInputLiteral … none`; it accepts the argument exactly when
`coerce_input_literal` returns a value. (That the rule is this call is checked on the
implementation by the correspondence `ValuesOfCorrectTypeRule` and the `rule-iff` oracle.) -/
theorem rule_iff_coerce (c : PyConv) (D : Field → R) (tm : TypeMap) (hW : TmWF D tm)
    (l : Lit) (t : InType) (hc : l.isConst = true) (hu : l.Unique) :
    validateInputLiteral c tm none l t = [] ↔
      (∃ cv, coerceLiteral c D tm none l t = .ok cv ∧ cv ≠ .undefined) := by
  have hav : l.asVar = none := by
    cases h : l.asVar with
    | none => rfl
    | some x => rw [Lit.not_const_of_var h] at hc; cases hc
  exact (coerce_iff_valid_literal c D tm hW none l t (fun _ => hc) hu (VarOK_of_not_var hav)).symm

/-- The one excluded case is real: a bare variable without runtime value at a nullable type
coerces to `Undefined` ("no value") while validation is silent. -/
example : coerceLiteral ⟨fun _ => none, fun _ => none, fun _ => none, fun _ => [], fun _ => none⟩
      (fun _ => .ok .undefined) [] (some ⟨[], []⟩) (.var [120]) (.named [73]) = .ok .undefined ∧
    validateInputLiteral ⟨fun _ => none, fun _ => none, fun _ => none, fun _ => [], fun _ => none⟩
      [] (some ⟨[], []⟩) (.var [120]) (.named [73]) = [] := by
  constructor
  · rw [coerceLiteral]; simp [Lit.asVar, varGet, PyVal.dictGet, PyVal.isNullish, InType.isNonNull]
  · unfold validateInputLiteral; rw [validateLiteral]
    simp [Lit.asVar, varGet, PyVal.dictGet, PyVal.isNullish, InType.isNonNull]

/-! ### a result conforms to the type -/

abbrev ScalarConforms := Gql.Values.ScalarConforms

/-- C15-2 (leaf clause, values): whatever Python value is supplied, a built-in scalar's input
coercion yields a 32-bit Int / a finite Float (a `float`, also for an `int` input) / text / a
bool — or rejects. -/
theorem scalar_value_conforms (c : PyConv) (s : Scalar) (v r : PyVal)
    (h : s.coerceValue c v = .ok r) : ScalarConforms s r :=
  scalar_value_conforms' c s v r h

/-- C15-2 (leaf clause, literals): the same for literals. For Float this is the theorem that did
**not** hold on the code as found: `parse_float_literal` returned `float('1e1000') = inf`
(witness below); it holds for the repaired code (repo_patches/float_literal_finite.diff). -/
theorem scalar_literal_conforms (c : PyConv) (s : Scalar) (l : Lit) (r : PyVal)
    (h : s.coerceLiteral c l = .ok r) : ScalarConforms s r :=
  scalar_literal_conforms' c s l r h

/-- the code as found: `return float(value_node.value)` without a finiteness test -/
def parseFloatLiteralAsFound (c : PyConv) : Lit → R
  | .float s | .int s =>
    match c.floatOfStr s with
    | Option.none => .crash "ValueError"
    | some f => .ok (.float f)
  | _ => .err ()

/-- Witness (replayed on the implementation by `checks/c15.py`, corpus W1): with CPython's
`float('1e1000') = inf`, the literal `1e1000` coerced to a non-finite Float. -/
example : ∃ c : PyConv, parseFloatLiteralAsFound c (.float [49, 101, 49, 48, 48, 48]) = .ok (.float (.inf false)) :=
  ⟨⟨fun _ => none, fun _ => some (.inf false), fun _ => none, fun _ => [], fun _ => none⟩, rfl⟩

/-- An enum's input coercion yields one of its internal values. -/
theorem enum_value_conforms (e : EnumType) (v r : PyVal) (h : e.coerceInputValue v = .ok r) :
    ∃ name, (name, r) ∈ e.values := by
  cases v <;> simp only [EnumType.coerceInputValue] at h
  all_goals try (simp at h; done)
  rename_i s
  split at h
  · rename_i w hw
    simp only [Out.ok.injEq] at h; subst h
    refine ⟨s, ?_⟩
    unfold EnumType.valueOf at hw
    generalize e.values = vals at hw
    induction vals with
    | nil => simp [PyVal.dictGet] at hw
    | cons hd tl ih =>
      obtain ⟨k0, v0⟩ := hd
      unfold PyVal.dictGet at hw
      split at hw
      · rename_i hk; simp only [Option.some.injEq] at hw; subst hw; subst hk; simp
      · simp [ih hw]
  · simp at h

/-- C15-2 `coerced_conforms` (values). Every value `coerce_input_value` returns conforms to the
type in the sense of `Gql.Values.Conforms`: 32-bit Int, finite Float, text, boolean, a declared
enum value; lists of conforming items; for input objects exactly the declared fields in declared
order, each conforming, with non-null and defaulted fields present; exactly one entry that is not
`None` for OneOf; and `None` only where the type is nullable. `DefaultsConform` asks of
`coerce_default_value` that its own results conform. -/
theorem coerced_conforms (c : PyConv) (D : Field → R) (tm : TypeMap) (hW : TmWF D tm)
    (hDC : DefaultsConform D tm) (v : PyVal) (t : InType) (cv : PyVal)
    (h : coerceValue c D tm v t = .ok cv) (hu : cv ≠ .undefined) : Conforms D tm t cv :=
  coerceValue_conforms c D tm hW hDC v t [] cv h hu

/-- C15-2 `coerced_conforms` (literals). The same for every value `coerce_input_literal` returns
for a constant literal with unique field names: it conforms to the type — in particular a Float
literal never yields a non-finite float (the defect of the code as found, see
`scalar_literal_conforms`). -/
theorem coerced_conforms_literal (c : PyConv) (D : Field → R) (tm : TypeMap) (hW : TmWF D tm)
    (hDC : DefaultsConform D tm) (l : Lit) (t : InType) (cv : PyVal) (hc : l.isConst = true) (hu : l.Unique)
    (h : coerceLiteral c D tm none l t = .ok cv) (hcu : cv ≠ .undefined) : Conforms D tm t cv :=
  coerceLiteral_conforms c D tm hW hDC l t [] hc hu cv h hcu

/-- C15-2 (non-null clause, direct form): a nullish input under a non-null type is rejected. -/
theorem nullish_under_nonNull_rejected (c : PyConv) (D : Field → R) (tm : TypeMap) (v : PyVal) (t : InType)
    (hv : v.isNullish = true) : coerceValue c D tm v (.nonNull t) = .ok .undefined := by
  rw [coerceValue]; simp [hv]

/-- … and under a nullable type `None`/`Undefined` coerce to `None` and validate silently. -/
theorem null_is_valid_nullable (c : PyConv) (D : Field → R) (tm : TypeMap) (v : PyVal) (t : InType)
    (hv : v.isNullish = true) (ht : t.isNonNull = false) :
    coerceValue c D tm v t = .ok .none ∧ validateInputValue c tm v t = [] := by
  unfold validateInputValue
  cases t with
  | nonNull t' => simp [InType.isNonNull] at ht
  | list t' => rw [coerceValue, validateValue]; simp [hv]
  | named n => rw [coerceValue, validateValue]; simp [hv]

/-! ### literal round trip -/

/-- C15-3 `literal_roundtrip` at leaf types (all five built-in scalars and enums), under the
CPython laws `RoundTripLaws` (`int(str(z)) = z`, `float(repr(f)) = f`, `float(str(z)) = float(z)`,
`str()` succeeds for every int that converts to float, `float()` succeeds for 32-bit ints):
whenever the leaf type's input coercion accepts a value, its `value_to_literal` yields a literal
and its `coerce_input_literal` reads that literal back as exactly the coerced value. -/
theorem literal_roundtrip_leaf (c : PyConv) (hL : RoundTripLaws c) (leaf : Leaf) (v : PyVal)
    (hu : leafValue c leaf v ≠ .undefined) :
    ∃ l, leafToLiteral c leaf v = some l ∧ leafLiteral c leaf l = leafValue c leaf v :=
  leaf_roundtrip c hL leaf v hu

/-- C15-3 `literal_roundtrip`. For every well-formed type map (OneOf included), every Python
value (dict keys unique) and every type: if `coerce_input_value` accepts the value with result
`cv`, then `value_to_literal` produces a literal (never a variable) and `coerce_input_literal`
— without variables — reads that literal back as exactly `cv`. Through lists (a non-iterable value
becomes a list of one on both routes), through input objects (omitted fields pick up the same
defaults on the way back), through OneOf, and at every leaf under the CPython laws
`RoundTripLaws`. -/
theorem literal_roundtrip (c : PyConv) (D : Field → R) (tm : TypeMap) (hL : RoundTripLaws c) (hW : TmWF D tm)
    (v : PyVal) (hv : v.WF) (t : InType) (cv : PyVal)
    (h : coerceValue c D tm v t = .ok cv) (hu : cv ≠ .undefined) :
    ∃ l, valueToLiteral c tm v t = some l ∧ l.asVar = none ∧ coerceLiteral c D tm none l t = .ok cv :=
  valueToLiteral_roundtrip c D tm hL hW v t [] hv cv h hu

/-! ### variables -/

/-- C15-5 `variables_total`. For every well-formed type map, every list of variable definitions
(default literals constant with unique field names — what the grammar and
`UniqueInputFieldNamesRule` give) and every input dict: `get_variable_values` never raises and
returns either a non-empty list of errors, or variable values that contain a coerced value for
every variable that is provided or has a default. A variable is never silently dropped. -/
theorem variables_total (c : PyConv) (D : Field → R) (tm : TypeMap) (hW : TmWF D tm)
    (defs : List VarDef) (inputs : List (List Nat × PyVal))
    (hin : InputsWF inputs) (hd : ∀ d ∈ defs, d.DefaultOK) :
    (∃ errs, getVariableValues c D tm defs inputs = .ok (.inl errs) ∧ errs ≠ []) ∨
    (∃ vv, getVariableValues c D tm defs inputs = .ok (.inr vv) ∧
      ∀ d ∈ defs, (dictGetDefined inputs d.name ≠ none ∨ d.default ≠ none) →
        ∃ cv, PyVal.dictGet vv.coerced d.name = some cv) :=
  getVariableValues_total c D tm hW defs inputs hin hd

/-! ### non-vacuity: a well-formed type map with a OneOf object exists -/

/-- `input P { x: Int!, y: [Float] }`, `input O @oneOf { a: Int, b: P }` -/
def exTm : TypeMap :=
  [([73], .scalar .int), ([70], .scalar .float),
   ([80], .inputObject [⟨[120], .nonNull (.named [73]), .none⟩, ⟨[121], .list (.named [70]), .none⟩] false),
   ([79], .inputObject [⟨[97], .named [73], .none⟩, ⟨[98], .named [80], .none⟩] true)]

def exD : Field → R := fun _ => .ok .undefined

example : TmWF exD exTm where
  defaults := fun _ => ⟨_, rfl⟩
  oneOfNoDefaults := fun _ _ _ _ _ => rfl
  oneOfNullable := by
    intro n fields h f hf
    simp only [exTm, TypeMap.find] at h
    repeat' split at h
    all_goals simp_all [InType.isNonNull]
    all_goals (obtain ⟨rfl, _⟩ := h; simp at hf; rcases hf with rfl | rfl <;> rfl)
  enumsNonNull := by
    intro n e h
    simp only [exTm, TypeMap.find] at h
    repeat' split at h
    all_goals simp_all
  fieldsNodup := by
    intro n fields o h
    simp only [exTm, TypeMap.find] at h
    repeat' split at h
    all_goals simp_all
    all_goals (obtain ⟨rfl, _⟩ := h; decide)

-- a well-formed value for `O`, a literal with unique names, a variable definition with a default
example : (PyVal.dict [([97], .int 1)]).WF ∧ (Lit.obj [([97], .int [49])]).Unique ∧
    (VarDef.mk [118] (some (.named [79])) (some (.obj [([97], .int [49])]))).DefaultOK := by
  refine ⟨by simp [PyVal.WF, PyVal.WFDict], by simp [Lit.Unique, Lit.UniqueFields], ?_⟩
  intro dl h
  simp only [Option.some.injEq] at h
  subst h
  exact ⟨rfl, by simp [Lit.Unique, Lit.UniqueFields]⟩

example : parseFloatLiteral ⟨fun _ => none, fun _ => some (.inf false), fun _ => none, fun _ => [], fun _ => none⟩
    (.float [49, 101, 49, 48, 48, 48]) = .err () := rfl

end Gql.Props.C15
