import Gql.Proofs.VisitorSafe
import Gql.Proofs.Parallel
import Gql.Proofs.AstKeysComplete
import Gql.Proofs.SpecBound
import Gql.Proofs.VisitorEdit
/-!
# C11 — AST traversal visits every node once, in order, and edits without mutating

Property theorems only (lemmas: `Gql/Proofs/Visitor.lean` / `VisitorEdit.lean` simulation of the contract by the
stack machine (non-editing / all visitors), `EditApply.lean` edits vs documented effect, `SpecTotal.lean`, `SpecKeep.lean`, `SpecBound.lean`, `Parallel.lean`, `VisitorSafe.lean` loop invariant,
`AstKeysComplete.lean` generated table).

Model: `Gql.Syntax.visitFuel root vk v s fuel` — `visit(root, visitor, visitor_keys)` as the
iterative stack machine of visitor.py (after repairs F5, F9, F10), run for at most `fuel` loop
iterations; `Gql.Syntax.parallel` — `ParallelVisitor`.  Visitors are arbitrary state-passing
functions returning idle / skip / break / remove / replace-by-a-node.
Contract: `Gql.Syntax.Spec.specVisit vk v d root s` — enter a node, then its children in key order,
then leave it, with the documented meaning of each return value (`d` bounds the nesting depth: a
visitor may replace a node by an arbitrarily deep one, so the traversal of an *editing* visitor need
not terminate — neither in Python nor here).
-/
namespace Gql.Props.C11
open Gql Gql.Syntax Gql.Syntax.Spec Gql.Generated

variable {σ : Type}

/-! ### example material (non-vacuity) -/

/-- `{ a: b }` as parsed: document › operation_definition › selection_set › field › alias, name -/
def exDoc : Node :=
  .mk "document" 1 "_" [("definitions", .many [
    .mk "operation_definition" 2 "q" [("description", .absent), ("name", .absent), ("variable_definitions", .absent),
      ("directives", .absent), ("selection_set", .one (
        .mk "selection_set" 3 "_" [("selections", .many [
          .mk "field" 4 "_" [("alias", .one (.mk "name" 5 "a" [])), ("name", .one (.mk "name" 6 "b" [])),
            ("arguments", .absent), ("directives", .absent), ("selection_set", .absent)]])]))]])]

/-- a visitor that records `(serial, entering?)` of every call and answers `act serial entering?` -/
def scriptV (act : Nat → Bool → Action) : Visitor (List (Nat × Bool)) := fun log c =>
  let e := decide (c.phase = .enter)
  (act c.node.serial e, log ++ [(c.node.serial, e)])

/-- observable summary of a run: `none` = still running -/
def summary : Option (O (Option Val × List (Nat × Bool))) → Option (String × List (Nat × Bool))
  | none => none
  | some (.crash c) => some ("crash " ++ c, [])
  | some (.err _) => some ("err", [])
  | some (.ok (none, l)) => some ("None", l)
  | some (.ok (some (.node n), l)) => some ("node " ++ toString n.serial, l)
  | some (.ok (some (.arr _), l)) => some ("tuple", l)

/-! ### C11-1 -/

/-- C11-1 `visit_no_crash`. For every tree, every `visitor_keys` map, every visitor (any mixture of
idle / skip / break / remove / replace on enter and on leave — on the root as well), and any
number of loop iterations: `visit` is either still running or has returned; it never raises. -/
theorem visit_no_crash (root : Node) (vk : String → List String) (v : Visitor σ) (s : σ) (fuel : Nat) :
    visitFuel root vk v s fuel = none ∨ ∃ r s', visitFuel root vk v s fuel = some (.ok (r, s')) :=
  visitFuel_no_crash root vk v s fuel

-- the pinned tree (before repair F5): SKIP / REMOVE from `enter` on the root is `path.pop()` on `[]`
example : summary (visitFuel exDoc keysFor (scriptV fun n e => if n = 1 ∧ e then .skip else .idle) [] 5 (pinnedF5 := true))
    = some ("crash IndexError", []) := by decide
example : summary (visitFuel exDoc keysFor (scriptV fun n e => if n = 1 ∧ e then .remove else .idle) [] 5 (pinnedF5 := true))
    = some ("crash IndexError", []) := by decide
-- the repaired code: the tree comes back unchanged / `None`
example : summary (visitFuel exDoc keysFor (scriptV fun n e => if n = 1 ∧ e then .skip else .idle) [] 5)
    = some ("node 1", [(1, true)]) := by decide
example : summary (visitFuel exDoc keysFor (scriptV fun n e => if n = 1 ∧ e then .remove else .idle) [] 5)
    = some ("None", [(1, true)]) := by decide
example : summary (visitFuel exDoc keysFor (scriptV fun n e => if n = 1 ∧ !e then .remove else .idle) [] 40)
    = some ("None", [(1, true), (2, true), (3, true), (4, true), (5, true), (5, false), (6, true), (6, false),
        (4, false), (3, false), (2, false), (1, false)]) := by decide

/-! ### C11-2 -/

/-- C11-2 for visitors that never edit (kept under its first name; it is the instance of
`visit_eq_spec` below with the extra information that the value returned is the root itself).
Whenever the documented traversal is defined (`specVisit … = some out`; it always is, see
`spec_defined`), `visit` performs exactly its calls — `out.state` is the state of the visitor
after the documented call sequence `enter node, children in key order, leave node` with the
documented `(node, key, parent, path, ancestors)` arguments, cut short by skip and break as
documented —, needs exactly `out.iters` loop iterations, and returns what the contract demands. -/
theorem visit_eq_spec_partial (vk : String → List String) (v : Visitor σ) (hv : NonEditing v) (d : Nat)
    (root : Node) (s : σ) (out : Outcome σ) (h : specVisit vk v d root s = some out) :
    ∀ fuel, out.iters ≤ fuel →
      ∃ r, visitFuel root vk v s fuel = some (.ok (r, out.state)) ∧ ∀ x, out.result = some x → r = x := by
  intro fuel hf
  obtain ⟨h1, _, h3⟩ := visit_of_spec hv d root s out h
  exact ⟨some (.node root), h3 fuel hf, fun x hx => (h1 x hx).symm⟩

/-- the contract is defined for every tree when the visitor does not edit (nesting ≤ size) -/
theorem spec_defined (vk : String → List String) (v : Visitor σ) (hv : NonEditing v) (root : Node) (s : σ) :
    ∃ out, specVisit vk v (root.size + 1) root s = some out :=
  spec_terminates hv root s (root.size + 1) (Nat.lt_succ_self _)

/-- full statement of C11-2 (editing visitors included): wherever the contract is defined, `visit`
terminates within the contract's iteration count, makes the same calls (same final visitor state)
and returns the documented value. -/
def visit_eq_spec_full : Prop :=
  ∀ (σ : Type) (vk : String → List String) (v : Visitor σ) (d : Nat) (root : Node) (s : σ) (out : Outcome σ),
    specVisit vk v d root s = some out →
    ∀ fuel, out.iters ≤ fuel →
      ∃ r, visitFuel root vk v s fuel = some (.ok (r, out.state)) ∧ ∀ x, out.result = some x → r = x

/-- C11-2 `visit_eq_spec`, proved in full: for **every** visitor — idle / skip / break / remove /
replace on enter and on leave, root included — the stack machine refines the documented
recursion.  The per-level `edits` lists of the machine are related to the documented effect per
position (`SlotEdits`, `ArrEdits`, `FieldEdits` in `Proofs/EditApply.lean`): applying them with
the running index offset (`applyArr`) resp. attribute by attribute (`applyNode`) yields exactly
the tuple / node the contract rebuilds, bottom-up.  The one undocumented case (BREAK after an
edit) is exactly where `out.result = none` leaves the returned value free. -/
theorem visit_eq_spec : visit_eq_spec_full := by
  intro σ vk v d root s out h
  exact visit_of_spec_full d root s out h

/-- each reachable node is entered exactly once in document order and left after its children:
the contract's call sequence for the visitor that never interferes is the pre/post-order walk.
(Concrete instance; the general shape is the definition of `Spec.specNode` itself.) -/
example : (specVisit keysFor (scriptV fun _ _ => .idle) 10 exDoc []).map (·.state) =
    some [(1, true), (2, true), (3, true), (4, true), (5, true), (5, false), (6, true), (6, false),
      (4, false), (3, false), (2, false), (1, false)] := by decide
-- hypotheses of `visit_eq_spec_partial` are met by a non-trivial visitor (skip the field, break on leaving 3)
example : NonEditing (scriptV fun n e => if n = 4 ∧ e then .skip else if n = 3 ∧ !e then .brk else .idle) := by
  intro s c
  simp only [scriptV]
  split
  · rfl
  · split <;> rfl
example : summary (visitFuel exDoc keysFor
      (scriptV fun n e => if n = 4 ∧ e then .skip else if n = 3 ∧ !e then .brk else .idle) [] 12)
    = some ("node 1", [(1, true), (2, true), (3, true), (4, true), (3, false)]) := by decide

/-! ### C11-3 -/

/-- C11-3 `identity`. A visitor that edits nothing gets the identical tree object back (same
allocation serial, same structure), whatever it skips or wherever it breaks; and this happens within
`out.iters ≤ …` iterations (termination).  `input_unchanged` holds by construction in the model
(values are immutable) and is checked on the frozen dataclasses by the correspondence run. -/
theorem identity (vk : String → List String) (v : Visitor σ) (hv : NonEditing v) (root : Node) (s : σ) :
    ∃ n s', ∀ fuel, n ≤ fuel → visitFuel root vk v s fuel = some (.ok (some (.node root), s')) := by
  obtain ⟨out, h⟩ := spec_defined vk v hv root s
  obtain ⟨_, _, h3⟩ := visit_of_spec hv _ root s out h
  exact ⟨out.iters, out.state, h3⟩

/-- C11-2/3 termination bound. On a tree whose nodes carry exactly the attributes `visitor_keys`
lists for their kind (`Node.keyed`, what the serialiser of the harness produces and what
`keys_complete` guarantees for real ASTs), a non-editing traversal is over after at most
`2 * size` iterations of the `while True:` loop (`size` = nodes + tuples + absent attributes), with
the identical root as result. -/
theorem visit_fuel_bound (vk : String → List String) (v : Visitor σ) (hv : NonEditing v) (root : Node)
    (hk : root.keyed vk = true) (s : σ) :
    ∃ s', visitFuel root vk v s (2 * root.size) = some (.ok (some (.node root), s')) := by
  obtain ⟨out, h⟩ := spec_defined vk v hv root s
  obtain ⟨_, _, h3⟩ := visit_of_spec hv _ root s out h
  exact ⟨out.state, h3 _ (spec_iters_bound hv _ root hk s out h)⟩

example : exDoc.keyed keysFor = true ∧ exDoc.size = 15 := by decide
-- the bound is not slack by more than the absent slots: 23 of the 30 allowed iterations are used
example : summary (visitFuel exDoc keysFor (scriptV fun _ _ => .idle) [] 22) = none := by decide

example : summary (visitFuel exDoc keysFor (scriptV fun _ _ => .idle) [] 23) =
    some ("node 1", [(1, true), (2, true), (3, true), (4, true), (5, true), (5, false), (6, true), (6, false),
      (4, false), (3, false), (2, false), (1, false)]) := by decide

/-! ### C11-4 -/

/-- C11-4 `edit_semantics`, full statement: the effect of skip / break / remove / replace is the
one `Spec.specNode` spells out —
* `specItems`: a removed tuple item disappears, a replaced one is replaced in place, later items
  keep their relative order (the machine's index offset);
* `specKeys`: a removed single-valued child becomes `absent` (`None`), a replaced one the new
  node, an edited tuple the rebuilt tuple;
* `specBody`: a node any of whose children changed is handed to `leave` (and recorded) as a fresh
  copy `Node.mk kind 0 payload (withFields …)`; the original is never touched;
* `specNode`: a replacement returned by `enter` is traversed instead of the original and is what
  `leave` receives; `leave` may remove or replace again; `leave` answering SKIP is "no action";
* `specVisit`: the value returned is the root, `None` (root removed) or the node now standing for
  the root — never a sentinel or a tuple. -/
def edit_semantics_full : Prop := visit_eq_spec_full

/-- C11-4 `edit_semantics`, proved: it is `visit_eq_spec` read on the result component. -/
theorem edit_semantics : edit_semantics_full := visit_eq_spec

/-- wherever the contract pins the returned value it is `None` or a node -/
theorem result_only_nodes (vk : String → List String) (v : Visitor σ) (d : Nat) (root : Node) (s : σ)
    (out : Outcome σ) (h : specVisit vk v d root s = some out) (x : Option Val) (hx : out.result = some x) :
    x = none ∨ ∃ n, x = some (.node n) := by
  unfold specVisit at h
  cases hn : specNode vk v d ⟨s, 0, false⟩ root .none none [] [] with
  | none => simp [hn] at h
  | some res =>
    rw [hn] at h
    cases res with
    | brk w =>
      simp at h; subst h
      cases he : w.edited <;> simp [he] at hx
      exact Or.inr ⟨root, hx.symm⟩
    | done w sl =>
      cases sl <;> simp at h <;> subst h <;> simp at hx
      · exact Or.inr ⟨root, hx.symm⟩
      · exact Or.inl hx.symm
      · exact Or.inr ⟨_, hx.symm⟩

/-- `{ a: b }` with the alias removed: the rebuilt field has no alias (`absent`), all rebuilt
nodes are fresh objects (serial 0), untouched nodes keep their identity -/
def exDocNoAlias : Node :=
  .mk "document" 0 "_" [("definitions", .many [
    .mk "operation_definition" 0 "q" [("description", .absent), ("name", .absent), ("variable_definitions", .absent),
      ("directives", .absent), ("selection_set", .one (
        .mk "selection_set" 0 "_" [("selections", .many [
          .mk "field" 0 "_" [("alias", .absent), ("name", .one (.mk "name" 6 "b" [])),
            ("arguments", .absent), ("directives", .absent), ("selection_set", .absent)]])]))]])]

def resultIs (r : Option (O (Option Val × List (Nat × Bool)))) (expected : Node) : Bool :=
  match r with
  | some (.ok (some (.node n), _)) => n.beq expected
  | _ => false

-- F9 (repaired): REMOVE for a single-valued child makes it absent in the rebuilt parent
example : resultIs (visitFuel exDoc keysFor (scriptV fun n e => if n = 5 ∧ e then .remove else .idle) [] 40)
    exDocNoAlias = true := by decide +kernel
-- F10 (repaired): `leave` answering SKIP on the parent ("no action") does not drop that edit
example : resultIs (visitFuel exDoc keysFor
      (scriptV fun n e => if n = 5 ∧ e then .remove else if n = 4 ∧ !e then .skip else .idle) [] 40)
    exDocNoAlias = true := by decide +kernel
-- and the contract says the same
example : (specVisit keysFor (scriptV fun n e => if n = 5 ∧ e then .remove else if n = 4 ∧ !e then .skip else .idle)
      10 exDoc []).map (fun o => match o.result with | some (some (.node n)) => n.beq exDocNoAlias | _ => false)
    = some true := by decide +kernel

/-- `{ a b c }`-like selection set with three fields (serials 11, 12, 13) -/
def exSel : Node :=
  .mk "selection_set" 10 "_" [("selections", .many [
    .mk "field" 11 "a" [("alias", .absent), ("name", .absent), ("arguments", .absent), ("directives", .absent), ("selection_set", .absent)],
    .mk "field" 12 "b" [("alias", .absent), ("name", .absent), ("arguments", .absent), ("directives", .absent), ("selection_set", .absent)],
    .mk "field" 13 "c" [("alias", .absent), ("name", .absent), ("arguments", .absent), ("directives", .absent), ("selection_set", .absent)]])]

def resultSerials (r : Option (O (Option Val × List (Nat × Bool)))) : Option (List Nat) :=
  match r with
  | some (.ok (some (.node n), _)) => some n.serials
  | _ => none

-- two removals in one tuple (index offset): items 11 (on enter) and 13 (on leave) go, 12 stays
example : resultSerials (visitFuel exSel keysFor
      (scriptV fun n e => if (n = 11 ∧ e) ∨ (n = 13 ∧ !e) then .remove else .idle) [] 60) = some [0, 12] := by decide +kernel
-- replacement on enter is traversed instead of the original, and is what `leave` receives:
-- field 12 is replaced by a field (serial 20) with a name child (serial 21)
example : summary (visitFuel exSel keysFor
      (scriptV fun n e => if n = 12 ∧ e then
        .replace (.mk "field" 20 "x" [("alias", .absent), ("name", .one (.mk "name" 21 "n" [])), ("arguments", .absent),
          ("directives", .absent), ("selection_set", .absent)]) else .idle) [] 60) =
    some ("node 0", [(10, true), (11, true), (11, false), (12, true), (21, true), (21, false), (20, false),
      (13, true), (13, false), (0, false)]) := by decide +kernel
-- replacement on leave
example : resultSerials (visitFuel exSel keysFor
      (scriptV fun n e => if n = 12 ∧ !e then .replace (.mk "field" 20 "x" []) else .idle) [] 60) =
    some [0, 11, 20, 13] := by decide +kernel

/-! ### C11-5 -/

/-- C11-5 `parallel_alone`. In `ParallelVisitor(vs)` with non-editing members, member `i` ends in
exactly the state it reaches when it visits the tree alone — i.e. it has seen the same sequence
of calls with the same arguments —, whichever members skip or break where. (`root.idsOK`: no
node carries the serial of one of its descendants — true of any tree of Python objects.) -/
theorem parallel_alone (vk : String → List String) (vs : List (Visitor σ)) (hvs : ∀ v ∈ vs, NonEditing v)
    (ss : List σ) (i : Nat) (v : Visitor σ) (s : σ) (hv : vs[i]? = some v) (hs : ss[i]? = some s)
    (root : Node) (hok : root.idsOK = true) :
    ∃ n ps s', ∀ fuel, n ≤ fuel →
      visitFuel root vk (parallel vs) (parallelInit ss) fuel = some (.ok (some (.node root), ps)) ∧
      visitFuel root vk v s fuel = some (.ok (some (.node root), s')) ∧
      (ps[i]?).map Prod.fst = some s' := by
  have hV : NonEditing (parallel vs) := (parallel_alwaysIdle vs hvs).nonEditing
  have hvi : NonEditing v := hvs v (List.mem_of_getElem? hv)
  obtain ⟨P, hP⟩ := spec_defined vk (parallel vs) hV root (parallelInit ss)
  obtain ⟨a, ha⟩ := spec_defined vk v hvi root s
  obtain ⟨_, _, hP3⟩ := visit_of_spec hV _ root _ P hP
  obtain ⟨_, _, ha3⟩ := visit_of_spec hvi _ root s a ha
  refine ⟨max P.iters a.iters, P.state, a.state, ?_⟩
  intro fuel hf
  exact ⟨hP3 fuel (by omega), ha3 fuel (by omega),
    parallel_alone_spec vs hvs ss i v s hv hs root hok _ P a hP ha⟩

/-- wrapping a single non-editing visitor in a `ParallelVisitor` changes nothing -/
theorem parallel_singleton (vk : String → List String) (v : Visitor σ) (hv : NonEditing v) (s : σ)
    (root : Node) (hok : root.idsOK = true) :
    ∃ n ps s', ∀ fuel, n ≤ fuel →
      visitFuel root vk (parallel [v]) (parallelInit [s]) fuel = some (.ok (some (.node root), ps)) ∧
      visitFuel root vk v s fuel = some (.ok (some (.node root), s')) ∧
      (ps[0]?).map Prod.fst = some s' :=
  parallel_alone vk [v] (by intro v' hv'; simp at hv'; subst hv'; exact hv) [s] 0 v s rfl rfl root hok

example : exDoc.idsOK = true := by decide
-- member 0 skips the field, member 1 breaks when leaving the alias, member 2 watches
example :
    (match visitFuel exDoc keysFor (parallel [scriptV fun n e => if n = 4 ∧ e then .skip else .idle,
          scriptV fun n e => if n = 5 ∧ !e then .brk else .idle, scriptV fun _ _ => .idle])
        (parallelInit [[], [], []]) 40 with
      | some (.ok (_, ps)) => ps.map Prod.fst
      | _ => []) =
    [[(1, true), (2, true), (3, true), (4, true), (3, false), (2, false), (1, false)],
     [(1, true), (2, true), (3, true), (4, true), (5, true), (5, false)],
     [(1, true), (2, true), (3, true), (4, true), (5, true), (5, false), (6, true), (6, false),
      (4, false), (3, false), (2, false), (1, false)]] := by decide

/-! ### C11-6 -/

/-- C11-6 `keys_complete` (generated table, re-proved on every change of ast.py): for every
concrete node class a dataclass field is node-valued (node / tuple of nodes, optional or not) iff
`QUERY_DOCUMENT_KEYS` lists it for the class's kind; the table has an entry only for kinds of
concrete classes, no kind twice and no key twice. -/
theorem keys_complete :
    classesCovered = true ∧ tableTight = true ∧ (queryDocumentKeys.map Prod.fst).Nodup :=
  astKeys_complete

example : keysFor "field" = ["alias", "name", "arguments", "directives", "selection_set"] := by decide

end Gql.Props.C11
