import Gql.Proofs.Proc
import Gql.Proofs.Monitor
/-!
# C03 — The response does not depend on when resolvers complete

Property theorems only (lemmas: `Gql/Proofs/Proc.lean`).  Model: `Gql/Async/Proc.lean` — the
asynchronous executor as a labelled transition system `Step` over an arbitrary finite field
tree (`Cfg`); `SStep` is the serial (mutation) root.  Any enabled transition may fire, which is
a superset of the schedules of asyncio.  The synchronous denotation `denF`/`dataOf` is the
response of fully synchronous execution; it does not look at `gates` (which results are
awaitable) nor at process states.

A query is `initQuery F` for a forest `F` of root fields that have not been started
(`allIdle F`); position `[0]` is `data`, `0 :: p` is response position `p`.
-/
namespace Gql.Props.C03
open Gql.Async

/-- C03-1 `async_invariant`. Inductive over transitions: in every configuration reachable
from a query, at every position: a `done v` node carries its synchronous denotation
(`denN = some v`), a nulled position (`doneErr`) is a nullable position whose completion fails
in the synchronous denotation too, a `failed` node is a non-null position whose denotation
raises, a node that has not been resumed has untouched children, the children of a running
node are all alive (started, not cancelled) — `InvN` spells the clauses out. -/
theorem async_invariant (F c : Cfg) (ls : List Label) (hF : allIdle F = true)
    (hrun : Run (Step false) (initQuery F) ls c)
    (p : Path) (nn : Bool) (res : Res) (st : NodeSt) (ch : Cfg)
    (hp : nodeAt c p = some (nn, res, st, ch)) : InvN nn res st ch := by
  obtain ⟨_, _, _, _, _, _, hinv⟩ := run_root hF hrun
  exact (inv_nodeAt c p nn res st ch hinv hp).1

/-- C03-1a. Every completed node carries the value of the synchronous denotation. -/
theorem done_is_denotation (F c : Cfg) (ls : List Label) (hF : allIdle F = true)
    (hrun : Run (Step false) (initQuery F) ls c)
    (p : Path) (nn : Bool) (res : Res) (v : Val) (ch : Cfg)
    (hp : nodeAt c p = some (nn, res, .done v, ch)) : denN nn res ch = some v := by
  have h := async_invariant F c ls hF hrun p nn res (.done v) ch hp
  simp only [InvN] at h
  exact denN_of_done h.1 h.2.1

/-- C03-1b. Every error recorded (position nulled) or raised to the parent is one the
synchronous denotation predicts: a nulled position is nullable and its completion fails
synchronously; a node that raised is non-null and its denotation raises. -/
theorem errors_are_predicted (F c : Cfg) (ls : List Label) (hF : allIdle F = true)
    (hrun : Run (Step false) (initQuery F) ls c)
    (p : Path) (nn : Bool) (res : Res) (st : NodeSt) (ch : Cfg)
    (hp : nodeAt c p = some (nn, res, st, ch)) :
    (st = .doneErr → nn = false ∧ innerDen res ch = none) ∧
    (st = .failed → nn = true ∧ denN nn res ch = none) := by
  have h := async_invariant F c ls hF hrun p nn res st ch hp
  constructor
  · intro hs; subst hs; simpa only [InvN] using h
  · intro hs; subst hs; simpa only [InvN] using h

/-- C03-1c. Cancellation only occurs below an error: the parent of a cancelled task has
handled an error (`doneErr`), raised one (`failed`), or was cancelled itself. -/
theorem cancellation_only_below_error (F c : Cfg) (ls : List Label) (hF : allIdle F = true)
    (hrun : Run (Step false) (initQuery F) ls c)
    (p : Path) (nn : Bool) (res : Res) (st : NodeSt) (ch : Cfg)
    (hp : nodeAt c p = some (nn, res, st, ch)) (hc : hasCancelled ch = true) :
    st = .doneErr ∨ st = .failed ∨ st = .cancelled :=
  cancelled_parent nn res st ch (async_invariant F c ls hF hrun p nn res st ch hp) hc

/-- C03-2 `schedule_independent`. Every maximal run of a query (no transition enabled at the
end) — whatever results are awaitable, in whatever order they complete, however the
continuations and cancellations interleave — ends with `data` equal to the synchronous `data`
and with exactly the nulled positions the tree predicts (`specNulledF`, a function of the tree
alone: the nullable positions whose completion fails and which exist in `data`). -/
theorem schedule_independent (F c : Cfg) (ls : List Label) (hF : allIdle F = true)
    (hrun : Run (Step false) (initQuery F) ls c) (hfin : Final (Step false) c) :
    rootData c = some (dataOf F) ∧ nulledF [] 0 c = specNulledF [] 0 (initQuery F) :=
  final_root hF hrun hfin

/-- C03-2a. Two executions of the same request (same tree up to which results are awaitable:
`shape`), under any two schedules, give the same `data` and the same nulled positions; in
particular an arbitrary run agrees with the fully synchronous one (`syncOf F`). -/
theorem assignment_independent (F₁ F₂ c₁ c₂ : Cfg) (ls₁ ls₂ : List Label)
    (h₁ : allIdle F₁ = true) (h₂ : allIdle F₂ = true) (hsame : shape F₁ = shape F₂)
    (r₁ : Run (Step false) (initQuery F₁) ls₁ c₁) (f₁ : Final (Step false) c₁)
    (r₂ : Run (Step false) (initQuery F₂) ls₂ c₂) (f₂ : Final (Step false) c₂) :
    rootData c₁ = rootData c₂ ∧ nulledF [] 0 c₁ = nulledF [] 0 c₂ := by
  obtain ⟨d₁, n₁⟩ := final_root h₁ r₁ f₁
  obtain ⟨d₂, n₂⟩ := final_root h₂ r₂ f₂
  have hd : dataOf F₁ = dataOf F₂ := by simp [dataOf, denF_congr hsame]
  have hn : specNulledF [] 0 (initQuery F₁) = specNulledF [] 0 (initQuery F₂) :=
    specNulledF_congr (by simp [initQuery, shape, hsame]) [] 0
  exact ⟨by rw [d₁, d₂, hd], by rw [n₁, n₂, hn]⟩

theorem agrees_with_synchronous (F c c' : Cfg) (ls ls' : List Label) (hF : allIdle F = true)
    (r : Run (Step false) (initQuery F) ls c) (f : Final (Step false) c)
    (r' : Run (Step false) (initQuery (syncOf F)) ls' c') (f' : Final (Step false) c') :
    rootData c = rootData c' ∧ nulledF [] 0 c = nulledF [] 0 c' :=
  assignment_independent F (syncOf F) c c' ls ls' hF (allIdle_syncOf F hF) (shape_syncOf F).symm r f r' f'

/-- C03-3 `async_wf`. In every final response: (a) no `null` sits at a non-null position
(`wfVals`), (b) every nulled position holds `null` in `data`, (c) `data` is `null` only if an
error reached the root through non-null positions only, and then the root is the one nulled
position. (The model records the positions where errors are handled, not the paths where they
originate; an error path is at or below its handling position by construction, and a handling
position that is not in `data` lies below one that is — that last step is `async_wf_error_paths` below.) -/
theorem async_wf (F c : Cfg) (ls : List Label) (hF : allIdle F = true)
    (hrun : Run (Step false) (initQuery F) ls c) (hfin : Final (Step false) c) :
    (∀ v, rootData c = some v → v ≠ .null → wfVals F v) ∧
    (∀ p ∈ nulledF [] 0 c, ∃ q, p = 0 :: q ∧
      ((q = [] ∧ rootData c = some .null) ∨ ∃ v, rootData c = some v ∧ v.at q = some .null)) ∧
    (rootData c = some .null → reachesParent F = true ∧ nulledF [] 0 c = [[0]]) := by
  obtain ⟨hd, hn⟩ := final_root hF hrun hfin
  refine ⟨?_, ?_, ?_⟩
  · intro v hv hne
    rw [hd] at hv
    simp only [Option.some.injEq] at hv
    subst hv
    cases hden : denF F with
    | none => simp [dataOf, hden] at hne
    | some w => simpa [dataOf, hden] using den_wf F w hden
  · intro p hp
    rw [hn] at hp
    cases hden : denF F with
    | none =>
      simp [initQuery, specNulledF, innerDen, hden] at hp
      subst hp
      exact ⟨[], rfl, Or.inl ⟨rfl, by simp [hd, dataOf, hden]⟩⟩
    | some w =>
      simp [initQuery, specNulledF, innerDen, hden] at hp
      obtain ⟨k, q, hp1, hp2⟩ := nulled_is_null F [0] 0 w hden p hp
      exact ⟨k :: q, by simpa using hp1, Or.inr ⟨w, by simp [hd, dataOf, hden], hp2⟩⟩
  · intro hnull
    rw [hd] at hnull
    cases hden : denF F with
    | none =>
      refine ⟨(den_none_iff F).mp hden, ?_⟩
      rw [hn]
      simp [initQuery, specNulledF, innerDen, hden]
    | some w =>
      have := denF_ne_null F w hden
      simp [dataOf, hden] at hnull
      exact absurd hnull this

/-- C03-3d `async_wf_error_paths`. Every error path ends at or below a `null` in `data`: in
a final configuration, for *every* position at which an error originated, was raised to the
parent (`failed`) or was handled (`doneErr`) — also those that are not in `data` because they
lie below another nulled position — some prefix of the position holds `null` in `data`.
(An error path of the response is the position of the node where the error originated; such a
node is `failed` or `doneErr`.) -/
theorem async_wf_error_paths (F c : Cfg) (ls : List Label) (hF : allIdle F = true)
    (hrun : Run (Step false) (initQuery F) ls c) (hfin : Final (Step false) c)
    (q : Path) (nn : Bool) (res : Res) (st : NodeSt) (ch : Cfg)
    (hp : nodeAt c (0 :: q) = some (nn, res, st, ch)) (hst : st = .doneErr ∨ st = .failed) :
    ∃ q' v, q' <+: q ∧ rootData c = some v ∧ v.at q' = some .null := by
  obtain ⟨g, st0, F', hc, _, hlive, hinv⟩ := run_root hF hrun
  subst hc
  have hq := stuck_quiet _ false hinv hfin
  obtain ⟨hn, hc', _⟩ := hinv
  cases st0 with
  | idle => simp [NodeSt.live] at hlive
  | cancelled => simp [NodeSt.live] at hlive
  | wait k => simp [topQuiet, NodeSt.active] at hq
  | ready => simp [topQuiet, NodeSt.active] at hq
  | run => simp [topQuiet, NodeSt.active] at hq
  | failed => simp [InvN] at hn
  | doneErr => exact ⟨[], .null, List.nil_prefix, rfl, rfl⟩
  | done v =>
    simp only [InvN] at hn
    have hfv := hn.2.2.1 ⟨false, rfl⟩
    cases q with
    | nil =>
      simp [nodeAt] at hp
      rcases hst with h | h <;> simp [h] at hp
    | cons j p =>
      simp only [nodeAt] at hp
      obtain ⟨r, hr1, hr2⟩ := errpos_null F' v j p nn res st ch hc' hfv hp hst
      exact ⟨j :: r, v, by simpa using hr1, rfl, hr2⟩

/-- C03-4 `mutation_serial` (state form). In every configuration reachable by a serial root:
completed root fields come first, then at most one root field that is in progress or has
failed, then root fields that have not been started (`serialOK`); the tree invariant holds. -/
theorem mutation_serial (F c : Cfg) (ls : List Label) (hF : allIdle F = true)
    (hrun : Run SStep F ls c) : serialOK c = true ∧ Inv c := by
  have h0 : SInv F := ⟨allIdle_inv F hF, topIdle_serialOK F (allIdle_topIdle F hF)⟩
  obtain ⟨⟨hi, hs⟩, _⟩ := srun_inv hrun h0
  exact ⟨hs, hi⟩

/-- C03-4a (event form). Root field `j` is started only by a `start [j]` transition, which
fires only when all root fields `i < j` have completed; inner transitions never start a root
field. -/
theorem mutation_start_after_completion (c c' : Cfg) (l : Label) (h : SStep c l c') :
    (∀ j, l = .start [j] → j = firstIdle c ∧ completedBefore j c = true) ∧
    ((∀ p, l ≠ .start p) → Step false c l c') := by
  match h with
  | .inner _ _ _ hs =>
    exact ⟨fun j hj => absurd hj (step_no_start hs [j]), fun _ => hs⟩
  | .start _ hp hi =>
    refine ⟨fun j hj => ?_, fun hne => absurd rfl (hne _)⟩
    simp at hj
    subst hj
    exact ⟨rfl, prefixDone_completedBefore c hp⟩

/-- C03-4b. A completed root field has no live task left (whatever still runs in its subtree
is abandoned background work below a nulled position), it stays completed with the same value
under every later transition.  How cancelled tasks count: in the model a task whose parent has
failed is abandoned, and abandoned or cancelled tasks are not live; the model does not say that
a cancelled task has *finished unwinding* before the root field completes (its `fail`
transition does not wait, see `Step.fail`).  The strict reading of the property - every
resolver coroutine of root field `i`, cancelled ones included, has finished before root field
`i+1` starts - is evaluated on the implementation by the check's oracle. -/
theorem completed_field_is_quiet (f : Cfg) (v : Val) (hi : Inv f) (hv : forestVals f = some v) :
    liveQuiet f = true ∧ ∀ l f', Step false f l f' → forestVals f' = some v :=
  ⟨completed_liveQuiet f v hi hv, fun _ _ hs => step_forestVals hs v hv⟩

/-- C03-4c. A maximal run of a serial root ends with the synchronous `data`. -/
theorem mutation_schedule_independent (F c : Cfg) (ls : List Label) (hF : allIdle F = true)
    (hrun : Run SStep F ls c) (hfin : Final SStep c) : dataCfg c = dataOf F :=
  serial_final hF hrun hfin

/-- C03-5 `run_terminates`. Every transition strictly decreases `measure`; a run from a query
has at most `measure (initQuery F)` transitions, a run of a serial root at most `measure F`. -/
theorem run_terminates (F c : Cfg) (ls : List Label) (hF : allIdle F = true)
    (hrun : Run (Step false) (initQuery F) ls c) : ls.length ≤ measure (initQuery F) := by
  have hi := initQuery_inv F hF
  have := run_measure hrun hi.1 hi.2
  omega

theorem serial_run_terminates (F c : Cfg) (ls : List Label) (hF : allIdle F = true)
    (hrun : Run SStep F ls c) : ls.length ≤ measure F := by
  have h0 : SInv F := ⟨allIdle_inv F hF, topIdle_serialOK F (allIdle_topIdle F hF)⟩
  have := srun_measure hrun h0
  omega

/-- C03-6 `monitor_sound`. Every operation the trace monitor of the correspondence check
applies to the model (completion of an awaitable, resumption, completion / failure of a running
node, delivery of a cancellation, at any position) is a transition of `Step`: a trace accepted
by the monitor is a run of the transition system the theorems above are about. (The serial
root's `start` is `SStep.start` by definition of `opStartSerial`; not part of this statement.) -/
theorem monitor_sound (c c' : Cfg) (p : Path) :
    (modifyAt opResolve false c p = some c' → ∃ l, Step false c l c') ∧
    (modifyAt opFire false c p = some c' → ∃ l, Step false c l c') ∧
    (modifyAt opComplete false c p = some c' → ∃ l, Step false c l c') ∧
    (modifyAt opCancel false c p = some c' → ∃ l, Step false c l c') :=
  ⟨modifyAt_sound _ opResolve_sound c false p c', modifyAt_sound _ opFire_sound c false p c',
   modifyAt_sound _ opComplete_sound c false p c', modifyAt_sound _ opCancel_sound c false p c'⟩

/-! ## Non-vacuity: a concrete request and a complete run

`{ a b }` with `a : String` delivered by an awaitable (value 7) and `b : String!` raising
synchronously... is too small to show propagation below the root, so: `{ a { x y } }` with `a`
nullable and awaitable, `x : String!` awaitable and raising, `y : String` awaitable.
The run resolves `a`, then `x` (which raises), `a` handles the error (nulled position `a`),
`y` is cancelled; the final `data` is `{a: null}` and the nulled positions are `[a]`. -/

def exKids : Cfg :=
  .cons true 1 .raise .idle .nil (.cons false 1 (.leaf 5) .idle .nil .nil)
def exF : Cfg := .cons false 1 (.comp false) .idle exKids .nil

def exFinal : Cfg :=
  .cons false 0 (.comp false) (.done (.cons .null .nil))
    (.cons false 1 (.comp false) .doneErr
      (.cons true 1 .raise .failed .nil (.cons false 1 (.leaf 5) .cancelled .nil .nil)) .nil) .nil

example : allIdle exF = true := by decide
example : dataOf exF = .cons .null .nil ∧ specNulledF [] 0 (initQuery exF) = [[0, 0]] := by decide

theorem exRun : Run (Step false) (initQuery exF)
    [.continue [0], .resolve [0, 0], .continue [0, 0], .resolve [0, 0, 0], .continue [0, 0, 0],
     .continue [0, 0], .deliverCancel [0, 0, 1], .continue [0]] exFinal := by
  refine .step _ _ _ _ _ (Step.fire false false 0 (.comp false) exF .nil) ?_
  refine .step _ _ _ _ _ (Step.child false false 0 (.comp false) .run _ .nil _ _ rfl
    (Step.resolve false false 1 (.comp false) 0 exKids .nil)) ?_
  refine .step _ _ _ _ _ (Step.child false false 0 (.comp false) .run _ .nil _ _ rfl
    (Step.fire false false 1 (.comp false) exKids .nil)) ?_
  refine .step _ _ _ _ _ (Step.child false false 0 (.comp false) .run _ .nil _ _ rfl
    (Step.child false false 1 (.comp false) .run _ .nil _ _ rfl
      (Step.resolve false true 1 .raise 0 .nil _))) ?_
  refine .step _ _ _ _ _ (Step.child false false 0 (.comp false) .run _ .nil _ _ rfl
    (Step.child false false 1 (.comp false) .run _ .nil _ _ rfl
      (Step.fire false true 1 .raise .nil _))) ?_
  refine .step _ _ _ _ _ (Step.child false false 0 (.comp false) .run _ .nil _ _ rfl
    (Step.fail false false 1 (.comp false) _ .nil rfl)) ?_
  refine .step _ _ _ _ _ (Step.child false false 0 (.comp false) .run _ .nil _ _ rfl
    (Step.child false false 1 (.comp false) .doneErr _ .nil _ _ rfl
      (Step.sibling true true 1 .raise .failed .nil _ _ _
        (Step.cancel false 1 (.leaf 5) (.wait 1) .nil .nil rfl)))) ?_
  refine .step _ _ _ _ _ (Step.complete false false 0 (.comp false) _ .nil (.cons .null .nil) rfl) ?_
  exact .refl _

theorem exFinal_final : Final (Step false) exFinal := by
  intro l c' h
  obtain ⟨_, _, _, _, _, _, hinv⟩ := run_root (F := exF) (by decide) exRun
  have hm := step_measure h hinv
  have : Gql.Async.measure exFinal = 0 := by decide
  omega

/-- `async_wf_error_paths` on the example: the error originates at `a.x` (position `[0,0,0]`,
state `failed`), which is not in `data`; its prefix `a` holds `null`. -/
example : ∃ q' v, q' <+: [0, 0] ∧ rootData exFinal = some v ∧ v.at q' = some .null :=
  async_wf_error_paths exF exFinal _ (by decide) exRun exFinal_final [0, 0] true .raise .failed .nil
    (by decide) (Or.inr rfl)

/-- the hypotheses of `schedule_independent`, `async_wf`, `async_invariant` hold for
this run, and the conclusion is the non-trivial response `{a: null}` with `a` nulled -/
example : rootData exFinal = some (.cons .null .nil) ∧ nulledF [] 0 exFinal = [[0, 0]] :=
  schedule_independent exF exFinal _ (by decide) exRun exFinal_final |>.imp (fun h => by rw [h]; decide) (fun h => by rw [h]; decide)

/-- a serial root with two fields: the second starts only after the first completed -/
def exM : Cfg := .cons false 1 (.leaf 1) .idle .nil (.cons false 0 (.leaf 2) .idle .nil .nil)

def exMFinal : Cfg :=
  .cons false 1 (.leaf 1) (.done (.leaf 1)) .nil (.cons false 0 (.leaf 2) (.done (.leaf 2)) .nil .nil)

example : Run SStep exM [.start [0], .resolve [0], .continue [0], .start [1]] exMFinal ∧
    dataCfg exMFinal = dataOf exM ∧ serialOK exMFinal = true := by
  refine ⟨?_, ?_⟩
  · refine .step _ _ _ _ _ (SStep.start exM rfl rfl) ?_
    refine .step _ _ _ _ _ (SStep.inner _ _ _ (Step.resolve false false 1 (.leaf 1) 0 .nil _)) ?_
    refine .step _ _ _ _ _ (SStep.inner _ _ _ (Step.fire false false 1 (.leaf 1) .nil _)) ?_
    refine .step _ _ _ _ _ (SStep.start _ rfl rfl) ?_
    exact .refl _
  · decide

/-- `monitor_sound` is not vacuous: the monitor's first move on the example request -/
example : ∃ c', modifyAt opFire false (initQuery exF) [0] = some c' := ⟨_, rfl⟩

end Gql.Props.C03
