import Gql.Proofs.Proc
import Gql.Proofs.Monitor
/-!
# C03 — The response does not depend on when resolvers complete

Property theorems only (lemmas: `Gql/Proofs/Proc.lean`).  Model: `Gql/Async/Proc.lean` — the
asynchronous executor as a labelled transition system `Step` over an arbitrary finite field
tree (`Cfg`); `SStep` is the serial (mutation) root.  Any enabled transition may fire, which is
a superset of the schedules of asyncio.  `gather_with_cancel` is modelled as documented and as
repaired on the tree (cancel the rest: `fail`; await them, bottom-up: `unwound`; re-raise:
`failDone`); work that is abandoned WITHOUT cancellation (`settle_in_background`, `bg = true`)
is the separate path.  The synchronous denotation `denF`/`dataOf` is the
response of fully synchronous execution; it does not look at `gates` (which results are
awaitable) nor at process states.

A query is `initQuery F` for a forest `F` of root fields that have not been started
(`allIdle F`); position `[0]` is `data`, `0 :: p` is response position `p`.
-/
namespace Gql.Props.C03
open Gql.Async

/-- C03-1 `async_invariant`. Inductive over transitions: in every configuration reachable
from a query, at every position: a `done v` node carries its synchronous denotation
(`denN = some v`), a nulled position (`doneErr`) is a nullable position whose completion fails
in the synchronous denotation too, a `failed` node is a non-null position whose denotation
raises, a node that has not been resumed has untouched children, the children of a running
node are all alive (started, not cancelled) — `InvN` spells the clauses out. -/
theorem async_invariant (F c : Cfg) (ls : List Label) (hF : allIdle F = true)
    (hrun : Run Step (initQuery F) ls c)
    (p : Path) (nn : Bool) (res : Res) (st : NodeSt) (ch : Cfg)
    (hp : nodeAt c p = some (nn, res, st, ch)) : InvN nn res st ch := by
  obtain ⟨_, _, _, _, _, _, hinv⟩ := run_root hF hrun
  exact (inv_nodeAt c p nn res st ch hinv hp).1

/-- C03-1a. Every completed node carries the value of the synchronous denotation. -/
theorem done_is_denotation (F c : Cfg) (ls : List Label) (hF : allIdle F = true)
    (hrun : Run Step (initQuery F) ls c)
    (p : Path) (nn : Bool) (res : Res) (v : Val) (ch : Cfg)
    (hp : nodeAt c p = some (nn, res, .done v, ch)) : denN nn res ch = some v := by
  have h := async_invariant F c ls hF hrun p nn res (.done v) ch hp
  simp only [InvN] at h
  exact denN_of_done h.1 h.2.1

/-- C03-1b. Every error recorded (position nulled) or raised to the parent is one the
synchronous denotation predicts: a nulled position is nullable and its completion fails
synchronously; a node that raised is non-null and its denotation raises. -/
theorem errors_are_predicted (F c : Cfg) (ls : List Label) (hF : allIdle F = true)
    (hrun : Run Step (initQuery F) ls c)
    (p : Path) (nn : Bool) (res : Res) (st : NodeSt) (ch : Cfg)
    (hp : nodeAt c p = some (nn, res, st, ch)) :
    (∀ b, st = .doneErr b → nn = false ∧ innerDen res ch = none) ∧
    (∀ b, st = .failed b → nn = true ∧ denN nn res ch = none) := by
  have h := async_invariant F c ls hF hrun p nn res st ch hp
  constructor
  · intro b hs; subst hs; simp only [InvN] at h; exact ⟨h.1, h.2.1⟩
  · intro b hs; subst hs; simp only [InvN] at h; exact ⟨h.1, h.2.1⟩

/-- C03-1c. Cancellation only occurs below an error: the parent of a cancelled task (finished
or still unwinding) is a gather one of whose children raised (`failing`, later `doneErr` /
`failed`), or a cancelled task itself. -/
theorem cancellation_only_below_error (F c : Cfg) (ls : List Label) (hF : allIdle F = true)
    (hrun : Run Step (initQuery F) ls c)
    (p : Path) (nn : Bool) (res : Res) (st : NodeSt) (ch : Cfg)
    (hp : nodeAt c p = some (nn, res, st, ch)) (hc : hasCancelled ch = true) :
    st = .failing ∨ (∃ b, st = .doneErr b) ∨ (∃ b, st = .failed b) ∨ st = .unwinding ∨ st = .cancelled :=
  cancelled_parent nn res st ch (async_invariant F c ls hF hrun p nn res st ch hp) hc

/-- C03-2 `schedule_independent`. Every maximal run of a query (no transition enabled at the
end) — whatever results are awaitable, in whatever order they complete, however the
continuations and cancellations interleave — ends with `data` equal to the synchronous `data`
and with exactly the nulled positions the tree predicts (`specNulledF`, a function of the tree
alone: the nullable positions whose completion fails and which exist in `data`). -/
theorem schedule_independent (F c : Cfg) (ls : List Label) (hF : allIdle F = true)
    (hrun : Run Step (initQuery F) ls c) (hfin : Final Step c) :
    rootData c = some (dataOf F) ∧ nulledF [] 0 c = specNulledF [] 0 (initQuery F) :=
  final_root hF hrun hfin

/-- C03-2a. Two executions of the same request (same tree up to which results are awaitable:
`shape`), under any two schedules, give the same `data` and the same nulled positions; in
particular an arbitrary run agrees with the fully synchronous one (`syncOf F`). -/
theorem assignment_independent (F₁ F₂ c₁ c₂ : Cfg) (ls₁ ls₂ : List Label)
    (h₁ : allIdle F₁ = true) (h₂ : allIdle F₂ = true) (hsame : shape F₁ = shape F₂)
    (r₁ : Run Step (initQuery F₁) ls₁ c₁) (f₁ : Final Step c₁)
    (r₂ : Run Step (initQuery F₂) ls₂ c₂) (f₂ : Final Step c₂) :
    rootData c₁ = rootData c₂ ∧ nulledF [] 0 c₁ = nulledF [] 0 c₂ := by
  obtain ⟨d₁, n₁⟩ := final_root h₁ r₁ f₁
  obtain ⟨d₂, n₂⟩ := final_root h₂ r₂ f₂
  have hd : dataOf F₁ = dataOf F₂ := by simp [dataOf, denF_congr hsame]
  have hn : specNulledF [] 0 (initQuery F₁) = specNulledF [] 0 (initQuery F₂) :=
    specNulledF_congr (by simp [initQuery, shape, hsame]) [] 0
  exact ⟨by rw [d₁, d₂, hd], by rw [n₁, n₂, hn]⟩

theorem agrees_with_synchronous (F c c' : Cfg) (ls ls' : List Label) (hF : allIdle F = true)
    (r : Run Step (initQuery F) ls c) (f : Final Step c)
    (r' : Run Step (initQuery (syncOf F)) ls' c') (f' : Final Step c') :
    rootData c = rootData c' ∧ nulledF [] 0 c = nulledF [] 0 c' :=
  assignment_independent F (syncOf F) c c' ls ls' hF (allIdle_syncOf F hF) (shape_syncOf F).symm r f r' f'

/-- C03-3 `async_wf`. In every final response: (a) no `null` sits at a non-null position
(`wfVals`), (b) every nulled position holds `null` in `data`, (c) `data` is `null` only if an
error reached the root through non-null positions only, and then the root is the one nulled
position. (The model records the positions where errors are handled, not the paths where they
originate; an error path is at or below its handling position by construction, and a handling
position that is not in `data` lies below one that is — that last step is `async_wf_error_paths` below.) -/
theorem async_wf (F c : Cfg) (ls : List Label) (hF : allIdle F = true)
    (hrun : Run Step (initQuery F) ls c) (hfin : Final Step c) :
    (∀ v, rootData c = some v → v ≠ .null → wfVals F v) ∧
    (∀ p ∈ nulledF [] 0 c, ∃ q, p = 0 :: q ∧
      ((q = [] ∧ rootData c = some .null) ∨ ∃ v, rootData c = some v ∧ v.at q = some .null)) ∧
    (rootData c = some .null → reachesParent F = true ∧ nulledF [] 0 c = [[0]]) := by
  obtain ⟨hd, hn⟩ := final_root hF hrun hfin
  refine ⟨?_, ?_, ?_⟩
  · intro v hv hne
    rw [hd] at hv
    simp only [Option.some.injEq] at hv
    subst hv
    cases hden : denF F with
    | none => simp [dataOf, hden] at hne
    | some w => simpa [dataOf, hden] using den_wf F w hden
  · intro p hp
    rw [hn] at hp
    cases hden : denF F with
    | none =>
      simp [initQuery, specNulledF, innerDen, hden] at hp
      subst hp
      exact ⟨[], rfl, Or.inl ⟨rfl, by simp [hd, dataOf, hden]⟩⟩
    | some w =>
      simp [initQuery, specNulledF, innerDen, hden] at hp
      obtain ⟨k, q, hp1, hp2⟩ := nulled_is_null F [0] 0 w hden p hp
      exact ⟨k :: q, by simpa using hp1, Or.inr ⟨w, by simp [hd, dataOf, hden], hp2⟩⟩
  · intro hnull
    rw [hd] at hnull
    cases hden : denF F with
    | none =>
      refine ⟨(den_none_iff F).mp hden, ?_⟩
      rw [hn]
      simp [initQuery, specNulledF, innerDen, hden]
    | some w =>
      have := denF_ne_null F w hden
      simp [dataOf, hden] at hnull
      exact absurd hnull this

/-- C03-3d `async_wf_error_paths`. Every error path ends at or below a `null` in `data`: in
a final configuration, for *every* position at which an error originated, was raised to the
parent (`failed`) or was handled (`doneErr`) — also those that are not in `data` because they
lie below another nulled position — some prefix of the position holds `null` in `data`.
(An error path of the response is the position of the node where the error originated; such a
node is `failed` or `doneErr`.) -/
theorem async_wf_error_paths (F c : Cfg) (ls : List Label) (hF : allIdle F = true)
    (hrun : Run Step (initQuery F) ls c) (hfin : Final Step c)
    (q : Path) (nn : Bool) (res : Res) (st : NodeSt) (ch : Cfg)
    (hp : nodeAt c (0 :: q) = some (nn, res, st, ch)) (hst : (∃ b, st = .doneErr b) ∨ (∃ b, st = .failed b)) :
    ∃ q' v, q' <+: q ∧ rootData c = some v ∧ v.at q' = some .null := by
  obtain ⟨g, st0, F', hc, _, hlive, hinv⟩ := run_root hF hrun
  subst hc
  have hq := stuck_calm _ hinv hfin
  obtain ⟨hn, hc', _⟩ := hinv
  cases st0 with
  | idle => simp [NodeSt.live] at hlive
  | cancelled => simp [NodeSt.live] at hlive
  | unwinding => simp [NodeSt.live] at hlive
  | wait k => simp [hasPending, NodeSt.pending] at hq
  | ready => simp [hasPending, NodeSt.pending] at hq
  | run => simp [hasPending, NodeSt.pending] at hq
  | failing => simp [hasPending, NodeSt.pending] at hq
  | failed bg => simp [InvN] at hn
  | doneErr bg => exact ⟨[], .null, List.nil_prefix, rfl, rfl⟩
  | done v =>
    simp only [InvN] at hn
    have hfv := hn.2.2.1 ⟨.obj, rfl⟩
    cases q with
    | nil =>
      simp [nodeAt] at hp
      rcases hst with ⟨b, h⟩ | ⟨b, h⟩ <;> simp [h] at hp
    | cons j p =>
      simp only [nodeAt] at hp
      obtain ⟨r, hr1, hr2⟩ := errpos_null F' v j p nn res st ch hc' hfv hp hst
      exact ⟨j :: r, v, by simpa using hr1, rfl, hr2⟩

/-- C03-4 `mutation_serial` (state form). In every configuration reachable by a serial root:
completed root fields come first, then at most one root field that is in progress or has
failed, then root fields that have not been started (`serialOK`); the tree invariant holds. -/
theorem mutation_serial (F c : Cfg) (ls : List Label) (hF : allIdle F = true)
    (hrun : Run SStep F ls c) : serialOK c = true ∧ Inv c := by
  have h0 : SInv F := ⟨allIdle_inv F hF, topIdle_serialOK F (allIdle_topIdle F hF)⟩
  obtain ⟨⟨hi, hs⟩, _⟩ := srun_inv hrun h0
  exact ⟨hs, hi⟩

/-- C03-4a `mutation_serial_strict` (event form, strict reading). Root field `j` is started
only by a `start [j]` transition; inner transitions never start a root field. `start [j]` fires
only when every root field `i < j` has completed (`done` / `doneErr`) AND nothing in its subtree
is running or still unwinding from a cancellation - with the one exception of work below a
position that completed while its children were still running (`bg = true`): work abandoned
WITHOUT being cancelled (`settle_in_background`: a synchronous failure in a selection-set / list
loop, an aborted async iteration) - `strictBefore`.  In particular every task that
`gather_with_cancel` cancelled in subtree `i` has finished (`cancelled`) before `j` starts:
`Step.failDone` waits for them. -/
theorem mutation_serial_strict (F c c' : Cfg) (ls : List Label) (l : Label) (hF : allIdle F = true)
    (hrun : Run SStep F ls c) (h : SStep c l c') :
    (∀ j, l = .start [j] → j = firstIdle c ∧ strictBefore j c = true) ∧
    ((∀ p, l ≠ .start p) → Step c l c') := by
  have h0 : SInv F := ⟨allIdle_inv F hF, topIdle_serialOK F (allIdle_topIdle F hF)⟩
  obtain ⟨⟨hi, _⟩, _⟩ := srun_inv hrun h0
  match h with
  | .inner _ _ _ hs =>
    exact ⟨fun j hj => absurd hj (step_no_start hs [j]), fun _ => hs⟩
  | .start _ hp _ =>
    refine ⟨fun j hj => ?_, fun hne => absurd rfl (hne _)⟩
    simp at hj
    subst hj
    exact ⟨rfl, prefixDone_strictBefore c hi hp⟩

/-- C03-4b. A completed forest of fields is quiet in that strict sense, stays completed with
the same values and stays quiet under every later transition (which can only happen inside
abandoned, never cancelled work). -/
theorem completed_field_is_quiet (f : Cfg) (v : Val) (hi : Inv f) (hv : forestVals f = some v) :
    QuietF f = true ∧ ∀ l f', Step f l f' → forestVals f' = some v ∧ QuietF f' = true :=
  ⟨completed_quiet f v hi hv,
   fun _ _ hs => ⟨step_forestVals hs v hv, step_quiet hs (completed_quiet f v hi hv)⟩⟩

/-- C03-4c. A maximal run of a serial root ends with the synchronous `data`. -/
theorem mutation_schedule_independent (F c : Cfg) (ls : List Label) (hF : allIdle F = true)
    (hrun : Run SStep F ls c) (hfin : Final SStep c) : dataCfg c = dataOf F :=
  serial_final hF hrun hfin

/-- C03-5 `run_terminates`. Every transition strictly decreases `measure`; a run from a query
has at most `measure (initQuery F)` transitions, a run of a serial root at most `measure F`. -/
theorem run_terminates (F c : Cfg) (ls : List Label) (hF : allIdle F = true)
    (hrun : Run Step (initQuery F) ls c) : ls.length ≤ measure (initQuery F) := by
  have hi := initQuery_inv F hF
  have := run_measure hrun hi.1
  omega

theorem serial_run_terminates (F c : Cfg) (ls : List Label) (hF : allIdle F = true)
    (hrun : Run SStep F ls c) : ls.length ≤ measure F := by
  have h0 : SInv F := ⟨allIdle_inv F hF, topIdle_serialOK F (allIdle_topIdle F hF)⟩
  have := srun_measure hrun h0
  omega

/-- C03-6 `monitor_sound`. Every operation the trace monitor of the correspondence check
applies to the model, at any position - completion of an awaitable, resumption, completion of a
running node, a gather cancelling its awaitables, abort of an async iteration, a gather
re-raising after its cancelled awaitables finished, a cancelled task finishing - is a transition
of `Step`; and its serial `start` move on the root wrapper is the `start` transition of `SStep`
on the root fields: a trace accepted by the monitor is a run of the transition systems the
theorems above are about. -/
theorem monitor_sound (c c' : Cfg) (p : Path) :
    (modifyAt opResolve c p = some c' → ∃ l, Step c l c') ∧
    (modifyAt opFire c p = some c' → ∃ l, Step c l c') ∧
    (modifyAt opComplete c p = some c' → ∃ l, Step c l c') ∧
    (modifyAt opFail c p = some c' → ∃ l, Step c l c') ∧
    (modifyAt opAbort c p = some c' → ∃ l, Step c l c') ∧
    (modifyAt opFailDone c p = some c' → ∃ l, Step c l c') ∧
    (modifyAt opUnwound c p = some c' → ∃ l, Step c l c') :=
  ⟨modifyAt_sound _ opResolve_sound c p c', modifyAt_sound _ opFire_sound c p c',
   modifyAt_sound _ opComplete_sound c p c', modifyAt_sound _ opFail_sound c p c',
   modifyAt_sound _ opAbort_sound c p c', modifyAt_sound _ opFailDone_sound c p c',
   modifyAt_sound _ opUnwound_sound c p c'⟩

theorem monitor_serial_start_sound (j : Nat) (nn : Bool) (g : Nat) (res : Res) (ch rest c' : Cfg)
    (h : opStartSerial j (.cons nn g res .run ch rest) = some c') :
    ∃ ch', c' = .cons nn g res .run ch' rest ∧ SStep ch (.start [j]) ch' :=
  opStartSerial_sound j nn g res ch rest c' h

/-! ## Non-vacuity: a concrete request and a complete run

`{ a { x y } }` with `a` nullable and awaitable, `x : String!` awaitable and raising,
`y : String` awaitable.  The run resolves `a`, then `x` (which raises); the gather of `a` cancels
`y` (`failing`, `y` unwinding), `y` finishes (`cancelled`), only then `a` handles the error
(nulled position `a`); the final `data` is `{a: null}` and the nulled positions are `[a]`. -/

def exKids : Cfg :=
  .cons true 1 .raise .idle .nil (.cons false 1 (.leaf 5) .idle .nil .nil)
def exF : Cfg := .cons false 1 (.comp .obj) .idle exKids .nil

def exFinal : Cfg :=
  .cons false 0 (.comp .obj) (.done (.cons .null .nil))
    (.cons false 1 (.comp .obj) (.doneErr false)
      (.cons true 1 .raise (.failed false) .nil (.cons false 1 (.leaf 5) .cancelled .nil .nil)) .nil) .nil

example : allIdle exF = true := by decide
example : dataOf exF = .cons .null .nil ∧ specNulledF [] 0 (initQuery exF) = [[0, 0]] := by decide

theorem exRun : Run Step (initQuery exF)
    [.continue [0], .resolve [0, 0], .continue [0, 0], .resolve [0, 0, 0], .continue [0, 0, 0],
     .continue [0, 0], .deliverCancel [0, 0, 1], .continue [0, 0], .continue [0]] exFinal := by
  refine .step _ _ _ _ _ (Step.fire false 0 (.comp .obj) exF .nil) ?_
  refine .step _ _ _ _ _ (Step.child false 0 (.comp .obj) .run _ .nil _ _ rfl
    (Step.resolve false 1 (.comp .obj) 0 exKids .nil)) ?_
  refine .step _ _ _ _ _ (Step.child false 0 (.comp .obj) .run _ .nil _ _ rfl
    (Step.fire false 1 (.comp .obj) exKids .nil)) ?_
  refine .step _ _ _ _ _ (Step.child false 0 (.comp .obj) .run _ .nil _ _ rfl
    (Step.child false 1 (.comp .obj) .run _ .nil _ _ rfl
      (Step.resolve true 1 .raise 0 .nil _))) ?_
  refine .step _ _ _ _ _ (Step.child false 0 (.comp .obj) .run _ .nil _ _ rfl
    (Step.child false 1 (.comp .obj) .run _ .nil _ _ rfl
      (Step.fire true 1 .raise .nil _))) ?_
  -- the gather of `a` catches the failure of `x` and cancels `y`
  refine .step _ _ _ _ _ (Step.child false 0 (.comp .obj) .run _ .nil _ _ rfl
    (Step.fail false 1 (.comp .obj) _ .nil rfl)) ?_
  -- `y` finishes its cancellation
  refine .step _ _ _ _ _ (Step.child false 0 (.comp .obj) .run _ .nil _ _ rfl
    (Step.child false 1 (.comp .obj) .failing _ .nil _ _ rfl
      (Step.sibling true 1 .raise (.failed false) .nil _ _ _
        (Step.unwound false 1 (.leaf 5) .nil .nil rfl)))) ?_
  -- only now the gather re-raises: `a` is nulled
  refine .step _ _ _ _ _ (Step.child false 0 (.comp .obj) .run _ .nil _ _ rfl
    (Step.failDone false 1 (.comp .obj) _ .nil rfl)) ?_
  refine .step _ _ _ _ _ (Step.complete false 0 (.comp .obj) _ .nil (.cons .null .nil) rfl) ?_
  exact .refl _

theorem exFinal_final : Final Step exFinal := by
  intro l c' h
  obtain ⟨_, _, _, _, _, _, hinv⟩ := run_root (F := exF) (by decide) exRun
  have hm := step_measure h hinv
  have : Gql.Async.measure exFinal = 0 := by decide
  omega

/-- `async_wf_error_paths` on the example: the error originates at `a.x` (position `[0,0,0]`,
state `failed`), which is not in `data`; its prefix `a` holds `null`. -/
example : ∃ q' v, q' <+: [0, 0] ∧ rootData exFinal = some v ∧ v.at q' = some .null :=
  async_wf_error_paths exF exFinal _ (by decide) exRun exFinal_final [0, 0] true .raise (.failed false) .nil
    (by decide) (Or.inr ⟨false, rfl⟩)

/-- the hypotheses of `schedule_independent`, `async_wf`, `async_invariant` hold for
this run, and the conclusion is the non-trivial response `{a: null}` with `a` nulled -/
example : rootData exFinal = some (.cons .null .nil) ∧ nulledF [] 0 exFinal = [[0, 0]] :=
  schedule_independent exF exFinal _ (by decide) exRun exFinal_final |>.imp (fun h => by rw [h]; decide) (fun h => by rw [h]; decide)

/-- a serial root with two fields: the second starts only after the first completed -/
def exM : Cfg := .cons false 1 (.leaf 1) .idle .nil (.cons false 0 (.leaf 2) .idle .nil .nil)

def exMFinal : Cfg :=
  .cons false 1 (.leaf 1) (.done (.leaf 1)) .nil (.cons false 0 (.leaf 2) (.done (.leaf 2)) .nil .nil)

example : Run SStep exM [.start [0], .resolve [0], .continue [0], .start [1]] exMFinal ∧
    dataCfg exMFinal = dataOf exM ∧ serialOK exMFinal = true := by
  refine ⟨?_, ?_⟩
  · refine .step _ _ _ _ _ (SStep.start exM rfl rfl) ?_
    refine .step _ _ _ _ _ (SStep.inner _ _ _ (Step.resolve false 1 (.leaf 1) 0 .nil _)) ?_
    refine .step _ _ _ _ _ (SStep.inner _ _ _ (Step.fire false 1 (.leaf 1) .nil _)) ?_
    refine .step _ _ _ _ _ (SStep.start _ rfl rfl) ?_
    exact .refl _
  · decide

/-- `monitor_sound` is not vacuous: the monitor's first move on the example request -/
example : ∃ c', modifyAt opFire (initQuery exF) [0] = some c' := ⟨_, rfl⟩

end Gql.Props.C03
