import Gql.Proofs.Lifecycle
/-!
# C06 — Stopping early never hangs or leaks: work settles and sources are closed

Property theorems only (lemmas: `Gql/Proofs/Lifecycle.lean`).  Model: `Gql.Async.Lifecycle`
— the *bookkeeping* of tasks and sources around a stop (see the model's header for what the
one bit `registered` stands for in the code).

**Partial.**  The theorems are about the bookkeeping logic only: asyncio's delivery of
cancellations, async-generator finalisation and queue wake-ups are runtime behaviour the
model cannot exhibit; they are covered by the exploration in `checks/c06.py`.  The
hypothesis `AllRegistered` ("every task the execution creates is reachable from a collection
that the stop procedure walks and awaits") is precisely what the known findings of C06
violate in the code; `unregistered_task_leaks` shows the hypothesis is necessary.
-/
namespace Gql.Props.C06
open Gql.Async.Lifecycle

/-- C06 (L1–L4), safety half.  Take any history of the execution (`pre`: tasks created —
hanging or not, with or without sources — sources started, tasks finished, in any enabled
order), stop it in that state with any stop kind, and let any schedule of enabled actions run
afterwards (`post`).  If nothing more can happen in the state reached, then: no task is
pending, every started source has been closed exactly once and no unstarted one has been
closed, the hook has fired exactly once, and the caller has been released. -/
theorem stop_quiescent_good (pre post : List Action) (k : StopKind)
    (hreg : AllRegistered pre) (hpre : EnabledRun init pre)
    (hstop : enabled (run init pre) (.stop k) = true)
    (hregp : AllRegistered post) (hpost : EnabledRun (step (run init pre) (.stop k)) post)
    (hq : Quiescent (run (step (run init pre) (.stop k)) post)) :
    Good (run (step (run init pre) (.stop k)) post) := by
  have h1 := inv_run pre init inv_init hreg hpre
  have h2 := inv_step _ (.stop k) h1 hstop (by intro r hg ws h; cases h)
  have hph : (step (run init pre) (.stop k)).phase ≠ .running := by simp [step]
  exact quiescent_good _ (inv_run post _ h2 hregp hpost) (phase_run post _ hph hpost) hq

/-- C06, termination half ("never hangs").  After the stop no schedule of enabled actions is
longer than the number of pending tasks plus one: every run ends, and (by the theorem above)
it can only end in a good state.  `fuel` is the well-founded measure on live tasks. -/
theorem stop_runs_bounded (pre post : List Action) (k : StopKind)
    (hreg : AllRegistered pre) (hpre : EnabledRun init pre)
    (hstop : enabled (run init pre) (.stop k) = true)
    (hregp : AllRegistered post) (hpost : EnabledRun (step (run init pre) (.stop k)) post) :
    post.length ≤ fuel (step (run init pre) (.stop k)) := by
  have h1 := inv_run pre init inv_init hreg hpre
  have h2 := inv_step _ (.stop k) h1 hstop (by intro r hg ws h; cases h)
  exact run_bounded post _ h2 (by simp [step]) hregp hpost

/-- C06, progress: after the stop, a state in which something is still pending or the hook has
not fired is not quiescent — some action is enabled (no deadlock). -/
theorem stop_not_stuck (s : St) (h : Inv s) (hph : s.phase ≠ .running) (hbad : ¬ Good s) :
    ∃ a, enabled s a = true := by
  apply Classical.byContradiction
  intro hne
  apply hbad
  apply quiescent_good s h hph
  intro a
  cases hen : enabled s a with
  | false => rfl
  | true => exact absurd ⟨a, hen⟩ hne

/-- C06 (L3).  The hook can only fire when no registered task is pending, and it takes the
machine to `finished`, where it cannot fire again. -/
theorem hook_only_when_settled (s : St) (h : enabled s .fireHook = true) :
    (∀ t ∈ s.tasks, t.registered = true → t.isPending = false) ∧
      enabled (step s .fireHook) .fireHook = false := by
  simp [enabled] at h
  refine ⟨?_, by simp [enabled, step]⟩
  intro t ht hr
  rcases h.2 t ht with h1 | h1
  · exact h1
  · rw [hr] at h1; cases h1

/-- The hypothesis is necessary: one *unregistered* hanging task (what the known findings of
C06 amount to in the code) survives every stop — the machine becomes quiescent with the hook
fired and the caller released, but the task is pending for ever (L1 fails). -/
theorem unregistered_task_leaks :
    let s := run init [.spawn false true true, .startSrc 0, .stop .aclose, .fireHook]
    EnabledRun init [.spawn false true true, .startSrc 0, .stop .aclose, .fireHook] ∧
      Quiescent s ∧ ¬ Good s := by
  refine ⟨by decide, ?_, ?_⟩
  · intro a
    cases a with
    | spawn r h w => rfl
    | stop k => rfl
    | fireHook => rfl
    | startSrc i => cases i with
      | zero => rfl
      | succ i => simp [enabled, run, step, init, modifyAt, requestCancel, Task.isPending]
    | finish i => cases i with
      | zero => rfl
      | succ i => simp [enabled, run, step, init, modifyAt, requestCancel, Task.isPending]
    | deliverCancel i => cases i with
      | zero => rfl
      | succ i => simp [enabled, run, step, init, modifyAt, requestCancel, Task.isPending]
  · intro hg
    have := hg.1 _ (List.mem_cons_self ..)
    revert this
    decide

-- Non-vacuity: a history with two registered tasks owning sources (one started and hanging, one
-- never started), one finished task whose source was exhausted; abort; then cancellations are
-- delivered in reverse order and the hook fires.  The run is enabled, the end state quiescent
-- and good; the unstarted source stays unstarted, the started ones are closed exactly once.
example :
    let pre : List Action := [.spawn true true true, .spawn true false true, .spawn true false true,
                              .startSrc 0, .startSrc 2, .finish 2]
    let post : List Action := [.deliverCancel 1, .deliverCancel 0, .fireHook]
    AllRegistered pre ∧ EnabledRun init pre ∧ enabled (run init pre) (.stop .abort) = true ∧
      EnabledRun (step (run init pre) (.stop .abort)) post ∧
      (run (step (run init pre) (.stop .abort)) post).tasks.map (·.src) =
        [some (.closed 1), some .notStarted, some (.closed 1)] ∧
      (run (step (run init pre) (.stop .abort)) post).hookFired = 1 ∧
      fuel (step (run init pre) (.stop .abort)) = 3 := by
  decide

end Gql.Props.C06
