import Gql.Proofs.SchemaBuild6
import Gql.Proofs.SchemaDiff3
/-!
# C17 — A schema survives printing to SDL and rebuilding

Property theorems only (lemmas: `Gql/Proofs/SchemaBuild1-6.lean`, `SchemaDiff1-3.lean`).
Model: `Gql.Types.schemaToDefs` (the definitions `print_schema` emits), `Gql.Types.buildFromDefs`
(`build_ast_schema` + the builders of `extend_schema`), `Gql.Types.changes`
(`find_schema_changes`), `Gql.Types.WFSchema` (decidable well-formedness).

Level: the theorems are about schema *content* and the structured definition AST.  The text
layer — `print_schema`'s layout, block strings, quoted strings, the parser — is **not** proved
here: it is C08's print/parse round trip, tied to this model by the correspondence run of
`checks/c17.py` (model definitions = `parse(print_schema(s))` for every generated schema).
-/
namespace Gql.Props.C17
open Gql Gql.Types

/-- C17-1 (build ∘ print = id, same order). For every well-formed schema, building the
definitions `print_schema` emits succeeds and yields exactly the same content: same types,
fields, arguments, default values, descriptions (any text), deprecations, directives with
locations and repeatability, interfaces, union members, enum values, OneOf and specifiedBy
markers and root operation types, in the same order. -/
theorem build_schemaToDefs (s : Schema) (h : WFSchema s = true) :
    buildFromDefs (schemaToDefs s) = .ok s :=
  Gql.Types.build_schemaToDefs s h

/-- C17-2 (identical reprint). Whatever the rebuild returns prints to the identical definitions. -/
theorem print_fixed_point (s r : Schema) (h : WFSchema s = true)
    (hr : buildFromDefs (schemaToDefs s) = .ok r) : schemaToDefs r = schemaToDefs s := by
  rw [Gql.Types.build_schemaToDefs s h] at hr
  cases hr; rfl

/-- C17-3 (the rebuilt schema is valid, as far as `WFSchema` states validity). -/
theorem rebuilt_wf (s r : Schema) (h : WFSchema s = true)
    (hr : buildFromDefs (schemaToDefs s) = .ok r) : WFSchema r = true := by
  rw [Gql.Types.build_schemaToDefs s h] at hr
  cases hr; exact h

/-- C17-4 (no differences). `find_schema_changes` between a schema and its rebuild is empty,
in both directions. -/
theorem changes_roundtrip (s r : Schema) (h : WFSchema s = true)
    (hr : buildFromDefs (schemaToDefs s) = .ok r) : changes s r = [] ∧ changes r s = [] := by
  rw [Gql.Types.build_schemaToDefs s h] at hr
  cases hr
  exact ⟨Gql.Types.changes_refl s h, Gql.Types.changes_refl s h⟩

/-- Comparing a well-formed schema with itself reports no change. -/
theorem changes_refl (s : Schema) (h : WFSchema s = true) : changes s s = [] :=
  Gql.Types.changes_refl s h

/-- C17-5 (the schema block). `print_schema` emits no `schema { … }` definition exactly when
there is no schema description and every root is the type with the conventional name (or is
absent together with that type); otherwise it emits one that lists exactly the roots. -/
theorem schema_block_rule (s : Schema) (h : s.query.isSome = true) :
    (schemaDefOf s = [] ∧ s.desc = none ∧ hasDefaultRoots s = true) ∨
    schemaDefOf s = [.schemaDef (descNode s.desc) [] (opsOf s)] :=
  Gql.Types.schemaDefOf_cases s h

/-- Printing is injective on well-formed schemas: equal printed definitions, equal schemas. -/
theorem schemaToDefs_injective (a b : Schema) (ha : WFSchema a = true) (hb : WFSchema b = true)
    (h : schemaToDefs a = schemaToDefs b) : a = b := by
  have h1 := Gql.Types.build_schemaToDefs a ha
  rw [h, Gql.Types.build_schemaToDefs b hb] at h1
  cases h1; rfl

/-- Round trip of a description through its definition node (`print_description` chooses the
block form iff `is_printable_as_block_string`; the builder reads the value back). -/
theorem description_roundtrip (d : Option Str) : descValue (descNode d) = d :=
  Gql.Types.descValue_descNode d

/-- Round trip of a deprecation reason (`print_deprecated` / `get_deprecation_reason`),
including the default reason printed as a bare `@deprecated`. -/
theorem deprecation_roundtrip (r : Option Str) : deprecationOf (deprDirs r) = .ok r :=
  Gql.Types.deprecationOf_deprDirs r

-- Non-vacuity: a concrete schema with non-default root names, a type called `Query` that is
-- not the query root, a custom repeatable deprecated directive, a recursive input object with a
-- default, an interface hierarchy and adversarial descriptions satisfies `WFSchema`.
def exampleSchema : Schema :=
  { desc := some [34, 34, 34, 10, 92]
    query := some [82]                      -- R
    mutation := none
    subscription := none
    directives := [
      { name := [100], desc := some [32], repeatable := true, locations := [[70, 73, 69, 76, 68]],
        depr := some Gql.Generated.SchemaConsts.defaultDeprecationReason,
        args := [{ name := [97], desc := none, type := .list (.nonNull (.named [73, 110])),
                   default := some (.list (.lcons (.obj (.fcons [120] (.int [49]) .vnil)) .vnil)),
                   depr := some [] }] }]
    types := [
      .interface [78] none [] [{ name := [102], desc := none, args := [], type := .named [83, 116, 114, 105, 110, 103], depr := none }],
      .object [82] (some [13]) [[78]] [{ name := [102], desc := some [8232], args := [], type := .nonNull (.named [83, 116, 114, 105, 110, 103]), depr := none }],
      .object [81, 117, 101, 114, 121] none [] [{ name := [103], desc := none, args := [], type := .named [85], depr := some [120] }],
      .union [85] none [[82], [81, 117, 101, 114, 121]],
      .enum [69] none [{ name := [65], desc := none, depr := some Gql.Generated.SchemaConsts.defaultDeprecationReason }],
      .scalar [83] none (some []),
      .input [73, 110] (some []) false [
        { name := [120], desc := none, type := .named [73, 110, 116], default := some (.int [48]), depr := none },
        { name := [114], desc := none, type := .list (.named [73, 110]), default := none, depr := none }] ] }

example : WFSchema exampleSchema = true := by decide
example : buildFromDefs (schemaToDefs exampleSchema) = .ok exampleSchema :=
  build_schemaToDefs exampleSchema (by decide)
-- the schema block is needed here (non-default root name), and is omitted for conventional names
example : (schemaDefOf exampleSchema).length = 1 := by decide
example : schemaDefOf { exampleSchema with desc := none, query := some [81, 117, 101, 114, 121] } = [] := by decide

end Gql.Props.C17
