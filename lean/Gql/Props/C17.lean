import Gql.Proofs.SchemaBuild6
import Gql.Proofs.SchemaDiff3
import Gql.Proofs.SchemaText6
import Gql.Proofs.SchemaText7
import Gql.Proofs.SchemaText8
/-!
# C17 — A schema survives printing to SDL and rebuilding

Property theorems only (lemmas: `Gql/Proofs/SchemaBuild1-6.lean`, `SchemaDiff1-3.lean`).
Model: `Gql.Types.schemaToDefs` (the definitions `print_schema` emits), `Gql.Types.buildFromDefs`
(`build_ast_schema` + the builders of `extend_schema`), `Gql.Types.changes`
(`find_schema_changes`), `Gql.Types.WFSchema` (decidable well-formedness).

Level: C17-1 … C17-5 are about schema *content* and the structured definition AST.  The text
layer is the section "SDL text" at the end: `Gql.Types.PrintSchema.printSchemaText` models
print_schema.py down to the code points (tied to the code by the `text` stream of `checks/c17.py`:
model text = `print_schema(s)` for every generated schema), and `text_lexes` / `text_roundtrip` /
`text_build_roundtrip` prove, with C08's lexer and parser models, that this text parses to the
definitions and builds to the same schema (lemmas: `Gql/Proofs/SchemaText1-8.lean`; the decidable domain `textWFb`:
`Gql/Types/PrintSchemaTextWF.lean`).
-/
namespace Gql.Props.C17
open Gql Gql.Types

/-- C17-1 (build ∘ print = id, same order). For every well-formed schema, building the
definitions `print_schema` emits succeeds and yields exactly the same content: same types,
fields, arguments, default values, descriptions (any text), deprecations, directives with
locations and repeatability, interfaces, union members, enum values, OneOf and specifiedBy
markers and root operation types, in the same order. -/
theorem build_schemaToDefs (s : Schema) (h : WFSchema s = true) :
    buildFromDefs (schemaToDefs s) = .ok s :=
  Gql.Types.build_schemaToDefs s h

/-- C17-2 (identical reprint). Whatever the rebuild returns prints to the identical definitions. -/
theorem print_fixed_point (s r : Schema) (h : WFSchema s = true)
    (hr : buildFromDefs (schemaToDefs s) = .ok r) : schemaToDefs r = schemaToDefs s := by
  rw [Gql.Types.build_schemaToDefs s h] at hr
  cases hr; rfl

/-- C17-3 (the rebuilt schema is valid, as far as `WFSchema` states validity). -/
theorem rebuilt_wf (s r : Schema) (h : WFSchema s = true)
    (hr : buildFromDefs (schemaToDefs s) = .ok r) : WFSchema r = true := by
  rw [Gql.Types.build_schemaToDefs s h] at hr
  cases hr; exact h

/-- C17-4 (no differences). `find_schema_changes` between a schema and its rebuild is empty,
in both directions. -/
theorem changes_roundtrip (s r : Schema) (h : WFSchema s = true)
    (hr : buildFromDefs (schemaToDefs s) = .ok r) : changes s r = [] ∧ changes r s = [] := by
  rw [Gql.Types.build_schemaToDefs s h] at hr
  cases hr
  exact ⟨Gql.Types.changes_refl s h, Gql.Types.changes_refl s h⟩

/-- Comparing a well-formed schema with itself reports no change. -/
theorem changes_refl (s : Schema) (h : WFSchema s = true) : changes s s = [] :=
  Gql.Types.changes_refl s h

/-- C17-5 (the schema block). `print_schema` emits no `schema { … }` definition exactly when
there is no schema description and every root is the type with the conventional name (or is
absent together with that type); otherwise it emits one that lists exactly the roots. -/
theorem schema_block_rule (s : Schema) (h : s.query.isSome = true) :
    (schemaDefOf s = [] ∧ s.desc = none ∧ hasDefaultRoots s = true) ∨
    schemaDefOf s = [.schemaDef (descNode s.desc) [] (opsOf s)] :=
  Gql.Types.schemaDefOf_cases s h

/-- Printing is injective on well-formed schemas: equal printed definitions, equal schemas. -/
theorem schemaToDefs_injective (a b : Schema) (ha : WFSchema a = true) (hb : WFSchema b = true)
    (h : schemaToDefs a = schemaToDefs b) : a = b := by
  have h1 := Gql.Types.build_schemaToDefs a ha
  rw [h, Gql.Types.build_schemaToDefs b hb] at h1
  cases h1; rfl

/-- Round trip of a description through its definition node (`print_description` chooses the
block form iff `is_printable_as_block_string`; the builder reads the value back). -/
theorem description_roundtrip (d : Option Str) : descValue (descNode d) = d :=
  Gql.Types.descValue_descNode d

/-- Round trip of a deprecation reason (`print_deprecated` / `get_deprecation_reason`),
including the default reason printed as a bare `@deprecated`. -/
theorem deprecation_roundtrip (r : Option Str) : deprecationOf (deprDirs r) = .ok r :=
  Gql.Types.deprecationOf_deprDirs r

-- Non-vacuity: a concrete schema with non-default root names, a type called `Query` that is
-- not the query root, a custom repeatable deprecated directive, a recursive input object with a
-- default, an interface hierarchy and adversarial descriptions satisfies `WFSchema`.
def exampleSchema : Schema :=
  { desc := some [34, 34, 34, 10, 92]
    query := some [82]                      -- R
    mutation := none
    subscription := none
    directives := [
      { name := [100], desc := some [32], repeatable := true, locations := [[70, 73, 69, 76, 68]],
        depr := some Gql.Generated.SchemaConsts.defaultDeprecationReason,
        args := [{ name := [97], desc := none, type := .list (.nonNull (.named [73, 110])),
                   default := some (.list (.lcons (.obj (.fcons [120] (.int [49]) .vnil)) .vnil)),
                   depr := some [] }] }]
    types := [
      .interface [78] none [] [{ name := [102], desc := none, args := [], type := .named [83, 116, 114, 105, 110, 103], depr := none }],
      .object [82] (some [13]) [[78]] [{ name := [102], desc := some [8232], args := [], type := .nonNull (.named [83, 116, 114, 105, 110, 103]), depr := none }],
      .object [81, 117, 101, 114, 121] none [] [{ name := [103], desc := none, args := [], type := .named [85], depr := some [120] }],
      .union [85] none [[82], [81, 117, 101, 114, 121]],
      .enum [69] none [{ name := [65], desc := none, depr := some Gql.Generated.SchemaConsts.defaultDeprecationReason }],
      .scalar [83] none (some []),
      .input [73, 110] (some []) false [
        { name := [120], desc := none, type := .named [73, 110, 116], default := some (.int [48]), depr := none },
        { name := [114], desc := none, type := .list (.named [73, 110]), default := none, depr := none }] ] }

example : WFSchema exampleSchema = true := by decide
example : buildFromDefs (schemaToDefs exampleSchema) = .ok exampleSchema :=
  build_schemaToDefs exampleSchema (by decide)
-- the schema block is needed here (non-default root name), and is omitted for conventional names
example : (schemaDefOf exampleSchema).length = 1 := by decide
example : schemaDefOf { exampleSchema with desc := none, query := some [81, 117, 101, 114, 121] } = [] := by decide

/-! ## SDL text

`print_schema` does not print through `print_ast`: it has its own layout (a blank line before
every described item of a block but the first, argument lists broken into lines exactly when an
argument has a description, default values printed by `print_ast` but not re-indented).  The
theorems below are therefore proved on `print_schema`'s own text, token by token, and then use
C08's parser theorem, which only sees tokens. -/

open Gql.Text Gql.Syntax Gql.Types.PrintSchema

/-- The hypothesis of the text theorems: the definitions `print_schema` emits, translated to C08's
typed document trees (`defsToGDefs`), are well formed in C08's sense (`Exec.gdefsWf`) — names are
lexically Names, descriptions / deprecation reasons / specifiedBy URLs / string defaults are
sequences of Unicode scalar values (the lexer rejects lone surrogates: assumption of the check),
block descriptions are block-representable (C08 `printable_representable`: implied by
`is_printable_as_block_string`), default values are well-formed const literals (they come from
the parser or from `value_to_literal`), type references are parser-shaped (no `T!!`), enum values
are not `true`/`false`/`null` (`assert_enum_value_name`), directive locations are in the parser's
table, and a deprecated directive definition needs `dd` = `experimental_directives_on_directive_definitions`
(the rebuild in the check parses with that flag).  `fa` is irrelevant here (no fragments). -/
abbrev TextWF (fa dd : Bool) (s : Schema) : Prop := Gql.Types.PrintSchema.TextWF fa dd s

/-- **C17-6 (`render_lex` for print_schema).**  For every schema whose printed definitions are
well formed (`TextWF`), all widths with `object ≥ 4`: the text `print_schema` prints lexes to
exactly the tokens of the definitions `schemaToDefs s` (as C08 document trees) — every layout
`print_schema` chooses, all six type kinds, directive definitions, the schema block; no token is
merged, split or lost, every string token carries its value. -/
theorem text_lexes (w : Widths) (hw : 4 ≤ w.object) (fa dd : Bool) (s : Schema) (h : TextWF fa dd s) :
    Lexes true (printSchemaText w s) (Exec.gdefsKvs true (defsToGDefs (schemaToDefs s))) :=
  Gql.Types.PrintSchema.text_lexes w hw (by decide)
    (by decide) fa dd s h

/-- **C17-7 (`text_roundtrip`: parse ∘ print_schema).**  For every well-formed schema (`WFSchema`)
whose printed definitions are well formed (`TextWF`), with the real parser model (C01's
`parseSource`, any flags, no `max_tokens`): parsing the text `print_schema` prints succeeds and
gives exactly the document of the definitions `schemaToDefs s`. -/
theorem text_roundtrip (w : Widths) (hw : 4 ≤ w.object) (cfg : Cfg) (hm : cfg.maxTokens = none)
    (s : Schema) (hs : WFSchema s = true) (h : TextWF cfg.fragArgs cfg.dirOnDir s) :
    parseSource .document cfg (printSchemaText w s) =
      .ok (Exec.gdocAst cfg.fragArgs cfg.dirOnDir (defsToGDefs (schemaToDefs s))) :=
  Gql.Types.PrintSchema.text_parse w hw (by decide)
    (by decide) cfg hm s hs h

/-- **C17-8 (build ∘ parse ∘ print_schema = id).**  Composition of C17-7 with C17-1: the printed
text parses to the document of some definitions `defs`, and building `defs` gives back exactly
the schema. -/
theorem text_build_roundtrip (w : Widths) (hw : 4 ≤ w.object) (cfg : Cfg) (hm : cfg.maxTokens = none)
    (s : Schema) (hs : WFSchema s = true) (h : TextWF cfg.fragArgs cfg.dirOnDir s) :
    ∃ defs : List Gql.Types.Def,
      parseSource .document cfg (printSchemaText w s) =
        .ok (Exec.gdocAst cfg.fragArgs cfg.dirOnDir (defsToGDefs defs)) ∧
      buildFromDefs defs = .ok s :=
  ⟨schemaToDefs s, text_roundtrip w hw cfg hm s hs h, build_schemaToDefs s hs⟩

/-- **C17-9 (parse ∘ print_schema gives the definitions; build gives the schema).**  `gdefsToDefs`
reads a parsed document (C08's typed trees) as C17's definition AST, as the harness does with the
real parse result.  For every well-formed schema whose printed definitions are well formed and
whose default values are proper literals (`schemaShaped`, decidable: list items and object fields
are `… vnil`-terminated chains — what the parser and `value_to_literal` produce): the printed text
parses to a document `gdefs` that reads back as exactly the definitions `schemaToDefs s`, and
building what was read gives back exactly the schema `s`. -/
theorem text_roundtrip_defs (w : Widths) (hw : 4 ≤ w.object) (cfg : Cfg) (hm : cfg.maxTokens = none)
    (s : Schema) (hs : WFSchema s = true) (h : TextWF cfg.fragArgs cfg.dirOnDir s)
    (hsh : schemaShaped s = true) :
    ∃ gdefs : List GDef,
      parseSource .document cfg (printSchemaText w s) = .ok (Exec.gdocAst cfg.fragArgs cfg.dirOnDir gdefs) ∧
      gdefsToDefs gdefs = schemaToDefs s ∧
      buildFromDefs (gdefsToDefs gdefs) = .ok s := by
  refine ⟨defsToGDefs (schemaToDefs s), text_roundtrip w hw cfg hm s hs h, gdefsToDefs_schemaToDefs s hsh, ?_⟩
  rw [gdefsToDefs_schemaToDefs s hsh]
  exact build_schemaToDefs s hs

-- Non-vacuity: a schema with a described schema block, a deprecated repeatable directive with an
-- argument, an object type whose second field and whose argument carry descriptions (multi-line
-- argument layout, blank line before the described item), list / object / enum / boolean / string
-- defaults, an interface, a union, an enum with a deprecated value, a OneOf input object and a
-- scalar with a specifiedBy URL satisfies both hypotheses.
def exampleText : Schema :=
  { desc := some [115]
    query := some [81]
    mutation := none
    subscription := none
    directives := [
      { name := [100], desc := some [97, 10, 98], repeatable := true, locations := [S "FIELD", S "QUERY"],
        depr := some [111],
        args := [{ name := [97], desc := none, type := .named [73, 110], default := none, depr := none }] }]
    types := [
      .interface [78] none [] [{ name := [102], desc := none, args := [], type := .named (S "String"), depr := none }],
      .object [81] (some [113, 34]) [[78]] [
        { name := [102], desc := none,
          args := [{ name := [97], desc := some [120, 10, 121], type := .list (.nonNull (.named [73, 110])),
                     default := some (.list (.lcons (.obj (.fcons [120] (.enum [65]) .vnil)) .vnil)), depr := none },
                   { name := [98], desc := none, type := .named (S "String"), default := some (.str [122] false),
                     depr := some Gql.Generated.SchemaConsts.defaultDeprecationReason }],
          type := .nonNull (.named (S "String")), depr := some [111] },
        { name := [103], desc := some [34], args := [], type := .named [69],
          depr := some Gql.Generated.SchemaConsts.defaultDeprecationReason }],
      .union [85] none [[81]],
      .enum [69] none [{ name := [65], desc := some [100], depr := none }, { name := [66], desc := none, depr := some [] }],
      .scalar [83] none (some [117]),
      .input [73, 110] (some []) true [
        { name := [120], desc := none, type := .named [69], default := some (.bool true), depr := none }] ] }

example : WFSchema exampleText = true := by decide
example : schemaShaped exampleText = true := by decide

example : TextWF false true exampleText := by
  apply Gql.Types.PrintSchema.textWF_of_tdefs
  intro td htd
  have e : schemaTDefs exampleText = [
      .schema (some ([115], true)) [] [(S "query", [81])],
      .directive (some ([97, 10, 98], true)) [100] [⟨none, [97], .named [73, 110], none, []⟩]
        [⟨S "deprecated", [(S "reason", .str [111] false)]⟩] true [S "FIELD", S "QUERY"],
      .object true none [78] [] [] [⟨none, [102], [], .named (S "String"), []⟩],
      .object false (some ([113, 34], true)) [81] [[78]] [] [
        ⟨none, [102],
          [⟨some ([120, 10, 121], true), [97], .list (.nonNull (.named [73, 110])),
              some (.list [.obj [([120], .enum [65])]]), []⟩,
           ⟨none, [98], .named (S "String"), some (.str [122] false), [⟨S "deprecated", []⟩]⟩],
          .nonNull (.named (S "String")), [⟨S "deprecated", [(S "reason", .str [111] false)]⟩]⟩,
        ⟨some ([34], true), [103], [], .named [69], [⟨S "deprecated", []⟩]⟩],
      .union none [85] [] [[81]],
      .enum none [69] [] [⟨some ([100], true), [65], []⟩, ⟨none, [66], [⟨S "deprecated", [(S "reason", .str [] false)]⟩]⟩],
      .scalar none [83] [⟨S "specifiedBy", [(S "url", .str [117] false)]⟩],
      .input (some ([], true)) [73, 110] [⟨S "oneOf", []⟩] [⟨none, [120], .named [69], some (.bool true), []⟩]] := by
    rfl
  rw [e] at htd
  simp only [List.mem_cons, List.not_mem_nil, or_false] at htd
  rcases htd with rfl | rfl | rfl | rfl | rfl | rfl | rfl | rfl <;>
  simp (config := { decide := true }) [Exec.tdefWf, Exec.fdWf, Exec.evWf, Exec.ivdsWf,
    Exec.namesWf, Exec.isLocation, Exec.isOpType, Exec.dirsWfC, Exec.dirWfC, Exec.argsWfC,
    Val.wfFields, Val.wfList, Val.wf, Exec.varDefWf, Exec.descWf, Ty.wf, TyP.shaped]


/-! ### The decidable domain `textWFb`

`TextWF` is C08's (undecidable-looking: number texts and block strings are given by existentials)
well-formedness of the translated definitions.  `textWFb` (`Gql/Types/PrintSchemaTextWF.lean`) is a
`Bool` function of the schema content alone; the driver evaluates it (`textwf <schema>`) and
`checks/c17.py` asserts that it is `true` on every generated / corpus schema that
`validate_schema` accepts, so the hypothesis of the theorems below is observed on every explored
valid schema. -/

/-- **C17-10 (the decidable predicate is sufficient).**  `textWFb fa dd s = true` — names are
lexically Names; descriptions, deprecation reasons, specifiedBy URLs and string defaults are
sequences of Unicode scalar values; a description printed in block form is block-representable;
default values are proper const literals (number texts accepted by the specification's number
grammar, enum literals other than `true`/`false`/`null`); type references have no `T!!`; enum
values are not `true`/`false`/`null`; directive locations are non-empty and from the parser's
table; a deprecated directive definition only with `dd` — implies `TextWF fa dd s`. -/
theorem textWF_of_textWFb (fa dd : Bool) (s : Schema) (h : textWFb fa dd s = true) : TextWF fa dd s :=
  Gql.Types.PrintSchema.textWF_of_textWFb h

/-- The number clause of `textWFb` is exact: `numOk fl s` (the specification's number grammar of
`Gql/Spec/Lex.lean` consumes the whole text as an IntValue, `fl = false`, or a FloatValue,
`fl = true`) holds iff the text is a number text in C08's sense (`IsNum`: sign, integer part,
optional fraction, optional exponent).  So this clause excludes no default value the parser could
have produced. -/
theorem numOk_iff_isNum (fl : Bool) (s : List Nat) : numOk fl s = true ↔ IsNum fl s :=
  Gql.Types.PrintSchema.numOk_iff_isNum fl s

example : IsNum true (S "-1.50e+3") := (numOk_iff_isNum _ _).mp (by decide)
example : ¬ IsNum false (S "01") := fun h => absurd ((numOk_iff_isNum _ _).mpr h) (by decide)

/-- C17-6 with the decidable hypothesis. -/
theorem text_lexes_b (w : Widths) (hw : 4 ≤ w.object) (fa dd : Bool) (s : Schema)
    (h : textWFb fa dd s = true) :
    Lexes true (printSchemaText w s) (Exec.gdefsKvs true (defsToGDefs (schemaToDefs s))) :=
  text_lexes w hw fa dd s (textWF_of_textWFb fa dd s h)

/-- C17-7 with the decidable hypotheses `WFSchema s = true` and `textWFb … s = true`. -/
theorem text_roundtrip_b (w : Widths) (hw : 4 ≤ w.object) (cfg : Cfg) (hm : cfg.maxTokens = none)
    (s : Schema) (hs : WFSchema s = true) (h : textWFb cfg.fragArgs cfg.dirOnDir s = true) :
    parseSource .document cfg (printSchemaText w s) =
      .ok (Exec.gdocAst cfg.fragArgs cfg.dirOnDir (defsToGDefs (schemaToDefs s))) :=
  text_roundtrip w hw cfg hm s hs (textWF_of_textWFb _ _ s h)

/-- C17-8 with the decidable hypotheses. -/
theorem text_build_roundtrip_b (w : Widths) (hw : 4 ≤ w.object) (cfg : Cfg) (hm : cfg.maxTokens = none)
    (s : Schema) (hs : WFSchema s = true) (h : textWFb cfg.fragArgs cfg.dirOnDir s = true) :
    ∃ defs : List Gql.Types.Def,
      parseSource .document cfg (printSchemaText w s) =
        .ok (Exec.gdocAst cfg.fragArgs cfg.dirOnDir (defsToGDefs defs)) ∧
      buildFromDefs defs = .ok s :=
  text_build_roundtrip w hw cfg hm s hs (textWF_of_textWFb _ _ s h)

/-- `textWFb` contains the shape hypothesis of C17-9: default values are `… vnil`-terminated chains. -/
theorem schemaShaped_of_textWFb (fa dd : Bool) (s : Schema) (h : textWFb fa dd s = true) :
    schemaShaped s = true :=
  Gql.Types.PrintSchema.schemaShaped_of_textWFb h

/-- C17-9 with the decidable hypotheses only (`WFSchema`, `textWFb`: two `Bool` computations on the
schema; the shape hypothesis `schemaShaped` follows from `textWFb`): the printed text parses to a
document that reads back as exactly the definitions `schemaToDefs s`, and building what was read
gives back exactly the schema. -/
theorem text_roundtrip_defs_b (w : Widths) (hw : 4 ≤ w.object) (cfg : Cfg) (hm : cfg.maxTokens = none)
    (s : Schema) (hs : WFSchema s = true) (h : textWFb cfg.fragArgs cfg.dirOnDir s = true) :
    ∃ gdefs : List GDef,
      parseSource .document cfg (printSchemaText w s) = .ok (Exec.gdocAst cfg.fragArgs cfg.dirOnDir gdefs) ∧
      gdefsToDefs gdefs = schemaToDefs s ∧
      buildFromDefs (gdefsToDefs gdefs) = .ok s :=
  text_roundtrip_defs w hw cfg hm s hs (textWF_of_textWFb _ _ s h) (schemaShaped_of_textWFb _ _ s h)

-- Non-vacuity: the example schema satisfies the decidable predicate (with `dd`: its directive is
-- deprecated), and does not without `dd`.
example : textWFb false true exampleText = true := by decide
example : textWFb false false exampleText = false := by decide
example : TextWF false true exampleText := textWF_of_textWFb _ _ _ (by decide)
-- number, block-string and nested list / object defaults inside a schema
example : textWFb false false
    { exampleText with
      directives := []
      types := exampleText.types ++ [
        .input [74] none false [
          { name := [105], desc := none, type := .nonNull (.list (.nonNull (.named (S "Int")))),
            default := some (.list (.lcons (.int (S "-12")) (.lcons (.int (S "0")) .vnil))), depr := none },
          { name := [102], desc := some (S "  indented\nblock"), type := .named (S "Float"),
            default := some (.float (S "6.02e+23")), depr := some (S "x\"y") },
          { name := [111], desc := none, type := .named [74],
            default := some (.obj (.fcons [102] (.float (S "1E9")) (.fcons [115] (.str (S "a\nb") true) .vnil))),
            depr := none }] ] } = true := by decide
-- the number recogniser: the grammar of IntValue / FloatValue, whole text
example : numOk false (S "-120") = true ∧ numOk true (S "-1.50e+3") = true ∧ numOk true (S "0E0") = true ∧
    numOk false (S "01") = false ∧ numOk false (S "1.0") = false ∧ numOk true (S "1.") = false ∧
    numOk true (S "1") = false ∧ numOk false (S "-") = false ∧ numOk false [] = false ∧
    numOk true (S "1e") = false ∧ numOk false (S "1a") = false := by decide
-- what the predicate rejects: a lone surrogate in a description, an enum value `true`, `T!!`,
-- an ill-formed number text, an unknown location
example : descOk (some [0xD800]) = false ∧ enumValOk ⟨S "true", none, none⟩ = false ∧
    typeOk (.nonNull (.nonNull (.named [84]))) = false ∧ valueOk (.int (S "007")) = false ∧
    valueOk (.list (.lcons (.int (S "7")) .vnil)) = true ∧ valueOk (.list (.int (S "7"))) = false ∧
    valueOk (.lcons (.int (S "7")) .vnil) = false ∧ locationOk (S "NOWHERE") = false := by decide

-- the model's text for one of its definitions (a described first item, a deprecated value)
example : printTypeDef Widths.generated
    (.enum [69] none [{ name := [65], desc := some [100], depr := none }, { name := [66], desc := none, depr := some [] }]) =
    S "enum E {\n  \"\"\"d\"\"\"\n  A\n  B @deprecated(reason: \"\")\n}" := by decide

end Gql.Props.C17
