import Gql.Proofs.Values
/-!
# C16 — Leaf results are serialised within the specification's value domains

Property theorems only (lemmas: `Gql/Proofs/Values.lean`).
Model: `Gql.Values.serialize{Int,Float,String,Boolean,ID}`, `coerce*` (scalars.py),
`EnumType.coerceOutputValue / coerceInputValue` (definition.py), `completeLeafValue`
(executor.py).  Spec: `Gql.Values.Spec.*Domain` (GraphQL spec §3.5, §3.9).
CPython's `int(str)`, `float(str)`, `float(int)`, `str(float)`, `str(int)` are the parameter
`c : PyConv`; the only laws used are the three of `PyConv.Laws`, as explicit hypotheses.
`Out.ok` = a value, `Out.err` = `GraphQLError`, `Out.crash` = another exception (the executor
turns both into a field error).
-/
namespace Gql.Props.C16
open Gql Gql.Values Gql.Values.Spec Gql.Generated.ScalarConsts

/-- T1 obligation: the constants of scalars.py are the 32-bit bounds of the specification. -/
theorem consts_are_int32 : graphqlMinInt = -(2 ^ 31) ∧ graphqlMaxInt = 2 ^ 31 - 1 := by decide

/-- T1 obligation: the integer-string pattern is the one `isIntegerString` implements, in both
files that carry a copy. -/
theorem integer_regex_text :
    reIntegerString = [94, 45, 63, 40, 63, 58, 48, 124, 91, 49, 45, 57, 93, 91, 48, 45, 57, 93, 42, 41, 36]
    ∧ reIntegerStringV2L = reIntegerString := by decide

/-- C16-1. For every Python value and every built-in scalar, output coercion yields a value of
the type's domain (Int: integer within 32 bits; Float: finite number; String/ID: text;
Boolean: a boolean) whenever it yields a value at all. No law about CPython is needed. -/
theorem serialize_domain (c : PyConv) (s : Scalar) (v r : PyVal)
    (h : s.serialize c v = .ok r) : ScalarDomain s r := by
  cases s <;> simp only [Scalar.serialize] at h <;> simp only [ScalarDomain]
  · -- Int
    cases v <;> simp only [serializeInt, coerceIntFromInt, coerceIntFromFloat, coerceIntFromString] at h
    all_goals try (simp at h; done)
    · rename_i b; simp only [Out.ok.injEq] at h; subst h
      exact ⟨_, rfl, by cases b <;> simp [PyVal.boolInt]⟩
    · split at h
      · simp at h
      · rename_i hr; simp only [Out.ok.injEq] at h; subst h
        exact ⟨_, rfl, not_inIntRange (by simpa using hr)⟩
    · repeat' split at h
      all_goals try (simp at h; done)
      rename_i hr; simp only [Out.ok.injEq] at h; subst h
      exact ⟨_, rfl, not_inIntRange (by simpa using hr)⟩
    · repeat' split at h
      all_goals try (simp at h; done)
      rename_i hr; simp only [Out.ok.injEq] at h; subst h
      exact ⟨_, rfl, not_inIntRange (by simpa using hr)⟩
  · -- Float
    cases v <;> simp only [serializeFloat, coerceFloatFromFloat, coerceFloatFromInt, coerceFloatFromString] at h
    all_goals try (simp at h; done)
    · rename_i b; simp only [Out.ok.injEq] at h; subst h
      exact Or.inr ⟨_, rfl, by cases b <;> simp [PyVal.boolInt]⟩
    · rename_i z
      split at h
      · simp at h
      · rename_i num _
        cases num <;> simp only [PyFloat.toIntPy] at h
        all_goals try (simp at h; done)
        split at h
        · simp at h
        · simp only [Out.ok.injEq] at h; subst h; exact Or.inl ⟨_, _, _, rfl⟩
    · rename_i f
      split at h
      · simp at h
      · simp only [Out.ok.injEq] at h; subst h
        cases f <;> simp_all [PyFloat.isFinite]
        exact Or.inl ⟨_, _, _, rfl⟩
    · repeat' split at h
      all_goals try (simp at h; done)
      rename_i num _ hf
      simp only [Out.ok.injEq] at h; subst h
      cases num <;> simp_all [PyFloat.isFinite]
      exact Or.inl ⟨_, _, _, rfl⟩
  · -- String
    cases v <;> simp only [serializeString, coerceStringFromFloat, strOfIntPy, strOfObj] at h
    all_goals try (simp at h; done)
    all_goals repeat' split at h
    all_goals try (simp at h; done)
    all_goals (simp only [Out.ok.injEq] at h; subst h; exact ⟨_, rfl⟩)
  · -- Boolean
    cases v <;> simp only [serializeBoolean, coerceBooleanFromFloat] at h
    all_goals try (simp at h; done)
    all_goals repeat' split at h
    all_goals try (simp at h; done)
    all_goals (simp only [Out.ok.injEq] at h; subst h; exact ⟨_, rfl⟩)
  · -- ID
    cases v <;> simp only [serializeID, coerceIdFromFloat, strOfIntPy, strOfObj] at h
    all_goals try (simp at h; done)
    all_goals repeat' split at h
    all_goals try (simp at h; done)
    all_goals (simp only [Out.ok.injEq] at h; subst h; exact ⟨_, rfl⟩)

/-- C16-1 (enum). Whatever value a resolver returns — hashable (dict lookup, with Python's
`True == 1 == 1.0` collisions) or unhashable (scan) — the result is one of the enum's value
names, or an error. -/
theorem enum_domain (e : EnumType) (v r : PyVal) (h : e.coerceOutputValue v = .ok r) :
    EnumDomain e r := by
  obtain ⟨name, w, hr, hm, _⟩ := EnumType.coerceOutputValue_ok h
  exact ⟨name, hr, by simp only [EnumType.names, List.mem_map]; exact ⟨(name, w), hm, rfl⟩⟩

/-- C16-1 at `complete_leaf_value`: a completed leaf lies in its type's domain … -/
theorem complete_leaf_domain (c : PyConv) (t : Leaf) (v r : PyVal)
    (h : completeLeafValue c t v = .ok r) : LeafDomain t r := by
  unfold completeLeafValue at h
  split at h
  · rename_i w hw
    split at h
    · simp at h
    · simp only [Out.ok.injEq] at h; subst h
      cases t with
      | scalar s => exact serialize_domain c s v _ hw
      | enum e => exact enum_domain e v _ hw
  · simp at h
  · simp at h

/-- … and its `TypeError` branch ("coerce_output_value returned None/Undefined") is dead code
for built-in scalars and enums: every exception of `complete_leaf_value` is the coercer's own. -/
theorem complete_leaf_crash_is_coercers (c : PyConv) (t : Leaf) (v : PyVal) (k : String)
    (h : completeLeafValue c t v = .crash k) : t.coerceOutputValue c v = .crash k := by
  unfold completeLeafValue at h
  split at h
  · rename_i w hw
    split at h
    · rename_i hn
      have hd : LeafDomain t w := by
        cases t with
        | scalar s => exact serialize_domain c s v _ hw
        | enum e => exact enum_domain e v _ hw
      exfalso
      cases t with
      | scalar s =>
        cases s <;> simp only [LeafDomain, ScalarDomain, IntDomain, FloatDomain, TextDomain, BoolDomain] at hd
        · obtain ⟨n, rfl, _⟩ := hd; simp [PyVal.isNullish] at hn
        · rcases hd with ⟨_, _, _, rfl⟩ | ⟨n, rfl, _⟩ <;> simp [PyVal.isNullish] at hn
        · obtain ⟨n, rfl⟩ := hd; simp [PyVal.isNullish] at hn
        · obtain ⟨n, rfl⟩ := hd; simp [PyVal.isNullish] at hn
        · obtain ⟨n, rfl⟩ := hd; simp [PyVal.isNullish] at hn
      | enum e =>
        obtain ⟨n, rfl, _⟩ := hd; simp [PyVal.isNullish] at hn
    · simp at h
  · simp at h
  · rename_i k' hk; simp only [Out.crash.injEq] at h; subst h; exact hk

/-- C16-2. Int never loses precision silently: an emitted integer is exactly the number the
resolver returned (bool as 0/1, int, integral float), or exactly what `int(str)` read. -/
theorem serializeInt_exact (c : PyConv) (v : PyVal) (n : Int)
    (h : serializeInt c v = .ok (.int n)) :
    numEqInt v n ∨ ∃ s, v = .str s ∧ c.intOfStr s = some n := by
  cases v <;> simp only [serializeInt, coerceIntFromInt, coerceIntFromFloat, coerceIntFromString] at h
  all_goals try (simp at h; done)
  · left; simpa [numEqInt] using h
  · left
    split at h
    · simp at h
    · simpa [numEqInt] using h
  · left
    rename_i f
    repeat' split at h
    all_goals try (simp at h; done)
    simp only [Out.ok.injEq, PyVal.int.injEq] at h
    simp_all [numEqInt, PyFloat.eqInt]
  · right
    rename_i s
    repeat' split at h
    all_goals try (simp at h; done)
    rename_i num hnum _
    simp only [Out.ok.injEq, PyVal.int.injEq] at h
    subst h
    exact ⟨s, rfl, hnum⟩

/-- C16-2. Float of an `int`: by the code's own `int(num) != value` test, for *any* behaviour
of `float(int)`, an emitted float is finite and truncates back to the integer … -/
theorem serializeFloat_int_exact (c : PyConv) (z : Int) (r : PyVal)
    (h : serializeFloat c (.int z) = .ok r) :
    ∃ f, r = .float f ∧ f.isFinite = true ∧ f.truncInt = z := by
  simp only [serializeFloat, coerceFloatFromInt] at h
  split at h
  · simp at h
  · rename_i num _
    cases num <;> simp only [PyFloat.toIntPy] at h
    all_goals try (simp at h; done)
    split at h
    · simp at h
    · rename_i hz
      simp only [Out.ok.injEq] at h
      subst h
      exact ⟨_, rfl, rfl, by simpa using hz⟩

/-- … and, `float(int)` being a whole number (law `floatOfInt_integral`), it *is* the integer:
integers beyond 2^53 that a double cannot hold are refused, not rounded. -/
theorem serializeFloat_int_lossless (c : PyConv) (hc : c.Laws) (z : Int) (r : PyVal)
    (h : serializeFloat c (.int z) = .ok r) : ∃ f, r = .float f ∧ f.eqInt z = true := by
  obtain ⟨f, hr, hfin, htr⟩ := serializeFloat_int_exact c z r h
  refine ⟨f, hr, ?_⟩
  subst hr
  simp only [serializeFloat, coerceFloatFromInt] at h
  split at h
  · simp at h
  · rename_i num hnum
    have hi := hc.floatOfInt_integral z num hnum
    cases hn : num.toIntPy <;> rw [hn] at h
    · simp only at h
      split at h
      · simp at h
      · simp only [Out.ok.injEq, PyVal.float.injEq] at h
        subst h
        simp [PyFloat.eqInt, hfin, hi, htr]
    · simp at h
    · simp at h

/-- C16-2. A float is emitted as Float unchanged; as Int/ID only when it is a whole number;
as Boolean by comparison with zero; an int is emitted as String/ID by `str(int)` in full. -/
theorem float_and_int_faithful (c : PyConv) (f : PyFloat) (z : Int) (r : PyVal) :
    (serializeFloat c (.float f) = .ok r → r = .float f) ∧
    (serializeID c (.float f) = .ok r → f.isIntegral = true ∧ c.strOfInt f.truncInt = some (match r with | .str s => s | _ => [])) ∧
    (serializeBoolean (.int z) = .ok r → r = .bool (z ≠ 0)) ∧
    (serializeString c (.int z) = .ok r → ∃ s, c.strOfInt z = some s ∧ r = .str s) ∧
    (serializeID c (.int z) = .ok r → ∃ s, c.strOfInt z = some s ∧ r = .str s) := by
  refine ⟨?_, ?_, ?_, ?_, ?_⟩
  · intro h
    simp only [serializeFloat, coerceFloatFromFloat] at h
    split at h <;> simp_all
  · intro h
    simp only [serializeID, coerceIdFromFloat, strOfIntPy] at h
    repeat' split at h
    all_goals try (simp at h; done)
    simp only [Out.ok.injEq] at h
    subst h
    simp_all
  · intro h
    simpa [serializeBoolean, eq_comm] using h
  · intro h
    simp only [serializeString, strOfIntPy] at h
    split at h
    · simp at h
    · rename_i s hs; exact ⟨s, hs, by simpa [eq_comm] using h⟩
  · intro h
    simp only [serializeID, strOfIntPy] at h
    split at h
    · simp at h
    · rename_i s hs; exact ⟨s, hs, by simpa [eq_comm] using h⟩

/-- C16-3. serialize-then-parse: a value a built-in scalar emits is accepted by the same
type's input coercion, and coerces to a value Python-equal to it (identical except for the
`1`/`0` that Float emits for a bool, which comes back as `1.0`/`0.0`). -/
theorem serialize_then_parse (c : PyConv) (hc : c.Laws) (s : Scalar) (v r : PyVal)
    (h : s.serialize c v = .ok r) :
    ∃ r', s.coerceValue c r = .ok r' ∧ PyVal.pyEq r r' = true ∧ (s ≠ .float → r' = r) := by
  have hd := serialize_domain c s v r h
  cases s <;> simp only [ScalarDomain, IntDomain, FloatDomain, TextDomain, BoolDomain] at hd
  · obtain ⟨n, rfl, hn⟩ := hd
    refine ⟨.int n, ?_, by simp [PyVal.pyEq], fun _ => rfl⟩
    have : inIntRange n = true := (inIntRange_iff n).2 hn
    simp [Scalar.coerceValue, coerceInt, coerceIntFromInt, this]
  · rcases hd with ⟨neg, m, e, rfl⟩ | ⟨n, rfl, hn⟩
    · refine ⟨.float (.fin neg m e), by simp [Scalar.coerceValue, coerceFloat, coerceFloatFromFloat, PyFloat.isFinite], ?_, by simp⟩
      simp only [PyVal.pyEq, PyFloat.eqFloat]
      split <;> simp_all
    · -- only `1`/`0` are ever emitted as ints
      cases v <;> simp only [Scalar.serialize, serializeFloat, coerceFloatFromFloat, coerceFloatFromInt, coerceFloatFromString] at h
      all_goals try (simp at h; done)
      · rename_i b
        simp only [Out.ok.injEq, PyVal.int.injEq] at h
        subst h
        have h0 : c.floatOfInt 0 = some (.fin false 0 0) := by
          have := hc.floatOfInt_small 0 (by decide) (by decide)
          simpa [PyFloat.ofInt] using this
        have h1 : c.floatOfInt 1 = some (.fin false 1 0) := by
          have := hc.floatOfInt_small 1 (by decide) (by decide)
          simpa [PyFloat.ofInt] using this
        cases b
        · refine ⟨.float (.fin false 0 0), ?_, by decide, by simp⟩
          simp [Scalar.coerceValue, coerceFloat, coerceFloatFromInt, PyVal.boolInt, h0, PyFloat.toIntPy, PyFloat.truncInt, PyFloat.truncMag, PyFloat.signed]
        · refine ⟨.float (.fin false 1 0), ?_, by decide, by simp⟩
          simp [Scalar.coerceValue, coerceFloat, coerceFloatFromInt, PyVal.boolInt, h1, PyFloat.toIntPy, PyFloat.truncInt, PyFloat.truncMag, PyFloat.signed]
      · exfalso
        split at h
        · simp at h
        · rename_i num _
          cases num <;> simp only [PyFloat.toIntPy] at h
          all_goals try (simp at h; done)
          split at h <;> simp at h
      · exfalso; split at h <;> simp at h
      · exfalso; repeat' split at h
        all_goals simp at h
  · obtain ⟨t, rfl⟩ := hd
    exact ⟨.str t, by simp [Scalar.coerceValue, coerceString], by simp [PyVal.pyEq], fun _ => rfl⟩
  · obtain ⟨b, rfl⟩ := hd
    exact ⟨.bool b, by simp [Scalar.coerceValue, coerceBoolean], by simp [PyVal.pyEq], fun _ => rfl⟩
  · obtain ⟨t, rfl⟩ := hd
    exact ⟨.str t, by simp [Scalar.coerceValue, coerceID], by simp [PyVal.pyEq], fun _ => rfl⟩

/-- C16-3 (enum). The emitted name is accepted by the enum's input coercion and gives back an
internal value that is `==` the value the resolver returned (or, for a value defined as
`None`/`Undefined`, whose name is `==` it — such values are looked up by name). -/
theorem enum_serialize_then_parse (e : EnumType) (hnd : e.names.Nodup) (v r : PyVal)
    (h : e.coerceOutputValue v = .ok r) :
    ∃ name w, r = .str name ∧ e.coerceInputValue r = .ok w ∧
      (PyVal.pyEq w v = true ∨ (w.isNullish = true ∧ PyVal.pyEq (.str name) v = true)) := by
  obtain ⟨name, w, hr, hm, hq⟩ := EnumType.coerceOutputValue_ok h
  have hg : e.valueOf name = some w := EnumType.dictGet_of_mem_nodup hnd hm
  refine ⟨name, w, hr, by subst hr; simp [EnumType.coerceInputValue, hg], ?_⟩
  rcases hq with hq | hq
  · unfold EnumType.norm at hq
    split at hq
    · rename_i hn; exact Or.inr ⟨hn, hq⟩
    · exact Or.inl hq
  · exact Or.inl hq

/-- C16-4. Where an exception other than `GraphQLError` can come from: never from Int or
Boolean; from Float only if `float(int)` returned inf/nan (excluded by law
`floatOfInt_finite`); from String/ID only out of `str(int)` (CPython's digit limit) or out of
the object's own `__str__`. -/
theorem crash_sources (c : PyConv) (s : Scalar) (v : PyVal) (k : String)
    (h : s.serialize c v = .crash k) :
    (s = .float ∧ ∃ z f, v = .int z ∧ c.floatOfInt z = some f ∧ f.isFinite = false) ∨
    ((s = .string ∨ s = .id) ∧
      ((∃ z, c.strOfInt z = none ∧ (v = .int z ∨ ∃ f, v = .float f ∧ f.truncInt = z)) ∨
       ∃ o, v = .other o ∧ o.builtin = false ∧ o.strResult = none)) := by
  cases s <;> simp only [Scalar.serialize] at h
  · exfalso
    cases v <;> simp only [serializeInt, coerceIntFromInt, coerceIntFromFloat, coerceIntFromString] at h
    all_goals repeat' split at h
    all_goals simp at h
  · left
    cases v <;> simp only [serializeFloat, coerceFloatFromFloat, coerceFloatFromInt, coerceFloatFromString] at h
    all_goals try (simp at h; done)
    · rename_i z
      split at h
      · simp at h
      · rename_i num hnum
        refine ⟨rfl, z, num, rfl, hnum, ?_⟩
        cases num <;> simp only [PyFloat.toIntPy] at h
        · rfl
        · rfl
        · split at h <;> simp at h
    · split at h <;> simp at h
    · repeat' split at h
      all_goals simp at h
  · right
    refine ⟨Or.inl rfl, ?_⟩
    cases v <;> simp only [serializeString, coerceStringFromFloat, strOfIntPy, strOfObj] at h
    all_goals try (simp at h; done)
    · rename_i z
      split at h
      · rename_i hz; exact Or.inl ⟨z, hz, Or.inl rfl⟩
      · simp at h
    · split at h <;> simp at h
    · rename_i o
      repeat' split at h
      all_goals try (simp at h; done)
      exact Or.inr ⟨o, rfl, by simp_all, by assumption⟩
  · exfalso
    cases v <;> simp only [serializeBoolean, coerceBooleanFromFloat] at h
    all_goals repeat' split at h
    all_goals simp at h
  · right
    refine ⟨Or.inr rfl, ?_⟩
    cases v <;> simp only [serializeID, coerceIdFromFloat, strOfIntPy, strOfObj] at h
    all_goals try (simp at h; done)
    · rename_i z
      split at h
      · rename_i hz; exact Or.inl ⟨z, hz, Or.inl rfl⟩
      · simp at h
    · rename_i f
      repeat' split at h
      all_goals try (simp at h; done)
      rename_i hz
      exact Or.inl ⟨f.truncInt, hz, Or.inr ⟨f, rfl, rfl⟩⟩
    · rename_i o
      repeat' split at h
      all_goals try (simp at h; done)
      exact Or.inr ⟨o, rfl, by simp_all, by assumption⟩

/-- C16-4. The enum coercer never raises anything but `GraphQLError`. -/
theorem enum_no_crash (e : EnumType) (v : PyVal) : ¬ (e.coerceOutputValue v).isCrash := by
  unfold EnumType.coerceOutputValue
  repeat' split
  all_goals simp [Out.isCrash]

/-! ### Non-vacuity: concrete inputs on every interesting branch -/

/-- a conversion table good enough for the examples below -/
def exConv : PyConv where
  intOfStr := fun s => if s = [49, 95, 48] then some 10 else none          -- int('1_0') = 10
  floatOfStr := fun s => if s = [49, 101, 52, 48, 48] then some (.inf false) else none  -- float('1e400') = inf
  floatOfInt := fun z => if z.natAbs ≤ 2 ^ 53 then some (PyFloat.ofInt z)
    else if z = 2 ^ 53 + 1 then some (.fin false 1 53) else none
  strOfFloat := fun _ => [48, 46, 53]
  strOfInt := fun z => if z = 7 then some [55] else none

-- Int: 2^31 refused, -2^31 kept, 1.5 refused, 3.0 = fin 3·2^0 kept as 3, '1_0' read as 10, True is 1
example : serializeInt exConv (.int (2 ^ 31)) = .err () ∧ serializeInt exConv (.int (-(2 ^ 31))) = .ok (.int (-(2 ^ 31)))
    ∧ serializeInt exConv (.float (.fin false 3 (-1))) = .err ()
    ∧ serializeInt exConv (.float (.fin false 3 0)) = .ok (.int 3)
    ∧ serializeInt exConv (.str [49, 95, 48]) = .ok (.int 10)
    ∧ serializeInt exConv (.bool true) = .ok (.int 1) := by
  repeat' apply And.intro
  all_goals first | rfl | decide
-- Float: 2^53+1 rounds to 2^53 and is refused (precision), '1e400' overflows to inf and is refused
example : serializeFloat exConv (.int (2 ^ 53 + 1)) = .err ()
    ∧ serializeFloat exConv (.int (2 ^ 53)) = .ok (.float (.fin false (2 ^ 53) 0))
    ∧ serializeFloat exConv (.str [49, 101, 52, 48, 48]) = .err ()
    ∧ serializeFloat exConv (.float .nan) = .err () := by
  repeat' apply And.intro
  all_goals first | rfl | decide
-- the hypotheses of `serialize_then_parse` hold for Float on `True`
example : Scalar.float.serialize exConv (.bool true) = .ok (.int 1) ∧
    Scalar.float.coerceValue exConv (.int 1) = .ok (.float (.fin false 1 0)) := by
  repeat' apply And.intro
  all_goals first | rfl | decide
-- enum with the `True`/`1`/`1.0` collision, a `None` value and an unhashable value
def exEnum : EnumType :=
  ⟨[([65], .int 1), ([66], .bool true), ([67], .none), ([68], .list [.int 1])]⟩
example : exEnum.coerceOutputValue (.bool true) = .ok (.str [65])
    ∧ exEnum.coerceOutputValue (.float (.fin false 1 0)) = .ok (.str [65])
    ∧ exEnum.coerceOutputValue (.str [67]) = .ok (.str [67])
    ∧ exEnum.coerceOutputValue (.list [.bool true]) = .ok (.str [68])
    ∧ exEnum.coerceOutputValue (.list []) = .err ()
    ∧ exEnum.coerceOutputValue (.int 2) = .err ()
    ∧ exEnum.names.Nodup := by
  repeat' apply And.intro
  all_goals first | rfl | decide
-- the crash sources exist: `str()` of an object whose `__str__` raises
example : serializeString exConv (.other ⟨0, false, none⟩) = .crash "Exception"
    ∧ serializeString exConv (.int 8) = .crash "ValueError" := by
  repeat' apply And.intro
  all_goals first | rfl | decide

end Gql.Props.C16
