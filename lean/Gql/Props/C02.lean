/-
C02 — Execution computes exactly what the specification's algorithm computes.

Models: `Gql/Exec/ImplExec.lean` (the synchronous executor, state and exceptions explicit) and
`Gql/Exec/SpecExec.lean` (GraphQL October 2021 §6 as pure structural recursion).  Both are
parametric in the value layer `Ops` (leaf output coercion, literal input coercion — C15/C16); the
only law needed is `OpsOk` (a variable without a runtime value is not coercible at a Non-Null
type), which the driver's instance satisfies (`concrete_ops_ok`).

All statements are for every schema, document, operation name, coerced variable values and data
graph (`RVal`, whose object nodes are arbitrary resolver *functions*) — no size bound, no
validity hypothesis (validation only matters for the reading of the spec's silent points, see the
header of SpecExec.lean).
-/
import Gql.Proofs.ExecProps

namespace Gql.Props.C02
open Gql Gql.Exec Gql.Exec.Refine

/-- **C02-1 (refinement).** The implementation model's response — `data` with its keys in order,
the ordered list of errors (path and kind), and the resolver call log — equals the response of
the specification's algorithm.  In particular the model never crashes: the `IndexError` on an
empty field group and the exhaustion of the fragment-recursion fuel are unreachable, and the
ancestor filter of `CollectedErrors.add` never drops an error. -/
theorem impl_eq_spec (ops : Ops) (hops : OpsOk ops) (s : Schema) (doc : Doc)
    (opName : Option Name) (vars : Vars) (root : RVal) :
    (Impl.executeRequest ops s doc opName vars root []).1 =
      .ok (Spec.executeRequest ops s doc opName vars root) := by
  obtain ⟨dm', _, h⟩ := refines_from ops hops s doc opName vars root []
    (by intro e he; cases he)
  rw [h]

/-- C02-1, crash freedom spelled out. -/
theorem impl_no_crash (ops : Ops) (hops : OpsOk ops) (s : Schema) (doc : Doc)
    (opName : Option Name) (vars : Vars) (root : RVal) :
    (Impl.executeRequest ops s doc opName vars root []).1.isCrash = false := by
  rw [impl_eq_spec ops hops]; rfl

/-- Termination of CollectFields on every document (fragment cycles included): the fuel
`doc.frags.length + 1` is never exhausted; the measure is the number of unvisited fragment
definitions. -/
theorem collect_terminates (scx : Spec.Ctx) (rt : Name) (sels : List Selection) (c : String) :
    Spec.collectFields scx rt sels ≠ .crash c :=
  collectFields_noCrash scx rt sels c

/-- **C02-4 (history independence).** Running any list of requests one after the other on the
same schema, threading the only state that survives a request (the memo of coerced argument
defaults), gives exactly the responses each request gives from the initial state.  (Within a
request the sub-selection memo is covered by `impl_eq_spec`: every memo entry equals
recomputation, `collectSubfieldsM_spec`.) -/
theorem history_independent (ops : Ops) (hops : OpsOk ops) (s : Schema) (rs : List Impl.Request) :
    Impl.runAll ops s rs [] =
      rs.map (fun r => (Impl.executeRequest ops s r.doc r.opName r.vars r.root []).1) := by
  rw [runAll_eq ops hops s rs [] (by intro e he; cases he)]
  apply List.map_congr_left
  intro r _
  rw [impl_eq_spec ops hops]

/-- **C02-3 (arguments).** Every resolver invocation of the implementation model — the call log
is, entry by entry, the specification's depth-first invocation sequence (`impl_eq_spec`) — is an
invocation of a field defined on its parent type and carries exactly
`CoerceArgumentValues(fieldDefinition, arguments of a field node of that name, variableValues)`:
defaults for absent arguments and absent variables, variable values, coerced literals. -/
theorem args_as_coerced (ops : Ops) (hops : OpsOk ops) (s : Schema) (doc : Doc)
    (opName : Option Name) (vars : Vars) (root : RVal) (resp : Resp)
    (h : (Impl.executeRequest ops s doc opName vars root []).1 = .ok resp) :
    resp.log = (Spec.executeRequest ops s doc opName vars root).log ∧
    ∀ c ∈ resp.log, ∃ (fdef : FieldDef) (node : FieldNode),
      s.getField c.parent c.field = some fdef ∧ node.name = c.field ∧
      Spec.coerceArgumentValues { ops := ops, schema := s, doc := doc, vars := vars }
        node.args fdef.args [] = some c.args := by
  rw [impl_eq_spec ops hops] at h
  cases h
  exact ⟨rfl, spec_calls_ok ops s doc opName vars root⟩

/-- full statement of the second half of C02-3 that is not proved: every field present in `data`
was invoked exactly once (one log entry per response position that is not `__typename`). -/
def args_invoked_once_full : Prop :=
  ∀ (ops : Ops) (_ : OpsOk ops) (s : Schema) (doc : Doc) (opName : Option Name) (vars : Vars)
    (root : RVal),
    let r := Spec.executeRequest ops s doc opName vars root
    (r.log.map (·.path)).Nodup

/-- **C02-2 (nulls), proved part.** `data` and the ordered error list of the implementation model
are the specification's (so a position is `null` exactly where the specification's algorithm
nulls it, and the errors are exactly the specification's, in order); `data = null` only together
with at least one error.  Missing: the characterisation of the specification's own output stated
in `errors_account_for_nulls_full`. -/
theorem null_exactly_where_spec_partial (ops : Ops) (hops : OpsOk ops) (s : Schema) (doc : Doc)
    (opName : Option Name) (vars : Vars) (root : RVal) (resp : Resp)
    (h : (Impl.executeRequest ops s doc opName vars root []).1 = .ok resp) :
    resp.data = (Spec.executeRequest ops s doc opName vars root).data ∧
    resp.errors = (Spec.executeRequest ops s doc opName vars root).errors ∧
    (resp.data = .null → resp.errors ≠ []) := by
  rw [impl_eq_spec ops hops] at h
  cases h
  exact ⟨rfl, rfl, spec_null_has_error ops s doc opName vars root⟩

/-- the value at a response path -/
def Json.at? : Json → List PSeg → Option Json
  | j, [] => some j
  | .obj kvs, .key k :: rest =>
    match kvs.lookup k with
    | some v => Json.at? v rest
    | none => none
  | .list xs, .idx i :: rest =>
    match xs[i]? with
    | some v => Json.at? v rest
    | none => none
  | _, _ => none

/-- Full statement of C02-2 that is not proved: every error with a path accounts for a nulled
position — the longest prefix of its path that is present in `data` holds `null`. -/
def errors_account_for_nulls_full : Prop :=
  ∀ (ops : Ops) (s : Schema) (doc : Doc) (opName : Option Name) (vars : Vars) (root : RVal),
    let r := Spec.executeRequest ops s doc opName vars root
    ∀ e ∈ r.errors, ∀ p, e.path = some p →
      ∃ q, q <+: p ∧ Json.at? r.data q = some .null ∧
        ∀ q', q' <+: p → q.length < q'.length → Json.at? r.data q' = none

/-! ### non-vacuity: a concrete schema, document and data graph (abstract type, list of non-null
items with a null inside, alias, fragment cycle) -/

def exSchema : Schema :=
  { query := "Query", mutation := none,
    types := [
      .object "Query" [] [⟨"node", [⟨"x", .named "Int" false, some (.int 5)⟩], .named "Node" false⟩],
      .iface "Node" [] [⟨"id", [], .named "ID" true⟩],
      .object "A" ["Node"] [⟨"id", [], .named "ID" true⟩, ⟨"ls", [], .list (.named "Int" true) false⟩]] }

def exDoc : Doc :=
  { ops := [{ kind := .query, name := none, vars := [],
              sels := [.field (some "n") "node" [] [] [.spread "F" [], .field none "id" [] [] []]] }],
    frags := [{ name := "F", cond := "A",
                sels := [.field none "ls" [] [] [], .spread "F" []] }] }

def exData : RVal :=
  .obj .missing (fun f args =>
    if f == "node" && ArgMap.beq args [("x", .int 5)] then
      .obj (.name "A") (fun g _ =>
        if g == "id" then .leaf (.int 7)
        else if g == "ls" then .list [.leaf (.int 1), .null]
        else .null)
    else .null)

def exResp : Resp := Spec.executeRequest Concrete.ops exSchema exDoc none [] exData

example : exResp.errors = [⟨some [.key "n", .key "ls", .idx 1], .nullNonNull⟩] := by decide
example : exResp.log.map (·.path) = [[.key "n"], [.key "n", .key "ls"], [.key "n", .key "id"]] := by
  decide
example : (exResp.log.map (·.args)).head?.map (ArgMap.beq [("x", PyVal.int 5)]) = some true := by
  decide
example : (Impl.executeRequest Concrete.ops exSchema exDoc none [] exData []).1 = .ok exResp :=
  impl_eq_spec Concrete.ops concrete_ops_ok exSchema exDoc none [] exData
example : (Impl.runAll Concrete.ops exSchema
    [⟨exDoc, none, [], exData⟩, ⟨exDoc, none, [], exData⟩] []).length = 2 := by
  simp [history_independent Concrete.ops concrete_ops_ok]

end Gql.Props.C02
