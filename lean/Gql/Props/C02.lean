/-
C02 — Execution computes exactly what the specification's algorithm computes.

Models: `Gql/Exec/ImplExec.lean` (the synchronous executor, state and exceptions explicit) and
`Gql/Exec/SpecExec.lean` (GraphQL October 2021 §6 as pure structural recursion).  Both are
parametric in the value layer `Ops` (leaf output coercion, literal input coercion — C15/C16); the
only law needed is `OpsOk` (a variable without a runtime value is not coercible at a Non-Null
type), which the driver's instance satisfies (`concrete_ops_ok`).

All statements are for every schema, document, operation name, coerced variable values and data
graph (`RVal`, whose object nodes are arbitrary resolver *functions*) — no size bound, no
validity hypothesis (validation only matters for the reading of the spec's silent points, see the
header of SpecExec.lean).
-/
import Gql.Proofs.ExecProps
import Gql.Proofs.SpecLog
import Gql.Proofs.SpecNulls

namespace Gql.Props.C02
open Gql Gql.Exec Gql.Exec.Refine

/-- **C02-1 (refinement).** The implementation model's response — `data` with its keys in order,
the ordered list of errors (path and kind), and the resolver call log — equals the response of
the specification's algorithm.  In particular the model never crashes: the `IndexError` on an
empty field group and the exhaustion of the fragment-recursion fuel are unreachable, and the
ancestor filter of `CollectedErrors.add` never drops an error. -/
theorem impl_eq_spec (ops : Ops) (hops : OpsOk ops) (s : Schema) (doc : Doc)
    (opName : Option Name) (vars : Vars) (root : RVal) :
    (Impl.executeRequest ops s doc opName vars root []).1 =
      .ok (Spec.executeRequest ops s doc opName vars root) := by
  obtain ⟨dm', _, h⟩ := refines_from ops hops s doc opName vars root []
    (by intro e he; cases he)
  rw [h]

/-- C02-1, crash freedom spelled out. -/
theorem impl_no_crash (ops : Ops) (hops : OpsOk ops) (s : Schema) (doc : Doc)
    (opName : Option Name) (vars : Vars) (root : RVal) :
    (Impl.executeRequest ops s doc opName vars root []).1.isCrash = false := by
  rw [impl_eq_spec ops hops]; rfl

/-- Termination of CollectFields on every document (fragment cycles included): the fuel
`doc.frags.length + 1` is never exhausted; the measure is the number of unvisited fragment
definitions. -/
theorem collect_terminates (scx : Spec.Ctx) (rt : Name) (sels : List Selection) (c : String) :
    Spec.collectFields scx rt sels ≠ .crash c :=
  collectFields_noCrash scx rt sels c

/-- **C02-4 (history independence).** Running any list of requests one after the other on the
same schema, threading the only state that survives a request (the memo of coerced argument
defaults), gives exactly the responses each request gives from the initial state.  (Within a
request the sub-selection memo is covered by `impl_eq_spec`: every memo entry equals
recomputation, `collectSubfieldsM_spec`.) -/
theorem history_independent (ops : Ops) (hops : OpsOk ops) (s : Schema) (rs : List Impl.Request) :
    Impl.runAll ops s rs [] =
      rs.map (fun r => (Impl.executeRequest ops s r.doc r.opName r.vars r.root []).1) := by
  rw [runAll_eq ops hops s rs [] (by intro e he; cases he)]
  apply List.map_congr_left
  intro r _
  rw [impl_eq_spec ops hops]

/-- **C02-3 (arguments).** Every resolver invocation of the implementation model — the call log
is, entry by entry, the specification's depth-first invocation sequence (`impl_eq_spec`) — is an
invocation of a field defined on its parent type and carries exactly
`CoerceArgumentValues(fieldDefinition, arguments of a field node of that name, variableValues)`:
defaults for absent arguments and absent variables, variable values, coerced literals. -/
theorem args_as_coerced (ops : Ops) (hops : OpsOk ops) (s : Schema) (doc : Doc)
    (opName : Option Name) (vars : Vars) (root : RVal) (resp : Resp)
    (h : (Impl.executeRequest ops s doc opName vars root []).1 = .ok resp) :
    resp.log = (Spec.executeRequest ops s doc opName vars root).log ∧
    ∀ c ∈ resp.log, ∃ (fdef : FieldDef) (node : FieldNode),
      s.getField c.parent c.field = some fdef ∧ node.name = c.field ∧
      Spec.coerceArgumentValues { ops := ops, schema := s, doc := doc, vars := vars }
        node.args fdef.args [] = some c.args := by
  rw [impl_eq_spec ops hops] at h
  cases h
  exact ⟨rfl, spec_calls_ok ops s doc opName vars root⟩

/-- **C02-3, second half (every field is invoked exactly once).**  The resolver invocations of a
request happen at pairwise distinct response positions: no field position is resolved twice
(response keys of a grouped field set are distinct, list indices are distinct, and a field's own
invocation precedes those below it). -/
theorem args_invoked_once (ops : Ops) (hops : OpsOk ops) (s : Schema) (doc : Doc)
    (opName : Option Name) (vars : Vars) (root : RVal) (resp : Resp)
    (h : (Impl.executeRequest ops s doc opName vars root []).1 = .ok resp) :
    (resp.log.map (·.path)).Nodup := by
  rw [impl_eq_spec ops hops] at h
  cases h
  exact executeRequest_log_nodup ops s doc opName vars root

/-- **C02-2 (nulls).** `data` and the ordered error list of the implementation model are the
specification's (a position is `null` exactly where the specification's algorithm nulls it, the
errors are exactly the specification's, in order); `data = null` only together with at least one
error; and the errors account for the nulled positions: for every error with a path, the longest
prefix of that path which is present in `data` holds `null` (the field itself when it is
nullable, else the nearest nullable ancestor, else `data`).  The last part is for data graphs
whose raising resolvers do not bring an error that already carries a foreign path
(`NoOwnPath`; such an error is reported under its own path by design). -/
theorem null_exactly_where_spec (ops : Ops) (hops : OpsOk ops) (s : Schema) (doc : Doc)
    (opName : Option Name) (vars : Vars) (root : RVal) (resp : Resp)
    (h : (Impl.executeRequest ops s doc opName vars root []).1 = .ok resp) :
    resp.data = (Spec.executeRequest ops s doc opName vars root).data ∧
    resp.errors = (Spec.executeRequest ops s doc opName vars root).errors ∧
    (resp.data = .null → resp.errors ≠ []) ∧
    (NoOwnPath root → ∀ e ∈ resp.errors, ∀ p, e.path = some p →
      ∃ q, q <+: p ∧ Json.at? resp.data q = some .null ∧
        ∀ q', q' <+: p → q.length < q'.length → Json.at? resp.data q' = none) := by
  rw [impl_eq_spec ops hops] at h
  cases h
  exact ⟨rfl, rfl, spec_null_has_error ops s doc opName vars root,
    fun hr => executeRequest_accounts ops s doc opName vars root hr⟩

/-! ### non-vacuity: a concrete schema, document and data graph (abstract type, list of non-null
items with a null inside, alias, fragment cycle) -/

def exSchema : Schema :=
  { query := "Query", mutation := none,
    types := [
      .object "Query" [] [⟨"node", [⟨"x", .named "Int" false, some (.int 5)⟩], .named "Node" false⟩],
      .iface "Node" [] [⟨"id", [], .named "ID" true⟩],
      .object "A" ["Node"] [⟨"id", [], .named "ID" true⟩, ⟨"ls", [], .list (.named "Int" true) false⟩]] }

def exDoc : Doc :=
  { ops := [{ kind := .query, name := none, vars := [],
              sels := [.field (some "n") "node" [] [] [.spread "F" [], .field none "id" [] [] []]] }],
    frags := [{ name := "F", cond := "A",
                sels := [.field none "ls" [] [] [], .spread "F" []] }] }

def exData : RVal :=
  .obj .missing (fun f args =>
    if f == "node" && ArgMap.beq args [("x", .int 5)] then
      .obj (.name "A") (fun g _ =>
        if g == "id" then .leaf (.int 7)
        else if g == "ls" then .list [.leaf (.int 1), .null]
        else .null)
    else .null)

def exResp : Resp := Spec.executeRequest Concrete.ops exSchema exDoc none [] exData

example : exResp.errors = [⟨some [.key "n", .key "ls", .idx 1], .nullNonNull⟩] := by decide
example : exResp.log.map (·.path) = [[.key "n"], [.key "n", .key "ls"], [.key "n", .key "id"]] := by
  decide
example : (exResp.log.map (·.args)).head?.map (ArgMap.beq [("x", PyVal.int 5)]) = some true := by
  decide
example : (Impl.executeRequest Concrete.ops exSchema exDoc none [] exData []).1 = .ok exResp :=
  impl_eq_spec Concrete.ops concrete_ops_ok exSchema exDoc none [] exData
example : (Impl.runAll Concrete.ops exSchema
    [⟨exDoc, none, [], exData⟩, ⟨exDoc, none, [], exData⟩] []).length = 2 := by
  simp [history_independent Concrete.ops concrete_ops_ok]

example : (exResp.log.map (·.path)).Nodup := by decide
/-- the error at `n.ls[1]` is accounted for: `n.ls` (the nearest nullable ancestor) is `null` -/
example : (match Json.at? exResp.data [.key "n", .key "ls"] with
    | some .null => true
    | _ => false) = true := by decide
example : NoOwnPath exData := by
  simp only [exData, NoOwnPath]
  intro name args
  split
  · simp only [NoOwnPath]
    intro g _
    split
    · simp [NoOwnPath]
    · split <;> simp [NoOwnPath, NoOwnPathL]
  · simp [NoOwnPath]

end Gql.Props.C02
