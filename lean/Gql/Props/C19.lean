import Gql.Proofs.SchemaBuild6
import Gql.Proofs.SchemaSort2
import Gql.Proofs.SchemaExt4
/-!
# C19 — Schema transformations preserve meaning: extend equals build, sort only reorders

Property theorems only (lemmas: `Gql/Proofs/SchemaDiff1-3`, `SchemaSort1-2`, `SchemaExt1-2`,
`SchemaBuild1-6`).  Models: `Gql.Types.extendDefs` (`extend_schema`: `extend_schema_args` +
`map_schema_config`), `Gql.Types.buildFromDefs` (`build_ast_schema`), `Gql.Types.sortSchema`
(`lexicographic_sort_schema`, `natural_comparison_key`), `Gql.Types.changes`
(`find_schema_changes`).  Same level as C17: schema content and the structured definition AST;
text ⇄ definitions is C08's layer, tied here by the correspondence run of `checks/c19.py`.
-/
namespace Gql.Props.C19
open Gql Gql.Types

/-- C19-4a. Comparing any well-formed schema with itself reports no changes. -/
theorem changes_refl (s : Schema) (h : WFSchema s = true) : changes s s = [] :=
  Gql.Types.changes_refl s h

/-- C19-3a. Sorting changes only ordering: no differences are detected against the original. -/
theorem sort_only_reorders (s : Schema) (h : WFSchema s = true) : changes s (sortSchema s) = [] :=
  Gql.Types.sort_only_reorders s h

/-- C19-3b. Sorting twice equals sorting once (for every schema, well-formed or not). -/
theorem sort_idem (s : Schema) : sortSchema (sortSchema s) = sortSchema s :=
  Gql.Types.sort_idem s

/-- C19-3c. Sorting keeps the roots and the description, and every sorted list is a permutation
of the original one with its entries sorted inside (types shown; the same holds for directives). -/
theorem sort_perm (s : Schema) :
    (sortSchema s).types.Perm (s.types.map sortType) ∧ (sortSchema s).directives.Perm (s.directives.map sortDirective) ∧
    (sortSchema s).query = s.query ∧ (sortSchema s).mutation = s.mutation ∧
    (sortSchema s).subscription = s.subscription ∧ (sortSchema s).desc = s.desc :=
  ⟨sortByName_perm _ _, sortByName_perm _ _, rfl, rfl, rfl, rfl⟩

/-- The sorted lists are in natural order (the order of `natural_comparison_key`). -/
theorem sort_sorted (s : Schema) :
    (sortSchema s).types.Pairwise (fun a b => natLe a.name b.name = true) :=
  sortByName_sorted _ _

/-- C19-2. Extending with a document that adds nothing (no type-system definition or extension
at all: `extend_schema_args` returns the same kwargs object) returns the original schema. -/
theorem extend_noop (s : Schema) (defs : List Def) (h : extendReturnsSame defs = true) :
    extendDefs s defs = .ok s := by
  unfold extendReturnsSame at h
  simp [extendDefs, extendCore, h]

/-- C19-4b. Each reported change corresponds to an actual difference in the printed forms:
schemas with the same printed definitions have no reported change (uses C17's injectivity of
printing). -/
theorem change_real (a b : Schema) (ha : WFSchema a = true) (hb : WFSchema b = true)
    (h : changes a b ≠ []) : schemaToDefs a ≠ schemaToDefs b := by
  intro heq
  have h1 := Gql.Types.build_schemaToDefs a ha
  rw [heq, Gql.Types.build_schemaToDefs b hb] at h1
  cases h1
  exact h (Gql.Types.changes_refl _ ha)

/-- C19-1 (per-kind merge law). For every type, applying extension nodes `e₁` and then `e₂`
(build, then extend) is applying `e₁ ++ e₂` at once (build together): fields, interfaces,
union members, enum values, input fields and the specifiedBy URL. -/
theorem extendType_append (t : TypeDef) (e1 e2 : List TypeNode) :
    extendType t (e1 ++ e2) = andThen (extendType t e1) (fun t' => extendType t' e2) :=
  Gql.Types.extendType_append t e1 e2

/-- C19-1 (new types). A type definition built together with later extensions equals the type
built first and extended afterwards. -/
theorem buildNamedType_append (desc : Option DescNode) (node : TypeNode) (e1 e2 : List TypeNode) :
    buildNamedType desc node (e1 ++ e2) = andThen (buildNamedType desc node e1) (fun t => extendType t e2) :=
  Gql.Types.buildNamedType_append desc node e1 e2

/-- C19-1 (directives). Directive extensions compose the same way. -/
theorem extendDirective_append (x1 x2 : List (Str × List DirApp)) (d : Directive) :
    extendDirective (x1 ++ x2) d = andThen (extendDirective x1 d) (extendDirective x2) :=
  Gql.Types.extendDirective_append x1 x2 d


/-- C19-1 (extend ∘ extend). Extending a schema with `A` and then with `B` is extending it once
with `A ++ B`, for every `B` valid against the result (`ValidExt`: no schema definition in `B`,
the types `A` defines are new and distinct, `A` extends nothing that only `B` defines). -/
theorem extend_extend (s a : Schema) (A B : List Def) (hA : A.all Def.isOther = false)
    (hB : B.all Def.isOther = false) (ha : extendDefs s A = .ok a)
    (v : ValidExt s (collect A) (collect B)) : extendDefs a B = extendDefs s (A ++ B) :=
  Gql.Types.extendCore_append s a A B hA hB ha v

/-- C19-1, full statement: extending the schema built from `A` with `B` yields the same schema
as building `A` and `B` together. -/
def extend_eq_build_full : Prop :=
  ∀ (a : Schema) (A B : List Def), A.all Def.isOther = false → B.all Def.isOther = false →
    buildFromDefs A = .ok a → ValidExt Schema.empty (collect A) (collect B) →
    extendDefs a B = buildFromDefs (A ++ B)

/-- C19-1, proved part: the full statement for every base document `A` that contains a schema
definition (`schema { … }`).  Missing: base documents *without* a schema definition, where
`build_ast_schema` picks the roots by the names `Query`/`Mutation`/`Subscription` over the whole
of `A ++ B` while `extend_schema` keeps the roots of `build(A)`; there the two differ exactly when
`B` defines a type with one of those names (observation O2 of the report), and equality otherwise
is tied by the correspondence run only. -/
theorem extend_eq_build_partial (a : Schema) (A B : List Def) (hA : A.all Def.isOther = false)
    (hB : B.all Def.isOther = false) (hsd : (collect A).schemaDef.isSome = true)
    (ha : buildFromDefs A = .ok a) (v : ValidExt Schema.empty (collect A) (collect B)) :
    extendDefs a B = buildFromDefs (A ++ B) :=
  Gql.Types.extend_eq_build_of_schemaDef a A B hA hB hsd ha v

/-- `extend_schema_args` collects from `A ++ B` what it collects from `A` and from `B`. -/
theorem collect_append (A B : List Def) : collect (A ++ B) = Parts.merge (collect A) (collect B) :=
  Gql.Types.collect_append A B

-- Non-vacuity: a base document with a schema definition, an object and an enum; an extension
-- document that extends the object (new field, deprecated), extends the enum, adds a union, a
-- directive and a mutation root.
def exA : List Def := [
  .schemaDef none [] [(.query, [81])],
  .typeDef none ⟨[81], [], .object [] [⟨none, [102], [], .named [73, 110, 116], []⟩]⟩,
  .typeDef (some ⟨[100], true⟩) ⟨[69], [], .enum [⟨none, [65], []⟩]⟩]
def exB : List Def := [
  .typeExt ⟨[81], [], .object [] [⟨none, [103], [], .named [69],
    [⟨Gql.Generated.SchemaConsts.deprecatedName, []⟩]⟩]⟩,
  .typeExt ⟨[69], [], .enum [⟨none, [66], []⟩]⟩,
  .typeDef none ⟨[85], [], .union [[81], [77]]⟩,
  .typeDef none ⟨[77], [], .object [] [⟨none, [109], [], .named [85], []⟩]⟩,
  .directiveDef none [100] [] [] true [[70, 73, 69, 76, 68]],
  .schemaExt [] [(.mutation, [77])]]

example : ∃ a, buildFromDefs exA = .ok a ∧ extendDefs a exB = buildFromDefs (exA ++ exB) ∧
    (buildFromDefs (exA ++ exB)).isOk = true ∧ extendDefs a exB ≠ .ok a := by
  refine ⟨_, rfl, ?_, ?_, ?_⟩ <;> decide

example : ValidExt Schema.empty (collect exA) (collect exB) :=
  ⟨by decide, by decide, by decide, by decide, by decide⟩

-- the hypotheses of the sort / self-comparison theorems hold for the extended schema
example : ∃ a, buildFromDefs (exA ++ exB) = .ok a ∧ WFSchema a = true ∧
    changes a (sortSchema a) = [] ∧ changes a a = [] := by
  refine ⟨_, rfl, by decide, ?_, ?_⟩
  · exact sort_only_reorders _ (by decide)
  · exact changes_refl _ (by decide)

end Gql.Props.C19
