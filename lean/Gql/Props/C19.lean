import Gql.Proofs.SchemaBuild6
import Gql.Proofs.SchemaSort2
import Gql.Proofs.SchemaExt4
import Gql.Proofs.SchemaExt9
/-!
# C19 — Schema transformations preserve meaning: extend equals build, sort only reorders

Property theorems only (lemmas: `Gql/Proofs/SchemaDiff1-3`, `SchemaSort1-2`, `SchemaExt1-9`,
`SchemaBuild1-6`).  Models: `Gql.Types.extendDefs` (`extend_schema`: `extend_schema_args` +
`map_schema_config`), `Gql.Types.buildFromDefs` (`build_ast_schema`), `Gql.Types.sortSchema`
(`lexicographic_sort_schema`, `natural_comparison_key`), `Gql.Types.changes`
(`find_schema_changes`).  Same level as C17: schema content and the structured definition AST;
text ⇄ definitions is C08's layer, tied here by the correspondence run of `checks/c19.py`.
-/
namespace Gql.Props.C19
open Gql Gql.Types

/-- C19-4a. Comparing any well-formed schema with itself reports no changes. -/
theorem changes_refl (s : Schema) (h : WFSchema s = true) : changes s s = [] :=
  Gql.Types.changes_refl s h

/-- C19-3a. Sorting changes only ordering: no differences are detected against the original. -/
theorem sort_only_reorders (s : Schema) (h : WFSchema s = true) : changes s (sortSchema s) = [] :=
  Gql.Types.sort_only_reorders s h

/-- C19-3b. Sorting twice equals sorting once (for every schema, well-formed or not). -/
theorem sort_idem (s : Schema) : sortSchema (sortSchema s) = sortSchema s :=
  Gql.Types.sort_idem s

/-- C19-3c. Sorting keeps the roots and the description, and every sorted list is a permutation
of the original one with its entries sorted inside (types shown; the same holds for directives). -/
theorem sort_perm (s : Schema) :
    (sortSchema s).types.Perm (s.types.map sortType) ∧ (sortSchema s).directives.Perm (s.directives.map sortDirective) ∧
    (sortSchema s).query = s.query ∧ (sortSchema s).mutation = s.mutation ∧
    (sortSchema s).subscription = s.subscription ∧ (sortSchema s).desc = s.desc :=
  ⟨sortByName_perm _ _, sortByName_perm _ _, rfl, rfl, rfl, rfl⟩

/-- The sorted lists are in natural order (the order of `natural_comparison_key`). -/
theorem sort_sorted (s : Schema) :
    (sortSchema s).types.Pairwise (fun a b => natLe a.name b.name = true) :=
  sortByName_sorted _ _

/-- C19-2. Extending with a document that adds nothing (no type-system definition or extension
at all: `extend_schema_args` returns the same kwargs object) returns the original schema. -/
theorem extend_noop (s : Schema) (defs : List Def) (h : extendReturnsSame defs = true) :
    extendDefs s defs = .ok s := by
  unfold extendReturnsSame at h
  simp [extendDefs, extendCore, h]

/-- C19-4b. Each reported change corresponds to an actual difference in the printed forms:
schemas with the same printed definitions have no reported change (uses C17's injectivity of
printing). -/
theorem change_real (a b : Schema) (ha : WFSchema a = true) (hb : WFSchema b = true)
    (h : changes a b ≠ []) : schemaToDefs a ≠ schemaToDefs b := by
  intro heq
  have h1 := Gql.Types.build_schemaToDefs a ha
  rw [heq, Gql.Types.build_schemaToDefs b hb] at h1
  cases h1
  exact h (Gql.Types.changes_refl _ ha)

/-- C19-1 (per-kind merge law). For every type, applying extension nodes `e₁` and then `e₂`
(build, then extend) is applying `e₁ ++ e₂` at once (build together): fields, interfaces,
union members, enum values, input fields and the specifiedBy URL. -/
theorem extendType_append (t : TypeDef) (e1 e2 : List TypeNode) :
    extendType t (e1 ++ e2) = andThen (extendType t e1) (fun t' => extendType t' e2) :=
  Gql.Types.extendType_append t e1 e2

/-- C19-1 (new types). A type definition built together with later extensions equals the type
built first and extended afterwards. -/
theorem buildNamedType_append (desc : Option DescNode) (node : TypeNode) (e1 e2 : List TypeNode) :
    buildNamedType desc node (e1 ++ e2) = andThen (buildNamedType desc node e1) (fun t => extendType t e2) :=
  Gql.Types.buildNamedType_append desc node e1 e2

/-- C19-1 (directives). Directive extensions compose the same way. -/
theorem extendDirective_append (x1 x2 : List (Str × List DirApp)) (d : Directive) :
    extendDirective (x1 ++ x2) d = andThen (extendDirective x1 d) (extendDirective x2) :=
  Gql.Types.extendDirective_append x1 x2 d


/-- C19-1 (extend ∘ extend). Extending a schema with `A` and then with `B` is extending it once
with `A ++ B`, for every `B` valid against the result (`ValidExt`: no schema definition in `B`,
the types `A` defines are new and distinct, `A` extends nothing that only `B` defines). -/
theorem extend_extend (s a : Schema) (A B : List Def) (hA : A.all Def.isOther = false)
    (hB : B.all Def.isOther = false) (ha : extendDefs s A = .ok a)
    (v : ValidExt s (collect A) (collect B)) : extendDefs a B = extendDefs s (A ++ B) :=
  Gql.Types.extendCore_append s a A B hA hB ha v

/-- C19-1 read with `ValidExt` alone as "valid against it": extending the schema built from `A`
with `B` yields the same schema as building `A` and `B` together.  **False** as it stands
(`extend_eq_build_full_false`); true with `RootsStable` added (`extend_eq_build`), and only then
(`extend_eq_build_exact`). -/
def extend_eq_build_full : Prop :=
  ∀ (a : Schema) (A B : List Def), A.all Def.isOther = false → B.all Def.isOther = false →
    buildFromDefs A = .ok a → ValidExt Schema.empty (collect A) (collect B) →
    extendDefs a B = buildFromDefs (A ++ B)

/-- C19-1, first half: the full statement for every base document `A` that contains a schema
definition (`schema { … }`); no root stability needed there.  Base documents *without* a schema
definition — where `build_ast_schema` picks the roots by the names `Query`/`Mutation`/
`Subscription` over the whole of `A ++ B` while `extend_schema` keeps the roots of `build(A)`
(observation O2 of the report) — are `extend_eq_build_noschema`; both halves together are
`extend_eq_build`, and `extend_eq_build_exact` shows the added hypothesis is the weakest possible. -/
theorem extend_eq_build_partial (a : Schema) (A B : List Def) (hA : A.all Def.isOther = false)
    (hB : B.all Def.isOther = false) (hsd : (collect A).schemaDef.isSome = true)
    (ha : buildFromDefs A = .ok a) (v : ValidExt Schema.empty (collect A) (collect B)) :
    extendDefs a B = buildFromDefs (A ++ B) :=
  Gql.Types.extend_eq_build_of_schemaDef a A B hA hB hsd ha v

/-- The base document of the counterexample: `type T { a: Int }` (no `Query`, no schema definition). -/
def cexA : List Def := [.typeDef none ⟨[84], [], .object [] [⟨none, [97], [], .named [73, 110, 116], []⟩]⟩]
/-- The extension document of the counterexample: `type Query { q: Int }`. -/
def cexB : List Def :=
  [.typeDef none ⟨Gql.Generated.SchemaConsts.queryName, [], .object [] [⟨none, [113], [], .named [73, 110, 116], []⟩]⟩]

/-- C19-1, the full statement is **false** (observation O2, replayed on the implementation:
`build_schema("type T {a: Int}\ntype Query {q: Int}").query_type` is `Query`,
`extend_schema(build_schema("type T {a: Int}"), parse("type Query {q: Int}")).query_type` is
`None`; `validate_sdl(B, build A)` is empty).  `build_ast_schema` infers the roots by name over the
whole of `A ++ B`, `extend_schema` keeps the (absent) roots of `build(A)`; `ValidExt` holds. -/
theorem extend_eq_build_full_false : ¬ extend_eq_build_full := by
  intro h
  have h1 := h _ cexA cexB (by decide) (by decide) rfl
    ⟨by decide, by decide, by decide, by decide, by decide⟩
  revert h1
  decide

/-- **Root stability** of the extension document `B` over the base document `A`: what "an
extension document valid against it" has to mean beyond `ValidExt` for C19-1 to be meaningful.
`A` contains a schema definition, or for each conventional root name `c` ∈ {`Query`, `Mutation`,
`Subscription`}: when `B` has no `extend schema { op: … }` for that operation, `B` defines a
type called `c` only if `A` already does; when it has one (the last one names `n`), `n = c` or
neither document defines a type called `c`.  Decidable on the two documents
(`Gql.Types.rootsStable`).

Relation to the property text: the implementation's SDL validation (`validate_sdl(B, build A)`)
accepts `B = type Query {…}` over a base without `Query` — validity alone does not imply root
stability, and there `extend(build A, B) ≠ build(A ++ B)` (`extend_eq_build_full_false`,
`extend_eq_build_iff`).  The property is therefore read (DESIGN §0.5 O2) over root-stable
extension documents: `build_ast_schema`'s "look for types named Query, Mutation and
Subscription" is a rule about *documents without a schema definition*, `extend_schema` works
on a schema whose roots are already decided. -/
def RootsStable (A B : List Def) : Prop := rootsStable A B = true

instance (A B : List Def) : Decidable (RootsStable A B) := by unfold RootsStable; infer_instance

/-- C19-1 for base documents **without** a schema definition: under root stability (here in its
unfolded form, `rootsStableParts` over the type names `A` defines) extending the built schema
equals building the concatenated document. -/
theorem extend_eq_build_noschema (a : Schema) (A B : List Def) (hA : A.all Def.isOther = false)
    (hB : B.all Def.isOther = false) (hsd : (collect A).schemaDef = none)
    (ha : buildFromDefs A = .ok a) (v : ValidExt Schema.empty (collect A) (collect B))
    (hst : rootsStableParts (definesType (collect A)) (collect B) = true) :
    extendDefs a B = buildFromDefs (A ++ B) :=
  Gql.Types.extend_eq_build_of_noSchemaDef a A B hA hB hsd ha v hst

/-- **C19-1.** Extending the schema built from `A` with an extension document `B` valid against
it (`ValidExt`) and root-stable over it (`RootsStable`) yields the same schema as building `A`
and `B` together — for every base document, with or without a schema definition; outcomes
compared include errors and crashes of `build(A ++ B)`. -/
theorem extend_eq_build (a : Schema) (A B : List Def) (hA : A.all Def.isOther = false)
    (hB : B.all Def.isOther = false) (ha : buildFromDefs A = .ok a)
    (v : ValidExt Schema.empty (collect A) (collect B)) (hst : RootsStable A B) :
    extendDefs a B = buildFromDefs (A ++ B) :=
  Gql.Types.extend_eq_build_of_rootsStable a A B hA hB ha v hst

/-- **C19-1, exact characterisation.** For an extension document `B` valid against the schema
built from `A` (`ValidExt`) whose combined document builds, extending equals building together
**if and only if** `B` is root-stable over `A`: `RootsStable` is not merely sufficient, it is the
weakest condition under which the clause holds (so every valid, buildable pair outside it is a
pair on which `extend_schema` and `build_ast_schema` disagree about a root — observation O2). -/
theorem extend_eq_build_iff (a : Schema) (A B : List Def) (hA : A.all Def.isOther = false)
    (hB : B.all Def.isOther = false) (ha : buildFromDefs A = .ok a)
    (v : ValidExt Schema.empty (collect A) (collect B)) (hok : (buildFromDefs (A ++ B)).isOk = true) :
    extendDefs a B = buildFromDefs (A ++ B) ↔ RootsStable A B := by
  constructor
  · intro heq
    unfold RootsStable rootsStable
    cases hsd : (collect A).schemaDef with
    | some d => rfl
    | none =>
      simp only [Option.isSome_none, Bool.false_or]
      exact Gql.Types.rootsStable_of_eq a A B hA hB hsd ha v hok heq
  · exact extend_eq_build a A B hA hB ha v

/-- **C19-1, exact characterisation without side condition.** For every extension document `B`
valid against the schema built from `A` (`ValidExt`): extending equals building together if and
only if `B` is root-stable over `A` or building `A ++ B` fails (then extending fails in the
same way: same error, same crash class). -/
theorem extend_eq_build_exact (a : Schema) (A B : List Def) (hA : A.all Def.isOther = false)
    (hB : B.all Def.isOther = false) (ha : buildFromDefs A = .ok a)
    (v : ValidExt Schema.empty (collect A) (collect B)) :
    extendDefs a B = buildFromDefs (A ++ B) ↔
      (RootsStable A B ∨ (buildFromDefs (A ++ B)).isOk = false) := by
  constructor
  · intro heq
    cases hok : (buildFromDefs (A ++ B)).isOk with
    | true => exact Or.inl ((extend_eq_build_iff a A B hA hB ha v hok).mp heq)
    | false => exact Or.inr rfl
  · rintro (h | h)
    · exact extend_eq_build a A B hA hB ha v h
    · exact Gql.Types.extend_eq_build_of_fail a A B hA hB ha v h

/-- `extend_schema_args` collects from `A ++ B` what it collects from `A` and from `B`. -/
theorem collect_append (A B : List Def) : collect (A ++ B) = Parts.merge (collect A) (collect B) :=
  Gql.Types.collect_append A B

-- Non-vacuity: a base document with a schema definition, an object and an enum; an extension
-- document that extends the object (new field, deprecated), extends the enum, adds a union, a
-- directive and a mutation root.
def exA : List Def := [
  .schemaDef none [] [(.query, [81])],
  .typeDef none ⟨[81], [], .object [] [⟨none, [102], [], .named [73, 110, 116], []⟩]⟩,
  .typeDef (some ⟨[100], true⟩) ⟨[69], [], .enum [⟨none, [65], []⟩]⟩]
def exB : List Def := [
  .typeExt ⟨[81], [], .object [] [⟨none, [103], [], .named [69],
    [⟨Gql.Generated.SchemaConsts.deprecatedName, []⟩]⟩]⟩,
  .typeExt ⟨[69], [], .enum [⟨none, [66], []⟩]⟩,
  .typeDef none ⟨[85], [], .union [[81], [77]]⟩,
  .typeDef none ⟨[77], [], .object [] [⟨none, [109], [], .named [85], []⟩]⟩,
  .directiveDef none [100] [] [] true [[70, 73, 69, 76, 68]],
  .schemaExt [] [(.mutation, [77])]]

example : ∃ a, buildFromDefs exA = .ok a ∧ extendDefs a exB = buildFromDefs (exA ++ exB) ∧
    (buildFromDefs (exA ++ exB)).isOk = true ∧ extendDefs a exB ≠ .ok a := by
  refine ⟨_, rfl, ?_, ?_, ?_⟩ <;> decide

example : ValidExt Schema.empty (collect exA) (collect exB) :=
  ⟨by decide, by decide, by decide, by decide, by decide⟩

-- Non-vacuity of `extend_eq_build` without a schema definition: base `type Query {f: Int}  enum E {A}`;
-- the extension document extends `Query`, adds `type Mutation {m: U}` together with
-- `extend schema { mutation: Mutation }` (root-stable: the schema extension names the
-- conventional type), a union and an object.
def exA2 : List Def := [
  .typeDef none ⟨[81, 117, 101, 114, 121], [], .object [] [⟨none, [102], [], .named [73, 110, 116], []⟩]⟩,
  .typeDef (some ⟨[100], true⟩) ⟨[69], [], .enum [⟨none, [65], []⟩]⟩]
def exB2 : List Def := [
  .typeExt ⟨[81, 117, 101, 114, 121], [], .object [] [⟨none, [103], [], .named [69], []⟩]⟩,
  .typeDef none ⟨[77, 117, 116, 97, 116, 105, 111, 110], [], .object [] [⟨none, [109], [], .named [85], []⟩]⟩,
  .typeDef none ⟨[85], [], .union [[81, 117, 101, 114, 121], [77, 117, 116, 97, 116, 105, 111, 110]]⟩,
  .schemaExt [] [(.mutation, [77, 117, 116, 97, 116, 105, 111, 110])]]

example : (collect exA2).schemaDef = none ∧ RootsStable exA2 exB2 ∧
    ValidExt Schema.empty (collect exA2) (collect exB2) :=
  ⟨rfl, by decide, ⟨by decide, by decide, by decide, by decide, by decide⟩⟩

example : ∃ a, buildFromDefs exA2 = .ok a ∧ extendDefs a exB2 = buildFromDefs (exA2 ++ exB2) ∧
    (buildFromDefs (exA2 ++ exB2)).isOk = true ∧ extendDefs a exB2 ≠ .ok a :=
  ⟨_, rfl, extend_eq_build _ exA2 exB2 (by decide) (by decide) rfl
    ⟨by decide, by decide, by decide, by decide, by decide⟩ (by decide), by decide, by decide⟩

-- the counterexample is on the other side of the condition; the documents of the first example are stable
example : ¬ RootsStable cexA cexB := by decide
example : RootsStable exA exB := by decide

-- both sides of `extend_eq_build_iff` are inhabited: the combined documents build in both examples
example : (buildFromDefs (cexA ++ cexB)).isOk = true ∧ (buildFromDefs (exA2 ++ exB2)).isOk = true := by decide

-- the failing side of `extend_eq_build_exact`: `B` extends `Query` with a field of an unknown type
-- (outside `RootsStable`-relevance: `build(A ++ B)` crashes, and so does `extend(build A, B)`)
def exB3 : List Def := [.typeExt ⟨[81, 117, 101, 114, 121], [], .object [] [⟨none, [103], [], .named [90], []⟩]⟩]
example : (buildFromDefs (exA2 ++ exB3)).isOk = false ∧
    ValidExt Schema.empty (collect exA2) (collect exB3) :=
  ⟨by decide, ⟨by decide, by decide, by decide, by decide, by decide⟩⟩

-- the hypotheses of the sort / self-comparison theorems hold for the extended schema
example : ∃ a, buildFromDefs (exA ++ exB) = .ok a ∧ WFSchema a = true ∧
    changes a (sortSchema a) = [] ∧ changes a a = [] := by
  refine ⟨_, rfl, by decide, ?_, ?_⟩
  · exact sort_only_reorders _ (by decide)
  · exact changes_refl _ (by decide)

end Gql.Props.C19
