import Gql.Proofs.LexerBasic
import Gql.Proofs.ParserTotal
import Gql.Proofs.ParserSource
import Gql.Proofs.ParserFuel
import Gql.Proofs.ParserTablesOk
import Gql.Proofs.RequestPipeline
/-!
# C01 — The request pipeline is total: bad input becomes errors, never a crash

Property theorems only.  Models: `Gql/Text/Lexer.lean`, `Gql/Text/CoordLexer.lean`,
`Gql/Syntax/Parser.lean`, `Gql/Request/Pipeline.lean`; spec: `Gql/Spec/ResponseFormat.lean`;
tables regenerated from the source on every run: `Gql/Generated/ParserTables.lean`.
-/
namespace Gql.Props.C01
open Gql Gql.Text Gql.Syntax Gql.Request Gql.Spec
open Gql.Generated.ParserTables

/-! ## Lexing -/

/-- *"the only exception the parsing entry points may raise is the library's syntax error"*, lexer
part (proved in `Gql/Proofs/LexerBasic.lean`, shared with C09): `read_next_token` never raises
anything but `GraphQLSyntaxError`, from any position, in any string (unpaired surrogates, text cut
off anywhere). -/
theorem lex_no_crash (body : List Nat) (st : LexState) (pos : Nat) :
    ¬ (readNextToken body st pos).isCrash :=
  Gql.Text.lex_no_crash body st pos

/-- the whole token stream of every string ends in `<EOF>` or in a syntax error; the fuel
`|body| + 2` is never exhausted -/
theorem lexAll_no_crash (body : List Nat) : ¬ (lexAll body).isCrash :=
  Gql.Text.lexAll_no_crash body

example : ¬ (readNextToken [34, 92] {} 0).isCrash := lex_no_crash _ _ _   -- the F1 witness `"\`

/-- the same for the schema-coordinate lexer (`SchemaCoordinateLexer.read_next_token`): from any
position of any string it returns a token or raises `GraphQLSyntaxError` -/
theorem coordLex_no_crash (body : List Nat) (pos : Nat) : ¬ (coordReadNextToken body pos).isCrash :=
  Gql.Syntax.coordLex_no_crash' body pos

example : ¬ (coordReadNextToken [65, 46, 0xD83D] 2).isCrash := coordLex_no_crash _ _

/-! ## Parsing -/

/-- a four-token stream `{ a }` `<EOF>` as the lexer hands it to the parser -/
def exStream : Stream :=
  .cons ⟨.braceL, 0, 1, 1, 1, none⟩ (.cons ⟨.name, 1, 2, 1, 2, some [97]⟩
    (.cons ⟨.braceR, 2, 3, 1, 3, none⟩ (.eof 3 1 4)))

/-- *"the only exception the parsing entry points (document, value, type, schema coordinate) may
raise is the library's syntax error"*: for **every** token stream the lexer can hand over (any
tokens, ending in `<EOF>` or in a lexical error — only a *crashing* lexer is excluded, which
`lex_no_crash`/`coordLex_no_crash` rule out), every entry point and every combination of
`max_tokens`, `experimental_fragment_arguments`, `experimental_directives_on_directive_definitions`,
the parser returns a node or a syntax error and never crashes — no `AttributeError` out of the
`getattr` dispatch in particular — given fuel above the stream length. -/
theorem parse_no_crash (e : Entry) (cfg : Cfg) (strm : Stream) (fuel : Nat)
    (hs : strm.NoCrash) (hf : strm.length + 2 ≤ fuel) :
    ¬ (parseStreamWith e cfg strm fuel).isCrash = true :=
  parseStreamWith_total e cfg strm fuel hs hf

example : exStream.NoCrash ∧ exStream.length + 2 ≤ parseFuel exStream :=
  ⟨by simp [exStream, Stream.NoCrash], by decide⟩
example : (parseStream .document {} exStream).isOk = true := by decide +kernel

/-- *"nesting depth bounded … because the recursive-descent parser is bounded by the interpreter
recursion limit"*: in the model the recursion limit is the fuel, and fuel `|tokens| + 3`
(`parseFuel`) is never exhausted — every loop iteration and every recursive descent consumes a token,
so the parser terminates on every input and the only depth limit of the real code is CPython's. -/
theorem parse_fuel_sufficient (e : Entry) (cfg : Cfg) (strm : Stream) (hs : strm.NoCrash) :
    parseStream e cfg strm ≠ .crash "OutOfFuel" := by
  intro h
  have := parse_no_crash e cfg strm (parseFuel strm) hs (by unfold parseFuel; omega)
  unfold parseStream at h
  rw [h] at this
  exact this rfl

/-- and above that bound the amount of fuel does not matter: every entry point returns the same outcome
for every fuel `≥ |tokens| + 2` — the fuel is a device of the model, not part of the answer. -/
theorem parse_fuel_irrelevant (e : Entry) (cfg : Cfg) (strm : Stream) (f1 f2 : Nat)
    (hs : strm.NoCrash) (h1 : strm.length + 2 ≤ f1) (h2 : strm.length + 2 ≤ f2) :
    parseStreamWith e cfg strm f1 = parseStreamWith e cfg strm f2 :=
  parseStreamWith_fuel_irrelevant e cfg strm f1 f2 hs h1 h2

example : parseStreamWith .document {} exStream 5 = parseStreamWith .document {} exStream 1000 :=
  parse_fuel_irrelevant _ _ _ _ _ (by simp [exStream, Stream.NoCrash]) (by decide) (by decide)

/-- progress of the lexer (proved in `Gql/Proofs/LexerBasic.lean`, shared with C09): a token read at
`pos ≤ |body|` starts at or after `pos`; a non-EOF token is non-empty and inside the text — so the
token stream of every string is finite and `|body| + 2` lexer steps always suffice. -/
theorem lex_progress (body : List Nat) (st st' : LexState) (pos : Nat) (t : Token)
    (hp : pos ≤ body.length) (h : readNextToken body st pos = .ok (t, st')) :
    pos ≤ t.start ∧ (t.kind ≠ .eof → t.start < t.stop ∧ t.stop ≤ body.length) ∧
      (t.kind = .eof → t.start = body.length ∧ t.stop = body.length) :=
  Gql.Text.lex_progress body st st' pos t hp h

/-- the composition with the lexer theorems: **every string** through **every entry point** with
**every flag combination** gives a node or a syntax error -/
theorem parse_source_total (e : Entry) (cfg : Cfg) (body : List Nat) :
    ¬ (parseSource e cfg body).isCrash = true :=
  parseSource_total e cfg body

example : ¬ (parseSource .value { fragArgs := true, maxTokens := some 2 } [91, 34, 92]).isCrash = true :=
  parse_source_total _ _ _

/-- T1, re-checked against the source on every run: every method name a `getattr` dispatch table of
the parser can produce (1) is a method defined on class `Parser` under the `parse_` prefix the
f-strings use and (2) is known to the model's dispatcher, whose only other branch is
`crash "AttributeError"`. -/
theorem dispatch_total :
    getattrPrefixes = ["parse_"] ∧
    (∀ m ∈ (typeSystemDefinitionMethods ++ executableDefinitionMethods ++ otherDefinitionMethods).map (·.2),
      ("parse_" ++ m) ∈ parserMethods ∧ m ∈ knownDefinitionMethods) ∧
    (∀ m ∈ typeExtensionMethods.map (·.2), ("parse_" ++ m) ∈ parserMethods ∧ m ∈ knownExtensionMethods) ∧
    (∀ m ∈ valueLiteralMethods.map (·.2), ("parse_" ++ m) ∈ parserMethods ∧ m ∈ knownValueMethods) ∧
    (∀ k : TokKind, valueMethodOk k = true) := by
  exact ⟨getattrPrefixes_ok, definitionTables_ok, extensionTable_ok, valueTable_ok, valueMethodOk_all⟩

/-- T1: every node constructor call in parser.py passes only keywords that are fields of the
(keyword-only) dataclass it constructs, passes every field that has no default, and none twice — no
`TypeError` out of a constructor. -/
theorem ctor_calls_wellformed : nodeCtorCalls.all ctorCallOk = true :=
  ctorCalls_ok

example : ctorCallOk ("FieldNode", ["alias", "name", "arguments", "directives", "selection_set", "loc"]) = true := by
  decide +kernel

/-! ## The request pipeline -/

/-- what the other properties establish about the stages of `graphql_impl` (C20: `validate_schema`
returns a list; this property: `parse` returns or raises `GraphQLError`; C12: `validate` returns a
list; C02/C13: `execute` returns a well-formed response), and that the library's own errors are
well-formed and, before execution, path-less -/
structure StagesOk (st : Stages) : Prop where
  schemaErrors : ∀ e ∈ st.schemaErrors, e.WF ∧ e.path = none
  parse : (st.parse = .ret ()) ∨ (∃ e, st.parse = .raiseGql e ∧ e.WF ∧ e.path = none)
  validate : ∃ errs, st.validate = .ret errs ∧ ∀ e ∈ errs, e.WF ∧ e.path = none
  execute : ∃ r, st.execute = .ret r ∧ wfResponse false r.formatted = true

/-- *"running a request against a schema returns a result object whose data and errors follow the
response format"*: given only that every stage returns normally or raises `GraphQLError` (as above),
`graphql_impl` returns a result — it never raises — and the formatted result satisfies the
specification's response-format predicate: `errors` non-empty when present, `data` absent/null only
together with errors, every error has a `str` message, 1-based locations, a well-typed path. -/
theorem response_wf (st : Stages) (h : StagesOk st) :
    ∃ r, graphqlImpl st = .result r ∧ wfResponse false r.formatted = true := by
  obtain ⟨hse, hp, ⟨errs, hv, hve⟩, ⟨r, hx, hxr⟩⟩ := h
  unfold graphqlImpl
  cases hs : st.schemaErrors.isEmpty with
  | false =>
    refine ⟨_, by simp, wfResponse_errorsOnly _ ?_ hse false⟩
    intro h0; simp [h0] at hs
  | true =>
    simp only [Bool.not_true, Bool.false_eq_true, ↓reduceIte]
    rcases hp with hp | ⟨e, hp, hew, hep⟩
    · rw [hp, hv]
      simp only []
      cases he : errs.isEmpty with
      | false =>
        refine ⟨_, by simp, wfResponse_errorsOnly _ ?_ hve false⟩
        intro h0; simp [h0] at he
      | true =>
        simp only [Bool.not_true, Bool.false_eq_true, ↓reduceIte]
        rw [hx]
        exact ⟨r, rfl, hxr⟩
    · rw [hp]
      refine ⟨_, rfl, wfResponse_errorsOnly _ (by simp) ?_ false⟩
      intro e' he'
      simp only [List.mem_singleton] at he'
      subst he'
      exact ⟨hew, hep⟩

/-- and when the request fails *before* execution (schema invalid, syntax error, validation errors)
the result is `data = None` with path-less errors (the stricter request-error reading of the spec) -/
theorem response_wf_request_errors (st : Stages) (h : StagesOk st)
    (hpre : st.schemaErrors ≠ [] ∨ (∃ e, st.parse = .raiseGql e) ∨ (∃ errs, st.validate = .ret errs ∧ errs ≠ [])) :
    ∃ r, graphqlImpl st = .result r ∧ r.dataIsMap = false ∧ wfResponse true r.formatted = true := by
  obtain ⟨hse, hp, ⟨errs, hv, hve⟩, _⟩ := h
  unfold graphqlImpl
  cases hs : st.schemaErrors.isEmpty with
  | false =>
    refine ⟨_, by simp, rfl, wfResponse_errorsOnly _ ?_ hse true⟩
    intro h0; simp [h0] at hs
  | true =>
    simp only [Bool.not_true, Bool.false_eq_true, ↓reduceIte]
    have hs0 : st.schemaErrors = [] := by simpa using hs
    rcases hp with hp | ⟨e, hp, hew, hep⟩
    · rw [hp, hv]
      simp only []
      rcases hpre with h1 | ⟨e, h2⟩ | ⟨errs', h3, h3'⟩
      · exact absurd hs0 h1
      · rw [hp] at h2; cases h2
      · rw [hv] at h3
        cases h3
        cases he : errs.isEmpty with
        | false => exact ⟨_, by simp, rfl, wfResponse_errorsOnly _ h3' hve true⟩
        | true => simp at he; exact absurd he h3'
    · rw [hp]
      refine ⟨_, rfl, rfl, wfResponse_errorsOnly _ (by simp) ?_ true⟩
      intro e' he'
      simp only [List.mem_singleton] at he'
      subst he'
      exact ⟨hew, hep⟩

example : StagesOk { schemaErrors := [], parse := .raiseGql { locations := some [(1, 3)] },
                     validate := .ret [], execute := .ret ⟨true, none⟩ } :=
  ⟨by simp, Or.inr ⟨_, rfl, by simp [GErr.WF], rfl⟩, ⟨[], rfl, by simp⟩, ⟨_, rfl, by decide⟩⟩

/-- *"Resolver exceptions of any class likewise surface as located errors in the result, never as an
exception out of execution"*, for exceptions whose duck-typed attributes (`message`/`__str__`,
`source`, `positions`, `nodes`, `extensions`) are absent or of the documented type: whatever the
nullability of the field and of its ancestors (`chain`), `located_error` + `handle_field_error` +
the enclosing `except Exception` handlers + the root's `except GraphQLError` end with the error
*collected* under the path of the field whose resolver raised (or under the error's own path when it
is an already located `GraphQLError`); nothing escapes.  Holds with and without the F7 hardening. -/
theorem resolver_raise_located (hardened : Bool) (e : Exn) (he : e.WellTyped) (nn : Bool)
    (outer : List Bool) (path : List PathSeg) (hpath : path ≠ []) :
    ∃ g, handleFieldErrorChain hardened (nn :: outer) e path = .collected g ∧
      g.path = some (surfacePath e path) :=
  chain_collects hardened e nn outer path hpath (Or.inr he)

example : ({ message := .good, extensions := .good } : Exn).WellTyped := by simp [Exn.WellTyped]

/-- the same for **every** exception object — attributes that raise or are ill-typed included —
for `located_error` with the F7 hardening (`repo_patches/F7_located_error_hostile_attrs.diff`) -/
theorem resolver_raise_located_hostile (e : Exn) (nn : Bool) (outer : List Bool)
    (path : List PathSeg) (hpath : path ≠ []) :
    ∃ g, handleFieldErrorChain true (nn :: outer) e path = .collected g ∧
      g.path = some (surfacePath e path) :=
  chain_collects true e nn outer path hpath (Or.inl rfl)

/-- F7 witness: without the hardening an exception whose `__str__` raises, raised by a nullable root
field, escapes `execute` (replays on the unpatched code: `class E(Exception): __str__ = <raises>`). -/
example : handleFieldErrorChain false [false] { strOk := false } [.key] = .escaped "Exception" := by
  decide

end Gql.Props.C01
