import Gql.Proofs.StringRoundtrip
import Gql.Proofs.BlockRoundtrip
import Gql.Proofs.BlockForced2
import Gql.Proofs.BlockIndent
import Gql.Syntax.Printer
import Gql.Proofs.TypeTokens
import Gql.Proofs.TypeParse
import Gql.Proofs.ValueRoundtrip
import Gql.Proofs.Printable
import Gql.Proofs.ExecPrint
import Gql.Proofs.ExecPrint2
import Gql.Proofs.ExecPrint4
import Gql.Proofs.ExecDoc3
import Gql.Proofs.ParseWfType
import Gql.Proofs.ParseWfValue
import Gql.Proofs.ParseWfExec
import Gql.Proofs.ParseWfDefs
import Gql.Proofs.C08Paired
import Gql.Proofs.C08ValuePaired
/-!
# C08 — Printing a parsed document and parsing it again gives the same AST

Property theorems only (lemmas live in `Gql/Proofs/StringRoundtrip.lean`, `Block*.lean`).

Models: `Gql.Text.printString` (print_string.py, escape table = T1 `Generated.escapeTable`),
`Gql.Text.printBlockStringW` / `isPrintableAsBlockString` (block_string.py, width = parameter),
`Gql.Text.readString` / `readBlockString` (lexer.py; shared lexer model).
Strings are lists of code points.  `tokOf` projects the token out of the lexer's
`(token, line bookkeeping)` result.
-/
namespace Gql.Props.C08
open Gql Gql.Text Gql.Text.Pairs

/-! ## Quoted strings -/

/-- T1 obligation: every entry of `escape_sequences` is an escape sequence the lexer decodes back
to the entry's key (`\x` with `_ESCAPED_CHARS[x] = key`, or `\uXXXX` of a non-surrogate). -/
theorem escape_table_entries_decode : tableOK Generated.escapeTable = true := by decide

/-- T1 obligation: everything the lexer cannot read raw inside a quoted string — the quote, the
backslash, LF and CR — has an entry in `escape_sequences`. -/
theorem escape_table_covers_required : tableComplete Generated.escapeTable = true := by decide

/-- T1 obligation (documented contract of `print_string`, not needed for the round trip because the
lexer accepts raw control characters): all C0 controls, DEL and the C1 controls are escaped. -/
theorem escape_table_covers_controls : tableCoversControls Generated.escapeTable = true := by decide

/-- **C08-1** ("every quoted string value is preserved character for character").  For every
string `s` of Unicode scalar values, whatever follows it and whatever the lexer's line state:
reading `print_string(s)` as a string token consumes exactly the printed text and yields `s`. -/
theorem printString_roundtrip (s rest : List Nat) (st : LexState) (hs : ∀ c ∈ s, isScalar c = true) :
    readString (printString s ++ rest) st 0 =
      .ok (mkToken st .string 0 (printString s).length (some s)) :=
  printStringWith_roundtrip Generated.escapeTable escape_table_entries_decode
    escape_table_covers_required s rest st hs

-- non-vacuity: a string with quote, backslash, LF, CR, DEL, U+2028, an astral code point
-- satisfies the hypothesis; its printed form is `"\"\\\n\r\u007F<U+2028><U+1F600>a"`
example : readString (printString [34, 92, 10, 13, 127, 8232, 128512, 97] ++ [32, 34]) {} 0 =
    .ok (mkToken {} .string 0 (printString [34, 92, 10, 13, 127, 8232, 128512, 97]).length
      (some [34, 92, 10, 13, 127, 8232, 128512, 97])) :=
  printString_roundtrip _ _ _ (by decide)
example : printString [34, 92, 10, 13, 127, 8232, 128512, 97] =
    [34, 92, 34, 92, 92, 92, 110, 92, 114, 92, 117, 48, 48, 55, 70, 8232, 128512, 97, 34] := by decide

/-- **C08-1 for everything a STRING token can carry.**  `Paired s` (decidable): every code point of
`s` is a Unicode scalar value, or a leading surrogate immediately followed by a trailing surrogate,
or that trailing surrogate — exactly the values `read_string` can produce (`parse_wf_value_full`
below: a lone surrogate is a syntax error, a verbatim pair is accepted as one SourceCharacter and
kept as two code points).  `print_string` has no table entry for a surrogate
(`escape_table_entries_decode`: every key is a scalar value), so `str.translate` copies both halves
verbatim, and `read_string` steps two code points over the pair (`is_supplementary_code_point`):
reading `print_string(s)` consumes exactly the printed text and yields `s`.  Generalises
`printString_roundtrip` (`Paired.of_forall_scalar`). -/
theorem printString_roundtrip_paired (s rest : List Nat) (st : LexState) (hs : Paired s) :
    readString (printString s ++ rest) st 0 =
      .ok (mkToken st .string 0 (printString s).length (some s)) :=
  printStringWith_roundtrip_paired Generated.escapeTable escape_table_entries_decode
    escape_table_covers_required s rest st hs

-- non-vacuity: `a`, the verbatim pair U+D83D U+DE00, a quote, U+1F600 as one code point; a lone
-- or reversed surrogate is not `Paired`; the pair is printed verbatim
example : Paired [97, 0xD83D, 0xDE00, 34, 128512] ∧ ¬ Paired [0xD83D] ∧ ¬ Paired [0xDE00, 0xD83D] ∧
    ¬ Paired [0xD83D, 97] := by decide
example : printString [97, 0xD83D, 0xDE00, 34, 128512] = [34, 97, 0xD83D, 0xDE00, 92, 34, 128512, 34] := by
  decide
example : readString (printString [97, 0xD83D, 0xDE00, 34, 128512] ++ [32]) {} 0 =
    .ok (mkToken {} .string 0 (printString [97, 0xD83D, 0xDE00, 34, 128512]).length
      (some [97, 0xD83D, 0xDE00, 34, 128512])) :=
  printString_roundtrip_paired _ _ _ (by decide)

/-- Characters without a table entry are copied verbatim (`str.translate`). -/
theorem printString_verbatim (c : Nat) (h : escapeLookup Generated.escapeTable c = none) :
    printString [c] = [34, c, 34] := by
  simp [printString, printStringWith, translate, h]

/-! ## Block strings -/

/-- **C08-2** ("every block string value is preserved character for character").  For every
block-representable value of Unicode scalar values, every width in place of the literal `70`,
both settings of `minimize`, anything after the literal: the lexer reads
`print_block_string(v, minimize)` as one block string token spanning exactly the printed text,
with value `v`. -/
theorem block_roundtrip (width : Nat) (v : List Nat) (minimize : Bool) (rest : List Nat) (st : LexState)
    (hs : ∀ c ∈ v, isScalar c = true) (hrep : BlockRepresentable v) :
    tokOf (readBlockString (printBlockStringW width v minimize ++ rest) st 0) =
      .ok (mkToken st .blockString 0 (printBlockStringW width v minimize).length (some v)) :=
  printBlockStringW_roundtrip width v minimize rest st hs hrep

-- non-vacuity: `  a"""\n\n b\nc\` (leading blanks, triple quote, blank line, trailing backslash)
example : tokOf (readBlockString
    (printBlockStringW 70 [32, 32, 97, 34, 34, 34, 10, 10, 32, 98, 10, 99, 92] false ++ [32]) {} 0) =
    .ok (mkToken {} .blockString 0
      (printBlockStringW 70 [32, 32, 97, 34, 34, 34, 10, 10, 32, 98, 10, 99, 92] false).length
      (some [32, 32, 97, 34, 34, 34, 10, 10, 32, 98, 10, 99, 92])) :=
  block_roundtrip 70 _ false _ _ (by decide) (by decide)
example : printBlockStringW 70 [32, 32, 97, 34, 34, 34, 10, 10, 32, 98, 10, 99, 92] false =
    [34, 34, 34, 10, 32, 32, 97, 92, 34, 34, 34, 10, 10, 32, 98, 10, 99, 92, 10, 34, 34, 34] := by decide

/-- **C08-2 for everything a BLOCK_STRING token can carry**: `block_roundtrip` with `Paired v` (scalar
values and verbatim leading+trailing surrogate pairs) in place of "all scalar" (proved by C09's
builder: `Gql.Text.Pairs.printBlockStringW_roundtrip_paired`). -/
theorem block_roundtrip_paired (width : Nat) (v : List Nat) (minimize : Bool) (rest : List Nat) (st : LexState)
    (hs : Paired v) (hrep : BlockRepresentable v) :
    tokOf (readBlockString (printBlockStringW width v minimize ++ rest) st 0) =
      .ok (mkToken st .blockString 0 (printBlockStringW width v minimize).length (some v)) :=
  printBlockStringW_roundtrip_paired width v minimize rest st hs hrep

/-- **C08-2, re-indentation, `Paired` values**: `block_indent_roundtrip` with `Paired v`
(re-indentation inserts spaces after line feeds only, so it never separates a pair). -/
theorem block_indent_roundtrip_paired (k width : Nat) (v rest : List Nat) (st : LexState)
    (hs : Paired v) (hrep : BlockRepresentable v) :
    tokOf (readBlockString (indentLF k (printBlockStringW width v false) ++ rest) st 0) =
      .ok (mkToken st .blockString 0 (indentLF k (printBlockStringW width v false)).length (some v)) := by
  unfold readBlockString
  exact indent_printed_roundtrip_loop_paired k width v rest st 0 st.lineStart hs hrep

example : Paired [32, 97, 10, 0xD83D, 0xDE00, 34] ∧ BlockRepresentable [32, 97, 10, 0xD83D, 0xDE00, 34] := by
  decide

/-- **C08-2, the hypothesis is forced.**  Every value the lexer produces for a block string
literal — any source text, any position — is block-representable.  So `block_roundtrip` covers
every block string a parsed document can contain. -/
theorem lex_block_representable (body : List Nat) (st : LexState) (start : Nat) (tok : Token)
    (st' : LexState) (h : readBlockString body st start = .ok (tok, st')) :
    ∃ v, tok.value = some v ∧ BlockRepresentable v :=
  readBlockString_representable body st start tok st' h

/-- **`is_printable_as_block_string` is sound.**  Every value the schema printer decides to print as
a block string (`print_description` in print_schema.py, C17) is block-representable — so by
`block_roundtrip` it reads back character for character, with and without `minimize`. -/
theorem printable_representable (v : List Nat) (h : isPrintableAsBlockString v = true) :
    BlockRepresentable v :=
  Gql.Text.printable_representable v h

example : isPrintableAsBlockString [97, 10, 32, 32, 98, 34, 10, 10, 99] = true := by decide

/-- The printer's `indent` (`string.replace("\n", "\n  ")`, applied once per nesting level to the
already printed children, block strings included) is `indentLF`; nesting adds up. -/
theorem printer_indent_is_indentLF (x : List Nat) (a b : Nat) :
    Gql.Syntax.indentNL x = indentLF 2 x ∧ indentLF a (indentLF b x) = indentLF (a + b) x := by
  refine ⟨?_, indentLF_indentLF a b x⟩
  induction x with
  | nil => rfl
  | cons c r ih => by_cases hc : c = 10 <;> simp [Gql.Syntax.indentNL, indentLF, hc, ih, List.replicate]

/-- **C08-2, re-indentation.**  A block string printed inside nested selections, definitions or
wrapped argument lists has `k` spaces inserted after each of its line feeds (`k` = 2 × nesting
depth; any `k` here).  The lexer still reads exactly the value `v`: the printer (which never uses
`minimize`) puts the closing `"""` on its own line whenever the literal spans several lines, so
the extra indentation is common to all lines after the first and is removed again. -/
theorem block_indent_roundtrip (k width : Nat) (v rest : List Nat) (st : LexState)
    (hs : ∀ c ∈ v, isScalar c = true) (hrep : BlockRepresentable v) :
    tokOf (readBlockString (indentLF k (printBlockStringW width v false) ++ rest) st 0) =
      .ok (mkToken st .blockString 0 (indentLF k (printBlockStringW width v false)).length (some v)) :=
  indent_printed_roundtrip k width v rest st hs hrep

example : indentLF 4 (printBlockStringW 70 [32, 97, 10, 10, 98, 34] false) =
    [34, 34, 34, 10, 32, 32, 32, 32, 32, 97, 10, 32, 32, 32, 32, 10, 32, 32, 32, 32, 98, 34, 10,
      32, 32, 32, 32, 34, 34, 34] ∧ BlockRepresentable [32, 97, 10, 10, 98, 34] := by decide

-- values outside the predicate exist and are exactly those a literal cannot denote
example : ¬ BlockRepresentable [10, 97] ∧ ¬ BlockRepresentable [97, 13, 98] ∧ ¬ BlockRepresentable [32] ∧
    ¬ BlockRepresentable [32, 97, 10, 32, 98] ∧ BlockRepresentable [32, 97] ∧ BlockRepresentable [] := by decide

/-! ## Printer and tokens -/

open Gql.Syntax in
/-- **C08-3, types (complete for this sub-grammar).**  For every type reference whose names are
lexically Names: the printer model prints `Ty.print` for the parser's tree of the type (no crash,
any widths), and lexing that text yields exactly the type's tokens followed by EOF — nothing is
lost, merged or split. -/
theorem type_print_lex (w : Widths) (t : Ty) (hwf : t.wf = true) :
    printAst w t.toAst = .ok t.print ∧
    ∃ toks : List Token, lexAll t.print = .ok toks ∧ toks.map Token.kv = t.kvs ++ [(.eof, none)] := by
  refine ⟨?_, lexAll_ty t hwf⟩
  unfold printAst
  rw [show pr w t.toAst = .ok (.text t.print) from printAst_ty w t]
  rfl

-- `[[Foo!]]!`
example : (Ty.nonNull (.list (.list (.nonNull (.named [70, 111, 111]))))).wf = true ∧
    (Ty.nonNull (.list (.list (.nonNull (.named [70, 111, 111]))))).print =
      [91, 91, 70, 111, 111, 33, 93, 93, 33] := by decide

open Gql.Syntax in
/-- **C08 for the TYPE entry point, with the real parser model** (`Gql.Syntax.parseSource`, C01's
crash-faithful model of parser.py; any flags, no `max_tokens`).  For every type tree the parser can
build (`TyP.shaped`: the child of a non-null type is not itself non-null) whose names are lexically
Names: the printer model prints it without crashing (any widths) and `parse_type` of the printed
text is the same tree — `roundtrip_full` instantiated for `parse_type`. -/
theorem roundtrip_type (w : Widths) (cfg : Cfg) (hm : cfg.maxTokens = none) (t : Ty)
    (hwf : t.wf = true) (hsh : TyP.shaped t = true) :
    ∃ text, printAst w t.toAst = .ok text ∧ parseSource .type cfg text = .ok t.toAst :=
  ⟨t.print, (type_print_lex w t hwf).1, parseSource_type_print cfg hm t hwf hsh⟩

open Gql.Syntax in
/-- **`parse_wf` for the TYPE entry point** (the converse of the typed-tree hypothesis): every tree
`parse_type` returns — any source text, any flags, any `max_tokens` — is the tree of a `Ty` that is
well formed (its names are lexically Names: the lexer's NAME tokens carry valid names,
`readNextToken_nameOk`) and parser-shaped. -/
theorem parse_wf_type (cfg : Cfg) (src : List Nat) (d : Ast) (h : parseSource .type cfg src = .ok d) :
    ∃ t : Ty, t.wf = true ∧ TyP.shaped t = true ∧ d = t.toAst :=
  parseSource_type_wf cfg src d h

open Gql.Syntax in
/-- **C08 for the TYPE entry point with no well-formedness hypothesis** — `roundtrip_full`
instantiated for `parse_type`: whatever source text parses (no `max_tokens`) prints, without a
crash, to text that parses to the same tree. -/
theorem roundtrip_type_parsed (w : Widths) (cfg : Cfg) (hm : cfg.maxTokens = none) (src : List Nat) (d : Ast)
    (h : parseSource .type cfg src = .ok d) :
    ∃ text, printAst w d = .ok text ∧ parseSource .type cfg text = .ok d := by
  obtain ⟨t, hwf, hsh, rfl⟩ := parse_wf_type cfg src d h
  exact roundtrip_type w cfg hm t hwf hsh

-- `[[Foo!]]!` is parser-shaped, `Foo!!` is not
example : Gql.Syntax.TyP.shaped (Ty.nonNull (.list (.list (.nonNull (.named [70, 111, 111]))))) = true ∧
    Gql.Syntax.TyP.shaped (Ty.nonNull (.nonNull (.named [70, 111, 111]))) = false := by decide

open Gql.Syntax in
/-- **C08-3 `render_lex` for values.**  For every well-formed value (`Val.wf`: what
`parse_value_literal` can build — valid names and number texts, enum values other than
true/false/null, strings of scalar values, block-representable block strings), in whichever layout
the widths select at every nesting level (one line / wrapped with `indent`), re-indented by any
`k`, after any prefix and before any continuation that cannot extend a token (`Safe`): the lexer
reads exactly the value's tokens `Val.kvs v` — no two tokens run together, nothing is split, every
string token carries its value. -/
theorem render_lex_value (w : Widths) (hw : 4 ≤ w.object) (c : Bool) (v : Val) (hwf : Val.wf c v) (k : Nat) :
    Lexes true (indentLF k (Val.print w v)) v.kvs :=
  lexV w hw c escape_table_entries_decode escape_table_covers_required v hwf k

open Gql.Syntax in
/-- **C08 for the VALUE and CONST VALUE entry points, with the real parser model.**  For every
well-formed value tree (`c = false`: `parse_value`, variables allowed; `c = true`:
`parse_const_value`), all widths with `object ≥ 4` (an empty object prints as `{  }`), any flags,
no `max_tokens`: the printer model prints it without crashing and parsing the printed text gives
the same tree — `roundtrip_full` instantiated for `parse_value` / `parse_const_value`. -/
theorem roundtrip_value (w : Widths) (hw : 4 ≤ w.object) (cfg : Cfg) (hm : cfg.maxTokens = none)
    (c : Bool) (v : Val) (hwf : Val.wf c v) :
    ∃ text, printAst w v.toAst = .ok text ∧
      parseSource (if c then .constValue else .value) cfg text = .ok v.toAst :=
  ⟨Val.print w v, printAst_val w v,
    parseSource_value_print cfg hm w hw escape_table_entries_decode escape_table_covers_required c v hwf⟩

-- non-vacuity: `[1, """a\nb""", {a: B}, -0.5e+10]` is a well-formed constant value; the generated widths qualify
example : Val.wf true (.list [.int [49], .str [97, 10, 98] true, .obj [([97], .enum [66])],
    .float [45, 48, 46, 53, 101, 43, 49, 48]]) ∧ 4 ≤ Gql.Syntax.Widths.generated.object := by
  refine ⟨⟨?_, ⟨by decide, fun _ => by decide⟩, ⟨by decide, ⟨by decide, by decide, by decide, by decide⟩, trivial⟩, ?_, trivial⟩,
    by decide⟩
  · exact ⟨⟨[], [49], [], []⟩, ⟨Or.inl rfl, by decide, Or.inl rfl, Or.inl rfl⟩, rfl, rfl⟩
  · exact ⟨⟨[45], [48], [46, 53], [101, 43, 49, 48]⟩,
      ⟨Or.inr rfl, by decide, Or.inr ⟨[53], rfl, by decide⟩,
        Or.inr ⟨101, [43], [49, 48], rfl, Or.inr rfl, Or.inr (Or.inl rfl), by decide⟩⟩, rfl, rfl⟩

open Gql.Syntax in
/-- **C08-3 `render_lex` for values whose strings hold verbatim surrogate pairs** (`Val.wfP`:
`Val.wf` with `Paired s` in place of "every code point of `s` is a scalar value" at the two string
leaves — what `parse_value_literal` can build from ANY source text, `parse_wf_value_full`).
Statement as `render_lex_value`. -/
theorem render_lex_value_paired (w : Widths) (hw : 4 ≤ w.object) (c : Bool) (v : Val) (hwf : Val.wfP c v)
    (k : Nat) : Lexes true (indentLF k (Val.print w v)) v.kvs :=
  lexVP w hw c escape_table_entries_decode escape_table_covers_required v hwf k

open Gql.Syntax in
/-- **C08 for the VALUE and CONST VALUE entry points, typed trees with verbatim surrogate pairs.**
`roundtrip_value` for `Val.wfP` (every `Val.wf` tree is `Val.wfP`: `Val.wfP_of_wf`): the printer
model prints the tree without crashing and the real parser model rebuilds it from the printed
text. -/
theorem roundtrip_value_paired (w : Widths) (hw : 4 ≤ w.object) (cfg : Cfg) (hm : cfg.maxTokens = none)
    (c : Bool) (v : Val) (hwf : Val.wfP c v) :
    ∃ text, printAst w v.toAst = .ok text ∧
      parseSource (if c then .constValue else .value) cfg text = .ok v.toAst :=
  ⟨Val.print w v, printAst_val w v,
    parseSource_value_printP cfg hm w hw escape_table_entries_decode escape_table_covers_required c v hwf⟩

-- non-vacuity: `["a<U+D83D><U+DE00>", {k: """<U+D83D><U+DE00>"""}]` is `Val.wfP` but not `Val.wf`
example : Val.wfP true (.list [.str [97, 0xD83D, 0xDE00] false, .obj [([107], .str [0xD83D, 0xDE00] true)]]) ∧
    ¬ Val.wf true (.list [.str [97, 0xD83D, 0xDE00] false, .obj [([107], .str [0xD83D, 0xDE00] true)]]) := by
  refine ⟨⟨⟨by decide, fun h => by cases h⟩, ⟨by decide, ⟨by decide, fun _ => by decide⟩, trivial⟩, trivial⟩, ?_⟩
  intro h
  have := h.1.1 0xD83D (by simp)
  revert this; decide

open Gql.Syntax in
/-- **`parse_wf` for the VALUE and CONST VALUE entry points, no hypothesis on the source text.**
Every tree `parse_value` (`c = false`) / `parse_const_value` (`c = true`) returns — any source text,
any flags, any `max_tokens` — is the tree of a `Val` that is well formed *up to verbatim surrogates*
(`Val.wfG (ChOk src)`): names are lexically Names and enum values differ from `true`/`false`/`null`
(inversion of the lexer for NAME tokens), INT / FLOAT values are number texts of the grammar
(`IsNum`; inversion of `read_number` through `readNumber_agree` and the number grammar:
`numberCandidates_isNum`), no variable occurs in a constant value, every block string value is
block-representable (`lex_block_representable`), and every code point of a string value is a
Unicode scalar value or a surrogate that stands verbatim in the source text (`ChOk src`; inversion
of `read_string` / `read_block_string` through the StringValue / BlockString grammar: escapes decode
to scalar values only, a surrogate can only come from a leading+trailing pair the lexer accepts
verbatim as one SourceCharacter), and every string value is `Paired` (since this round `Val.wfG`
carries it: inversion of `read_string` / `read_block_string`, `readString_paired`,
`readBlockString_paired` — a surrogate in a string value is half of a leading+trailing pair). -/
theorem parse_wf_value_surrogates (cfg : Cfg) (c : Bool) (src : List Nat) (d : Ast)
    (h : parseSource (if c then .constValue else .value) cfg src = .ok d) :
    ∃ v : Val, Val.wfG (ChOk src) c v ∧ d = v.toAst :=
  parseSource_value_wfG cfg c src d h

open Gql.Syntax in
/-- **`parse_wf` for the VALUE and CONST VALUE entry points** (the converse of the typed-tree
hypothesis of `roundtrip_value`).  Hypothesis `hsrc`: the source text holds no surrogate code point
(decidable; true of every text decoded from UTF-8 / of every `str` without lone or paired surrogate
code units — CPython keeps astral characters as single code points, so a `str` holds a surrogate
only if it was put there deliberately, e.g. by `surrogatepass`).  Then every tree `parse_value` /
`parse_const_value` returns — any flags, any `max_tokens` — is the tree of a well-formed `Val`
(`Val.wf`, the hypothesis of `roundtrip_value`).  Without `hsrc` the statement is
`parse_wf_value_surrogates`; the only trees outside `Val.wf` are those with a string value holding a
surrogate pair copied verbatim from the text (`'"' + chr(0xD83D) + chr(0xDE00) + '"'` parses to the
value `[0xD83D, 0xDE00]` on the implementation, and round-trips there too). -/
theorem parse_wf_value (cfg : Cfg) (c : Bool) (src : List Nat) (hsrc : ∀ x ∈ src, isSurr x = false)
    (d : Ast) (h : parseSource (if c then .constValue else .value) cfg src = .ok d) :
    ∃ v : Val, Val.wf c v ∧ d = v.toAst :=
  parseSource_value_wf cfg c src hsrc d h

open Gql.Syntax in
/-- **`parse_wf` for the VALUE and CONST VALUE entry points, EVERY source text** (`hsrc` removed).
Every tree `parse_value` (`c = false`) / `parse_const_value` (`c = true`) returns — any source text,
surrogates included, any flags, any `max_tokens` — is the tree of a `Val` that is well formed in the
sense of `roundtrip_value_paired` (`Val.wfP`: as `Val.wf`, string values `Paired`). -/
theorem parse_wf_value_full (cfg : Cfg) (c : Bool) (src : List Nat) (d : Ast)
    (h : parseSource (if c then .constValue else .value) cfg src = .ok d) :
    ∃ v : Val, Val.wfP c v ∧ d = v.toAst :=
  parseSource_value_wfP cfg c src d h

open Gql.Syntax in
/-- **C08 for the VALUE and CONST VALUE entry points, EVERY source text** — `roundtrip_full`
instantiated for `parse_value` / `parse_const_value` with no hypothesis on the text or the tree:
whatever `parse_value` / `parse_const_value` returns for any source text (verbatim surrogate pairs
inside strings included) prints, without a crash, to text that parses to the same tree.  Remaining
hypotheses: no `max_tokens` limit on the re-parse, and widths with `object ≥ 4` (as generated; an
empty object prints as `{  }`). -/
theorem roundtrip_value_parsed_full (w : Widths) (hw : 4 ≤ w.object) (cfg : Cfg) (hm : cfg.maxTokens = none)
    (c : Bool) (src : List Nat) (d : Ast)
    (h : parseSource (if c then .constValue else .value) cfg src = .ok d) :
    ∃ text, printAst w d = .ok text ∧ parseSource (if c then .constValue else .value) cfg text = .ok d := by
  obtain ⟨v, hwf, rfl⟩ := parse_wf_value_full cfg c src d h
  exact roundtrip_value_paired w hw cfg hm c v hwf

-- non-vacuity: a source text with a verbatim pair inside a string parses (it is the printed text of
-- a `Val.wfP` tree), so the hypothesis of `roundtrip_value_parsed_full` is met by texts that
-- `roundtrip_value_parsed` excludes
example (w : Gql.Syntax.Widths) (hw : 4 ≤ w.object) :
    ∃ src d, (¬ ∀ x ∈ src, isSurr x = false) ∧ Gql.Syntax.parseSource .constValue {} src = .ok d := by
  obtain ⟨text, hp, h⟩ := roundtrip_value_paired w hw {} rfl true (.str [0xD83D, 0xDE00] false)
    ⟨by decide, fun h => by cases h⟩
  refine ⟨text, _, ?_, h⟩
  have ht : text = Val.print w (.str [0xD83D, 0xDE00] false) := by
    have := Gql.Text.printAst_val w (.str [0xD83D, 0xDE00] false)
    rw [this] at hp; cases hp; rfl
  subst ht
  intro hall
  have := hall 0xD83D (by simp [Val.print]; decide)
  revert this; decide

open Gql.Syntax in
/-- **C08 for the VALUE and CONST VALUE entry points with no well-formedness hypothesis on the
tree** — `roundtrip_full` instantiated for `parse_value` / `parse_const_value`: whatever source text
without surrogate code points parses (no `max_tokens`, widths with `object ≥ 4` as generated)
prints, without a crash, to text that parses to the same tree. -/
theorem roundtrip_value_parsed (w : Widths) (hw : 4 ≤ w.object) (cfg : Cfg) (hm : cfg.maxTokens = none)
    (c : Bool) (src : List Nat) (hsrc : ∀ x ∈ src, isSurr x = false) (d : Ast)
    (h : parseSource (if c then .constValue else .value) cfg src = .ok d) :
    ∃ text, printAst w d = .ok text ∧ parseSource (if c then .constValue else .value) cfg text = .ok d := by
  obtain ⟨v, hwf, rfl⟩ := parse_wf_value cfg c src hsrc d h
  exact roundtrip_value w hw cfg hm c v hwf

-- non-vacuity: the text `[1, "a\u00e9", {a: B}, -0.5e+10]` holds no surrogate; a text with a
-- verbatim pair does; admissible code points of a value read from such a text
example : (∀ x ∈ Gql.Syntax.S "[1, \"a\\u00e9\", {a: B}, -0.5e+10]", isSurr x = false) ∧
    ¬ (∀ x ∈ [34, 0xD83D, 0xDE00, 34], isSurr x = false) := by decide
example : ChOk [34, 0xD83D, 0xDE00, 34] 0xD83D ∧ ChOk [34, 97, 34] 0x1F600 :=
  ⟨Or.inr (by decide), Or.inl (by decide)⟩
-- and source texts that parse exist: the printed text of any well-formed value (`roundtrip_value`)
example (w : Gql.Syntax.Widths) (hw : 4 ≤ w.object) :
    ∃ src d, Gql.Syntax.parseSource .constValue {} src = .ok d :=
  let ⟨text, _, h⟩ := roundtrip_value w hw {} rfl true (.list [.int [49], .str [97] false]) (by
    refine ⟨?_, ⟨by decide, fun h => by cases h⟩, trivial⟩
    exact ⟨⟨[], [49], [], []⟩, ⟨Or.inl rfl, by decide, Or.inl rfl, Or.inl rfl⟩, rfl, rfl⟩)
  ⟨text, _, h⟩

open Gql.Syntax in
/-- The invariant the converse direction (`parse_wf`) carries through the parser: the current token
and every token still in the lexer's stream carry a value of their class (`VPS src`: NAME tokens
valid names, INT / FLOAT tokens number texts, STRING / BLOCK_STRING tokens strings of admissible
code points, block values block-representable).  It holds of the initial parser state of every
source text — every token comes from `read_next_token` (`readNextToken_valOk`). -/
theorem parser_state_invariant_init (src : List Nat) : VPS src (initState (streamOf src)) :=
  ⟨ValOk.of_kind (by simp [initState, sofToken]) (by simp [initState, sofToken])
    (by simp [initState, sofToken]) (by simp [initState, sofToken]) (by simp [initState, sofToken]),
    vStream_streamOf src⟩

open Gql.Syntax in
/-- **`parse_wf` for selection sets (first layer of the document grammar; partial: not yet lifted to
the DOCUMENT entry point).**  Source text without surrogates, `experimental_fragment_arguments` off
(arguments on fragment spreads are not a node kind of the typed tree yet), any `max_tokens`, any
fuel: whatever `parse_selection_set` returns from a parser state over the tokens of the text
(`VPS src`, see `parser_state_invariant_init`; the invariant is handed on to the state after the
selection set) is the tree of a non-empty list of well-formed selections (`Exec.selsWf`: fields with
alias / arguments / directives / nested selection sets, fragment spreads with a name other than
`on`, inline fragments; names valid, argument values well-formed `Val`s) — the hypothesis of
`roundtrip_document_partial` for this layer.  Also proved at lemma level, for constant and
non-constant positions: `parseArguments_vinv`, `parseDirectives_vinv` (Gql/Proofs/ParseWfExec.lean).
Missing for `parse_wf_document`: variable definitions, operation / fragment definitions, type-system
definitions and extensions, and the keyword dispatch of `parse_definition`. -/
theorem parse_wf_selection_set_partial (cfg : Cfg) (hfa : cfg.fragArgs = false) (src : List Nat)
    (hsrc : ∀ x ∈ src, isSurr x = false) (n : Nat) (s s' : PS) (a : Ast) (hs : VPS src s)
    (h : selectionSet n cfg s = .ok (a, s')) :
    VPS src s' ∧ ∃ sels : List Sel, Exec.selsWf sels ∧ sels ≠ [] ∧ a = Exec.ssAst sels :=
  selectionSet_vinv src hsrc cfg hfa n s s' a hs h

open Gql.Syntax in
/-- **`parse_wf` for operation and fragment definitions (second layer; partial: not yet lifted to the
DOCUMENT entry point).**  Same setting as `parse_wf_selection_set_partial`: whatever
`parse_operation_definition` (shorthand `{ … }`, or description? operation-type name? variable
definitions? directives? selection set) and `parse_fragment_definition` (description? `fragment`
name `on` type directives? selection set) return is the tree of a well-formed `XDef`
(`Exec.xdefWf false`: descriptions of scalar values and block descriptions block-representable,
operation type from the table, names valid, fragment name other than `on`, variable definitions with
well-formed parser-shaped types, well-formed constant default values and constant directives,
non-empty well-formed selection sets) — the hypothesis `roundtrip_document_partial` puts on these
definitions.  Uses `typeRef_vinv`, `parseDescription_vinv`, `parseVariableDefinitions_vinv`
(Gql/Proofs/ParseWfDefs.lean).  Missing for `parse_wf_document`: type-system definitions and
extensions, and the keyword dispatch of `parse_definition`. -/
theorem parse_wf_executable_definition_partial (cfg : Cfg) (hfa : cfg.fragArgs = false) (src : List Nat)
    (hsrc : ∀ x ∈ src, isSurr x = false) (n : Nat) (s s' : PS) (a : Ast) (hs : VPS src s)
    (h : parseOperationDefinition cfg n s = .ok (a, s') ∨ parseFragmentDefinition cfg n s = .ok (a, s')) :
    VPS src s' ∧ ∃ x : XDef, Exec.xdefWf false x ∧ a = Exec.xdefAst false x := by
  rcases h with h | h
  · exact parseOperationDefinition_vinv src hsrc cfg hfa n s s' a hs h
  · exact parseFragmentDefinition_vinv src hsrc cfg hfa n s s' a hs h

-- non-vacuity: the invariant holds of the state `parse` starts from, for every text
example : Gql.Syntax.VPS (Gql.Syntax.S "{ a: f(x: 1) @d ...F ... on T { g } }")
    (Gql.Syntax.initState (Gql.Syntax.streamOf (Gql.Syntax.S "{ a: f(x: 1) @d ...F ... on T { g } }"))) :=
  parser_state_invariant_init _
example : ∀ x ∈ Gql.Syntax.S "{ a: f(x: 1) @d ...F ... on T { g } }", isSurr x = false := by decide

open Gql.Syntax in
/-- **C08-3 `render_lex` for documents (stages 1–3).**  The text printed for a document whose
definitions are

* operations (shorthand, or keyword with optional name, variable definitions and directives) and
  fragment definitions (with variable definitions when `fa`, the `experimental_fragment_arguments`
  flag, is set), each with an optional description; variable definitions with optional description,
  default value and constant directives, on one line or one per line (`has_multiline_items`);
  selection sets of fields (alias, arguments, directives, nested selection sets), fragment spreads
  and inline fragments, in every layout (`wrapped_line_and_args`, `block`/`indent`);
* type-system definitions: `schema` (operation types), `scalar`, `type` / `interface`
  (`implements A & B`, field definitions with argument definitions in the one-line and the indented
  multi-line layout of `leave_field_definition`), `union` (`= A | B`), `enum` (value definitions),
  `input` (input value definitions with defaults) and `directive` definitions (arguments,
  `repeatable`, locations `A | B`, and directives on the definition when `dd`, the
  `experimental_directives_on_directive_definitions` flag, is set) — each with optional description
  (quoted or block string) and constant directives;
* type-system extensions: `extend schema`, `extend scalar`, `extend type` / `extend interface`,
  `extend union`, `extend enum`, `extend input` (each extending something: directives, interfaces,
  members or a non-empty block, as the parser requires);

lexes to exactly the document's tokens `Exec.gdefsKvs`, **including the `query` keyword the printer
puts before a shorthand query that follows a definition not ending with a block** (fix e7002aa: the
token list has `query` exactly there; also after `extend schema @d`, `extend type T @d`, …).  Not yet
covered: arguments on fragment spreads (experimental flag) and `extend directive @d …`
(`DirectiveExtensionNode`, experimental flag). -/
theorem render_lex_document_partial (w : Widths) (hw : 4 ≤ w.object) (fa dd : Bool) (defs : List GDef)
    (hwf : Exec.gdefsWf fa dd defs) : Lexes true (Exec.printGDoc w defs) (Exec.gdefsKvs true defs) :=
  lexes_gdoc w hw escape_table_entries_decode escape_table_covers_required fa dd defs hwf

open Gql.Syntax in
/-- **C08 for the DOCUMENT entry point, stages 1–3, with the real parser model.**  For every
well-formed document of the sub-grammar above (`Exec.gdefsWf`: names valid, operation types and
directive locations from the tables, fragment names other than `on`, enum values other than
`true`/`false`/`null`, non-empty selection sets and `schema` blocks, descriptions of scalar values
and block descriptions block-representable, types and constant values well formed, variable
definitions on a fragment / directives on a directive definition only when the flag is set), all
widths with `object ≥ 4`, either setting of both experimental flags, no `max_tokens`: the printer
model prints it without crashing and `parse` of the printed text is the same tree — in particular a
shorthand query printed as `query { … }` after `scalar S`, `type T`, `union U`, `directive @d on Q`
… or an extension without a block parses back to the shorthand tree.  The missing node kinds are listed at
`render_lex_document_partial`; the full statement is `roundtrip_full`. -/
theorem roundtrip_document_partial (w : Widths) (hw : 4 ≤ w.object) (cfg : Cfg) (hm : cfg.maxTokens = none)
    (defs : List GDef) (hne : defs ≠ []) (hwf : Exec.gdefsWf cfg.fragArgs cfg.dirOnDir defs) :
    ∃ text, printAst w (Exec.gdocAst cfg.fragArgs cfg.dirOnDir defs) = .ok text ∧
      parseSource .document cfg text = .ok (Exec.gdocAst cfg.fragArgs cfg.dirOnDir defs) :=
  ⟨Exec.printGDoc w defs, printAst_gdoc w cfg.fragArgs cfg.dirOnDir defs hwf,
    parseSource_gdoc_print cfg hm w hw escape_table_entries_decode escape_table_covers_required defs hne hwf⟩

-- non-vacuity:
-- `"d" query Q($v: [T!] = [A] @c) @d(a: true) { x: f(a: null) @e { ...F ... on T { g } } }`
-- `fragment F($w: T) on T { h }`
-- `"""t""" type T implements I & J @k { "f" f(a: T = true): [T] @m }`
-- `enum E { A @x B }`   `union U = T | V`   `directive @d(a: T) repeatable on FIELD | QUERY`
-- `extend type T @k`   `extend schema { query: T }`   `scalar S`
-- `{ g }` (printed `query { g }`: it follows `scalar S`)
open Gql.Syntax in
example : Exec.gdefsWf true false
    [.x (.op (some ([100], false)) (S "query") [81]
      [⟨none, [118], .list (.nonNull (.named [84]) ), some (.list [.enum [65]]), [⟨[99], []⟩]⟩]
      [⟨[100], [([97], .bool true)]⟩]
      [.field [120] [102] [([97], .null)] [⟨[101], []⟩]
        [.spread [70] [], .inline [84] [] [.field [] [103] [] [] []]]]),
     .x (.frag none [70] [⟨none, [119], .named [84], none, []⟩] [84] [] [.field [] [104] [] [] []]),
     .t (.object false (some ([116], true)) [84] [[73], [74]] [⟨[107], []⟩]
       [⟨some ([102], false), [102], [⟨none, [97], .named [84], some (.bool true), []⟩], .list (.named [84]),
         [⟨[109], []⟩]⟩]),
     .t (.enum none [69] [] [⟨none, [65], [⟨[120], []⟩]⟩, ⟨none, [66], []⟩]),
     .t (.union none [85] [] [[84], [86]]),
     .t (.directive none [100] [⟨none, [97], .named [84], none, []⟩] [] true [S "FIELD", S "QUERY"]),
     .e (.object false [84] [] [⟨[107], []⟩] []),
     .e (.schema [] [(S "query", [84])]),
     .t (.scalar none [83] []),
     .x (.op none (S "query") [] [] [] [.field [] [103] [] [] []])] := by
  intro d hd
  simp only [List.mem_cons, List.not_mem_nil, or_false] at hd
  rcases hd with rfl | rfl | rfl | rfl | rfl | rfl | rfl | rfl | rfl | rfl <;>
  simp (config := { decide := true }) [Exec.gdefWf, Exec.tdefWf, Exec.edefWf, Exec.fdWf, Exec.evWf, Exec.ivdsWf,
    Exec.namesWf, Exec.isLocation, Exec.xdefWf, Exec.isOpType, Exec.dirsWfC, Exec.dirWfC, Exec.argsWfC,
    Exec.argsWf, Val.wfFields, Val.wfList, Val.wf, Exec.selsWf, Exec.selWf, Exec.varDefsWf, Exec.varDefWf,
    Exec.descWf, Ty.wf, TyP.shaped]

open Gql.Syntax in
/-- The document-level statement of C08 against an abstract parser (the crash-faithful parser model
is C01's; it is a parameter here): whatever parses, prints (no crash) to text that parses, with the
same flags, to the same tree — hence printing is a fixed point.  **Proved** for the type, value and
const-value entry points with the real parser model (`roundtrip_type`, `roundtrip_value`) and for
documents of executable definitions, type-system definitions and extensions
(`roundtrip_document_partial`, stages 1–3: everything except arguments on fragment spreads and
`extend directive`, both behind experimental flags), each for
the typed well-formed trees, and with no hypothesis at all for the type entry point
(`parse_wf_type`, `roundtrip_type_parsed`) and for the value and const-value entry points
(`parse_wf_value_full`, `roundtrip_value_parsed_full`: every source text, verbatim surrogate pairs
inside strings included — `printString_roundtrip_paired`, `block_roundtrip_paired`,
`roundtrip_value_paired`); **not proved**: those two node families, the converse `parse_wf` for
documents beyond its first two layers (`parse_wf_selection_set_partial`,
`parse_wf_executable_definition_partial`: arguments, directives, selection sets, variable
definitions, operation and fragment definitions are done; type-system definitions / extensions and
the keyword dispatch of `parse_definition` are not), and, at the DOCUMENT level only, string values
and descriptions that hold a verbatim surrogate pair (`Exec.gdefsWf` / `Exec.descWf` still ask for
scalar values; the value sub-grammar no longer does: `Val.wfP`).
What is proved: every string token of the printed text reads back to its value
(`printString_roundtrip`, `block_roundtrip`, `block_indent_roundtrip`, `lex_block_representable`)
and the type sub-grammar (`type_print_lex`).  On the implementation the relation below is
evaluated directly on every generated case (checks/c08.py). -/
def roundtrip_full (parse : Bool → Bool → List Nat → Out Unit Ast) (w : Widths) : Prop :=
  ∀ (fragArgs dirOnDir : Bool) (s : List Nat) (d : Ast), parse fragArgs dirOnDir s = .ok d →
    ∃ t, printAst w d = .ok t ∧ parse fragArgs dirOnDir t = .ok d

open Gql.Syntax in
/-- The fixed-point clause follows from the round trip (stated for completeness). -/
theorem fixed_point_of_roundtrip (parse : Bool → Bool → List Nat → Out Unit Ast) (w : Widths)
    (h : roundtrip_full parse w) (fa dd : Bool) (s : List Nat) (d : Ast) (hp : parse fa dd s = .ok d) :
    ∃ t, printAst w d = .ok t ∧ ∃ d', parse fa dd t = .ok d' ∧ printAst w d' = .ok t := by
  obtain ⟨t, h1, h2⟩ := h fa dd s d hp
  exact ⟨t, h1, d, h2, h1⟩

end Gql.Props.C08
