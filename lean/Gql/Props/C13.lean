/-
C13 — A document that passes validation cannot go wrong at execution time.

`Gql/Exec/ValidDoc.lean`: the validation rules execution depends on (`Valid.validOp`), tied to
`validate()` in the required direction (implementation accepts ⇒ `validOp`) by `checks/c13.py`.
`Gql/Exec/Shape.lean`: `Conforms` (data of the declared kinds) and `shapeResponse` (keys, nesting,
nullability, leaf kinds).  The executor is the specification executor of C02, which the
implementation model equals (`Gql.Props.C02.impl_eq_spec`).

Proved here: the first stage of soundness (fields / arguments / literals, abstract types through
`__typename`): plain operations — fields only, no directives, no variables, distinct response
keys — over conforming data.  The general statements stay below as `…_full`; what is missing is
listed with them.
-/
import Gql.Proofs.SoundExec3
import Gql.Proofs.SoundExample
import Gql.Props.C02

namespace Gql.Props.C13
open Gql Gql.Exec Gql.Exec.Valid

/-- the hypothesis of the property: coerced variable values of the declared types (`vars` is the
result of CoerceVariableValues); stated for the full theorem -/
def VarsOk (ops : Ops) (s : Schema) (op : Operation) (vars : Vars) : Prop :=
  (∀ vd ∈ op.vars, vd.type.nonNull = true → ∃ v, vars.lookup vd.name = some v ∧ v ≠ .null) ∧
  (∀ x v, vars.lookup x = some v → ∃ vd ∈ op.vars, vd.name = x)

/-- field merging (C14): the fields collected under one response key agree on name and arguments -/
def MergeOk (ops : Ops) (s : Schema) (doc : Doc) (vars : Vars) : Prop :=
  ∀ (rt : Name) (sels : List Selection) (groups : Spec.Groups),
    Spec.collectFields { ops := ops, schema := s, doc := doc, vars := vars } rt sels = .ok groups →
    ∀ p ∈ groups, ∀ f ∈ p.2, ∀ g ∈ p.2, f.name = g.name ∧ f.args.length = g.args.length

/-- **C13-1, full statement (not proved in general).**  For a valid schema (`SoundHyps`), an
operation accepted by the rules, accepted variable values, no null variable in use (the run-time
exception of the specification) and a conforming root value: no errors, prescribed shape.
Proved: `soundness_partial₁` (plain operations).  Missing: variables (stage 2: the coerced value of
a variable is of its declared type, `allowedUsage` ⇒ coercible at the position), fragments, type
conditions, `@skip`/`@include` and merged response keys (stage 3; needs `MergeOk` from C14 and the
subtype reasoning of PossibleFragmentSpreads). -/
def soundness_full : Prop :=
  ∀ (ops : Ops) (s : Schema) (doc : Doc) (op : Operation) (opName : Option Name) (vars : Vars)
    (root : RVal) (rt : Name),
    SoundHyps ops s → Spec.getOperation doc.ops opName = some op → validOp s doc op = true →
    VarsOk ops s op vars → MergeOk ops s doc vars → mayHitNullViaDefault s doc op vars = false →
    Spec.rootType s op.kind = some rt → Conforms ops s (.named rt true) root →
    (Spec.executeRequest ops s doc opName vars root).errors = [] ∧
    shapeResponse ops s doc op vars root (Spec.executeRequest ops s doc opName vars root).data = true

/-- **C13-2, full statement (not proved).**  With arbitrary data every error is data-attributable:
never argument or directive coercion. -/
def blame_full : Prop :=
  ∀ (ops : Ops) (s : Schema) (doc : Doc) (op : Operation) (opName : Option Name) (vars : Vars)
    (root : RVal),
    SoundHyps ops s → Spec.getOperation doc.ops opName = some op → validOp s doc op = true →
    VarsOk ops s op vars → MergeOk ops s doc vars → mayHitNullViaDefault s doc op vars = false →
    ∀ e ∈ (Spec.executeRequest ops s doc opName vars root).errors,
      e.kind ≠ .argCoercion ∧ e.kind ≠ .directiveCoercion ∧ e.kind ≠ .noRootType

/-- **C13-1, stage 1 (`soundness_partial₁`): fields, arguments, literals, abstract types.**
An operation accepted by the rules that consists of fields only (no fragments, directives or
variables) with distinct response keys, executed over a root value that conforms to the schema
(all resolvers return values of the declared kinds, `__typename` names a possible type), reports
no errors, and `data` has exactly the prescribed shape: keys in selection order, nesting, no
`null` at Non-Null positions, leaf kinds. -/
theorem soundness_partial₁ (ops : Ops) (s : Schema) (doc : Doc) (hyps : SoundHyps ops s)
    (op : Operation) (opName : Option Name) (vars : Vars) (root : RVal) (rt : Name)
    (hsel : Spec.getOperation doc.ops opName = some op)
    (hvalid : validOp s doc op = true) (hnovars : op.vars = [])
    (hplain : plainSels op.sels = true) (hdist : distinctSels op.sels = true)
    (hroot : Spec.rootType s op.kind = some rt)
    (hconf : Conforms ops s (.named rt true) root) :
    (Spec.executeRequest ops s doc opName vars root).errors = [] ∧
    shapeResponse ops s doc op vars root (Spec.executeRequest ops s doc opName vars root).data = true := by
  have hrt : rootTypeOf s op.kind = some rt := hroot
  have hk : s.kind rt = .object := by
    unfold rootTypeOf at hrt
    cases hkind : op.kind <;> simp only [hkind] at hrt
    · split at hrt
      · simp_all
      · cases hrt
    · cases hm : s.mutation with
      | none => simp [hm] at hrt
      | some n =>
        simp only [hm] at hrt
        split at hrt
        · simp_all
        · cases hrt
  -- the rules give validity of the root selection set
  have hvs : validSels (vctx s doc) rt op.sels = true := by
    unfold validOp at hvalid
    simp only [hrt, hnovars, Bool.and_eq_true] at hvalid
    exact hvalid.1.1.2
  -- the root value is an object node of the root type
  cases root with
  | null => simp [Conforms, TypeRef.nonNull] at hconf
  | raise tag p => simp [Conforms] at hconf
  | leaf l => simp [Conforms, hk] at hconf
  | list items => simp [Conforms] at hconf
  | obj tn f =>
    simp only [Conforms] at hconf
    obtain ⟨rt', fs, hrt', hfs, hc⟩ := hconf
    have heq : rt' = rt := by
      unfold runtimeType at hrt'
      simp only [hk, Option.some.injEq] at hrt'
      exact hrt'.symm
    subst heq
    have hagree : FieldsAgree s rt' rt' := fun name fd hf => by rw [getField_eq_any hk]; exact hf
    have hdist' := hdist
    simp only [distinctSels, Bool.and_eq_true] at hdist'
    have hnd : (op.sels.map keyOfSel).Nodup := (nodupNames_iff _).1 hdist'.1
    have hcol := collectFields_plain ({ ops := ops, schema := s, doc := doc, vars := vars } : Spec.Ctx) rt' op.sels hplain hnd
    obtain ⟨g1, kvs, g2, g3⟩ := groups_sound ({ ops := ops, schema := s, doc := doc, vars := vars } : Spec.Ctx) hyps rt' rt' fs f hagree hfs hc
      (fun name args t node pos hc' hwt' => complete_sound ({ ops := ops, schema := s, doc := doc, vars := vars } : Spec.Ctx) hyps (f name args) t node pos hc' hwt')
      op.sels [] hplain hdist'.2 hvs
    have hchild : Spec.childOf ({ ops := ops, schema := s, doc := doc, vars := vars } : Spec.Ctx) (.obj tn f) =
        (fun name args t fields pos => Spec.completeValue ({ ops := ops, schema := s, doc := doc, vars := vars } : Spec.Ctx) t fields pos (f name args)) := rfl
    unfold Spec.executeRequest shapeResponse
    simp only [hsel, hroot]
    rw [hcol, hchild]
    simp only [g1, g2, true_and]
    simpa [RVal.child, hcol] using g3

/-- `soundness_partial₁` for the implementation model of C02 (through `C02.impl_eq_spec`): the
modelled executor itself reports no errors and produces the prescribed shape. -/
theorem soundness_partial₁_impl (ops : Ops) (s : Schema) (doc : Doc) (hyps : SoundHyps ops s)
    (hops : Refine.OpsOk ops)
    (op : Operation) (opName : Option Name) (vars : Vars) (root : RVal) (rt : Name)
    (hsel : Spec.getOperation doc.ops opName = some op)
    (hvalid : validOp s doc op = true) (hnovars : op.vars = [])
    (hplain : plainSels op.sels = true) (hdist : distinctSels op.sels = true)
    (hroot : Spec.rootType s op.kind = some rt)
    (hconf : Conforms ops s (.named rt true) root) :
    ∃ resp, (Impl.executeRequest ops s doc opName vars root []).1 = .ok resp ∧
      resp.errors = [] ∧ shapeResponse ops s doc op vars root resp.data = true :=
  ⟨_, C02.impl_eq_spec ops hops s doc opName vars root,
    soundness_partial₁ ops s doc hyps op opName vars root rt hsel hvalid hnovars hplain hdist hroot hconf⟩

open Gql.Exec.Valid.Example in
/-- the hypotheses of `soundness_partial₁` are satisfiable: a nested selection with an argument
literal and `__typename`, over a conforming resolver tree -/
example : (Spec.executeRequest exOps exS exDoc none [] exRoot).errors = [] ∧
    shapeResponse exOps exS exDoc exOp [] exRoot
      (Spec.executeRequest exOps exS exDoc none [] exRoot).data = true :=
  soundness_partial₁ exOps exS exDoc exHyps exOp none [] exRoot "Query" rfl (by decide) rfl
    (by decide) (by decide) (by decide) exConf


end Gql.Props.C13
