/-
C13 — A document that passes validation cannot go wrong at execution time.

`Gql/Exec/ValidDoc.lean`: the validation rules execution depends on (`Valid.validOp`), tied to
`validate()` in the required direction (implementation accepts ⇒ `validOp`) by `checks/c13.py`,
and the per-position decision of the specification's run-time exception (`mayHitNullViaDefault`).
`Gql/Exec/Shape.lean`: `Conforms` (data of the declared kinds) and `shapeResponse` (keys, nesting,
nullability, leaf kinds).  The executor is the specification executor of C02, which the
implementation model equals (`Gql.Props.C02.impl_eq_spec`).

Proved:
* `soundness_partial₁` — fields / arguments / literals / abstract types (plain operations);
* `soundness_partial₂` — + variables (allowed position with the default-value clause, the
  run-time exception decided per position);
* `soundness_partial₃` — + inline fragments, fragment spreads, type conditions, `@skip`/`@include`,
  merged response keys (under `MergeOk`, which is what OverlappingFieldsCanBeMerged provides);
* `blame_partial₃` — over arbitrary data no request-attributable error occurs;
* `soundness_partial₄` / `blame_partial₄` — the merge hypothesis replaced by the static rule
  Field Selection Merging (`specMergeable`, `Gql/Exec/ValidMerge.lean`, compared with `validate()`
  in the required direction by `checks/c13.py`): `mergeOkT_of_specMergeable`.
The hypotheses that remain are about other layers: the value layer (`OpsSoundV`, C15) and schema
validity (`SoundHyps`: defaults coercible, interface fields implemented identically).
-/
import Gql.Proofs.SoundExec3
import Gql.Proofs.SoundExample
import Gql.Proofs.SoundBlame
import Gql.Proofs.SoundMerge4
import Gql.Proofs.SoundFullWitness
import Gql.Proofs.SoundMergeExample
import Gql.Props.C02

namespace Gql.Props.C13
open Gql Gql.Exec Gql.Exec.Valid

/-- **C13-1, full statement.**  Like `soundness_partial₃`, with the two remaining hypotheses
replaced by what validation itself establishes: `MergeOk` by the static rule
FieldsInSetCanMerge (C14 proves that rule correct for `overlapping_fields_can_be_merged.py` in its
own document model, `Gql.Props.C14.overlap_iff`; that FieldsInSetCanMerge implies `MergeOk` —
fields grouped under one response key at run time come from scopes whose parent types all contain
the runtime type, hence are "same parent or not both object types", hence the same field — is not
proved here), and `SoundHyps.ifaceOk` by the covariant form of interface implementation.

Status: the derivation is now proved (`Valid.mergeOkT_of_specMergeable`, `soundness_partial₄`), with
the static rule stated on this document model as `Valid.specMergeable`.  The statement below,
however, has `validOp` as its only validation hypothesis, and `validOp` does not contain the merge
rule: as written it is false (`soundness_full_false`).  `soundness_partial₄` is this statement with
the missing rule added. -/
def soundness_full : Prop :=
  ∀ (ops : Ops) (s : Schema) (doc : Doc) (op : Operation) (opName : Option Name) (vars : Vars)
    (root : RVal) (rt : Name),
    SoundHyps ops s → Spec.getOperation doc.ops opName = some op → validOp s doc op = true →
    VarsOk op.vars vars → VarsTyped s op.vars vars → OpsSoundV ops s op.vars vars →
    mayHitNullViaDefault s doc op vars = false →
    Spec.rootType s op.kind = some rt → Conforms ops s (.named rt true) root →
    (Spec.executeRequest ops s doc opName vars root).errors = [] ∧
    shapeResponse ops s doc op vars root (Spec.executeRequest ops s doc opName vars root).data = true

/-- **C13-1, stage 1 (`soundness_partial₁`): fields, arguments, literals, abstract types.**
An operation accepted by the rules that consists of fields only (no fragments, directives or
variables) with distinct response keys, executed over a root value that conforms to the schema
(all resolvers return values of the declared kinds, `__typename` names a possible type), reports
no errors, and `data` has exactly the prescribed shape: keys in selection order, nesting, no
`null` at Non-Null positions, leaf kinds. -/
theorem soundness_partial₁ (ops : Ops) (s : Schema) (doc : Doc) (hyps : SoundHyps ops s)
    (op : Operation) (opName : Option Name) (vars : Vars) (root : RVal) (rt : Name)
    (hsel : Spec.getOperation doc.ops opName = some op)
    (hvalid : validOp s doc op = true) (hnovars : op.vars = [])
    (hplain : plainSels op.sels = true) (hdist : distinctSels op.sels = true)
    (hroot : Spec.rootType s op.kind = some rt)
    (hconf : Conforms ops s (.named rt true) root) :
    (Spec.executeRequest ops s doc opName vars root).errors = [] ∧
    shapeResponse ops s doc op vars root (Spec.executeRequest ops s doc opName vars root).data = true := by
  have hrt : rootTypeOf s op.kind = some rt := hroot
  have hk : s.kind rt = .object := by
    unfold rootTypeOf at hrt
    cases hkind : op.kind <;> simp only [hkind] at hrt
    · split at hrt
      · simp_all
      · cases hrt
    · cases hm : s.mutation with
      | none => simp [hm] at hrt
      | some n =>
        simp only [hm] at hrt
        split at hrt
        · simp_all
        · cases hrt
  -- the rules give validity of the root selection set
  have hvs : validSels (vctx s doc) rt op.sels = true := by
    unfold validOp at hvalid
    simp only [hrt, hnovars, Bool.and_eq_true] at hvalid
    exact hvalid.1.1.1.1.2
  -- the root value is an object node of the root type
  cases root with
  | null => simp [Conforms, TypeRef.nonNull] at hconf
  | raise tag p => simp [Conforms] at hconf
  | leaf l => simp [Conforms, hk] at hconf
  | list items => simp [Conforms] at hconf
  | obj tn f =>
    simp only [Conforms] at hconf
    obtain ⟨rt', fs, hrt', hfs, hc⟩ := hconf
    have heq : rt' = rt := by
      unfold runtimeType at hrt'
      simp only [hk, Option.some.injEq] at hrt'
      exact hrt'.symm
    subst heq
    have hagree : FieldsAgree s rt' rt' := fun name fd hf => by rw [getField_eq_any hk]; exact hf
    have hdist' := hdist
    simp only [distinctSels, Bool.and_eq_true] at hdist'
    have hnd : (op.sels.map keyOfSel).Nodup := (nodupNames_iff _).1 hdist'.1
    have hcol := collectFields_plain ({ ops := ops, schema := s, doc := doc, vars := vars } : Spec.Ctx) rt' op.sels hplain hnd
    obtain ⟨g1, kvs, g2, g3⟩ := groups_sound ({ ops := ops, schema := s, doc := doc, vars := vars } : Spec.Ctx) hyps rt' rt' fs f hagree hfs hc
      (fun name args t node pos hc' hwt' => complete_sound ({ ops := ops, schema := s, doc := doc, vars := vars } : Spec.Ctx) hyps (f name args) t node pos hc' hwt')
      op.sels [] hplain hdist'.2 hvs
    have hchild : Spec.childOf ({ ops := ops, schema := s, doc := doc, vars := vars } : Spec.Ctx) (.obj tn f) =
        (fun name args t fields pos => Spec.completeValue ({ ops := ops, schema := s, doc := doc, vars := vars } : Spec.Ctx) t fields pos (f name args)) := rfl
    unfold Spec.executeRequest shapeResponse
    simp only [hsel, hroot]
    rw [hcol, hchild]
    simp only [g1, g2, true_and]
    simpa [RVal.child, hcol] using g3

/-- `soundness_partial₁` for the implementation model of C02 (through `C02.impl_eq_spec`): the
modelled executor itself reports no errors and produces the prescribed shape. -/
theorem soundness_partial₁_impl (ops : Ops) (s : Schema) (doc : Doc) (hyps : SoundHyps ops s)
    (hops : Refine.OpsOk ops)
    (op : Operation) (opName : Option Name) (vars : Vars) (root : RVal) (rt : Name)
    (hsel : Spec.getOperation doc.ops opName = some op)
    (hvalid : validOp s doc op = true) (hnovars : op.vars = [])
    (hplain : plainSels op.sels = true) (hdist : distinctSels op.sels = true)
    (hroot : Spec.rootType s op.kind = some rt)
    (hconf : Conforms ops s (.named rt true) root) :
    ∃ resp, (Impl.executeRequest ops s doc opName vars root []).1 = .ok resp ∧
      resp.errors = [] ∧ shapeResponse ops s doc op vars root resp.data = true :=
  ⟨_, C02.impl_eq_spec ops hops s doc opName vars root,
    soundness_partial₁ ops s doc hyps op opName vars root rt hsel hvalid hnovars hplain hdist hroot hconf⟩

/-- **C13-1, stage 3 (`soundness_partial₃`): variables, fragments, type conditions, directives,
merged response keys.**  For an operation accepted by the rules (`validOp`: fields on correct
type, scalar leafs, known / unique / required arguments, values of correct type, known fragments
and types, possible spreads, no cycles, variables defined, of input type and in allowed position
including the default-value clause), variable values as CoerceVariableValues hands them over
(`VarsOk`, `VarsTyped`), no position where the specification defers to run time
(`mayHitNullViaDefault = false`: no variable with runtime value `null` at a Non-Null position that
was only allowed through a default — decided per position), response keys that merge (`MergeOk`),
and a root value conforming to the schema: execution reports no errors and `data` has exactly the
prescribed shape (keys in order, nesting, nullability, leaf kinds, for the runtime types in the
data). -/
theorem soundness_partial₃ (ops : Ops) (s : Schema) (doc : Doc) (hyps : SoundHyps ops s)
    (op : Operation) (opName : Option Name) (vars : Vars) (root : RVal) (rt : Name)
    (hsel : Spec.getOperation doc.ops opName = some op)
    (hvalid : validOp s doc op = true)
    (hvok : VarsOk op.vars vars) (htyped : VarsTyped s op.vars vars)
    (hops : OpsSoundV ops s op.vars vars)
    (hexc : mayHitNullViaDefault s doc op vars = false)
    (hmerge : MergeOk { ops := ops, schema := s, doc := doc, vars := vars } op)
    (hroot : Spec.rootType s op.kind = some rt)
    (hconf : Conforms ops s (.named rt true) root) :
    (Spec.executeRequest ops s doc opName vars root).errors = [] ∧
    shapeResponse ops s doc op vars root (Spec.executeRequest ops s doc opName vars root).data = true :=
  soundness_gen ops s doc hyps op opName vars root rt hsel hvalid hvok htyped hops hexc hmerge hroot hconf

/-- **C13-1, stage 2 (`soundness_partial₂`): + variables.**  Fields-only operations with
distinct response keys and variables anywhere in their argument values (whole arguments, list
items, input object fields): no `MergeOk` hypothesis is needed (`mergeOk_of_plain`). -/
theorem soundness_partial₂ (ops : Ops) (s : Schema) (doc : Doc) (hyps : SoundHyps ops s)
    (op : Operation) (opName : Option Name) (vars : Vars) (root : RVal) (rt : Name)
    (hsel : Spec.getOperation doc.ops opName = some op)
    (hvalid : validOp s doc op = true)
    (hvok : VarsOk op.vars vars) (htyped : VarsTyped s op.vars vars)
    (hops : OpsSoundV ops s op.vars vars)
    (hexc : mayHitNullViaDefault s doc op vars = false)
    (hplain : plainSels op.sels = true) (hdist : distinctSels op.sels = true)
    (hroot : Spec.rootType s op.kind = some rt)
    (hconf : Conforms ops s (.named rt true) root) :
    (Spec.executeRequest ops s doc opName vars root).errors = [] ∧
    shapeResponse ops s doc op vars root (Spec.executeRequest ops s doc opName vars root).data = true :=
  soundness_gen ops s doc hyps op opName vars root rt hsel hvalid hvok htyped hops hexc
    (mergeOk_of_plain _ op hplain hdist) hroot hconf

/-- `soundness_partial₃` for the implementation model of C02. -/
theorem soundness_partial₃_impl (ops : Ops) (s : Schema) (doc : Doc) (hyps : SoundHyps ops s)
    (hok : Refine.OpsOk ops)
    (op : Operation) (opName : Option Name) (vars : Vars) (root : RVal) (rt : Name)
    (hsel : Spec.getOperation doc.ops opName = some op)
    (hvalid : validOp s doc op = true)
    (hvok : VarsOk op.vars vars) (htyped : VarsTyped s op.vars vars)
    (hops : OpsSoundV ops s op.vars vars)
    (hexc : mayHitNullViaDefault s doc op vars = false)
    (hmerge : MergeOk { ops := ops, schema := s, doc := doc, vars := vars } op)
    (hroot : Spec.rootType s op.kind = some rt)
    (hconf : Conforms ops s (.named rt true) root) :
    ∃ resp, (Impl.executeRequest ops s doc opName vars root []).1 = .ok resp ∧
      resp.errors = [] ∧ shapeResponse ops s doc op vars root resp.data = true :=
  ⟨_, C02.impl_eq_spec ops hok s doc opName vars root,
    soundness_gen ops s doc hyps op opName vars root rt hsel hvalid hvok htyped hops hexc hmerge hroot hconf⟩

/-- **C13-2 (`blame_partial₃`): with arbitrary data every error is attributable to the data.**
Under the hypotheses of stage 3 *without* any assumption on the data graph (nulls at Non-Null
positions, ill-typed leaves, raising resolvers, wrong or missing `__typename`, non-iterables …),
no error of the response is of a request-attributable kind: never argument coercion, never
directive coercion (unknown fields are skipped, not errors; the operation and its root type
exist by hypothesis). -/
theorem blame_partial₃ (ops : Ops) (s : Schema) (doc : Doc) (hyps : SoundHyps ops s)
    (op : Operation) (opName : Option Name) (vars : Vars) (root : RVal) (rt : Name)
    (hsel : Spec.getOperation doc.ops opName = some op)
    (hvalid : validOp s doc op = true)
    (hvok : VarsOk op.vars vars) (htyped : VarsTyped s op.vars vars)
    (hops : OpsSoundV ops s op.vars vars)
    (hexc : mayHitNullViaDefault s doc op vars = false)
    (hmerge : MergeOk { ops := ops, schema := s, doc := doc, vars := vars } op)
    (hroot : Spec.rootType s op.kind = some rt) :
    ∀ e ∈ (Spec.executeRequest ops s doc opName vars root).errors,
      e.kind ≠ .argCoercion ∧ e.kind ≠ .directiveCoercion :=
  blame_gen ops s doc hyps op opName vars root rt hsel hvalid hvok htyped hops hexc hmerge hroot

/-- `blame` for fields-only operations with variables (stage 2), no merge hypothesis. -/
theorem blame_partial₂ (ops : Ops) (s : Schema) (doc : Doc) (hyps : SoundHyps ops s)
    (op : Operation) (opName : Option Name) (vars : Vars) (root : RVal) (rt : Name)
    (hsel : Spec.getOperation doc.ops opName = some op)
    (hvalid : validOp s doc op = true)
    (hvok : VarsOk op.vars vars) (htyped : VarsTyped s op.vars vars)
    (hops : OpsSoundV ops s op.vars vars)
    (hexc : mayHitNullViaDefault s doc op vars = false)
    (hplain : plainSels op.sels = true) (hdist : distinctSels op.sels = true)
    (hroot : Spec.rootType s op.kind = some rt) :
    ∀ e ∈ (Spec.executeRequest ops s doc opName vars root).errors,
      e.kind ≠ .argCoercion ∧ e.kind ≠ .directiveCoercion :=
  blame_gen ops s doc hyps op opName vars root rt hsel hvalid hvok htyped hops hexc
    (mergeOk_of_plain _ op hplain hdist) hroot

/-- **C13-2, full statement**: `blame_partial₃` without `MergeOk` (see `soundness_full`).  As written
(no merge rule among the hypotheses) it is false: `blame_full_false`; with `specMergeable` added it
is `blame_partial₄`. -/
def blame_full : Prop :=
  ∀ (ops : Ops) (s : Schema) (doc : Doc) (op : Operation) (opName : Option Name) (vars : Vars)
    (root : RVal) (rt : Name),
    SoundHyps ops s → Spec.getOperation doc.ops opName = some op → validOp s doc op = true →
    VarsOk op.vars vars → VarsTyped s op.vars vars → OpsSoundV ops s op.vars vars →
    mayHitNullViaDefault s doc op vars = false → Spec.rootType s op.kind = some rt →
    ∀ e ∈ (Spec.executeRequest ops s doc opName vars root).errors,
      e.kind ≠ .argCoercion ∧ e.kind ≠ .directiveCoercion

open Gql.Exec.Valid.Example in
/-- the hypotheses of `soundness_partial₁` are satisfiable: a nested selection with an argument
literal and `__typename`, over a conforming resolver tree -/
example : (Spec.executeRequest exOps exS exDoc none [] exRoot).errors = [] ∧
    shapeResponse exOps exS exDoc exOp [] exRoot
      (Spec.executeRequest exOps exS exDoc none [] exRoot).data = true :=
  soundness_partial₁ exOps exS exDoc exHyps exOp none [] exRoot "Query" rfl (by decide) rfl
    (by decide) (by decide) (by decide) exConf


open Gql.Exec.Valid.Example in
/-- the hypotheses of `soundness_partial₃` / `blame_partial₃` are satisfiable (variables, `@skip`
on a variable, a fragment spread and an inline fragment merging the key `id`); `MergeOk` through
the checkable criterion `mergeOk_of_keyNames` -/
example : (Spec.executeRequest exOps exS exDoc3 none exVars3 exRoot).errors = [] ∧
    shapeResponse exOps exS exDoc3 exOp3 exVars3 exRoot
      (Spec.executeRequest exOps exS exDoc3 none exVars3 exRoot).data = true :=
  soundness_partial₃ exOps exS exDoc3 exHyps exOp3 none exVars3 exRoot "Query" rfl (by decide)
    exVarsOk3 exVarsTyped3 exOpsV3 (by decide)
    (mergeOk_of_keyNames _ exOp3 (by decide)) rfl exConf

/-! ### stage 4: the merge hypothesis derived from the static rule -/

/-- **C13-1, stage 4 (`soundness_partial₄`): `MergeOk` replaced by Field Selection Merging.**
Like `soundness_partial₃`, with the run-time hypothesis `MergeOk` replaced by the static rule of
the specification (§5.3.2 FieldsInSetCanMerge + SameResponseShape over the fragment-expanded
selection sets with parent types, `Valid.specMergeable`, an executable predicate on the document
that `checks/c13.py` evaluates on every document `validate()` accepts).  So: an operation that
passes validation (`validOp` and `specMergeable`), variable values as CoerceVariableValues hands
them over, no position where the specification defers to run time, a conforming root value ⇒ no
errors, and `data` of exactly the prescribed shape.

The derivation (`Valid.mergeOkT_of_specMergeable`): all fields CollectFields groups under one
response key for a runtime object type `T` come from scopes whose type condition contains `T`;
two parent types that both contain `T` are equal or not both object types, so FieldsInSetCanMerge
demands the same field name (and arguments) and a mergeable merged set, which is the selection
set execution continues with.  It uses `SoundHyps.ifaceOk` (an object type implements its
interfaces' fields with identical definitions) to identify the return type found on the runtime
type with the one found on the static parent type.

The merge fact derived is `MergeOkT`: `MergeOk` restricted to the object types a field's
sub-selections can be executed on (possible types of the field's return type); the general chain
is re-proved under it (`Gql/Proofs/SoundMerge3.lean`).  The unrestricted `MergeOk` does *not*
follow from validation (`mergeOk_not_from_validation` below). -/
theorem soundness_partial₄ (ops : Ops) (s : Schema) (doc : Doc) (hyps : SoundHyps ops s)
    (op : Operation) (opName : Option Name) (vars : Vars) (root : RVal) (rt : Name)
    (hsel : Spec.getOperation doc.ops opName = some op)
    (hvalid : validOp s doc op = true)
    (hmergeable : specMergeable s doc op = true)
    (hvok : VarsOk op.vars vars) (htyped : VarsTyped s op.vars vars)
    (hops : OpsSoundV ops s op.vars vars)
    (hexc : mayHitNullViaDefault s doc op vars = false)
    (hroot : Spec.rootType s op.kind = some rt)
    (hconf : Conforms ops s (.named rt true) root) :
    (Spec.executeRequest ops s doc opName vars root).errors = [] ∧
    shapeResponse ops s doc op vars root (Spec.executeRequest ops s doc opName vars root).data = true :=
  soundness_T ops s doc hyps op opName vars root rt hsel hvalid hvok htyped hops hexc
    (mergeOkT_of_specMergeable ops s doc hyps op vars hvalid hmergeable) hroot hconf

/-- `soundness_partial₄` for the implementation model of C02. -/
theorem soundness_partial₄_impl (ops : Ops) (s : Schema) (doc : Doc) (hyps : SoundHyps ops s)
    (hok : Refine.OpsOk ops)
    (op : Operation) (opName : Option Name) (vars : Vars) (root : RVal) (rt : Name)
    (hsel : Spec.getOperation doc.ops opName = some op)
    (hvalid : validOp s doc op = true)
    (hmergeable : specMergeable s doc op = true)
    (hvok : VarsOk op.vars vars) (htyped : VarsTyped s op.vars vars)
    (hops : OpsSoundV ops s op.vars vars)
    (hexc : mayHitNullViaDefault s doc op vars = false)
    (hroot : Spec.rootType s op.kind = some rt)
    (hconf : Conforms ops s (.named rt true) root) :
    ∃ resp, (Impl.executeRequest ops s doc opName vars root []).1 = .ok resp ∧
      resp.errors = [] ∧ shapeResponse ops s doc op vars root resp.data = true :=
  ⟨_, C02.impl_eq_spec ops hok s doc opName vars root,
    soundness_partial₄ ops s doc hyps op opName vars root rt hsel hvalid hmergeable hvok htyped hops
      hexc hroot hconf⟩

/-- **C13-2, stage 4 (`blame_partial₄`)**: `blame_partial₃` with `MergeOk` replaced by the static
rule `specMergeable`: for an operation that passes validation, over arbitrary data, no error of
the response is of a request-attributable kind. -/
theorem blame_partial₄ (ops : Ops) (s : Schema) (doc : Doc) (hyps : SoundHyps ops s)
    (op : Operation) (opName : Option Name) (vars : Vars) (root : RVal) (rt : Name)
    (hsel : Spec.getOperation doc.ops opName = some op)
    (hvalid : validOp s doc op = true)
    (hmergeable : specMergeable s doc op = true)
    (hvok : VarsOk op.vars vars) (htyped : VarsTyped s op.vars vars)
    (hops : OpsSoundV ops s op.vars vars)
    (hexc : mayHitNullViaDefault s doc op vars = false)
    (hroot : Spec.rootType s op.kind = some rt) :
    ∀ e ∈ (Spec.executeRequest ops s doc opName vars root).errors,
      e.kind ≠ .argCoercion ∧ e.kind ≠ .directiveCoercion :=
  blame_T ops s doc hyps op opName vars root rt hsel hvalid hvok htyped hops hexc
    (mergeOkT_of_specMergeable ops s doc hyps op vars hvalid hmergeable) hroot

/-- **Field merging from the static rule** (the step that was argued in the docstring of
`soundness_full`): validation (`validOp` + `specMergeable`) gives the merge fact execution needs,
and `soundness_partial₃`'s hypothesis `MergeOk` implies it (so stage 4 subsumes stage 3). -/
theorem mergeOkT_of_validation (ops : Ops) (s : Schema) (doc : Doc) (hyps : SoundHyps ops s)
    (op : Operation) (vars : Vars)
    (hvalid : validOp s doc op = true) (hmergeable : specMergeable s doc op = true) :
    MergeOkT { ops := ops, schema := s, doc := doc, vars := vars } op ∧
    (MergeOk { ops := ops, schema := s, doc := doc, vars := vars } op →
      MergeOkT { ops := ops, schema := s, doc := doc, vars := vars } op) :=
  ⟨mergeOkT_of_specMergeable ops s doc hyps op vars hvalid hmergeable, MergeOk.toT⟩

open Gql.Exec.Valid.Example in
/-- the hypotheses of `soundness_partial₄` / `blame_partial₄` are satisfiable (the stage 3 example:
the key `id` merged from a fragment spread and an inline fragment); `specMergeable` is evaluated -/
example : (Spec.executeRequest exOps exS exDoc3 none exVars3 exRoot).errors = [] ∧
    shapeResponse exOps exS exDoc3 exOp3 exVars3 exRoot
      (Spec.executeRequest exOps exS exDoc3 none exVars3 exRoot).data = true :=
  soundness_partial₄ exOps exS exDoc3 exHyps exOp3 none exVars3 exRoot "Query" rfl (by decide)
    (by decide) exVarsOk3 exVarsTyped3 exOpsV3 (by decide) rfl exConf

/-! ### `MergeOk` itself does not follow from validation -/


open Gql.Exec.Valid.MergeWitness in
/-- **`validOp → specMergeable → MergeOk` is false.**  The document
`{ a { x: foo ... on I { ... on B { x: bar } } } }` over `Query { a: A }` with object types `A`,
`B` implementing `I` passes validation (the parent types `A` and `B` of the two `x` are different
object types, so FieldsInSetCanMerge only asks for the same response shape; `validate()` of the
implementation accepts it as well).  `MergeOk` follows the sub-selections of `a` to *every* object
type, also to `B`, which `a : A` can never be at run time; collected for `B` the key `x` groups
`foo` and `bar`.  `MergeOkT`, which follows them only to the possible types of `A`, holds
(`mergeOkT_of_specMergeable`). -/
theorem mergeOk_not_from_validation :
    validOp wS wDoc wOp = true ∧ specMergeable wS wDoc wOp = true ∧ ¬ MergeOk wCx wOp := by
  refine ⟨by decide, by decide, ?_⟩
  intro h
  have hr : ReachSel wCx wOp "B"
      (Spec.mergeSelectionSets [{ alias := none, name := "a", args := [], dirs := [], sels := aSels }]) :=
    ReachSel.step (k := "a") (rt' := "B") (ReachSel.root (rt := "Query") rfl)
      (groups := [("a", [{ alias := none, name := "a", args := [], dirs := [], sels := aSels }])])
      rfl (List.mem_singleton.2 rfl) (by decide)
  have hu := h "B" _ hr
    [("x", [{ alias := some "x", name := "foo", args := [], dirs := [], sels := [] },
            { alias := some "x", name := "bar", args := [], dirs := [], sels := [] }])] rfl
  have hne := hu _ (List.mem_singleton.2 rfl)
    { alias := some "x", name := "foo", args := [], dirs := [], sels := [] } (by simp)
    { alias := some "x", name := "bar", args := [], dirs := [], sels := [] } (by simp)
  exact absurd hne (by decide)

open Gql.Exec.Valid.Example Gql.Exec.Valid.MergeWitness in
/-- the hypotheses of `soundness_partial₄` are satisfiable where the merge rule matters and stage 3
says nothing: in `{ a { x: foo ... on I { ... on B { x: bar } } } }` the key `x` names two different
fields (under the different object parent types `A` and `B`), so the checkable criterion of stage 3
fails (`keyNamesConsistent = false`) and `MergeOk` itself is false
(`mergeOk_not_from_validation`); `A` implements the interface `I` (`SoundHyps.ifaceOk` is used) -/
example : keyNamesConsistent wDoc wOp = false ∧
    (Spec.executeRequest exOps wS wDoc none [] wRoot).errors = [] ∧
    shapeResponse exOps wS wDoc wOp [] wRoot (Spec.executeRequest exOps wS wDoc none [] wRoot).data = true :=
  ⟨by decide, soundness_partial₄ exOps wS wDoc wHyps wOp none [] wRoot "Query" rfl (by decide) (by decide)
    wVarsOk wVarsTyped wOpsV (by decide) rfl wConf⟩

/-! ### `soundness_full` / `blame_full` as stated are false: `validOp` does not contain the merge rule -/

open Gql.Exec.Valid.Example Gql.Exec.Valid.FullWitness in
/-- **`soundness_full` is false as stated**: its only validation hypothesis is `validOp`, which
leaves out Field Selection Merging.  `{ x: b { __typename } x: a { q } }` over
`Query { a: A b: B }`, `A { q: String }`, `B { q(r: Int!): String }` passes `validOp`; the key `x`
groups `b` and `a`, the merged sub-selections `{ __typename q }` are executed on `B`, where `q`
lacks its required argument: an argument coercion error over conforming data.  (`validate()`
rejects the document: "'b' and 'a' are different fields".)  The true statement is
`soundness_partial₄`, whose `specMergeable` is the missing rule. -/
theorem soundness_full_false : ¬ soundness_full := by
  intro h
  have h1 := (h exOps fS fDoc fOp none [] fRoot "Query" fHyps rfl fValid fVarsOk fVarsTyped fOpsV fExc
    rfl fConf).1
  have h2 := fErrors
  rw [h1] at h2
  simp at h2

open Gql.Exec.Valid.Example Gql.Exec.Valid.FullWitness in
/-- **`blame_full` is false as stated** (same request as `soundness_full_false`; the error is of
kind argument coercion).  The true statement is `blame_partial₄`. -/
theorem blame_full_false : ¬ blame_full := by
  intro h
  have h1 := h exOps fS fDoc fOp none [] fRoot "Query" fHyps rfl fValid fVarsOk fVarsTyped fOpsV fExc rfl
  have hm : ErrKind.argCoercion ∈ (Spec.executeRequest exOps fS fDoc none [] fRoot).errors.map (·.kind) := by
    rw [fErrors]; simp
  obtain ⟨e, he, hk⟩ := List.mem_map.1 hm
  exact (h1 e he).1 hk

open Gql.Exec.Valid.FullWitness in
/-- the request of `soundness_full_false` is not accepted by the static merge rule -/
example : specMergeable fS fDoc fOp = false := by decide

end Gql.Props.C13
