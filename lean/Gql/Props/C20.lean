import Gql.Proofs.SchemaValidate
import Gql.Proofs.SchemaIff
import Gql.Proofs.SchemaCycles
import Gql.Proofs.SchemaDefaults
import Gql.Proofs.SchemaInterfaces
import Gql.Proofs.SchemaAssemble
import Gql.Proofs.SchemaDfs
import Gql.Proofs.SchemaDcThread
/-!
# C20 — Schema validation reports every type-system violation and never crashes

Property theorems only (lemmas: `Gql/Proofs/SchemaValidate.lean`, `SchemaIff.lean`,
`SchemaCycles.lean`).
Model: `Gql.Types.validateSchema` (type/validate.py with type_comparators.py,
`validate_input_literal`, both circular-reference validators, the `_validation_errors` cache,
`graphql_impl`'s early return) over `Gql.Types.RawSchema`, for the code repaired by
`repo_patches/F6_default_value_non_input_type.diff`; `Gql.Types.Pinned.validateSchema` is the
pinned code.  Spec: `Gql.Types.Spec.TypeSystemValid` (Gql/Spec/TypeSystem.lean).

Status: everything is proved.  `validate_iff_spec` holds for every raw schema with well-formed
names (`NamesWF`: no `.` in a type name, input field names of a type pairwise different — what
`assert_name` and Python dicts guarantee for any constructed schema; a `decide`d example shows the
hypothesis is needed); the per-family statements about defaults / interfaces carry the side
conditions `WellTypedInputs` / `UnionsOk`, which the whole statement derives from either side.
-/
namespace Gql.Props.C20
open Gql Gql.Types

/-! ## never raises -/

/-- C20-1. `validate_schema` returns a list of errors for every raw schema: it never raises
(repaired code). -/
theorem validateSchema_no_crash (s : RawSchema) : ¬ (validateSchema s).isCrash := by
  obtain ⟨es, h⟩ := validateSchema_isOk s
  simp [h, Out.isCrash]

/-- C20-1, stronger form: the outcome is always `ok errs`. -/
theorem validateSchema_returns (s : RawSchema) : ∃ errs, validateSchema s = .ok errs :=
  validateSchema_isOk s

/-- `Query` = [81], `I` = [73], `g` = [103], `x` = [120], `f` = [102] -/
def witnessF6 : RawSchema :=
  ⟨some [81], none, none,
   [⟨[81], .object [] [⟨[103], .named [73], [⟨[120], .named [81], some (.int 1), false, false⟩], false⟩]⟩,
    ⟨[73], .scalar .int⟩], []⟩

/-- `input I { f: Query }  type Query { g(x: I = {f: 1}): Int }` (Int = [78]) -/
def witnessF6Nested : RawSchema :=
  ⟨some [81], none, none,
   [⟨[73], .input [⟨[102], .named [81], none, false, false⟩] false⟩,
    ⟨[81], .object [] [⟨[103], .named [78],
        [⟨[120], .named [73], some (.obj [([102], .int 1)]), false, false⟩], false⟩]⟩,
    ⟨[78], .scalar .int⟩], []⟩

/-- F6: on the pinned code the theorem is false — `type Query { g(x: Query = 1): I }` (and the
nested form, where the offending type sits behind an input object) make `validate_schema`
raise `TypeError` out of `assert_leaf_type`. -/
example : Pinned.validateSchema witnessF6 = .crash "TypeError" ∧
    Pinned.validateSchema witnessF6Nested = .crash "TypeError" := by decide

-- non-vacuity: on the repaired code the same schemas yield exactly the type-position error
example : validateSchema witnessF6 = .ok [⟨.notInputType, [81, 46, 103, 40, 120, 58, 41]⟩] ∧
    validateSchema witnessF6Nested = .ok [⟨.notInputType, [73, 46, 102]⟩] ∧
    Spec.TypeSystemValid witnessF6 = false := by decide

/-! ## errors = [] ⇔ the specification's rules, family by family -/

/- `WellTypedInputs s` (Gql/Proofs/SchemaDefaults.lean): every input object field has an input
type.  It is implied by either side of `validate_iff_spec`; the per-family statements that
involve default values need it, because the repaired validator *skips* a provided field of
non-input type while the specification's coercion simply fails there. -/

/-- C20-2 roots (full): no root error ⇔ query root present, every provided root an Object type,
all different. -/
theorem validate_iff_spec_roots (s : RawSchema) :
    validateRootTypes s = [] ↔ Spec.rootsOk s = true :=
  validateRootTypes_nil s

example : validateRootTypes ⟨some [81], some [81], none, [⟨[81], .object [] []⟩], []⟩
    = [⟨.rootsNotDistinct, [81]⟩] := by decide

/-- C20-2 names (full): `validate_name` reports exactly the names beginning with `__`. -/
theorem validate_iff_spec_names (n : Str) : validateName n = [] ↔ Spec.nameOk n = true :=
  validateName_nil n

example : validateName [95, 95, 97] ≠ [] ∧ validateName [95, 97, 95, 95] = [] := by decide

/-- C20-2 unions (full): no error ⇔ at least one member, members unique, all Object types. -/
theorem validate_iff_spec_unions (s : RawSchema) (un : Str) (ms : List Str) :
    validateUnion s un ms = [] ↔ (!ms.isEmpty && decide ms.Nodup && ms.all s.isObject) = true :=
  validateUnion_nil s un ms

example : validateUnion witnessF6 [85] [[81], [81], [73]] =
    [⟨.unionDup, [85, 124, 81]⟩, ⟨.unionNonObject, [85, 124, 73]⟩] := by decide

/-- C20-2 enums (full): no error ⇔ at least one value and no reserved value name. -/
theorem validate_iff_spec_enums (en : Str) (vs : List Str) :
    validateEnum en vs = [] ↔ (!vs.isEmpty && vs.all Spec.nameOk) = true :=
  validateEnum_nil en vs

example : validateEnum [69] [] = [⟨.enumEmpty, [69]⟩] := by decide

/-- C20-2 default values (full). In a schema whose input object fields all have input types:
at an input type, `validate_default_value` reports nothing exactly when the default (if any)
coerces to the declared type by the specification's input coercion rules — through Non-Null,
lists (incl. the list-of-one promotion), input objects (unknown / missing / repeated keys, OneOf),
enums and the built-in and custom scalars. -/
theorem validate_iff_spec_defaults (s : RawSchema) (hw : WellTypedInputs s) (a : InputValue)
    (c : Str) (hi : s.isInputType a.type = true) :
    validateDefault s a c = .ok [] ↔ Spec.defaultOk s a = true :=
  defaultsAgree s hw a c hi

/-- the literal level of the same family -/
theorem validate_iff_spec_defaults_literal (s : RawSchema) (hw : WellTypedInputs s) (v : Lit)
    (t : TRef) (hi : s.isInputType t = true) :
    vLit s true v t = .ok [] ↔ Spec.coercible s v t = true :=
  vLit_nil s hw v t hi

/-- Without `WellTypedInputs` the statement is false: `input I { f: Query }` with the default
`{f: 1}` at type `I` is skipped by the (repaired) validator and rejected by the specification's
coercion — the schema is invalid either way, through the input-fields family. -/
example : vLit witnessF6Nested true (.obj [([102], .int 1)]) (.named [73]) = .ok [] ∧
    Spec.coercible witnessF6Nested (.obj [([102], .int 1)]) (.named [73]) = false := by decide

example : scalarAccepts .int (Lit.shape (.int 2147483648)) = false ∧
    Spec.scalarCoerces .int (.int (-2147483648)) = true := by decide

/-- C20-2 fields (full): non-empty, no reserved field or argument name, output type in field
position, input type in argument position, no deprecated required argument, defaults coerce. -/
theorem validate_iff_spec_fields (s : RawSchema) (hw : WellTypedInputs s) (tn : Str)
    (fs : List Field) :
    validateFields s validateDefault tn fs = .ok [] ↔ Spec.fieldsOk s fs = true :=
  validateFields_nil s validateDefault (defaultsAgree s hw) tn fs

/-- C20-2 directives (full): names, at least one location, argument rules, defaults coerce. -/
theorem validate_iff_spec_directives (s : RawSchema) (hw : WellTypedInputs s) :
    validateDirectives s validateDefault = .ok [] ↔ s.directives.all (Spec.directiveOk s) = true :=
  validateDirectives_nil s validateDefault (defaultsAgree s hw)

/-- C20-2 input objects (full; cycles are separate families): non-empty, names, input types, no
deprecated required field, defaults coerce, OneOf fields nullable and without default. -/
theorem validate_iff_spec_inputs (s : RawSchema) (hw : WellTypedInputs s) (tn : Str)
    (fs : List InputValue) (o : Bool) :
    validateInputFields s validateDefault tn fs o = .ok [] ↔
      (!fs.isEmpty && fs.all (Spec.inputFieldOk s o)) = true :=
  validateInputFields_nil s validateDefault (defaultsAgree s hw) tn fs o

-- a concrete field list
example : validateFields witnessF6 validateDefault [81]
    [⟨[95, 95, 103], .named [73], [], false⟩] = .ok [⟨.reservedName, [95, 95, 103]⟩] := by decide

/-- C20-2 interfaces (full), in a schema whose union members are all Object types (`UnionsOk`,
what the unions family checks and either side of `validate_iff_spec` implies;
`is_type_sub_type_of` lets an interface listed in a union pass as a sub-type of the union).
No error ⇔ only interface types, each once, never itself, every transitive interface declared,
and IsValidImplementation for each: every field present with a covariant type
(`is_type_sub_type_of` = IsValidImplementationFieldType), every argument present with the same
type, additional arguments not required, no deprecated implementation of a non-deprecated field. -/
theorem validate_iff_spec_interfaces (s : RawSchema) (hu : UnionsOk s) (tn : Str)
    (ifaces : List Str) (fields : List Field) :
    validateInterfaces s tn ifaces fields = [] ↔ Spec.implementsOk s tn ifaces fields = true :=
  validateInterfaces_nil s hu tn ifaces fields

/-- the comparators on their own: `is_equal_type` is equality, `is_type_sub_type_of` is the
specification's covariance check -/
theorem type_comparators_eq_spec (s : RawSchema) (hu : UnionsOk s) (a b : TRef) :
    (isEqualType a b = true ↔ a = b) ∧
    isTypeSubTypeOf s a b = Spec.validImplementationFieldType s a b :=
  ⟨isEqualType_iff a b, isTypeSubTypeOf_eq s hu a b⟩

/-- `interface A {a}  interface B implements A {a}  type Q implements B {a}`: the missing
transitive interface is reported (A=[65], B=[66], Q=[81], a=[97], Int=[78]). -/
def witnessTransitive : RawSchema :=
  ⟨some [81], none, none,
   [⟨[65], .interface [] [⟨[97], .named [78], [], false⟩]⟩,
    ⟨[66], .interface [[65]] [⟨[97], .named [78], [], false⟩]⟩,
    ⟨[81], .object [[66]] [⟨[97], .named [78], [], false⟩]⟩,
    ⟨[78], .scalar .int⟩], []⟩

example : validateSchema witnessTransitive = .ok [⟨.missingTransitive, [81, 124, 65, 124, 66]⟩] ∧
    Spec.TypeSystemValid witnessTransitive = false := by decide

/-- C20-2 unbreakable input cycles (full). `InputObjectNonNullCircularRefsValidator`, run over
the type map in order with its visited set shared between the calls (`nnThread`), reports nothing
exactly when no input object type of the schema can reach itself through fields whose type is
Non-Null of an input object (not a list) — the specification's rule, whose bounded search is
proved to decide reachability (`noUnbreakableCycle_reach`). -/
theorem validate_iff_spec_inputCycles (s : RawSchema) :
    nnThread s s.types [] = [] ↔
      ∀ t ∈ s.types, ∀ fs o, t.defn = .input fs o → Spec.noUnbreakableCycle s t.name = true :=
  nnThread_iff s

/-- the specification's rule is about genuine reachability: its search bounded by the number of
types finds `tn` among what its unbreakable references reach iff a non-empty chain of unbreakable
references leads from `tn` back to `tn` -/
theorem noUnbreakableCycle_reach (s : RawSchema) (tn : Str) :
    Spec.noUnbreakableCycle s tn = true ↔ ¬ ReachPlus s tn tn :=
  noUnbreakableCycle_iff s tn

/-- every error of that validator names an input object that really reaches itself -/
theorem inputCycle_errors_sound (s : RawSchema) (e : Err) (h : e ∈ nnThread s s.types []) :
    e.kind = .nonNullCycle ∧ ReachPlus s e.subj e.subj ∧ s.isInputObject e.subj = true :=
  (nnThread_spec s s.types []).1 e h

/-- `input A { b: B! }  input B { a: A! }` is reported once; `[B!]!` breaks the cycle. -/
def witnessCycle (viaList : Bool) : RawSchema :=
  ⟨some [81], none, none,
   [⟨[65], .input [⟨[98], if viaList then .nonNull (.list (.nonNull (.named [66]))) else .nonNull (.named [66]),
        none, false, false⟩] false⟩,
    ⟨[66], .input [⟨[97], .nonNull (.named [65]), none, false, false⟩] false⟩,
    ⟨[81], .object [] [⟨[97], .named [78], [], false⟩]⟩, ⟨[78], .scalar .int⟩], []⟩

example : validateSchema (witnessCycle false) = .ok [⟨.nonNullCycle, [65]⟩] ∧
    Spec.TypeSystemValid (witnessCycle false) = false ∧
    validateSchema (witnessCycle true) = .ok [] ∧ Spec.TypeSystemValid (witnessCycle true) = true := by
  decide

/-- C20-2 default-value cycles (full, for well-formed names).
`InputObjectDefaultValueCircularRefsValidator`, run over the type map with its visited fields
shared (`dcThread`), reports nothing exactly when the specification's
InputObjectDefaultValueHasCycle is false for every input object type.  Both are shown to decide
the same graph property (`defaultCycle_graph`): no field reached from the object — through the
fields whose own default applies when a default literal is coerced — reaches itself. -/
theorem validate_iff_spec_defaultCycles (s : RawSchema) (hwf : NamesWF s) :
    dcThread s s.types [] = [] ↔
      ∀ t ∈ s.types, ∀ fs o, t.defn = .input fs o → Spec.defaultValueHasCycle s t.name = false :=
  dcThread_iff s hwf

/-- the specification's algorithm (path-based, budgeted) is about genuine reachability -/
theorem defaultCycle_graph (s : RawSchema) (hwf : NamesWF s) (tn : Str) :
    Spec.defaultValueHasCycle s tn = true ↔ ∃ x ∈ needObject s tn [], ReachesCycle s x :=
  defaultValueHasCycle_iff s hwf tn

/-- C20-2 (whole, full). For every raw schema with well-formed names, `validate_schema` returns
the empty list exactly when the schema satisfies the specification's type-system rules: root
types, directives, reserved names, fields and arguments (input / output positions, deprecated
required arguments), default values, interface implementation (transitive interfaces, covariant
field types, invariant argument types, optional extra arguments, deprecation), unions, enums,
input objects incl. OneOf, unbreakable input cycles and default-value cycles. -/
theorem validate_iff_spec (s : RawSchema) (hwf : NamesWF s) :
    validateSchema s = .ok [] ↔ Spec.TypeSystemValid s = true :=
  validateSchema_iff_of_cycles s (nnThread_iff s) (dcThread_iff s hwf)

/-- `NamesWF` is needed: with two fields of the same name in one input object
(`input A { x: B = {}, x: A = {} }  input B { y: Int }`, impossible for a Python dict) the
validator, which keys its visited set on the coordinate `A.x`, skips the second field, whose
default `{}` at type `A` applies itself again. -/
def witnessDuplicateField : RawSchema :=
  ⟨some [81], none, none,
   [⟨[65], .input [⟨[120], .named [66], some (.obj []), false, false⟩,
                   ⟨[120], .named [65], some (.obj []), false, false⟩] false⟩,
    ⟨[66], .input [⟨[121], .named [78], none, false, false⟩] false⟩,
    ⟨[81], .object [] [⟨[97], .named [78], [], false⟩]⟩, ⟨[78], .scalar .int⟩], []⟩

example : validateSchema witnessDuplicateField = .ok [] ∧
    Spec.TypeSystemValid witnessDuplicateField = false := by decide

-- default-value cycles on concrete schemas: `input A { b: B = {} }  input B { a: A = {} }`
def witnessDefaultCycle (broken : Bool) : RawSchema :=
  ⟨some [81], none, none,
   [⟨[65], .input [⟨[98], .named [66], some (if broken then .obj [([97], .null)] else .obj []), false, false⟩] false⟩,
    ⟨[66], .input [⟨[97], .named [65], some (.obj []), false, false⟩] false⟩,
    ⟨[81], .object [] [⟨[97], .named [78], [], false⟩]⟩, ⟨[78], .scalar .int⟩], []⟩

example : validateSchema (witnessDefaultCycle false) = .ok [⟨.defaultCycle, [65, 46, 98]⟩] ∧
    Spec.TypeSystemValid (witnessDefaultCycle false) = false ∧
    validateSchema (witnessDefaultCycle true) = .ok [] ∧
    Spec.TypeSystemValid (witnessDefaultCycle true) = true := by decide

/-- A gap of the transcribed specification revision, not of the proof: `input A @oneOf { a: A }`
satisfies every transcribed rule (and `validate_schema` reports nothing), yet `A` has no finite
value — exactly one field of a OneOf object must be non-null.  `Spec.uninhabited` (newer
specification text, deliberately not part of `TypeSystemValid`) is the check's oracle for it. -/
def witnessOneOfCycle : RawSchema :=
  ⟨some [81], none, none,
   [⟨[65], .input [⟨[97], .named [65], none, false, false⟩] true⟩,
    ⟨[81], .object [] [⟨[102], .named [78], [⟨[97], .named [65], none, false, false⟩], false⟩]⟩,
    ⟨[78], .scalar .int⟩], []⟩

example : validateSchema witnessOneOfCycle = .ok [] ∧ Spec.TypeSystemValid witnessOneOfCycle = true ∧
    Spec.uninhabited witnessOneOfCycle = [[65]] ∧ Spec.uninhabited (witnessCycle true) = [] := by decide

/-! ## termination of the circular-reference validators -/

/-- C20-3 (full). Neither circular-reference validator ever exhausts its recursion budget, on
any raw schema: every nested call of `InputObjectNonNullCircularRefsValidator` marks a type of the
schema visited for the first time (`nnFuel s = |types| + 1`), every nested call of
`InputObjectDefaultValueCircularRefsValidator.detect_field_default_value_cycle` a field coordinate
(`dcFuel s` = number of input fields + 1); the traversal of default literals in between is
structural. -/
theorem cycle_validators_terminate (s : RawSchema) : validateSchemaOutOfFuel s = false :=
  validateSchemaOutOfFuel_false s

/-- C20-3, per validator and for any start type and any memory. -/
theorem cycle_validators_terminate_each (s : RawSchema) (tn : Str) (st : VState)
    (h : st.outOfFuel = false) :
    (runNN s tn st).2.outOfFuel = false ∧ (runDC s tn st).2.outOfFuel = false :=
  ⟨runNN_terminates s tn st h, runDC_terminates s tn st h⟩

example : validateSchemaOutOfFuel (witnessCycle false) = false ∧
    validateSchemaOutOfFuel witnessF6Nested = false := by decide

/-! ## a request against an invalid schema -/

/-- C20-4. When the schema is invalid, `graphql_impl` returns exactly the schema's validation
errors (`data=None`) whatever parsing / validation / execution would have done: the rest of
the pipeline is not consulted. -/
theorem invalid_schema_response {ρ : Type} (s : RawSchema) (errs : List Err)
    (h : validateSchema s = .ok errs) (hne : errs ≠ []) (rest : Unit → Out Unit ρ) :
    graphqlImpl s rest = .ok (.schemaErrors errs) := by
  unfold graphqlImpl
  rw [h]
  cases errs with
  | nil => exact absurd rfl hne
  | cons e es => rfl

/-- C20-4b. `graphql_impl` never raises because of the schema: it raises only if the rest of the
pipeline does (and then the schema was valid). -/
theorem graphqlImpl_no_crash {ρ : Type} (s : RawSchema) (rest : Unit → Out Unit ρ)
    (hrest : ¬ (rest ()).isCrash) : ¬ (graphqlImpl s rest).isCrash := by
  obtain ⟨errs, h⟩ := validateSchema_isOk s
  unfold graphqlImpl
  rw [h]
  cases errs with
  | nil =>
    cases hr : rest () with
    | ok a => simp [Out.mapOk, Out.isCrash]
    | err u => simp [Out.mapOk, Out.isCrash]
    | crash c => simp [hr, Out.isCrash] at hrest
  | cons e es => simp [Out.isCrash]

example : graphqlImpl witnessF6 (fun _ => (Out.crash "would have executed" : Out Unit Nat)) =
    .ok (.schemaErrors [⟨.notInputType, [81, 46, 103, 40, 120, 58, 41]⟩]) :=
  invalid_schema_response witnessF6 _ (by decide) (by decide) _

/-- C20-5. The cache: a second `validate_schema` call returns the first call's list. -/
theorem validate_cached_same (s : RawSchema) :
    (validateSchemaCached s (validateSchemaCached s none).2).1 = (validateSchemaCached s none).1 := by
  obtain ⟨errs, h⟩ := validateSchema_isOk s
  simp [validateSchemaCached, h]

end Gql.Props.C20
