import Gql.Proofs.SchemaValidate
import Gql.Proofs.SchemaIff
import Gql.Proofs.SchemaCycles
/-!
# C20 — Schema validation reports every type-system violation and never crashes

Property theorems only (lemmas: `Gql/Proofs/SchemaValidate.lean`, `SchemaIff.lean`,
`SchemaCycles.lean`).
Model: `Gql.Types.validateSchema` (type/validate.py with type_comparators.py,
`validate_input_literal`, both circular-reference validators, the `_validation_errors` cache,
`graphql_impl`'s early return) over `Gql.Types.RawSchema`, for the code repaired by
`repo_patches/F6_default_value_non_input_type.diff`; `Gql.Types.Pinned.validateSchema` is the
pinned code.  Spec: `Gql.Types.Spec.TypeSystemValid` (Gql/Spec/TypeSystem.lean).

Status: no-crash, the response theorem and the cache are full; of the rule families, roots,
names, unions and enums are full; fields, directives and input fields are proved relative to
the default-value family (`_partial`); interfaces, default values and the two cycle families
are `_partial` (pieces proved, full statement kept as a `def … : Prop`); termination is proved
for the non-null validator and stated for the default-value validator.
-/
namespace Gql.Props.C20
open Gql Gql.Types

/-! ## never raises -/

/-- C20-1. `validate_schema` returns a list of errors for every raw schema: it never raises
(repaired code). -/
theorem validateSchema_no_crash (s : RawSchema) : ¬ (validateSchema s).isCrash := by
  obtain ⟨es, h⟩ := validateSchema_isOk s
  simp [h, Out.isCrash]

/-- C20-1, stronger form: the outcome is always `ok errs`. -/
theorem validateSchema_returns (s : RawSchema) : ∃ errs, validateSchema s = .ok errs :=
  validateSchema_isOk s

/-- `Query` = [81], `I` = [73], `g` = [103], `x` = [120], `f` = [102] -/
def witnessF6 : RawSchema :=
  ⟨some [81], none, none,
   [⟨[81], .object [] [⟨[103], .named [73], [⟨[120], .named [81], some (.int 1), false, false⟩], false⟩]⟩,
    ⟨[73], .scalar .int⟩], []⟩

/-- `input I { f: Query }  type Query { g(x: I = {f: 1}): Int }` (Int = [78]) -/
def witnessF6Nested : RawSchema :=
  ⟨some [81], none, none,
   [⟨[73], .input [⟨[102], .named [81], none, false, false⟩] false⟩,
    ⟨[81], .object [] [⟨[103], .named [78],
        [⟨[120], .named [73], some (.obj [([102], .int 1)]), false, false⟩], false⟩]⟩,
    ⟨[78], .scalar .int⟩], []⟩

/-- F6: on the pinned code the theorem is false — `type Query { g(x: Query = 1): I }` (and the
nested form, where the offending type sits behind an input object) make `validate_schema`
raise `TypeError` out of `assert_leaf_type`. -/
example : Pinned.validateSchema witnessF6 = .crash "TypeError" ∧
    Pinned.validateSchema witnessF6Nested = .crash "TypeError" := by decide

-- non-vacuity: on the repaired code the same schemas yield exactly the type-position error
example : validateSchema witnessF6 = .ok [⟨.notInputType, [81, 46, 103, 40, 120, 58, 41]⟩] ∧
    validateSchema witnessF6Nested = .ok [⟨.notInputType, [73, 46, 102]⟩] ∧
    Spec.TypeSystemValid witnessF6 = false := by decide

/-! ## errors = [] ⇔ the specification's rules, family by family -/

/-- C20-2 (whole). The statement for all families at once. -/
def validate_iff_spec_full : Prop :=
  ∀ s : RawSchema, validateSchema s = .ok [] ↔ Spec.TypeSystemValid s = true

/-- Every input object field has an input type (implied by either side of
`validate_iff_spec_full`; the per-family statements that involve default values need it, because
the repaired validator *skips* a provided field of non-input type while the specification's
coercion simply fails there). -/
def WellTypedInputs (s : RawSchema) : Prop :=
  ∀ t ∈ s.types, ∀ fs o, t.defn = .input fs o → ∀ f ∈ fs, s.isInputType f.type = true

/-- C20-2 roots (full): no root error ⇔ query root present, every provided root an Object type,
all different. -/
theorem validate_iff_spec_roots (s : RawSchema) :
    validateRootTypes s = [] ↔ Spec.rootsOk s = true :=
  validateRootTypes_nil s

example : validateRootTypes ⟨some [81], some [81], none, [⟨[81], .object [] []⟩], []⟩
    = [⟨.rootsNotDistinct, [81]⟩] := by decide

/-- C20-2 names (full): `validate_name` reports exactly the names beginning with `__`. -/
theorem validate_iff_spec_names (n : Str) : validateName n = [] ↔ Spec.nameOk n = true :=
  validateName_nil n

example : validateName [95, 95, 97] ≠ [] ∧ validateName [95, 97, 95, 95] = [] := by decide

/-- C20-2 unions (full): no error ⇔ at least one member, members unique, all Object types. -/
theorem validate_iff_spec_unions (s : RawSchema) (un : Str) (ms : List Str) :
    validateUnion s un ms = [] ↔ (!ms.isEmpty && decide ms.Nodup && ms.all s.isObject) = true :=
  validateUnion_nil s un ms

example : validateUnion witnessF6 [85] [[81], [81], [73]] =
    [⟨.unionDup, [85, 124, 81]⟩, ⟨.unionNonObject, [85, 124, 73]⟩] := by decide

/-- C20-2 enums (full): no error ⇔ at least one value and no reserved value name. -/
theorem validate_iff_spec_enums (en : Str) (vs : List Str) :
    validateEnum en vs = [] ↔ (!vs.isEmpty && vs.all Spec.nameOk) = true :=
  validateEnum_nil en vs

example : validateEnum [69] [] = [⟨.enumEmpty, [69]⟩] := by decide

/-- C20-2 default values — full statement: at an input type, `validate_default_value` reports
nothing exactly when the default coerces to the declared type. -/
def validate_iff_spec_defaults_full : Prop :=
  ∀ s : RawSchema, WellTypedInputs s → DefaultsAgree s validateDefault

/-- C20-2 default values (partial): proved are the leaf level (the built-in scalars accept
exactly the literals the specification's coercion accepts, custom scalars everything), the
absent-default case, and that a default at a non-input type is not validated at all. Missing:
the induction through list and input-object literals (`vLit = ok [] ↔ Spec.coercible`). -/
theorem validate_iff_spec_defaults_partial (s : RawSchema) (a : InputValue) (c : Str) :
    (∀ k v, scalarAccepts k (Lit.shape v) = Spec.scalarCoerces k v) ∧
    (a.default = none → validateDefault s a c = .ok [] ∧ Spec.defaultOk s a = true) ∧
    (s.isInputType a.type = false → validateDefault s a c = .ok []) := by
  refine ⟨scalarAccepts_eq, ?_, ?_⟩
  · intro h; simp [validateDefault, Spec.defaultOk, h]
  · intro h; unfold validateDefault; cases a.default <;> simp [h]

example : scalarAccepts .int (Lit.shape (.int 2147483648)) = false ∧
    Spec.scalarCoerces .int (.int (-2147483648)) = true := by decide

/-- C20-2 fields — full statement. -/
def validate_iff_spec_fields_full : Prop :=
  ∀ s : RawSchema, WellTypedInputs s → ∀ tn fs,
    validateFields s validateDefault tn fs = .ok [] ↔ Spec.fieldsOk s fs = true

/-- C20-2 fields (partial: relative to the default-value family). Non-empty, no reserved field
or argument name, output type in field position, input type in argument position, no
deprecated required argument — for any model of `validate_default_value` that satisfies the
default-value family (`DefaultsAgree`). -/
theorem validate_iff_spec_fields_partial (s : RawSchema)
    (dflt : RawSchema → InputValue → Str → Out Unit (List Err)) (H : DefaultsAgree s dflt)
    (tn : Str) (fs : List Field) :
    validateFields s dflt tn fs = .ok [] ↔ Spec.fieldsOk s fs = true :=
  validateFields_nil s dflt H tn fs

/-- C20-2 directives — full statement. -/
def validate_iff_spec_directives_full : Prop :=
  ∀ s : RawSchema, WellTypedInputs s →
    (validateDirectives s validateDefault = .ok [] ↔ s.directives.all (Spec.directiveOk s) = true)

/-- C20-2 directives (partial: relative to the default-value family). -/
theorem validate_iff_spec_directives_partial (s : RawSchema)
    (dflt : RawSchema → InputValue → Str → Out Unit (List Err)) (H : DefaultsAgree s dflt) :
    validateDirectives s dflt = .ok [] ↔ s.directives.all (Spec.directiveOk s) = true :=
  validateDirectives_nil s dflt H

/-- C20-2 input objects — full statement (fields part; cycles are separate families). -/
def validate_iff_spec_inputs_full : Prop :=
  ∀ s : RawSchema, WellTypedInputs s → ∀ tn fs o,
    validateInputFields s validateDefault tn fs o = .ok [] ↔
      (!fs.isEmpty && fs.all (Spec.inputFieldOk s o)) = true

/-- C20-2 input objects (partial: relative to the default-value family): non-empty, names,
input types, no deprecated required field, OneOf fields nullable and without default. -/
theorem validate_iff_spec_inputs_partial (s : RawSchema)
    (dflt : RawSchema → InputValue → Str → Out Unit (List Err)) (H : DefaultsAgree s dflt)
    (tn : Str) (fs : List InputValue) (o : Bool) :
    validateInputFields s dflt tn fs o = .ok [] ↔
      (!fs.isEmpty && fs.all (Spec.inputFieldOk s o)) = true :=
  validateInputFields_nil s dflt H tn fs o

-- non-vacuity of the `DefaultsAgree` hypothesis: a model that never reports satisfies it on a
-- schema without defaults, and the family theorem then decides a concrete field list
example : validateFields witnessF6 validateDefault [81]
    [⟨[95, 95, 103], .named [73], [], false⟩] = .ok [⟨.reservedName, [95, 95, 103]⟩] := by decide

/-- C20-2 interfaces — full statement (given that union members are Object types, which the
unions family checks: `is_type_sub_type_of` lets an interface listed in a union pass). -/
def validate_iff_spec_interfaces_full : Prop :=
  ∀ s : RawSchema,
    (∀ t ∈ s.types, ∀ ms, t.defn = .union ms → ms.all s.isObject = true) →
    ∀ tn ifaces fields,
      validateInterfaces s tn ifaces fields = [] ↔ Spec.implementsOk s tn ifaces fields = true

/-- C20-2 interfaces (partial): proved are the invariance of argument types
(`is_equal_type` is equality) and the transitive-interfaces clause
(`validate_type_implements_ancestors` ⇔ "whatever the interface implements, the type declares
too"). Missing: the duplicate bookkeeping of the `implements` loop against `Nodup`, and
`is_type_sub_type_of` against IsValidImplementationFieldType. -/
theorem validate_iff_spec_interfaces_partial (s : RawSchema) (tn : Str) (tIfaces : List Str)
    (i : Str) :
    (∀ a b, isEqualType a b = true ↔ a = b) ∧
    (validateAncestors s tn tIfaces i = [] ↔ (s.ifacesOf i).all tIfaces.contains = true) :=
  ⟨isEqualType_iff, validateAncestors_nil s tn tIfaces i⟩

/-- `interface A {a}  interface B implements A {a}  type Q implements B {a}`: the missing
transitive interface is reported (A=[65], B=[66], Q=[81], a=[97], Int=[78]). -/
def witnessTransitive : RawSchema :=
  ⟨some [81], none, none,
   [⟨[65], .interface [] [⟨[97], .named [78], [], false⟩]⟩,
    ⟨[66], .interface [[65]] [⟨[97], .named [78], [], false⟩]⟩,
    ⟨[81], .object [[66]] [⟨[97], .named [78], [], false⟩]⟩,
    ⟨[78], .scalar .int⟩], []⟩

example : validateSchema witnessTransitive = .ok [⟨.missingTransitive, [81, 124, 65, 124, 66]⟩] ∧
    Spec.TypeSystemValid witnessTransitive = false := by decide

/-- C20-2 unbreakable input cycles — full statement. -/
def validate_iff_spec_inputCycles_full : Prop :=
  ∀ s : RawSchema, ∀ errs, validateSchema s = .ok errs →
    ((∀ e ∈ errs, e.kind ≠ .nonNullCycle) ↔
      ∀ t ∈ s.types, ∀ fs o, t.defn = .input fs o → Spec.noUnbreakableCycle s t.name = true)

/-- C20-2 unbreakable input cycles (partial): the validator and the specification's rule walk
the same graph (a field counts iff its type is Non-Null of an input object, not a list).
Missing: depth-first search with a shared visited set reports a cycle iff one is reachable. -/
theorem validate_iff_spec_inputCycles_partial (s : RawSchema) (tn : Str)
    (fields : List InputValue) (o : Bool) (h : s.lookup tn = some (.input fields o)) :
    Spec.unbreakableRefs s tn = fields.filterMap (nonNullInputTarget s) :=
  unbreakableRefs_eq s tn fields o h

/-- `input A { b: B! }  input B { a: A! }` is reported once; `[B!]!` breaks the cycle. -/
def witnessCycle (viaList : Bool) : RawSchema :=
  ⟨some [81], none, none,
   [⟨[65], .input [⟨[98], if viaList then .nonNull (.list (.nonNull (.named [66]))) else .nonNull (.named [66]),
        none, false, false⟩] false⟩,
    ⟨[66], .input [⟨[97], .nonNull (.named [65]), none, false, false⟩] false⟩,
    ⟨[81], .object [] [⟨[97], .named [78], [], false⟩]⟩, ⟨[78], .scalar .int⟩], []⟩

example : validateSchema (witnessCycle false) = .ok [⟨.nonNullCycle, [65]⟩] ∧
    Spec.TypeSystemValid (witnessCycle false) = false ∧
    validateSchema (witnessCycle true) = .ok [] ∧ Spec.TypeSystemValid (witnessCycle true) = true := by
  decide

/-- C20-2 default-value cycles — full statement. -/
def validate_iff_spec_defaultCycles_full : Prop :=
  ∀ s : RawSchema, ∀ errs, validateSchema s = .ok errs →
    ((∀ e ∈ errs, e.kind ≠ .defaultCycle) ↔
      ∀ t ∈ s.types, ∀ fs o, t.defn = .input fs o → Spec.defaultValueHasCycle s t.name = false)

/-- C20-2 (whole, partial): `validate_schema` reports nothing iff the three phases report
nothing, and for the first two phases that is the specification's root and directive rules
(directives relative to the default-value family). Missing: the per-type phase, which needs the
`_partial` families above and the threading of the two validators' visited sets. -/
theorem validate_iff_spec_partial (s : RawSchema) (H : DefaultsAgree s validateDefault) :
    validateSchema s = .ok [] ↔
      Spec.rootsOk s = true ∧ s.directives.all (Spec.directiveOk s) = true ∧
      ∃ st, validateTypesLoop s validateDefault s.types ⟨[], [], false⟩ = .ok ([], st) := by
  rw [validateSchema_nil_iff, validateRootTypes_nil, validateDirectives_nil s validateDefault H]

/-! ## termination of the circular-reference validators -/

/-- C20-3 — full statement: neither validator ever exhausts its recursion budget. -/
def cycle_validators_terminate_full : Prop :=
  ∀ s : RawSchema, validateSchemaOutOfFuel s = false

/-- C20-3 (partial: the non-null validator). `InputObjectNonNullCircularRefsValidator` called on
any type with any visited set terminates within `nnFuel s = |types| + 1` nested calls: each
nested call marks a type of the schema visited for the first time. Missing: the same counting
argument for `InputObjectDefaultValueCircularRefsValidator` (`dcFuel s` = number of input
fields + 1), whose recursion also runs through the default literals. -/
theorem cycle_validators_terminate_partial (s : RawSchema) (tn : Str) (st : VState)
    (h : st.outOfFuel = false) : (runNN s tn st).2.outOfFuel = false :=
  runNN_terminates s tn st h

example : validateSchemaOutOfFuel (witnessCycle false) = false ∧
    validateSchemaOutOfFuel witnessF6Nested = false := by decide

/-! ## a request against an invalid schema -/

/-- C20-4. When the schema is invalid, `graphql_impl` returns exactly the schema's validation
errors (`data=None`) whatever parsing / validation / execution would have done: the rest of
the pipeline is not consulted. -/
theorem invalid_schema_response {ρ : Type} (s : RawSchema) (errs : List Err)
    (h : validateSchema s = .ok errs) (hne : errs ≠ []) (rest : Unit → Out Unit ρ) :
    graphqlImpl s rest = .ok (.schemaErrors errs) := by
  unfold graphqlImpl
  rw [h]
  cases errs with
  | nil => exact absurd rfl hne
  | cons e es => rfl

/-- C20-4b. `graphql_impl` never raises because of the schema: it raises only if the rest of the
pipeline does (and then the schema was valid). -/
theorem graphqlImpl_no_crash {ρ : Type} (s : RawSchema) (rest : Unit → Out Unit ρ)
    (hrest : ¬ (rest ()).isCrash) : ¬ (graphqlImpl s rest).isCrash := by
  obtain ⟨errs, h⟩ := validateSchema_isOk s
  unfold graphqlImpl
  rw [h]
  cases errs with
  | nil =>
    cases hr : rest () with
    | ok a => simp [Out.mapOk, Out.isCrash]
    | err u => simp [Out.mapOk, Out.isCrash]
    | crash c => simp [hr, Out.isCrash] at hrest
  | cons e es => simp [Out.isCrash]

example : graphqlImpl witnessF6 (fun _ => (Out.crash "would have executed" : Out Unit Nat)) =
    .ok (.schemaErrors [⟨.notInputType, [81, 46, 103, 40, 120, 58, 41]⟩]) :=
  invalid_schema_response witnessF6 _ (by decide) (by decide) _

/-- C20-5. The cache: a second `validate_schema` call returns the first call's list. -/
theorem validate_cached_same (s : RawSchema) :
    (validateSchemaCached s (validateSchemaCached s none).2).1 = (validateSchemaCached s none).1 := by
  obtain ⟨errs, h⟩ := validateSchema_isOk s
  simp [validateSchemaCached, h]

end Gql.Props.C20
