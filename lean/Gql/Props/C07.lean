import Gql.Proofs.Subscribe
/-!
# C07 — A subscription maps source events to responses one-to-one and in order

Property theorems only (lemmas: `Gql/Proofs/Subscribe.lean`).  Model:
`Gql.Async.Subscribe` — `subscribe`/`createSourceEventStream`/`executeSubscription` for the
creation phase; the transition system `step`/`run` over `push | pull | close` for
`map_source_to_response_event` = `map_async_iterable(source, callback)`; `execEvent` for
`build_per_event_executor` + `execute_subscription_event`.

All stream theorems are stated for `s = run exec (init src) ops` with `ops` an *arbitrary* list
of producer pushes, consumer pulls and closes: every interleaving, every source (any event
list, ending or raising after any number of events), every per-event execution function
`exec` (the executor is C02's model; here it is a parameter).
-/
namespace Gql.Props.C07
open Gql Gql.Async.Subscribe

variable {Ev R X : Type}

/-- C07-1a (one-to-one, in order, at every moment). Whatever the interleaving of producer and
consumer, the responses delivered so far are a prefix of `events.map exec`: response `i` is
`exec` of event `i`, none is skipped, duplicated or reordered. -/
theorem responses_prefix (exec : Ev → R) (src : Source Ev X) (ops : List Op) :
    responsesOf (run exec (init src) ops).out <+: src.events.map exec := by
  obtain ⟨⟨consumed, j, hsplit, hout, _, _⟩, _, _, _⟩ := inv_run exec src ops _ (inv_init exec src)
  rw [hout, responsesOf_append, responsesOf_replicate_done, List.append_nil,
    ← responsesOf_expected exec src, ← map_outOf_items, ← hsplit]
  rw [List.append_assoc, List.map_append, responsesOf_append]
  exact List.prefix_append _ _

/-- C07-1 (`responses = events.map exec`). For every event list and every interleaving: once
the stream has finished without the consumer closing it, what the consumer received is exactly
one response per event, in source order, each `exec` of that event, followed by how the source
finished, followed only by further "finished" answers to further pulls. -/
theorem responses_eq_map (exec : Ev → R) (src : Source Ev X) (ops : List Op)
    (hfin : (run exec (init src) ops).finished = true)
    (hnc : (run exec (init src) ops).closedEarly = false) :
    ∃ j, (run exec (init src) ops).out = expected exec src ++ List.replicate j Delivered.done := by
  obtain ⟨⟨consumed, j, hsplit, hout, _, hfc⟩, _, _, _⟩ := inv_run exec src ops _ (inv_init exec src)
  obtain ⟨hq, hp⟩ := hfc hfin hnc
  rw [hq, hp] at hsplit
  simp at hsplit
  exact ⟨j, by rw [hout, hsplit, map_outOf_items]⟩

/-- C07-1, as a statement about the responses alone. -/
theorem responses_eq_map' (exec : Ev → R) (src : Source Ev X) (ops : List Op)
    (hfin : (run exec (init src) ops).finished = true)
    (hnc : (run exec (init src) ops).closedEarly = false) :
    responsesOf (run exec (init src) ops).out = src.events.map exec := by
  obtain ⟨j, h⟩ := responses_eq_map exec src ops hfin hnc
  rw [h, responsesOf_append, responsesOf_replicate_done, List.append_nil, responsesOf_expected]

/-- C07-3 (a source raising after `k` events). The `k` responses for the earlier events come
first, then exactly that exception surfaces to the consumer. -/
theorem source_error_after_prefix (exec : Ev → R) (events : List Ev) (x : X) (ops : List Op)
    (hfin : (run exec (init ⟨events, .raise x⟩) ops).finished = true)
    (hnc : (run exec (init ⟨events, .raise x⟩) ops).closedEarly = false) :
    ∃ j, (run exec (init ⟨events, .raise x⟩) ops).out =
      events.map (fun e => Delivered.resp (exec e)) ++ [Delivered.exc x] ++
        List.replicate j Delivered.done := by
  obtain ⟨j, h⟩ := responses_eq_map exec ⟨events, .raise x⟩ ops hfin hnc
  exact ⟨j, by rw [h]; rfl⟩

/-- C07-4 (the stream ends when the source ends). After the responses for all events the
stream ends. -/
theorem ends_with_source (exec : Ev → R) (events : List Ev) (ops : List Op)
    (hfin : (run exec (init (⟨events, .finish⟩ : Source Ev X)) ops).finished = true)
    (hnc : (run exec (init (⟨events, .finish⟩ : Source Ev X)) ops).closedEarly = false) :
    ∃ j, (run exec (init (⟨events, .finish⟩ : Source Ev X)) ops).out =
      events.map (fun e => Delivered.resp (exec e)) ++ [Delivered.done] ++
        List.replicate j Delivered.done := by
  obtain ⟨j, h⟩ := responses_eq_map exec ⟨events, .finish⟩ ops hfin hnc
  exact ⟨j, by rw [h]; rfl⟩

/-- C07-4 (… and not before). If the consumer never closes and has been told "finished" or has
been handed an exception, then the source really had finished that way and every event's
response was delivered before. -/
theorem no_early_end (exec : Ev → R) (src : Source Ev X) (ops : List Op) (hops : Op.close ∉ ops)
    (d : Delivered R X) (hd : d ∈ (run exec (init src) ops).out) (hnr : ∀ r, d ≠ .resp r) :
    ∃ j, (run exec (init src) ops).out = expected exec src ++ List.replicate j Delivered.done := by
  have hnc := closedEarly_run exec ops (init src) hops rfl
  cases hfin : (run exec (init src) ops).finished with
  | true => exact responses_eq_map exec src ops hfin hnc
  | false =>
    exfalso
    obtain ⟨⟨consumed, j, _, hout, hnf, _⟩, _, _, _⟩ := inv_run exec src ops _ (inv_init exec src)
    obtain ⟨hj, evs, hevs⟩ := hnf hfin
    rw [hout, hj, hevs] at hd
    simp at hd
    obtain ⟨e, _, he⟩ := hd
    exact hnr (exec e) (by rw [← he]; rfl)

/-- C07-5 (every interleaving completes; nothing is lost, nothing gets stuck). From the state
reached by *any* schedule, *any* continuation in which the producer only emits while it has
items and the consumer only pulls when its previous pull has returned, and which is at least
`fuel` long, finishes the stream — and then `responses_eq_map` applies. -/
theorem drain_finishes (exec : Ev → R) (src : Source Ev X) (ops more : List Op)
    (hen : EnabledRun exec (run exec (init src) ops) more)
    (hlen : fuel (run exec (init src) ops) ≤ more.length) :
    (run exec (run exec (init src) ops) more).finished = true :=
  enabled_run_finishes exec src more _ (inv_run exec src ops _ (inv_init exec src)) hen hlen

/-- The source is closed exactly once when the stream finishes after having been started, and
not at all if the consumer closes a stream it never pulled from (link to C06). -/
theorem source_closed_once (exec : Ev → R) (src : Source Ev X) (ops : List Op) :
    (run exec (init src) ops).srcClosed =
      if (run exec (init src) ops).finished && (run exec (init src) ops).started then 1 else 0 :=
  (inv_run exec src ops _ (inv_init exec src)).closed

/-- C07-2 (creation clause). Whatever goes wrong while creating the source — no subscription
type, no root field left, unknown field, argument coercion, the `subscribe` resolver raising,
returning an exception or returning something that is not an async iterable, synchronously or
through an awaitable — `subscribe` returns exactly one errors-only result with one error; not a
stream, not an exception. -/
theorem creation_failure_single_response (f : CreateFault) (awaited : Bool) :
    subscribe (.fault f awaited : Request Ev X) = .ok (.errorsOnly 1) := by
  cases f <;> rfl

/-- C07-2b. A request the executor cannot be built for (no operation, variable coercion errors)
gives one errors-only result carrying those errors; a working source gives the stream. -/
theorem build_failure_single_response (f : BuildFault) :
    ∃ n, 0 < n ∧ subscribe (.badBuild f : Request Ev X) = .ok (.errorsOnly n) := by
  cases f with
  | noOperation => exact ⟨1, by omega, rfl⟩
  | variableCoercion n => exact ⟨n + 1, by omega, rfl⟩

theorem working_source_gives_stream (s : Source Ev X) (awaited : Bool) :
    subscribe (.source s awaited) = .ok (.stream s) := rfl

/-- C07-6 (isolation). The response for an event carries exactly the errors executing *that*
event produces, whatever the parent executor had collected before — errors of event `i` never
appear in the response for event `j`. -/
theorem isolation {D E : Type} (runEv : Ev → D × List E) (parent : Executor Ev E) (ev : Ev) :
    (execEvent runEv parent ev).errors = (runEv ev).2 ∧ (execEvent runEv parent ev).data = (runEv ev).1 := by
  simp [execEvent, executeOperation, buildPerEventExecutor]

/-- C07-6 on the stream: in every interleaving the `i`-th delivered response has the errors of
the `i`-th event and of no other. -/
theorem isolation_stream {D E : Type} (runEv : Ev → D × List E) (parent : Executor Ev E)
    (src : Source Ev X) (ops : List Op) :
    (responsesOf (run (execEvent runEv parent) (init src) ops).out).map (·.errors) <+:
      src.events.map (fun ev => (runEv ev).2) := by
  obtain ⟨t, ht⟩ := responses_prefix (execEvent runEv parent) src ops
  refine ⟨t.map (·.errors), ?_⟩
  rw [← List.map_append, ht, List.map_map]
  apply List.map_congr_left
  intro ev _
  exact (isolation runEv parent ev).1

-- Non-vacuity -------------------------------------------------------------------------------

/-- three events, the second and third with field errors; exception `7` after them -/
private def exSrc : Source (Nat × Nat) Nat := ⟨[(10, 0), (11, 2), (12, 1)], .raise 7⟩
private def exRun (e : Nat × Nat) : Nat × List (Nat × Nat) :=
  (e.1, (List.range e.2).map (fun j => (e.1, j)))
private def exExec := execEvent exRun ⟨(0, 0), [(99, 99)]⟩

-- consumer first, producer bursts, consumer catches up: finished, not closed early, and the
-- output is the three responses, the exception, and one more "finished"
example :
    let s := run exExec (init exSrc) [.pull, .push, .push, .push, .pull, .push, .pull, .pull, .pull]
    s.finished = true ∧ s.closedEarly = false ∧
      s.out = [.resp ⟨10, []⟩, .resp ⟨11, [(11, 0), (11, 1)]⟩, .resp ⟨12, [(12, 0)]⟩, .exc 7, .done] ∧
      s.srcClosed = 1 := by decide

-- an unfinished schedule: two responses so far (a proper prefix), consumer blocked
example :
    let s := run exExec (init exSrc) [.push, .pull, .pull, .push, .pull]
    s.finished = false ∧ s.waiting = true ∧ responsesOf s.out = [⟨10, []⟩, ⟨11, [(11, 0), (11, 1)]⟩] := by
  decide

-- the continuation [push, push, pull, pull] is enabled and as long as `fuel`, hence finishes
example :
    let s := run exExec (init exSrc) [.push, .pull, .pull, .push, .pull]
    EnabledRun exExec s [.push, .push, .pull, .pull] ∧ fuel s ≤ 4 := by
  decide

-- closing before the first pull: no response, the source is not closed (it was never started)
example :
    let s := run exExec (init exSrc) [.push, .close, .pull]
    s.out = [.done] ∧ s.srcClosed = 0 ∧ s.closedEarly = true := by decide

-- isolation is not vacuous: threading one accumulator through the events leaks errors of
-- event 11 into the response for event 12
example : execEventsShared exRun [] [(11, 1), (12, 0)] = [⟨11, [(11, 0)]⟩, ⟨12, [(11, 0)]⟩] ∧
    [(11, 1), (12, 0)].map exExec = [⟨11, [(11, 0)]⟩, ⟨12, []⟩] := by decide

end Gql.Props.C07
