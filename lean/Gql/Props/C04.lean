import Gql.Proofs.Plan
import Gql.Proofs.Assemble
import Gql.Proofs.Filtered
import Gql.Proofs.Cut
import Gql.Proofs.Order
import Gql.Proofs.Collect
import Gql.Proofs.Bridge
import Gql.Proofs.IncExec
import Gql.Proofs.IncExecDefer
import Gql.Proofs.IncExecRef
import Gql.Proofs.IncExecRef2
import Gql.Proofs.ExecProps
import Gql.Exec.Values
/-!
# C04 — Incremental delivery reassembles to the non-incremental response

Property theorems only (lemmas: `Gql/Proofs/Plan.lean`, `Gql/Proofs/Assemble.lean`).

* Model: `Gql.Async.Plan.buildExecutionPlan` / `getFilteredDeferUsageSet`
  (build_execution_plan.py), tied to the code by direct correspondence.
* Spec: `Gql.Async.apply` — the delivery format's merge — and `Gql.Async.Spec.exact` /
  `Spec.approx`, the two clauses of the property; they are the oracle run on every payload stream
  the implementation produces.  `Gql.Async.Cut` is the abstract denotational model of the
  incremental executor (a reference tree cut at defer/stream points).
-/
namespace Gql.Props.C04
open Gql.Async Gql.Async.Plan

/-! ## 1. The execution plan partitions the grouped field set -/

/-- C04-1 `plan_partition`.  For every grouped field set with distinct response keys, every parent
defer-usage set and every defer-usage forest: the planned grouped field set and the new grouped
field sets (`parts`) partition the original —
* each part is a sublist of the original: its entries are original `(key, field-details list)`
  pairs, *intact*, in their original order, and nothing is invented;
* the concatenation of the parts is a permutation of the original: every entry lands in exactly
  one part. -/
theorem plan_partition {κ : Type} [DecidableEq κ] (parentOf : Nat → Option Nat) (fuel : Nat)
    (parent : DeferUsageSet) (orig : GroupedFieldSet κ) (hnd : (orig.map Prod.fst).Nodup) :
    let plan := buildExecutionPlan parentOf fuel orig parent
    (∀ part ∈ parts plan, part.Sublist orig) ∧ orig.Perm (parts plan).flatten := by
  have inv := build_inv parentOf fuel parent orig hnd
  refine ⟨?_, ?_⟩
  · intro part hpart
    simp only [parts, List.mem_cons, List.mem_map] at hpart
    rcases hpart with rfl | ⟨sg, hsg, rfl⟩
    · exact inv.sub_planned
    · exact inv.sub_new sg hsg
  · simpa [parts] using inv.perm

/-- C04-1b `plan_parts_characterised`.  Which part an entry lands in is decided by its filtered
defer-usage set alone: the planned part holds exactly entries whose set equals the parent's; every
new part is non-empty, is keyed by a set equal to the filtered set of each of its entries and
different from the parent's; and no two new parts have equal key sets. -/
theorem plan_parts_characterised {κ : Type} [DecidableEq κ] (parentOf : Nat → Option Nat)
    (fuel : Nat) (parent : DeferUsageSet) (orig : GroupedFieldSet κ)
    (hnd : (orig.map Prod.fst).Nodup) :
    let plan := buildExecutionPlan parentOf fuel orig parent
    let filt := getFilteredDeferUsageSet parentOf fuel
    (∀ e ∈ plan.groupedFieldSet, setEq (filt e.2) parent = true) ∧
    (∀ sg ∈ plan.newGroupedFieldSets, sg.2 ≠ [] ∧
        ∀ e ∈ sg.2, setEq sg.1 (filt e.2) = true ∧ setEq (filt e.2) parent = false) ∧
    plan.newGroupedFieldSets.Pairwise (fun a b => setEq a.1 b.1 = false) := by
  have inv := build_inv parentOf fuel parent orig hnd
  exact ⟨inv.planned_iff, inv.new_spec, inv.distinct⟩

-- Non-vacuity: three keys, usages 0 ⊃ 1 (1 is a child of 0) and 2; key 10 is deferred under {1},
-- key 11 under {0,1} (filtered to {0}), key 12 not deferred.  Planned: [12]; new: {1} ↦ [10], {0} ↦ [11].
example :
    let parentOf : Nat → Option Nat := fun d => if d = 1 then some 0 else none
    let orig : GroupedFieldSet Nat :=
      [(10, [⟨0, some 1⟩]), (11, [⟨1, some 0⟩, ⟨2, some 1⟩]), (12, [⟨3, none⟩, ⟨4, some 2⟩])]
    let plan := buildExecutionPlan parentOf 4 orig []
    (orig.map Prod.fst).Nodup ∧ plan.groupedFieldSet.map Prod.fst = [12] ∧
      plan.newGroupedFieldSets.map (fun sg => (sg.1, sg.2.map Prod.fst)) = [([1], [10]), ([0], [11])] := by
  decide

/-- C04-1c `filtered_set_spec`.  `get_filtered_defer_usage_set` on a field-details list whose
fields are all deferred returns exactly the defer usages of the fields that have no proper ancestor
(along `parent_defer_usage`) among them — for every defer-usage forest in which parents are older
than children (construction order) and any fuel above the serials (so the modelled `while` loop
never runs out: it is the real loop). -/
theorem filtered_set_spec (parentOf : Nat → Option Nat) (fuel : Nat) (fdl : FieldDetailsList)
    (hwf : ∀ d p, parentOf d = some p → p < d)
    (hall : ∀ fd ∈ fdl, fd.deferUsage.isSome)
    (hfuel : ∀ fd ∈ fdl, ∀ d, fd.deferUsage = some d → d < fuel) (d : Nat) :
    d ∈ getFilteredDeferUsageSet parentOf fuel fdl ↔
      d ∈ fdl.filterMap (·.deferUsage) ∧
        ¬ ∃ a ∈ fdl.filterMap (·.deferUsage), Ancestor parentOf a d :=
  filtered_spec parentOf hwf fuel fdl hall hfuel d

/-- C04-1d `filtered_set_nondeferred`: a field-details list containing a non-deferred field has the
empty filtered set (so its key stays with the parent's part when the parent set is empty). -/
theorem filtered_set_nondeferred (parentOf : Nat → Option Nat) (fuel : Nat) (fdl : FieldDetailsList)
    (h : ∃ fd ∈ fdl, fd.deferUsage = none) : getFilteredDeferUsageSet parentOf fuel fdl = [] := by
  have : ∀ acc, collectUsages fdl acc = none := by
    induction fdl with
    | nil => simp at h
    | cons x rest ih =>
      intro acc
      cases hx : x.deferUsage with
      | none => simp [collectUsages, hx]
      | some d =>
        simp only [collectUsages, hx]
        apply ih
        obtain ⟨fd, hfd, hn⟩ := h
        rcases List.mem_cons.mp hfd with rfl | hin
        · rw [hx] at hn; cases hn
        · exact ⟨fd, hin, hn⟩
  simp [getFilteredDeferUsageSet, this]

example : getFilteredDeferUsageSet (fun d => if d = 1 then some 0 else none) 4
    [⟨1, some 0⟩, ⟨2, some 1⟩, ⟨3, some 2⟩] = [0, 2] := by decide

/-! ## 2. Assembling is independent of the order of the pieces -/

/-- C04-2 `assemble_order_independent`.  Take any state of a client (data assembled so far and
the pending ids) and any list `es` of incremental entries, and any reordering `es'` of it in which
the batches of each stream keep their relative order (`streamsOf … p`: the stream entries whose id
is pending at `p`, see `isStreamAt_incE`; the format delivers the items of one stream in index order).  If both orders can be folded into the data by `Assemble.apply` — in
particular whenever both are parent-before-child — the two results are the same JSON value
(`SameValue`: every path resolves in one iff it resolves in the other, to the same scalar / an
object / a list of the same length; i.e. equality with object key order ignored).  No bound on the
number of entries, on nesting, or on how targets overlap. -/
theorem assemble_order_independent (st a b : State) (es es' : List IncE)
    (hperm : es.Perm es')
    (hstreams : ∀ p, streamsOf (IncE.act st.pending) p es = streamsOf (IncE.act st.pending) p es')
    (ha : applyAll st es = .ok a) (hb : applyAll st es' = .ok b) :
    SameValue a.data b.data :=
  applyAll_perm hperm hstreams ha hb

/-- What `SameValue` means: the same kind of value at the root (same scalar, both objects, or
lists of the same length) and, child by child (object key or list index), either both absent or
both present and again the same value — JSON equality with objects read as unordered maps. -/
theorem same_value_characterised (a b : J) :
    SameValue a b ↔ tag a = tag b ∧ ∀ seg,
      (childAt seg a = none ∧ childAt seg b = none) ∨
      (∃ c c', childAt seg a = some c ∧ childAt seg b = some c' ∧ SameValue c c') :=
  sameValue_iff a b

/-- `Assemble.apply` is a congruence for "the same JSON value": the key order in which earlier
entries left an object never influences whether or how a later entry applies. -/
theorem apply_respects_same_value (st st' s : State) (e : IncE)
    (hd : SameValue st.data st'.data) (hp : st'.pending = st.pending) (h : apply st e = .ok s) :
    ∃ s', apply st' e = .ok s' ∧ SameValue s.data s'.data ∧ s'.pending = s.pending :=
  apply_congr hd hp h

-- Non-vacuity: three entries — a defer entry on the root, a defer entry on the same root object,
-- and a stream batch — in two different orders.
example :
    let st : State := { initState (.obj [([97], .int 1), ([108], .arr [.int 1])]) [] with
      pending := [([48], []), ([49], []), ([50], [.key [108]])] }
    let e1 : IncE := .defer [48] [] (.obj [([98], .int 2)]) []
    let e2 : IncE := .defer [49] [] (.obj [([99], .obj [])]) []
    let e3 : IncE := .stream [50] [.int 2] []
    ([e1, e2, e3] : List IncE).length = 3 ∧
    (∀ p ∈ [[], [Seg.key [108]]], (streamsOf (IncE.act st.pending) p [e1, e2, e3]).length = (streamsOf (IncE.act st.pending) p [e3, e2, e1]).length) ∧
    (match applyAll st [e1, e2, e3], applyAll st [e3, e2, e1] with
     | .ok a, .ok b => J.eqv a.data b.data && !(J.eqv a.data st.data)
     | _, _ => false) = true := by
  decide

/-- C04-2 `assemble_order_independent_partial`.  Two entries whose targets are disjoint
(`pending[id].path ++ subPath` diverge before either ends — the situation of any two pieces that
are not nested in each other and do not target the same object/list): if they can be applied one
way round they can be applied the other way round, and the assembled data is *identical*
(not merely equal up to key order) — the exact-equality refinement of
`assemble_order_independent` for this case. -/
theorem assemble_order_independent_partial (st s1 s12 : State) (e1 e2 : IncE)
    (p q : Path) (f g : J → Except Fail J)
    (ha1 : e1.action st.pending = some (p, f)) (ha2 : e2.action st.pending = some (q, g))
    (hdis : disjointPaths p q = true)
    (h1 : apply st e1 = .ok s1) (h2 : apply s1 e2 = .ok s12) :
    ∃ s2 s21, apply st e2 = .ok s2 ∧ apply s2 e1 = .ok s21 ∧ s21.data = s12.data := by
  obtain ⟨p', f', hp', hu1, hpend1⟩ := apply_ok h1
  rw [ha1] at hp'; cases hp'
  obtain ⟨q', g', hq', hu2, _⟩ := apply_ok h2
  rw [hpend1, ha2] at hq'; cases hq'
  obtain ⟨j2, hj2, hj21⟩ := updateAt_comm f g p q st.data s1.data s12.data hdis hu1 hu2
  obtain ⟨s2, hs2, hd2, hpend2⟩ := apply_of_action ha2 hj2
  have ha1' : e1.action s2.pending = some (p, f) := by rw [hpend2]; exact ha1
  obtain ⟨s21, hs21, hd21, _⟩ := apply_of_action ha1' (by rw [hd2]; exact hj21)
  exact ⟨s2, s21, hs2, hs21, hd21⟩

/-- C04-2c `assemble_order_independent_nested`.  Two entries one of which (`e2`) targets a
position strictly below the target of the other (`e1`), through a child that is present in the
data before either is applied (so `e2` does not depend on `e1`): applying `e1` then `e2` succeeds
iff applying `e2` then `e1` does, and the assembled data is identical.  Together with
`assemble_order_independent_partial` (disjoint targets) the only pair of entries not covered is
two defer entries with the *same* target, whose results agree up to the order of the added keys
(`merge_same_target_perm`). -/
theorem assemble_order_independent_nested (st : State) (e1 e2 : IncE)
    (p r : Path) (seg : Seg) (f g : J → Except Fail J)
    (ha1 : e1.action st.pending = some (p, f))
    (ha2 : e2.action st.pending = some (p ++ seg :: r, g))
    (hex : ∃ t, Spec.getAt p st.data = some t ∧ (childAt seg t).isSome) :
    (∀ s1 s12, apply st e1 = .ok s1 → apply s1 e2 = .ok s12 →
        ∃ s2 s21, apply st e2 = .ok s2 ∧ apply s2 e1 = .ok s21 ∧ s21.data = s12.data) ∧
    (∀ s2 s21, apply st e2 = .ok s2 → apply s2 e1 = .ok s21 →
        ∃ s1 s12, apply st e1 = .ok s1 ∧ apply s1 e2 = .ok s12 ∧ s12.data = s21.data) := by
  have hpres := action_preserves ha1 seg
  constructor
  · intro s1 s12 h1 h2
    obtain ⟨p', f', hp', hu1, hpend1⟩ := apply_ok h1
    rw [ha1] at hp'; cases hp'
    obtain ⟨q', g', hq', hu2, _⟩ := apply_ok h2
    rw [hpend1, ha2] at hq'; cases hq'
    obtain ⟨j2, hj2, hj21⟩ := updateAt_comm_below f g seg r hpres p st.data s1.data s12.data hu1 hu2 hex
    obtain ⟨s2, hs2, hd2, hpend2⟩ := apply_of_action ha2 hj2
    have ha1' : e1.action s2.pending = some (p, f) := by rw [hpend2]; exact ha1
    obtain ⟨s21, hs21, hd21, _⟩ := apply_of_action ha1' (by rw [hd2]; exact hj21)
    exact ⟨s2, s21, hs2, hs21, hd21⟩
  · intro s2 s21 h1 h2
    obtain ⟨q', g', hq', hu1, hpend1⟩ := apply_ok h1
    rw [ha2] at hq'; cases hq'
    obtain ⟨p', f', hp', hu2, _⟩ := apply_ok h2
    rw [hpend1, ha1] at hp'; cases hp'
    obtain ⟨j1, hj1, hj12⟩ := updateAt_comm_above f g seg r hpres p st.data s2.data s21.data hu1 hu2
    obtain ⟨s1, hs1, hd1, hpend1'⟩ := apply_of_action ha1 hj1
    have ha2' : e2.action s1.pending = some (p ++ seg :: r, g) := by rw [hpend1']; exact ha2
    obtain ⟨s12, hs12, hd12, _⟩ := apply_of_action ha2' (by rw [hd1]; exact hj12)
    exact ⟨s1, s12, hs1, hs12, hd12⟩

/-- C04-2d `merge_same_target_perm`.  Two defer entries merged into the same object, in either
order: both orders succeed together, and the resulting field lists are permutations of each other
(the same JSON object). -/
theorem merge_same_target_perm (tgt a b r1 r12 : List (List Nat × J))
    (h1 : mergeKeys tgt a = .ok r1) (h2 : mergeKeys r1 b = .ok r12) :
    ∃ r2 r21, mergeKeys tgt b = .ok r2 ∧ mergeKeys r2 a = .ok r21 ∧ r21.Perm r12 := by
  obtain ⟨rfl, hfa, hnda⟩ := mergeKeys_ok a tgt r1 h1
  obtain ⟨rfl, hfb, hndb⟩ := mergeKeys_ok b (tgt ++ a) r12 h2
  have hfb_tgt : ∀ kv ∈ b, lookup kv.1 tgt = none := by
    intro kv hkv
    have := hfb kv hkv
    cases hl : lookup kv.1 tgt with
    | none => rfl
    | some w => rw [lookup_append_some kv.1 tgt a w hl] at this; cases this
  have hfb_a : ∀ kv ∈ b, lookup kv.1 a = none := by
    intro kv hkv
    have := hfb kv hkv
    rwa [lookup_append_none kv.1 tgt a (hfb_tgt kv hkv)] at this
  have hfa_tb : ∀ kv ∈ a, lookup kv.1 (tgt ++ b) = none := by
    intro kv hkv
    rw [lookup_append_none kv.1 tgt b (hfa kv hkv)]
    -- kv.1 is a key of `a`; if it were a key of `b`, `b`'s entry would not be fresh w.r.t. `a`
    cases hl : lookup kv.1 b with
    | none => rfl
    | some w =>
      exfalso
      obtain ⟨kv', hin', he⟩ := exists_mem_of_lookup hl
      have hnone := hfb_a kv' hin'
      rw [he] at hnone
      exact lookup_ne_none_of_mem hkv hnone
  refine ⟨tgt ++ b, tgt ++ b ++ a, mergeKeys_succeeds b tgt hfb_tgt hndb,
    mergeKeys_succeeds a (tgt ++ b) hfa_tb hnda, ?_⟩
  simp only [List.append_assoc]
  exact List.Perm.append_left tgt List.perm_append_comm

/-- C04-2b `apply_never_overwrites`.  A defer entry that `apply` accepts added only keys that the
target object did not have, appended in order; nothing else in the target object changed.  (An
existing key is the explicit failure `overwrite` / `duplicate`, never a silent replacement.) -/
theorem apply_never_overwrites (tgt add r : List (List Nat × J))
    (h : mergeInto add (.obj tgt) = .ok (.obj r)) :
    r = tgt ++ add ∧ (∀ kv ∈ add, lookup kv.1 tgt = none) ∧ keysNodup add = true := by
  simp only [mergeInto] at h
  split at h
  · rename_i kvs' hm
    cases h
    exact mergeKeys_ok add tgt _ hm
  · simp at h

-- Non-vacuity: defer entry for id "0" at path ["a"] and stream entry for id "1" at path ["l"]
-- commute on {a: {x: 1}, l: [1]}.
example :
    let st : State := { initState (.obj [([97], .obj [([120], .int 1)]), ([108], .arr [.int 1])]) [] with
      pending := [([48], [.key [97]]), ([49], [.key [108]])] }
    let e1 : IncE := .defer [48] [] (.obj [([121], .int 2)]) []
    let e2 : IncE := .stream [49] [.int 2] []
    (e1.action st.pending).map (·.1) = some [.key [97]] ∧ (e2.action st.pending).map (·.1) = some [.key [108]] ∧
    disjointPaths [.key [97]] [.key [108]] = true ∧
    (match applyAll st [e1, e2], applyAll st [e2, e1] with
     | .ok a, .ok b => J.eqv a.data b.data && J.eqv b.data
         (.obj [([97], .obj [([120], .int 1), ([121], .int 2)]), ([108], .arr [.int 1, .int 2])])
     | _, _ => false) = true := by
  decide

/-! ## 3. Assembling the pieces of a cut gives back the reference -/

/-- C04-3 `assemble_eq_reference`.  For every well-formed cut of a reference tree — deferred
fragments and stream batches nested to any depth, several fragments per object, several batches
per list — folding its pieces into the initial data in the canonical parent-before-child order
succeeds, i.e. no `apply` on the way overwrites a key (`overwrite`/`duplicate`), targets a missing
object/list (`targetMissing`) or a value of the wrong kind, and the result is *exactly* the
reference.  (Every other order in which the pieces can be folded gives the same
JSON value by `assemble_order_independent`; see `assemble_eq_reference_any_order`.) -/
theorem assemble_eq_reference (c : Cut) (h : c.wf = true) :
    foldPieces c.initial c.pieces = .ok c.ref :=
  cut_reassembles c h

/-- The pieces of the abstract model are instances of the format's `apply`: a piece with target
`p ++ sub` is what `apply` does for a defer entry `{id, subPath: sub, data}` / a stream entry
`{id, items}` whose id is pending at `p`. -/
theorem piece_is_apply (st : State) (id : List Nat) (p sub : Path) (add : List (List Nat × J))
    (items : List J) (errs : List Path) (hp : pendingPath id st.pending = some p) :
    (apply st (.defer id sub (.obj add) errs)).map (·.data) = (Piece.merge (p ++ sub) add).apply st.data ∧
    (apply st (.stream id items errs)).map (·.data) = (Piece.append p items).apply st.data := by
  constructor
  · simp only [apply, hp, Piece.apply]
    cases updateAt (mergeInto add) (p ++ sub) st.data <;> rfl
  · simp only [apply, hp, Piece.apply]
    cases updateAt (appendInto items) p st.data <;> rfl

/-- C04-3c `assemble_eq_reference_any_order`.  The pieces of a well-formed cut, folded in *any*
order that keeps the batches of each list in order and can be folded at all (every
parent-before-child order can), give the reference as a JSON value. -/
theorem assemble_eq_reference_any_order (c : Cut) (hwf : c.wf = true) (ps : List Piece) (b : J)
    (hperm : c.pieces.Perm ps)
    (hstreams : ∀ p, streamsOf Piece.act p c.pieces = streamsOf Piece.act p ps)
    (hb : foldPieces c.initial ps = .ok b) : SameValue c.ref b :=
  cut_reassembles_any_order c hwf ps b hperm hstreams hb

/-- C04-3b `assemble_one_level`: an object whose fields `later` are cut out as one deferred
fragment, and a list whose tail is cut out as one stream batch, reassemble exactly (the base case
of `assemble_eq_reference`, stated on plain JSON). -/
theorem assemble_one_level (now later : List (List Nat × J)) (xs ys : List J)
    (hnd : keysNodup (now ++ later) = true) :
    mergeInto later (.obj now) = .ok (.obj (now ++ later)) ∧
    appendInto ys (.arr xs) = .ok (.arr (xs ++ ys)) := by
  refine ⟨?_, rfl⟩
  have hfresh : ∀ kv ∈ later, lookup kv.1 now = none := by
    induction now with
    | nil => intro kv _; rfl
    | cons x rest ih =>
      obtain ⟨k, v⟩ := x
      simp only [List.cons_append, keysNodup, hasKey, Bool.and_eq_true, Bool.not_eq_true'] at hnd
      intro kv hkv
      have hrest := ih hnd.2 kv hkv
      have hk : lookup k (rest ++ later) = none := by
        cases hl : lookup k (rest ++ later) with
        | none => rfl
        | some w => simp [hl] at hnd
      by_cases he : k = kv.1
      · exfalso
        subst he
        have : lookup kv.1 (rest ++ later) ≠ none := by
          clear ih hnd hrest hk
          induction rest with
          | nil =>
            simp only [List.nil_append]
            induction later with
            | nil => simp at hkv
            | cons y ys ihy =>
              obtain ⟨k2, v2⟩ := y
              by_cases hk2 : k2 = kv.1
              · simp [lookup, hk2]
              · simp only [lookup, hk2, if_false]
                rcases List.mem_cons.mp hkv with rfl | hin
                · exact absurd rfl hk2
                · exact ihy hin
          | cons y ys ihy =>
            obtain ⟨k2, v2⟩ := y
            by_cases hk2 : k2 = kv.1
            · simp [lookup, hk2]
            · simpa [lookup, hk2] using ihy
        exact this hk
      · simp [lookup, he, hrest]
  have hndl : keysNodup later = true := by
    induction now with
    | nil => simpa using hnd
    | cons x rest ih =>
      obtain ⟨k, v⟩ := x
      simp only [List.cons_append, keysNodup, Bool.and_eq_true] at hnd
      exact ih hnd.2 (fun kv hkv => by
        have := hfresh kv hkv
        by_cases he : k = kv.1
        · simp [lookup, he] at this
        · simpa [lookup, he] using this)
  simp [mergeInto, mergeKeys_succeeds later now hfresh hndl]

-- Non-vacuity of `assemble_eq_reference` on a three-level cut: a deferred fragment inside a
-- streamed item inside a deferred fragment, plus two sibling fragments on the root object.
example :
    let leaf (n : Int) : Cut := .leaf (.int n)
    let inner : Cut := .obj [([120], leaf 1)] [[([121], leaf 2)], [([122], .arr [leaf 3] [[leaf 4], [leaf 5]])]]
    let c : Cut := .obj [([97], leaf 0)] [[([98], .arr [inner] [[inner]])], [([99], leaf 9)]]
    c.wf = true ∧ c.pieces.length = 11 ∧ c.reassembles = true := by
  decide

/-! ## 4. Collecting fields with live `@defer` -/

open Gql.Async.Collect in
/-- C04-4 `collect_defer_same_keys`.  For every selection set of a document without fragment cycles
(given unfolded: `Consistent`, `Acyclic`), whatever `@skip`/`@include`/type conditions evaluate to:
`collect_fields` with live `@defer` (tri-state visited-fragment map) yields the same response keys
and, per key, the same set of field nodes as `collect_fields` on the same selections with every
`@defer` disabled.  Entries may be duplicated (a fragment visited as deferred is visited again by a
non-deferred spread); nothing is lost and nothing is invented. -/
theorem collect_defer_same_keys (table : Nat → List Sel) (base base' : Nat) (sels : List Sel)
    (hc : Consistent table sels) (ha : Acyclic sels) :
    (∀ k, k ∈ (collectFields base sels).grouped.map Prod.fst ↔
          k ∈ (collectFields base' (stripSels sels)).grouped.map Prod.fst) ∧
    (∀ k n, Has (collectFields base sels).grouped k n ↔
            Has (collectFields base' (stripSels sels)).grouped k n) := by
  refine ⟨?_, collect_same table base base' sels hc ha⟩
  intro k
  rw [mem_keys_iff_has (collectFields_good base sels), mem_keys_iff_has (collectFields_good base' _)]
  constructor
  · rintro ⟨n, h⟩; exact ⟨n, (collect_same table base base' sels hc ha k n).mp h⟩
  · rintro ⟨n, h⟩; exact ⟨n, (collect_same table base base' sels hc ha k n).mpr h⟩

open Gql.Async.Collect in
/-- C04-4b `collect_exactly_unfolded_fields`.  Both are in fact the same fixed set: the included
field nodes of the fully unfolded selection tree (`allFields`), each under its response key. -/
theorem collect_exactly_unfolded_fields (table : Nat → List Sel) (base : Nat) (sels : List Sel)
    (hc : Consistent table sels) (ha : Acyclic sels) (k n : Nat) :
    Has (collectFields base sels).grouped k n ↔ (k, n) ∈ allFields sels :=
  collect_spec table base sels hc ha k n

open Gql.Async.Collect in
/-- C04-4c `collect_subfields_defer_same_keys`.  The same for `collect_subfields`: the selection
sets of all field nodes of one field-details list, each collected under the defer usage of its
field details with one shared visited map. -/
theorem collect_subfields_defer_same_keys (table : Nat → List Sel) (base base' : Nat)
    (parts : List (Option Nat × List Sel)) (h : ∀ p ∈ parts, Consistent table p.2 ∧ Acyclic p.2)
    (k n : Nat) :
    Has (collectSubfields base parts).grouped k n ↔
      Has (collectSubfields base' (stripParts parts)).grouped k n :=
  collectSub_same table base base' parts h k n

-- Non-vacuity: fragment 0 = { k1: node 11 } spread deferred (label 5), then non-deferred (visited
-- again: node 11 is duplicated), then deferred again (skipped).
open Gql.Async.Collect in
example :
    let body : List Sel := [.field 1 11 true]
    let sels : List Sel :=
      [.spread true true 0 (some (some 5)) body, .field 0 10 true,
       .spread true true 0 none body, .spread true true 0 (some none) body]
    Consistent (fun _ => body) sels ∧ Acyclic sels ∧
    (collectFields 100 sels).grouped = [(1, [⟨11, some 100⟩, ⟨11, none⟩]), (0, [⟨10, none⟩])] ∧
    (collectFields 100 sels).newUsages = [(some 5, none)] ∧
    (collectFields 100 (stripSels sels)).grouped = [(1, [⟨11, none⟩]), (0, [⟨10, none⟩])] := by
  refine ⟨⟨⟨rfl, trivial, trivial⟩, trivial, ⟨rfl, trivial, trivial⟩, ⟨rfl, trivial, trivial⟩, trivial⟩,
    ⟨⟨by decide, trivial, trivial⟩, trivial, ⟨by decide, trivial, trivial⟩, ⟨by decide, trivial, trivial⟩, trivial⟩,
    by decide, by decide, by decide⟩

/-! ## 5. From the collected fields through the plan to the cut -/

open Gql.Async.Collect in
/-- C04-5 `collect_plan_cut`.  The bridge between `plan_partition` and `assemble_eq_reference`, for
one object: collect its selection set with live defer usages, split the grouped field set with
`build_execution_plan`, and read the result as a cut (`cutOfPlan`: the planned part is delivered
with the enclosing piece, every new grouped field set by one deferred piece; `sub k` stands for
the cut of the value of key `k`).  Then the cut is well formed, its pieces reassemble exactly to
its reference object, and that object has exactly the response keys of the *non-incremental*
collection of the same selection set, each exactly once.  (The recursion into the values
`sub k` — i.e. the executor itself — is not modelled; see LEVEL_NOTE.) -/
theorem collect_plan_cut (table : Nat → List Sel) (base base' : Nat) (sels : List Sel)
    (hc : Consistent table sels) (ha : Acyclic sels)
    (parentOf : Nat → Option Nat) (fuel : Nat) (parent : DeferUsageSet)
    (sub : Nat → Cut) (hsub : ∀ k, (sub k).wf = true) :
    let plan := buildExecutionPlan parentOf fuel (toPlan (collectFields base sels).grouped) parent
    let c := cutOfPlan sub plan
    c.wf = true ∧ foldPieces c.initial c.pieces = .ok c.ref ∧
    ∃ kvs, c.ref = .obj kvs ∧ (kvs.map Prod.fst).Nodup ∧
      ∀ k, keyOf k ∈ kvs.map Prod.fst ↔
        k ∈ (collectFields base' (stripSels sels)).grouped.map Prod.fst :=
  Gql.Async.collect_plan_cut table base base' sels hc ha parentOf fuel parent sub hsub

/-! ## 6. The incremental executor itself (error-free, `@defer` only) -/

open Gql.Exec Gql.Async.IncExec in
/-- C04-6 `incExec_assemble` — *full statement* (open).  For every schema, document (with `@defer`
on inline fragments and fragment spreads), variables and synchronous data graph on which the
executor model stays inside its class (`incExec … = some …`: no field or request error is raised,
no float leaf): folding the delivered pieces into the initial data succeeds and gives, as a JSON
value, the specification's response data (GraphQL §6, `Spec.executeRequest`) to the same document
with every `@defer` removed, and that response has no errors. -/
def incExec_assemble_full : Prop :=
  ∀ (ops : Ops) (s : Schema) (doc : Doc) (opName : Option Name) (vars : Vars) (root : RVal)
    (init : J) (pieces : List Piece),
    incExec ops s doc opName vars root = some (init, pieces) →
    (Spec.executeRequest ops s (stripDefer doc) opName vars root).errors = [] ∧
    ∃ r ref, foldPieces init pieces = .ok r ∧
      toJ (Spec.executeRequest ops s (stripDefer doc) opName vars root).data = some ref ∧
      SameValue ref r

open Gql.Exec Gql.Async.IncExec in
/-- C04-6a `incExec_assemble_partial`.  The proved part of `incExec_assemble_full`, for **every**
request (any schema, any document — nested, labelled, `if:`-switched, overlapping `@defer` on
inline fragments and named spreads, `@skip`/`@include`, variables, interfaces/unions —, any pure
synchronous resolvers): whenever the executor model `incExec` (collect with live defer usages →
`build_execution_plan` per object with the defer-usage set of the running (sub-)executor →
planned part into the enclosing piece, one execution group per new defer-usage set → recursion into
every field value and list item) answers, its answer is a *well-formed cut* `c` of one response
tree: `init = c.initial`, `pieces = c.pieces`, and folding the pieces into the initial data in
delivery (parent-before-child) order never overwrites a key, never targets a missing or
non-object value and gives exactly `c.ref` — the tree the same recursion builds with nothing cut
out (planned keys first, then each execution group's keys).

What is missing for the full statement: `c.ref` is the *specification's* response to the document
without `@defer` (same keys by `collect_defer_same_keys`, and each key's value equal because the
field-details list of a key has the same first node and the same set of nodes).  That last step is
checked on every generated case by the driver (`ref=1`: `c.ref` equals
`Spec.executeRequest (stripDefer doc)` as a JSON value, `specerrs=0`), not proved. -/
theorem incExec_assemble_partial (ops : Ops) (s : Schema) (doc : Doc) (opName : Option Name)
    (vars : Vars) (root : RVal) (init : J) (pieces : List Piece)
    (h : incExec ops s doc opName vars root = some (init, pieces)) :
    ∃ c : Cut, incCut ops s doc opName vars root = some c ∧ c.wf = true ∧
      init = c.initial ∧ pieces = c.pieces ∧ foldPieces init pieces = .ok c.ref := by
  unfold incExec at h
  cases hc : incCut ops s doc opName vars root with
  | none => simp [hc] at h
  | some c =>
    simp only [hc, Option.map_some, Option.some.injEq, Prod.mk.injEq] at h
    obtain ⟨h1, h2⟩ := h
    subst h1; subst h2
    exact ⟨c, rfl, incCut_wf hc, rfl, rfl, cut_reassembles c (incCut_wf hc)⟩

open Gql.Exec Gql.Async.IncExec in
/-- C04-6b `incExec_assemble_any_order`.  The same for **every** order in which the pieces can be
folded at all (every parent-before-child order can): the result is the same JSON value `c.ref`.
No side condition on the order is needed: the model's cuts contain no stream batches
(`incCut_deferOnly`), so every piece is a merge. -/
theorem incExec_assemble_any_order (ops : Ops) (s : Schema) (doc : Doc) (opName : Option Name)
    (vars : Vars) (root : RVal) (init : J) (pieces ps : List Piece) (b : J)
    (h : incExec ops s doc opName vars root = some (init, pieces))
    (hperm : pieces.Perm ps)
    (hb : foldPieces init ps = .ok b) :
    ∃ c : Cut, incCut ops s doc opName vars root = some c ∧ SameValue c.ref b := by
  obtain ⟨c, hc, hwf, hi, hp, _⟩ := incExec_assemble_partial ops s doc opName vars root init pieces h
  subst hi; subst hp
  exact ⟨c, hc, cut_reassembles_any_order c hwf ps b hperm (incCut_streams hc ps hperm) hb⟩

open Gql.Exec Gql.Async.IncExec in
/-- C04-6c `incCut_wellformed`: the invariant behind 6a — no response key is delivered twice
anywhere in the tree: per object the planned part and the execution groups have pairwise distinct
keys (collection keeps response keys distinct, `plan_partition` splits them), recursively. -/
theorem incCut_wellformed (ops : Ops) (s : Schema) (doc : Doc) (opName : Option Name)
    (vars : Vars) (root : RVal) (c : Cut) (h : incCut ops s doc opName vars root = some c) :
    c.wf = true := incCut_wf h

-- Non-vacuity of 6a–6c: `{ a ... @defer(label: "L") { b o { ... @defer { x } y } } }` over
-- `type Query { a: Int b: Int o: T } type T { x: Int y: Int }`: the initial data is `{a}`, the
-- group L delivers `{b, o: {y}}` at `[]`, the nested anonymous group `{x}` at `[o]`.
open Gql.Exec Gql.Async.IncExec in
example :
    let sch : Schema := { types := [.object "Query" [] [⟨"a", [], .named "Int" false⟩, ⟨"b", [], .named "Int" false⟩, ⟨"o", [], .named "T" false⟩],
                                    .object "T" [] [⟨"x", [], .named "Int" false⟩, ⟨"y", [], .named "Int" false⟩]],
                          query := "Query", mutation := none }
    let f (n : Name) : Selection := .field none n [] [] []
    let doc : Doc := { ops := [{ kind := .query, name := none, vars := [], sels :=
        [f "a", .inline none [⟨"defer", [("label", .str [76])]⟩]
          [f "b", .field none "o" [] [] [.inline none [⟨"defer", []⟩] [f "x"], f "y"]]] }], frags := [] }
    let t : RVal := .obj (.name "T") (fun n _ => if n = "x" then .leaf (.int 3) else .leaf (.int 4))
    let root : RVal := .obj (.name "Query") (fun n _ => if n = "o" then t else if n = "a" then .leaf (.int 1) else .leaf (.int 2))
    (match incExec Concrete.ops sch doc none [] root with
     | some (i, ps) =>
       J.eqv i (.obj [([97], .int 1)]) && ps.length == 2 &&
       (match ps with
        | [.merge [] d1, .merge [.key [111]] d2] =>
          J.eqv (.obj d1) (.obj [([98], .int 2), ([111], .obj [([121], .int 4)])]) &&
          J.eqv (.obj d2) (.obj [([120], .int 3)])
        | _ => false) &&
       (match foldPieces i ps with
        | .ok r => J.eqv r (.obj [([97], .int 1), ([98], .int 2),
                                   ([111], .obj [([121], .int 4), ([120], .int 3)])])
        | .error _ => false)
     | none => false) = true := by
  decide +kernel

open Gql.Exec Gql.Async.IncExec in
/-- C04-6d `incExec_assemble_ref_partial`.  The open step of `incExec_assemble_full` (the tree
the pieces fold to **is the specification's response**), proved for the document class
`refClassDoc` (decidable):

* `noDeferDoc`: no inline fragment and no fragment spread of the document — in the operations and
  in every fragment definition — carries a `@defer` directive.  Everything else is inside the
  class: inline fragments with and without type condition, named fragment spreads (nested,
  repeated, cyclic, unknown), `@skip`/`@include` on fields, inline fragments and spreads, aliases,
  overlapping response keys merged across fragments, arguments, variables, lists, interfaces and
  unions; or
* `fieldsOnlyDoc`: every operation selects fields only, at every depth (fragment definitions are
  then unreachable and may contain anything, also `@defer`).

For every schema, every such document, all variables and every synchronous data graph: whenever
the executor model answers (`incExec … = some (init, pieces)`), folding the pieces into the initial
data succeeds and gives **exactly** (same keys, same key order, same values — `=`, not only
`SameValue`) the JSON of the `data` of `Spec.executeRequest` (GraphQL §6) on the document with
`@defer` removed, and that response has no errors.

This pins the whole recursion skeleton shared with the `@defer` case: field collection into the
shared grouped field set with the tri-state visited map of `collect_fields_impl` (simulated by C02's
model of `collect_fields`, then C02's refinement to CollectFields), `collect_subfields` over the
field-details list, `build_execution_plan` of a grouped field set without defer usages (planned
part = the whole set in its order, no new sets), `execute_fields` in key order with `Undefined`
fields left out, `__typename`, argument coercion, `complete_value` on `null` / leaves / lists /
objects / abstract types (`ensure_valid_runtime_type` = ResolveAbstractType).

Hypothesis `hops : OpsOk ops` is C02's one law of the value layer (a variable without a run-time
value is not coercible at a Non-Null type — `coerce_input_literal` returns `Undefined`); it is what
makes the implementation's `should_include_node` agree with the specification's reading of
`@skip`/`@include`; the concrete value layer satisfies it (`concrete_ops_ok`).

What is missing for the full statement: documents in which some reachable inline fragment or
spread carries `@defer`.  There the collected field-details lists carry live defer usages (and a
fragment visited first as deferred is collected a second time), the plan cuts execution groups out,
and `c.ref` lists an object's keys planned-part-first (`SameValue`, not `=`).  What remains to be
shown is that the grouped field set collected with live defer usages has the keys of the one
collected on the stripped document and, per key, a field-details list with the same first node and
the same merged sub-selections up to repetition.  Checked per case by the driver
(`ref=1 specerrs=0`), not proved. -/
theorem incExec_assemble_ref_partial (ops : Ops) (s : Schema) (doc : Doc) (opName : Option Name)
    (vars : Vars) (root : RVal) (init : J) (pieces : List Piece)
    (hops : Gql.Exec.Refine.OpsOk ops) (hdoc : refClassDoc doc = true)
    (h : incExec ops s doc opName vars root = some (init, pieces)) :
    (Spec.executeRequest ops s (stripDefer doc) opName vars root).errors = [] ∧
    ∃ ref, foldPieces init pieces = .ok ref ∧
      toJ (Spec.executeRequest ops s (stripDefer doc) opName vars root).data = some ref := by
  obtain ⟨c, hc, _, _, _, hfold⟩ := incExec_assemble_partial ops s doc opName vars root init pieces h
  obtain ⟨h1, h2⟩ := incCut_ref_class hops hdoc hc
  exact ⟨h1, c.ref, hfold, h2⟩

-- Non-vacuity of 6d: `{ a ... on Query { o { y ...F } } ...F2 l { ... { x } } }` with
-- `fragment F on T { z: x y }`, `fragment F2 on Query { a o { x } }` (overlapping keys merged across
-- an inline fragment and two named fragments, a list of objects) is in the class (not fields only),
-- the executor model answers on it with no pieces, and the value layer is lawful.
open Gql.Exec Gql.Async.IncExec in
example :
    let sch : Schema := { types := [.object "Query" [] [⟨"a", [], .named "Int" false⟩, ⟨"o", [], .named "T" false⟩,
                                        ⟨"l", [], .list (.named "T" false) false⟩],
                                    .object "T" [] [⟨"x", [], .named "Int" false⟩, ⟨"y", [], .named "Int" false⟩]],
                          query := "Query", mutation := none }
    let f (n : Name) : Selection := .field none n [] [] []
    let doc : Doc := {
      ops := [{ kind := .query, name := none, vars := [], sels :=
        [f "a", .inline (some "Query") [] [.field none "o" [] [] [f "y", .spread "F" []]],
         .spread "F2" [], .field none "l" [] [] [.inline none [] [f "x"]]] }],
      frags := [⟨"F", "T", [.field (some "z") "x" [] [] [], f "y"]⟩,
                ⟨"F2", "Query", [f "a", .field none "o" [] [] [f "x"]]⟩] }
    let t : RVal := .obj (.name "T") (fun n _ => if n = "x" then .leaf (.int 3) else .leaf (.int 4))
    let root : RVal := .obj (.name "Query") (fun n _ =>
      if n = "o" then t else if n = "l" then .list [t, t] else .leaf (.int 1))
    Gql.Exec.Refine.OpsOk Concrete.ops ∧ refClassDoc doc = true ∧ fieldsOnlyDoc doc = false ∧
    (match incExec Concrete.ops sch doc none [] root with
     | some (i, ps) =>
       J.eqv i (.obj [([97], .int 1),
                      ([111], .obj [([121], .int 4), ([122], .int 3), ([120], .int 3)]),
                      ([108], .arr [.obj [([120], .int 3)], .obj [([120], .int 3)]])]) && ps.length == 0
     | none => false) = true := by
  refine ⟨Gql.Exec.Refine.concrete_ops_ok, by decide, by decide, by decide +kernel⟩

-- and a fields-only document whose (unreachable) fragment definition carries `@defer`
open Gql.Exec Gql.Async.IncExec in
example :
    let doc : Doc := {
      ops := [{ kind := .query, name := none, vars := [], sels :=
        [.field none "a" [] [] [.field none "b" [] [] []]] }],
      frags := [⟨"F", "T", [.inline none [⟨"defer", []⟩] [.field none "x" [] [] []]]⟩] }
    refClassDoc doc = true ∧ noDeferDoc doc = false := by decide

end Gql.Props.C04
