import Gql.Proofs.Location
import Gql.Proofs.LocationLines
import Gql.Proofs.LexerLines
/-!
# C10 — Every reported source location is the true line and column

Property theorems only (helper lemmas live in `Gql/Proofs/Location.lean`).
Model: `Gql.Text.getLocation` (`Source.get_location`), `Gql.Text.excerptLine`
(`print_source_location`'s `lines[line_index]`), `Gql.Text.renderedLineCol`.
Spec: `Gql.Text.Spec.lineCol` — line = 1 + number of LF / CR LF / CR terminators that end at
or before the offset, column = 1 + distance from the end of the last one.
-/
namespace Gql.Props.C10
open Gql Gql.Text Gql.Text.Spec

/-- C10-1. For every source text and every offset `0..len` not strictly inside a CR LF pair,
the reported location is exactly the specification's line and column. -/
theorem getLocation_eq_spec (body : List Nat) (p : Nat) (hp : p ≤ body.length)
    (hin : ¬ insideCRLF body p) : getLocation body p = .ok (lineCol body p) :=
  Gql.Text.getLocation_eq_spec body p hp hin

/-- C10-1b. `get_location` never raises, for any offset at all (also inside CR LF and
beyond the end). -/
theorem getLocation_no_crash (body : List Nat) (p : Nat) : ¬ (getLocation body p).isCrash :=
  Gql.Text.getLocation_no_crash body p

/-- C10-2. Token line/column fields: every token the lexer returns (for every source text that
lexes, through every lexer branch — ignored characters, comments, strings with escapes, numbers,
names, punctuators, block strings with LF / CR / CR LF inside) carries exactly the specification's
line and column of its start offset. -/
theorem token_linecol (body : List Nat) (ts : List Token) (h : lexAll body = .ok ts) :
    ∀ t ∈ ts, (t.line, t.column) = lineCol body t.start :=
  Gql.Text.lexAll_line body ts h

/-- C10-2b. The same for a single `read_next_token` step from any state that satisfies the
line invariant — in particular for the tokens lexed before a later syntax error. -/
theorem next_token_linecol (body : List Nat) (st st' : LexState) (pos : Nat) (t : Token)
    (hp : pos ≤ body.length) (hi : LineInv body st pos) (hin : ¬ insideCRLF body pos)
    (h : readNextToken body st pos = .ok (t, st')) :
    (t.line, t.column) = lineCol body t.start ∧ LineInv body st' t.stop ∧ ¬ insideCRLF body t.stop :=
  let r := (Gql.Text.readNextToken_line body st pos hp hi hin).of_ok h
  ⟨r.1, r.2.1, r.2.2.1⟩

/-- C10-5. Rendering a location obtained from the same source never fails: the excerpt
subscript is in range for every column offset. -/
theorem excerpt_no_crash (body : List Nat) (p colOffset : Nat) (loc : Nat × Nat)
    (h : getLocation body p = .ok loc) : (excerptLine body colOffset loc.1).isOk :=
  Gql.Text.excerpt_no_crash body p colOffset loc h

/-- C10-5b. The excerpted line is the line the location names: `print_source_location` shows
the `line`-th stretch of text between consecutive line terminators of the specification
(`Spec.lines`: LF, CR LF, CR and nothing else), for every source text and every line number. -/
theorem excerpt_is_named_line (body : List Nat) (line : Nat) (h : 1 ≤ line) :
    excerptLine body 0 line = Out.index (Spec.lines body) (line - 1) := by
  unfold excerptLine
  simp only [List.replicate_zero, List.nil_append]
  rw [if_neg (by omega), splitNL_eq_lines]

/-- C10-4. With a configured `location_offset (l, c)` the rendered line is `line + l − 1` and
the rendered column is `column + (c − 1)` on the first line only. -/
theorem rendered_offset (l c line col : Nat) (hl : 1 ≤ l) (hc : 1 ≤ c) :
    renderedLineCol l c (line, col) =
      (line + l - 1, if line = 1 then col + c - 1 else col) := by
  unfold renderedLineCol
  simp only
  split <;> simp <;> omega

/-- The line number is at least 1 and the column at least 1, always. -/
theorem lineCol_pos (body : List Nat) (p : Nat) : 1 ≤ (lineCol body p).1 ∧ 1 ≤ (lineCol body p).2 := by
  unfold lineCol; simp

-- Non-vacuity: the hypotheses are met by a concrete non-trivial input
-- (`a CR LF b FF LF c`, offset 6, after one CR LF and one LF, with a form feed that must not count).
example : (6 : Nat) ≤ [97, 13, 10, 98, 12, 10, 99].length ∧ ¬ insideCRLF [97, 13, 10, 98, 12, 10, 99] 6 ∧
    getLocation [97, 13, 10, 98, 12, 10, 99] 6 = .ok (3, 1) ∧ lineCol [97, 13, 10, 98, 12, 10, 99] 6 = (3, 1) := by
  decide

example : Spec.lines [97, 13, 10, 98, 12, 10, 99] = [[97], [98, 12], [99]] := by decide

-- token_linecol is not vacuous: a source with a CR LF inside a block string followed by a token
-- on the closing line (`"""` CR LF `"""` SP `a`) lexes, and the name token sits at 2:5.
example : (match lexAll [34, 34, 34, 13, 10, 34, 34, 34, 32, 97] with
    | .ok ts => some (ts.map (fun t => (t.line, t.column)))
    | _ => none) = some [(1, 1), (2, 5), (2, 6)] := by
  decide +kernel

-- The excluded offsets exist and are exactly the CR|LF interiors.
example : insideCRLF [97, 13, 10] 2 ∧ ¬ insideCRLF [97, 13, 10] 1 ∧ ¬ insideCRLF [97, 13, 10] 3 := by decide

end Gql.Props.C10
