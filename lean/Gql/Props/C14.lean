import Gql.Proofs.OverlapTerm
import Gql.Proofs.OverlapLocal
import Gql.Proofs.OverlapHyps
import Gql.Proofs.OverlapNatural
import Gql.Proofs.OverlapIff
import Gql.Proofs.OverlapDfsBound
import Gql.Proofs.OverlapTypename
/-!
# C14 — Field-merge validation accepts exactly what the specification accepts

Property theorems only (lemmas: `Gql/Proofs/Overlap*.lean`).
Model: `Gql.Exec.Overlap` — `OverlappingFieldsCanBeMergedRule` as written, with both pair sets,
the per-selection-set cache and fuel-indexed recursion.  Spec: `Gql.Exec.Spec` —
FieldsInSetCanMerge / SameResponseShape over fragment-expanded sets (`SpecConflict`).

Proved here: the four structural lemmas, the *local* part of the equivalence
(`overlap_iff_partial`), the document-level equivalence for documents without fragment spreads
(`overlap_iff_nofrag`) and the **unrestricted** equivalence `overlap_iff : overlap_iff_full` —
every schema, every document: named fragments, cyclic spreads, one fragment reached under many
parents, both memo tables with their exclusivity flag, the per-selection-set cache.  The
three-way differential run of `checks/c14.py` ties the model to the Python code.

The executable oracle of that run, `Spec.specConflictB`, is proved to decide `Spec.SpecConflict`
(`specConflictB_total`, `specConflictB_iff`), hence `overlap_iff_oracle`: model of the rule and
oracle agree on every schema and document.
-/
namespace Gql.Props.C14
open Gql.Exec Gql.Exec.Overlap

/-- C14-a. `do_types_conflict` holds exactly when SameResponseShape fails on the two return
types: list and non-null wrappers must match level by level, scalar/enum leaves must be the same
type, a leaf never matches a composite, composites are left to the sub-selections. -/
theorem doTypesConflict_iff (a b : Ty) :
    doTypesConflict a b = true ↔ Spec.shapeConflict a b = true := by
  rw [doTypesConflict_eq_shapeConflict]

example : doTypesConflict (.list (.nonNull (.leaf "Int"))) (.list (.leaf "Int")) = true ∧
    doTypesConflict (.nonNull (.list (.comp "A"))) (.nonNull (.list (.comp "B"))) = false ∧
    doTypesConflict (.leaf "Int") (.comp "A") = true := by decide

/-- C14-b. `same_arguments` (values sorted by `sort_value_node`, then compared as printed) holds
exactly when the two argument lists are the same map from argument name to value, values taken
up to the order of input-object fields at every depth — for any linear order used as sort key
(`natural_comparison_key` is one), given unique argument / input-field names. -/
theorem sameArguments_iff {le : String → String → Bool} (hle : LinOrd le) (a b : Args)
    (ha : argsWF a = true) (hb : argsWF b = true) :
    sameArguments le a b = true ↔ Spec.argsEquiv a b = true := by
  rw [sameArguments_eq_argsEquiv hle a b ha hb]

/-- C14-b'. `natural_comparison_key` is a linear order on names, so C14-b holds of the rule's
actual sort key without further hypothesis. -/
theorem sameArguments_iff_natural (a b : Args) (ha : argsWF a = true) (hb : argsWF b = true) :
    sameArguments naturalLe a b = true ↔ Spec.argsEquiv a b = true :=
  sameArguments_iff naturalLe_linOrd a b ha hb

/-- `{x: 1, o: {a2: 1, a10: 2, a: [3, {b: 1, c: 2}]}}` against the same arguments in another order,
with the object keys permuted at both levels; and a different nested value. -/
example :
    let a : Args := [("x", .leaf "1"), ("o", .obj [("a2", .leaf "1"), ("a10", .leaf "2"),
      ("a", .list [.leaf "3", .obj [("b", .leaf "1"), ("c", .leaf "2")]])])]
    let b : Args := [("o", .obj [("a", .list [.leaf "3", .obj [("c", .leaf "2"), ("b", .leaf "1")]]),
      ("a10", .leaf "2"), ("a2", .leaf "1")]), ("x", .leaf "1")]
    let c : Args := [("o", .obj [("a", .list [.leaf "3", .obj [("c", .leaf "1"), ("b", .leaf "2")]]),
      ("a10", .leaf "2"), ("a2", .leaf "1")]), ("x", .leaf "1")]
    argsWF a = true ∧ argsWF b = true ∧ sameArguments naturalLe a b = true ∧
      Spec.argsEquiv a b = true ∧ sameArguments naturalLe a c = false ∧
      Spec.argsEquiv a c = false := by decide

/-- C14-c (`PairSet`). A `has(a, b, flag)` hit means: an entry for the unordered pair exists
whose comparison was at least as demanding as the one being skipped — every unmergeable pair the
specification can reach from a pair of fields checked the way the *skipped* comparison would
(`full = ¬flag`) it also reaches checked the way the *recorded* comparison was (`full = ¬r`).
In particular an entry recorded under "mutually exclusive" never answers a non-exclusive query. -/
theorem pairset_sound (σ : St) (a b : String) (flag : Bool) (h : σ.cmpHas a b flag = true) :
    ∃ r, assocGet σ.cmp (pairKey a b) = some r ∧ (r = true → flag = true) ∧
      ∀ (sc : Schema) (d : Doc) (x y : Spec.FieldInst) (st : Spec.State),
        Spec.Reach sc d ⟨x, y, !flag⟩ st → Spec.direct sc st = true →
        ∃ st', Spec.Reach sc d ⟨x, y, !r⟩ st' ∧ Spec.direct sc st' = true := by
  obtain ⟨r, hr, himp⟩ := (flagHas_iff _ _).1 h
  refine ⟨r, hr, himp, fun sc d x y st hreach hd => ?_⟩
  refine Spec.reach_covers hreach ⟨rfl, rfl, ?_⟩ hd
  cases r <;> cases flag <;> simp_all

/-- C14-c (`OrderedPairSet`, fields × fragment). Same statement for the ordered pair set. -/
theorem orderedPairset_sound (σ : St) (i : Nat) (k : String) (flag : Bool)
    (h : σ.cfpHas i k flag = true) :
    ∃ r, assocGet σ.cfp (i, k) = some r ∧ (r = true → flag = true) ∧
      ∀ (sc : Schema) (d : Doc) (x y : Spec.FieldInst) (st : Spec.State),
        Spec.Reach sc d ⟨x, y, !flag⟩ st → Spec.direct sc st = true →
        ∃ st', Spec.Reach sc d ⟨x, y, !r⟩ st' ∧ Spec.direct sc st' = true := by
  obtain ⟨r, hr, himp⟩ := (flagHas_iff _ _).1 h
  refine ⟨r, hr, himp, fun sc d x y st hreach hd => ?_⟩
  refine Spec.reach_covers hreach ⟨rfl, rfl, ?_⟩ hd
  cases r <;> cases flag <;> simp_all

/-- C14-c. The pair set is unordered, and after `add(a, b, r)` a query `has(·, ·, q)` in either
order is answered exactly when `r → q` (an exclusive entry does not satisfy a non-exclusive
query). -/
theorem pairset_add_has (σ : St) (a b : String) (r q : Bool) :
    ((σ.cmpAdd a b r).cmpHas a b q = true ↔ (r = true → q = true)) ∧
      (σ.cmpAdd a b r).cmpHas b a q = (σ.cmpAdd a b r).cmpHas a b q :=
  ⟨cmpHas_cmpAdd σ a b r q, cmpHas_comm _ b a q⟩

example : (({} : St).cmpAdd "F1()" "F2()" true).cmpHas "F2()" "F1()" false = false ∧
    (({} : St).cmpAdd "F1()" "F2()" true).cmpHas "F2()" "F1()" true = true ∧
    (({} : St).cmpAdd "F2()" "F1()" false).cmpHas "F1()" "F2()" true = true := by decide

/-- C14-d. The rule terminates on every document — cyclic fragment spreads included — within
recursion depth `fuelBound d = (memoCapacity d + 1) · (2 · depth d + 2)`: with that much fuel (or
more) the model never runs out.  Only hypothesis: selection-set identities are identities. -/
theorem terminates (le : String → String → Bool) (s : Schema) (d : Doc) (hU : d.IdsUnique)
    (n : Nat) (hn : fuelBound d ≤ n) : (implConflictsFuel le n s d).isSome = true :=
  implConflictsFuel_isSome le s d hU n hn

/-- `{ n { ...A ...B } } fragment A on N { n { ...B x: a } } fragment B on N { n { ...A x: b } }`:
mutually recursive fragments with a conflict that is only seen through the cycle. -/
def cyclicSchema : Schema :=
  [⟨"Query", .object, [("n", .comp "N")]⟩,
   ⟨"N", .object, [("a", .leaf "Int"), ("b", .leaf "Int"), ("n", .comp "N")]⟩]

def cyclicDoc : Doc :=
  [.op (some "Query") ⟨1, [.field 2 none "n" [] none true 3 [.spread "A", .spread "B"]]⟩,
   .frag ⟨"A", "N", ⟨4, [.field 5 none "n" [] none true 6
      [.spread "B", .field 7 (some "x") "a" [] none false 0 []]]⟩⟩,
   .frag ⟨"B", "N", ⟨8, [.field 9 none "n" [] none true 10
      [.spread "A", .field 11 (some "x") "b" [] none false 0 []]]⟩⟩]

example : cyclicDoc.IdsUnique := by
  intro a ha b hb h
  simp only [Doc.allSets, cyclicDoc, List.flatMap_cons, List.flatMap_nil, Defn.ss, selsSubSets,
    Sel.subSets, if_true, List.append_nil, List.nil_append, List.cons_append, List.mem_cons,
    List.not_mem_nil, or_false, Bool.false_eq_true, if_false] at ha hb
  rcases ha with rfl | rfl | rfl | rfl | rfl | rfl <;>
    rcases hb with rfl | rfl | rfl | rfl | rfl | rfl <;> first | rfl | (simp at h)

example : (implConflicts cyclicSchema cyclicDoc).isSome = true ∧
    (implConflicts cyclicSchema cyclicDoc).map (·.length) = some 1 ∧
    Spec.specConflictB cyclicSchema cyclicDoc = some true := by decide +kernel

/-- C14-e (**partial**: the local step of `overlap_iff`).  For two field entries of which at most
one has a sub-selection — the leaves of the rule's comparison tree — `find_conflict` reports a
conflict iff the pair violates the specification's requirements on a pair (`Spec.direct`:
SameResponseShape on the return types, identical `@stream`, and — unless the parents are known
to be mutually exclusive — identical field names and identical arguments), and leaves the rule's
state unchanged.  "Known to be mutually exclusive" is the inherited flag or two different object
parent types, which is exactly ¬(`full` ∧ parents overlap) of the specification.

This is the local step on which `overlap_iff_nofrag` and `overlap_iff` are built
(`fc_unfold` is its version with the sub-selection branch). -/
theorem overlap_iff_partial (env : Env) (hle : LinOrd env.le) (n : Nat) (parentExcl : Bool)
    (rn : String) (e1 e2 : FieldEntry) (σ : St)
    (h1 : e1.node.argsOK) (h2 : e2.node.argsOK)
    (hd1 : e1.defTy = Spec.fieldType env.s e1.parent e1.node.name)
    (hd2 : e2.defTy = Spec.fieldType env.s e2.parent e2.node.name)
    (hsub : (e1.node.hasSub && e2.node.hasSub) = false) :
    ∃ cs, findConflict env (n + 1) parentExcl rn e1 e2 σ = some (σ, cs) ∧
      (cs ≠ [] ↔ Spec.direct env.s ⟨e1.inst, e2.inst, !parentExcl⟩ = true) :=
  findConflict_local env hle n parentExcl rn e1 e2 σ h1 h2 hd1 hd2 hsub

/-- C14-e (**documents without fragment spreads**).  For every schema and every document that
spreads no named fragment — inline fragments with and without type conditions, arbitrary nesting,
any number of operations (and unused fragment definitions) — the rule, run with its actual sort
key and the proved recursion bound, returns and reports at least one conflict **iff** the
specification's FieldsInSetCanMerge / SameResponseShape finds an unmergeable pair.

Hypotheses (each is what another validation rule or the parser guarantees):
selection-set identities pairwise different (`IdsNodup`, a document is a tree of distinct nodes),
unique argument / input-field names (`argsWF`), no `__typename` selection (`NoTypename`; without it
the statement is false for the code as it is, see the known finding below), operation roots are
object types (`RootsObject`), the specification never stops at a scalar pair with sub-selections
(`LeafNoSub`; follows from ScalarLeafs, `leafNoSub_of_scalarLeafs`).

The proof covers: field-map (`collect_fields_and_fragment_spreads`, grouped by response name)
↔ the specification's expanded set; the visitor's `TypeInfo` parent types and the first-come
parent of the per-selection-set cache (equal after normalising non-composite types to `None`,
which is all the rule can observe); recursion into sub-selections with the inherited
"mutually exclusive" flag ↔ the specification's `full`/shape-only modes; the specification's
pairs *within* a merged sub-selection are found when that selection set is visited itself. -/
theorem overlap_iff_nofrag (s : Schema) (d : Doc) (hn : d.NoSpreads) (hI : d.IdsNodup)
    (hA : d.argsWF = true) (hT : d.NoTypename) (hR : RootsObject s d) (hL : LeafNoSub s d) :
    ∃ cs, implConflicts s d = some cs ∧ (cs ≠ [] ↔ ¬ Spec.specMergeable s d) := by
  obtain ⟨cs, e, i⟩ := overlap_iff_nofrag_le naturalLe naturalLe_linOrd s d hn hI hA hT hR hL
  refine ⟨cs, e, i.trans ?_⟩
  simp [Spec.specMergeable]

/-- `LeafNoSub` follows from the ScalarLeafs rule (decidable on a concrete document). -/
theorem leafNoSub_of_scalarLeafs (s : Schema) (d : Doc) (hn : d.NoSpreads)
    (hs : ScalarLeafs s d) : LeafNoSub s d :=
  Gql.Exec.leafNoSub_of_scalarLeafs hn hs

/-- `{ t { ... on T1 { f: a { x } } ... on T2 { f: b { x y: x } } } t { ... { ... on T1 { a { y: x } } } } }`
with `T1.a: A`, `T2.b: B`, `A.x: Int`, `B.x: String`: exclusive parents, so `f: a` / `f: b` may
differ, but the shapes of `x` (Int / String) may not. -/
def nofragSchema : Schema :=
  [⟨"Query", .object, [("t", .comp "U")]⟩, ⟨"U", .union, []⟩,
   ⟨"T1", .object, [("a", .comp "A")]⟩, ⟨"T2", .object, [("b", .comp "B")]⟩,
   ⟨"A", .object, [("x", .leaf "Int")]⟩, ⟨"B", .object, [("x", .leaf "String")]⟩]

def nofragDoc : Doc :=
  [.op (some "Query") ⟨1, [
    .field 2 none "t" [] none true 3
      [.inline (some "T1") 4 [.field 5 (some "f") "a" [] none true 6
          [.field 7 none "x" [] none false 0 []]],
       .inline (some "T2") 8 [.field 9 (some "f") "b" [] none true 10
          [.field 11 none "x" [] none false 0 [], .field 12 (some "y") "x" [] none false 0 []]]],
    .field 13 none "t" [] none true 14
      [.inline none 15 [.inline (some "T1") 16 [.field 17 none "a" [] none true 18
          [.field 19 (some "y") "x" [] none false 0 []]]]]]⟩]

example : nofragDoc.NoSpreads ∧ nofragDoc.IdsNodup ∧ nofragDoc.argsWF = true ∧
    nofragDoc.NoTypename ∧ RootsObject nofragSchema nofragDoc ∧
    ScalarLeafs nofragSchema nofragDoc := by
  refine ⟨by unfold Doc.NoSpreads; decide, by unfold Doc.IdsNodup; decide, by decide,
    by unfold Doc.NoTypename; decide, ?_, by unfold ScalarLeafs; decide⟩
  intro df hdf
  simp only [nofragDoc, List.mem_singleton] at hdf
  subst hdf
  exact Or.inr (by decide)

example : (implConflicts nofragSchema nofragDoc).map (·.length) = some 1 ∧
    Spec.specConflictB nofragSchema nofragDoc = some true := by decide +kernel

/-- The target, unrestricted over schemas and documents (named fragments, cyclic spreads, one
fragment reached under many parents, both memo tables): the rule returns and reports at least one
conflict iff the specification finds an unmergeable pair.  Hypotheses are the ones of
`overlap_iff_nofrag` plus `KeysInj` (different spread names have different conflict keys — true
of GraphQL names, which contain no parenthesis: `keysInj_of_names`).  Without `NoTypename` the
statement is false for the code as it is (corpus witness `w04_typename_vs_int`, example below). -/
def overlap_iff_full : Prop :=
  ∀ (s : Schema) (d : Doc), d.IdsNodup → d.argsWF = true → d.NoTypename → RootsObject s d →
    LeafNoSub s d → KeysInj d →
    ∃ cs, implConflicts s d = some cs ∧ (cs ≠ [] ↔ ¬ Spec.specMergeable s d)

/-- C14 (**full**).  `overlap_iff_full` holds.

*Soundness* (`implConflictsFuel_sound`): by induction on the recursion, every comparison the
rule makes is between two fields of one expanded set of the specification, in a mode the
specification reaches; the memo tables only skip work.
*Completeness* (`implConflictsFuel_complete`): in a run that reports nothing, every memo entry
whose comparison has finished is *closed* — its body passed, relative to the tables — tables only
grow and pass predicates are monotone in them (`run_all`; entries of comparisons still on the
call stack are exempt until they return, which is what makes cyclic spreads harmless); from closed
final tables and the passed visit of every selection set, no two fields of an expanded set
conflict (`no_uwconf`: induction on the size of the would-be conflict — spread paths and chain of
sub-selections — not on the fragment graph, so no acyclicity is needed).  A `has` hit under a
stored flag `r` for a query `q` requires `r → q`, and passing under `r` implies passing under `q`
(`PPass.weaken`): the exclusivity flag of the pair sets.
*Specification side*: the depth-first, shared-visited-set expansion collects exactly the fields
reachable through spreads (`expand_mem`, fuel = number of fragment definitions + 1 suffices), and
`SpecConflict` is an unordered notion (`specConflict_iff_uw`). -/
theorem overlap_iff : overlap_iff_full := by
  intro s d hI hA hT hR hL hK
  obtain ⟨cs, e, i⟩ := overlap_iff_le naturalLe naturalLe_linOrd s d hI hA hT hR hL hK
  refine ⟨cs, e, i.trans ?_⟩
  simp [Spec.specMergeable]

/-- `KeysInj` for documents whose spread names contain no `(`. -/
theorem keysInj_of_names (d : Doc) (h : ∀ n ∈ d.spreadNames, '(' ∉ n.toList) : KeysInj d :=
  Gql.Exec.keysInj_of_names h

/-- `LeafNoSub` follows from ScalarLeafs, also with fragments. -/
theorem leafNoSub_of_scalarLeafs_gen (s : Schema) (d : Doc) (hs : ScalarLeafs s d) :
    LeafNoSub s d := Gql.Exec.leafNoSub_of_scalarLeafs_gen hs

/-- the mutually recursive fragments of `cyclicDoc` satisfy every hypothesis of `overlap_iff` -/
example : cyclicDoc.IdsNodup ∧ cyclicDoc.argsWF = true ∧ cyclicDoc.NoTypename ∧
    RootsObject cyclicSchema cyclicDoc ∧ ScalarLeafs cyclicSchema cyclicDoc ∧
    KeysInj cyclicDoc := by
  refine ⟨by unfold Doc.IdsNodup; decide, by decide, by unfold Doc.NoTypename; decide, ?_,
    by unfold ScalarLeafs; decide, by unfold KeysInj; decide⟩
  intro df hdf
  simp only [cyclicDoc, List.mem_cons, List.not_mem_nil, or_false] at hdf
  rcases hdf with rfl | rfl | rfl
  · exact Or.inr (by decide)
  · trivial
  · trivial

/-! ### the executable oracle decides the specification -/

/-- C14-f (termination of the oracle).  `Spec.specConflictB` — the work-list depth-first search
over the specification's pairs that `checks/c14.py` runs through the driver as the oracle —
always answers: its fuel `Spec.specFuel` is never exhausted, for every schema and every document,
cyclic fragment spreads included.  (Every state is expanded at most once, there are at most
`2·F²` state keys for `F` field nodes, and a state has at most `(3F)²` successors because an
expanded merged set lists every fragment at most once.)  No hypothesis. -/
theorem specConflictB_total (s : Schema) (d : Doc) : (Spec.specConflictB s d).isSome = true :=
  specConflictB_isSome s d

/-- C14-f (soundness of the oracle).  Whenever the oracle answers "conflict", the specification
finds an unmergeable pair.  No hypothesis. -/
theorem specConflictB_sound (s : Schema) (d : Doc) (h : Spec.specConflictB s d = some true) :
    Spec.SpecConflict s d :=
  Gql.Exec.specConflictB_sound h

/-- C14-f (**the oracle decides the specification**).  For every schema and every document whose
field nodes carry pairwise different identities, `specConflictB` answers `some true` iff
`SpecConflict` holds (and `some false` otherwise, by `specConflictB_total`).

Hypothesis `FieldIdsNodup` (decidable): the search remembers expanded states by
`(id of field a, id of field b, full)`; `FieldNode.id` stands for the Python object identity of a
field node, and the serialiser of the check (`tools/c14_gen.py`, `Ser.fresh`) numbers the nodes of
the parsed document with one running counter, so the hypothesis holds of every case the driver
receives.  Without it the statement is false (`dupIdDoc` below): two different pairs with one key. -/
theorem specConflictB_iff (s : Schema) (d : Doc) (hF : d.FieldIdsNodup) :
    Spec.specConflictB s d = some true ↔ Spec.SpecConflict s d :=
  Gql.Exec.specConflictB_iff hF

/-- C14-f, the other answer: `some false` iff the specification accepts the document. -/
theorem specConflictB_false_iff (s : Schema) (d : Doc) (hF : d.FieldIdsNodup) :
    Spec.specConflictB s d = some false ↔ Spec.specMergeable s d := by
  have ht := specConflictB_total s d
  have hi := specConflictB_iff s d hF
  unfold Spec.specMergeable
  rw [← hi]
  cases h : Spec.specConflictB s d with
  | none => rw [h] at ht; cases ht
  | some b => cases b <;> simp

example : cyclicDoc.FieldIdsNodup ∧ nofragDoc.FieldIdsNodup := by decide

/-- C14 (**model of the rule = executable oracle**).  Under the hypotheses of `overlap_iff` and
pairwise different field identities, the rule returns and reports at least one conflict iff the
oracle `specConflictB` — the function the correspondence check evaluates on every generated
document — answers `some true`. -/
theorem overlap_iff_oracle (s : Schema) (d : Doc) (hI : d.IdsNodup) (hA : d.argsWF = true)
    (hT : d.NoTypename) (hR : RootsObject s d) (hL : LeafNoSub s d) (hK : KeysInj d)
    (hF : d.FieldIdsNodup) :
    ∃ cs, implConflicts s d = some cs ∧ (cs ≠ [] ↔ Spec.specConflictB s d = some true) := by
  obtain ⟨cs, e, i⟩ := overlap_iff s d hI hA hT hR hL hK
  refine ⟨cs, e, i.trans ?_⟩
  rw [specConflictB_iff s d hF]
  simp [Spec.specMergeable]

/-- `{ a: x  a: x  b: x  b: y }` with every field node given the identity 0: all other hypotheses
of `overlap_iff` hold, the rule and the specification reject (`b: x` / `b: y`), the search answers
`some false` because the pair `(b: x, b: y)` has the key of the harmless pair `(a: x, a: x)`. -/
def dupIdSchema : Schema := [⟨"Query", .object, [("x", .leaf "Int"), ("y", .leaf "Int")]⟩]

def dupIdDoc : Doc :=
  [.op (some "Query") ⟨1, [.field 0 (some "a") "x" [] none false 0 [],
    .field 0 (some "a") "x" [] none false 0 [], .field 0 (some "b") "x" [] none false 0 [],
    .field 0 (some "b") "y" [] none false 0 []]⟩]

example : ¬ dupIdDoc.FieldIdsNodup ∧ Spec.specConflictB dupIdSchema dupIdDoc = some false ∧
    (implConflicts dupIdSchema dupIdDoc).map (·.length) = some 1 ∧
    Spec.SpecConflict dupIdSchema dupIdDoc := by
  refine ⟨by decide, by decide +kernel, by decide +kernel, ?_⟩
  have h : (Spec.initStates dupIdSchema dupIdDoc).any (Spec.direct dupIdSchema) = true := by
    decide +kernel
  obtain ⟨st, hst, hd⟩ := List.any_eq_true.1 h
  exact ⟨st, hst, st, Spec.Reach.refl _, hd⟩

/-- `dupIdDoc` satisfies every hypothesis of `overlap_iff`: `FieldIdsNodup` cannot be dropped from
`specConflictB_iff` / `overlap_iff_oracle`. -/
example : dupIdDoc.IdsNodup ∧ dupIdDoc.argsWF = true ∧ dupIdDoc.NoTypename ∧
    RootsObject dupIdSchema dupIdDoc ∧ ScalarLeafs dupIdSchema dupIdDoc ∧ KeysInj dupIdDoc := by
  refine ⟨by unfold Doc.IdsNodup; decide, by decide, by unfold Doc.NoTypename; decide, ?_,
    by unfold ScalarLeafs; decide, by unfold KeysInj; decide⟩
  intro df hdf
  simp only [dupIdDoc, List.mem_singleton] at hdf
  subst hdf
  exact Or.inr (by decide)

/-! ### what the rule does for `__typename` (known finding `missed-conflict-typename-meta-field`) -/

/-- C14-g (**partial**: the local step for the meta field).  For two field entries as the rule
collects them (`field_def = parent_type.fields.get(name)`), at least one of them a `__typename`
selection, at most one with a sub-selection, in a schema that defines no field called
`__typename`: `find_conflict` reports a conflict **iff** the pair violates `directNoTypes` —
identical `@stream`, and, unless the parents are known to be mutually exclusive, identical names
and arguments.  The return types are never compared (`__typename` has no entry in any field
table, so its definition is `None`), whereas the specification also requires SameResponseShape
with `String!`:

  `Spec.direct = (return types conflict) ∨ directNoTypes`   (`direct_eq_types_or`).

So for pairs with a `__typename` field the rule reports exactly the specification's violations
other than the type requirement, and misses exactly the pairs whose only violation is
"`String!` against a different type" — the known finding.

Missing for the exact document-level statement (`overlap_iff_typename_full` below): the
induction of `overlap_iff` with entries whose definition is `None` instead of `String!`
(`known_facts'` in `Proofs/OverlapSound2.lean` and its two siblings use `NoTypename` exactly to
identify `field_def` with the specification's type). -/
theorem overlap_typename_local (env : Env) (hle : LinOrd env.le) (n : Nat) (parentExcl : Bool)
    (rn : String) (e1 e2 : FieldEntry) (σ : St)
    (h1 : e1.node.argsOK) (h2 : e2.node.argsOK) (hm : env.s.NoMetaField)
    (hn : e1.node.name = "__typename" ∨ e2.node.name = "__typename")
    (hd1 : e1.defTy = env.s.fieldDef e1.parent e1.node.name)
    (hd2 : e2.defTy = env.s.fieldDef e2.parent e2.node.name)
    (hsub : (e1.node.hasSub && e2.node.hasSub) = false) :
    ∃ cs, findConflict env (n + 1) parentExcl rn e1 e2 σ = some (σ, cs) ∧
      (cs ≠ [] ↔ directNoTypes env.s ⟨e1.inst, e2.inst, !parentExcl⟩ = true) ∧
      (Spec.direct env.s ⟨e1.inst, e2.inst, !parentExcl⟩ = true ↔
        cs ≠ [] ∨ Spec.typesConflict (Spec.fieldType env.s e1.parent e1.node.name)
          (Spec.fieldType env.s e2.parent e2.node.name) = true) := by
  obtain ⟨cs, e, i⟩ :=
    findConflict_local_meta env hle n parentExcl rn e1 e2 σ h1 h2 hm hn hd1 hd2 hsub
  refine ⟨cs, e, i, ?_⟩
  rw [direct_eq_types_or, i, Bool.or_eq_true]
  simp only [Spec.typesOf, Overlap.FieldEntry.inst]
  exact Or.comm

/-- The open target for `__typename` (**not proved**; exact characterisation of the rule with
`__typename` selections allowed).  The rule reports a conflict iff the specification finds an
unmergeable pair *when `__typename` is regarded as a field without return type* — formally, on
the document in which every `__typename` selection is renamed to a field `z` that neither schema
nor document uses (`Doc.hideMeta`, response names kept).  Equivalently, by `overlap_iff` applied
to the renamed document (which has no `__typename`): `implConflicts s d` and
`implConflicts s (d.hideMeta z)` are empty together.  `overlap_typename_local` is its local
step; the examples below check it on the known-finding document and on two documents where a
`__typename` pair is rejected for its names. -/
def overlap_iff_typename_full : Prop :=
  ∀ (s : Schema) (d : Doc) (z : String), d.IdsNodup → d.argsWF = true → s.NoMetaField →
    FreshName s d z → RootsObject s d → LeafNoSub s (d.hideMeta z) → KeysInj d →
    ∃ cs, implConflicts s d = some cs ∧ (cs ≠ [] ↔ Spec.SpecConflict s (d.hideMeta z))

/-- C14-g'' (reduction of the open target to one evaluation per document).  If the rule's model
gives equally empty results on `d` and on `d.hideMeta z`, and `d.hideMeta z` satisfies the
hypotheses of `overlap_iff` (it has no `__typename` as soon as `z ≠ "__typename"`), then on `d` —
`__typename` selections allowed — the rule reports a conflict iff the specification with
`__typename` hidden finds an unmergeable pair, iff the oracle run on `d.hideMeta z` says so.
The first hypothesis is decidable for a concrete document (`decide`, example below); the check
measures the resulting equivalence on every generated document that selects `__typename`
(driver output `T`, statistics `typename_blind_spec_agrees`). -/
theorem overlap_iff_typename_of_invariance (s : Schema) (d : Doc) (z : String)
    (hinv : (implConflicts s d).map (·.isEmpty) = (implConflicts s (d.hideMeta z)).map (·.isEmpty))
    (hI : (d.hideMeta z).IdsNodup) (hA : (d.hideMeta z).argsWF = true)
    (hT : (d.hideMeta z).NoTypename) (hR : RootsObject s (d.hideMeta z))
    (hL : LeafNoSub s (d.hideMeta z)) (hK : KeysInj (d.hideMeta z))
    (hF : (d.hideMeta z).FieldIdsNodup) :
    ∃ cs, implConflicts s d = some cs ∧
      (cs ≠ [] ↔ Spec.SpecConflict s (d.hideMeta z)) ∧
      (cs ≠ [] ↔ Spec.specConflictB s (d.hideMeta z) = some true) := by
  obtain ⟨cs', e', i'⟩ := overlap_iff s (d.hideMeta z) hI hA hT hR hL hK
  rw [e'] at hinv
  cases e : implConflicts s d with
  | none => rw [e] at hinv; cases hinv
  | some cs =>
    rw [e] at hinv
    have hemp : cs.isEmpty = cs'.isEmpty := by simpa using hinv
    have hne : cs ≠ [] ↔ cs' ≠ [] := by
      cases cs <;> cases cs' <;> simp_all
    have h1 : cs ≠ [] ↔ Spec.SpecConflict s (d.hideMeta z) := by
      rw [hne, i']; simp [Spec.specMergeable]
    exact ⟨cs, rfl, h1, by rw [specConflictB_iff s _ hF]; exact h1⟩

/-- C14-g'. The same local step for arbitrary looked-up definitions: the report is
"the looked-up return types conflict, or `directNoTypes`". -/
theorem overlap_local_defs (env : Env) (hle : LinOrd env.le) (n : Nat) (parentExcl : Bool)
    (rn : String) (e1 e2 : FieldEntry) (σ : St)
    (h1 : e1.node.argsOK) (h2 : e2.node.argsOK)
    (hsub : (e1.node.hasSub && e2.node.hasSub) = false) :
    ∃ cs, findConflict env (n + 1) parentExcl rn e1 e2 σ = some (σ, cs) ∧
      (cs ≠ [] ↔ (Spec.typesConflict e1.defTy e2.defTy ||
        directNoTypes env.s ⟨e1.inst, e2.inst, !parentExcl⟩) = true) :=
  findConflict_local_defs env hle n parentExcl rn e1 e2 σ h1 h2 hsub

/-- Known finding, machine-checked on the model: `{ t { ... on T1 { f: __typename } ... on T2 { f: i } } }`
(`i: Int`) — the rule reports nothing, the specification rejects (`String!` vs `Int`). -/
def typenameSchema : Schema :=
  [⟨"Query", .object, [("t", .comp "U")]⟩, ⟨"U", .union, []⟩,
   ⟨"T1", .object, [("i", .leaf "Int")]⟩, ⟨"T2", .object, [("i", .leaf "Int")]⟩]

def typenameDoc : Doc :=
  [.op (some "Query") ⟨1, [.field 2 none "t" [] none true 3
    [.inline (some "T1") 4 [.field 5 (some "f") "__typename" [] none false 0 []],
     .inline (some "T2") 6 [.field 7 (some "f") "i" [] none false 0 []]]]⟩]

example : implConflicts typenameSchema typenameDoc = some [] ∧
    Spec.specConflictB typenameSchema typenameDoc = some true := by decide +kernel

/-- the two entries of `typenameDoc` (`f: __typename` on `T1`, `f: i` on `T2`): exclusive
parents, no `@stream` — `directNoTypes` holds nothing against the pair, the specification's
`direct` does (`String!` / `Int`), the rule reports nothing. -/
example :
    let e1 : FieldEntry := ⟨some "T1", ⟨5, some "f", "__typename", [], none, false, 0, []⟩,
      Schema.fieldDef typenameSchema (some "T1") "__typename"⟩
    let e2 : FieldEntry := ⟨some "T2", ⟨7, some "f", "i", [], none, false, 0, []⟩,
      Schema.fieldDef typenameSchema (some "T2") "i"⟩
    e1.defTy = none ∧ e2.defTy = some (.leaf "Int") ∧
      directNoTypes typenameSchema ⟨e1.inst, e2.inst, true⟩ = false ∧
      Spec.direct typenameSchema ⟨e1.inst, e2.inst, true⟩ = true ∧
      (findConflict ⟨typenameSchema, typenameDoc, naturalLe⟩ 1 false "f" e1 e2 {}).map (·.2)
        = some [] := by decide +kernel

example : Schema.NoMetaField typenameSchema := by
  intro t ht f hf
  simp only [typenameSchema, List.mem_cons, List.not_mem_nil, or_false] at ht
  rcases ht with rfl | rfl | rfl | rfl <;> simp_all

/-- `{ t { ... on T1 { f: __typename } ... on T2 { f: i } } }`: rule and typename-blind
specification accept; `{ t { f: __typename f: i } }` and
`{ t { ... on T1 { f: __typename } f: i } }` (parents overlap): both reject, for the names. -/
def typenameDoc2 : Doc :=
  [.op (some "Query") ⟨1, [.field 2 none "t" [] none true 3
    [.field 5 (some "f") "__typename" [] none false 0 [],
     .field 7 (some "f") "i" [] none false 0 []]]⟩]

def typenameDoc3 : Doc :=
  [.op (some "Query") ⟨1, [.field 2 none "t" [] none true 3
    [.inline (some "T1") 4 [.field 5 (some "f") "__typename" [] none false 0 []],
     .field 7 (some "f") "i" [] none false 0 []]]⟩]

example :
    implConflicts typenameSchema typenameDoc = some [] ∧
    Spec.specConflictB typenameSchema (typenameDoc.hideMeta "z") = some false ∧
    (implConflicts typenameSchema typenameDoc2).map (·.length) = some 1 ∧
    Spec.specConflictB typenameSchema (typenameDoc2.hideMeta "z") = some true ∧
    (implConflicts typenameSchema typenameDoc3).map (·.length) = some 1 ∧
    Spec.specConflictB typenameSchema (typenameDoc3.hideMeta "z") = some true := by
  decide +kernel

/-- the invariance hypothesis of `overlap_iff_typename_of_invariance`, evaluated on the three
`__typename` documents -/
example :
    (implConflicts typenameSchema typenameDoc).map (·.isEmpty) =
      (implConflicts typenameSchema (typenameDoc.hideMeta "?")).map (·.isEmpty) ∧
    (implConflicts typenameSchema typenameDoc2).map (·.isEmpty) =
      (implConflicts typenameSchema (typenameDoc2.hideMeta "?")).map (·.isEmpty) ∧
    (implConflicts typenameSchema typenameDoc3).map (·.isEmpty) =
      (implConflicts typenameSchema (typenameDoc3.hideMeta "?")).map (·.isEmpty) := by
  decide +kernel

end Gql.Props.C14
