import Gql.Proofs.OverlapTerm
import Gql.Proofs.OverlapLocal
/-!
# C14 — Field-merge validation accepts exactly what the specification accepts

Property theorems only (lemmas: `Gql/Proofs/Overlap*.lean`).
Model: `Gql.Exec.Overlap` — `OverlappingFieldsCanBeMergedRule` as written, with both pair sets,
the per-selection-set cache and fuel-indexed recursion.  Spec: `Gql.Exec.Spec` —
FieldsInSetCanMerge / SameResponseShape over fragment-expanded sets (`SpecConflict`).

Proved here: the four structural lemmas and the *local* part of the equivalence
(`overlap_iff_partial`).  The document-level equivalence `overlap_iff_full` is **not** proved;
its evidence is the three-way differential run of `checks/c14.py` (testing).
-/
namespace Gql.Props.C14
open Gql.Exec Gql.Exec.Overlap

/-- C14-a. `do_types_conflict` holds exactly when SameResponseShape fails on the two return
types: list and non-null wrappers must match level by level, scalar/enum leaves must be the same
type, a leaf never matches a composite, composites are left to the sub-selections. -/
theorem doTypesConflict_iff (a b : Ty) :
    doTypesConflict a b = true ↔ Spec.shapeConflict a b = true := by
  rw [doTypesConflict_eq_shapeConflict]

example : doTypesConflict (.list (.nonNull (.leaf "Int"))) (.list (.leaf "Int")) = true ∧
    doTypesConflict (.nonNull (.list (.comp "A"))) (.nonNull (.list (.comp "B"))) = false ∧
    doTypesConflict (.leaf "Int") (.comp "A") = true := by decide

/-- C14-b. `same_arguments` (values sorted by `sort_value_node`, then compared as printed) holds
exactly when the two argument lists are the same map from argument name to value, values taken
up to the order of input-object fields at every depth — for any linear order used as sort key
(`natural_comparison_key` is one), given unique argument / input-field names. -/
theorem sameArguments_iff {le : String → String → Bool} (hle : LinOrd le) (a b : Args)
    (ha : argsWF a = true) (hb : argsWF b = true) :
    sameArguments le a b = true ↔ Spec.argsEquiv a b = true := by
  rw [sameArguments_eq_argsEquiv hle a b ha hb]

/-- `{x: 1, o: {a2: 1, a10: 2, a: [3, {b: 1, c: 2}]}}` against the same arguments in another order,
with the object keys permuted at both levels; and a different nested value. -/
example :
    let a : Args := [("x", .leaf "1"), ("o", .obj [("a2", .leaf "1"), ("a10", .leaf "2"),
      ("a", .list [.leaf "3", .obj [("b", .leaf "1"), ("c", .leaf "2")]])])]
    let b : Args := [("o", .obj [("a", .list [.leaf "3", .obj [("c", .leaf "2"), ("b", .leaf "1")]]),
      ("a10", .leaf "2"), ("a2", .leaf "1")]), ("x", .leaf "1")]
    let c : Args := [("o", .obj [("a", .list [.leaf "3", .obj [("c", .leaf "1"), ("b", .leaf "2")]]),
      ("a10", .leaf "2"), ("a2", .leaf "1")]), ("x", .leaf "1")]
    argsWF a = true ∧ argsWF b = true ∧ sameArguments naturalLe a b = true ∧
      Spec.argsEquiv a b = true ∧ sameArguments naturalLe a c = false ∧
      Spec.argsEquiv a c = false := by decide

/-- C14-c (`PairSet`). A `has(a, b, flag)` hit means: an entry for the unordered pair exists
whose comparison was at least as demanding as the one being skipped — every unmergeable pair the
specification can reach from a pair of fields checked the way the *skipped* comparison would
(`full = ¬flag`) it also reaches checked the way the *recorded* comparison was (`full = ¬r`).
In particular an entry recorded under "mutually exclusive" never answers a non-exclusive query. -/
theorem pairset_sound (σ : St) (a b : String) (flag : Bool) (h : σ.cmpHas a b flag = true) :
    ∃ r, assocGet σ.cmp (pairKey a b) = some r ∧ (r = true → flag = true) ∧
      ∀ (sc : Schema) (d : Doc) (x y : Spec.FieldInst) (st : Spec.State),
        Spec.Reach sc d ⟨x, y, !flag⟩ st → Spec.direct sc st = true →
        ∃ st', Spec.Reach sc d ⟨x, y, !r⟩ st' ∧ Spec.direct sc st' = true := by
  obtain ⟨r, hr, himp⟩ := (flagHas_iff _ _).1 h
  refine ⟨r, hr, himp, fun sc d x y st hreach hd => ?_⟩
  refine Spec.reach_covers hreach ⟨rfl, rfl, ?_⟩ hd
  cases r <;> cases flag <;> simp_all

/-- C14-c (`OrderedPairSet`, fields × fragment). Same statement for the ordered pair set. -/
theorem orderedPairset_sound (σ : St) (i : Nat) (k : String) (flag : Bool)
    (h : σ.cfpHas i k flag = true) :
    ∃ r, assocGet σ.cfp (i, k) = some r ∧ (r = true → flag = true) ∧
      ∀ (sc : Schema) (d : Doc) (x y : Spec.FieldInst) (st : Spec.State),
        Spec.Reach sc d ⟨x, y, !flag⟩ st → Spec.direct sc st = true →
        ∃ st', Spec.Reach sc d ⟨x, y, !r⟩ st' ∧ Spec.direct sc st' = true := by
  obtain ⟨r, hr, himp⟩ := (flagHas_iff _ _).1 h
  refine ⟨r, hr, himp, fun sc d x y st hreach hd => ?_⟩
  refine Spec.reach_covers hreach ⟨rfl, rfl, ?_⟩ hd
  cases r <;> cases flag <;> simp_all

/-- C14-c. The pair set is unordered, and after `add(a, b, r)` a query `has(·, ·, q)` in either
order is answered exactly when `r → q` (an exclusive entry does not satisfy a non-exclusive
query). -/
theorem pairset_add_has (σ : St) (a b : String) (r q : Bool) :
    ((σ.cmpAdd a b r).cmpHas a b q = true ↔ (r = true → q = true)) ∧
      (σ.cmpAdd a b r).cmpHas b a q = (σ.cmpAdd a b r).cmpHas a b q :=
  ⟨cmpHas_cmpAdd σ a b r q, cmpHas_comm _ b a q⟩

example : (({} : St).cmpAdd "F1()" "F2()" true).cmpHas "F2()" "F1()" false = false ∧
    (({} : St).cmpAdd "F1()" "F2()" true).cmpHas "F2()" "F1()" true = true ∧
    (({} : St).cmpAdd "F2()" "F1()" false).cmpHas "F1()" "F2()" true = true := by decide

/-- C14-d. The rule terminates on every document — cyclic fragment spreads included — within
recursion depth `fuelBound d = (memoCapacity d + 1) · (2 · depth d + 2)`: with that much fuel (or
more) the model never runs out.  Only hypothesis: selection-set identities are identities. -/
theorem terminates (le : String → String → Bool) (s : Schema) (d : Doc) (hU : d.IdsUnique)
    (n : Nat) (hn : fuelBound d ≤ n) : (implConflictsFuel le n s d).isSome = true :=
  implConflictsFuel_isSome le s d hU n hn

/-- `{ n { ...A ...B } } fragment A on N { n { ...B x: a } } fragment B on N { n { ...A x: b } }`:
mutually recursive fragments with a conflict that is only seen through the cycle. -/
def cyclicSchema : Schema :=
  [⟨"Query", .object, [("n", .comp "N")]⟩,
   ⟨"N", .object, [("a", .leaf "Int"), ("b", .leaf "Int"), ("n", .comp "N")]⟩]

def cyclicDoc : Doc :=
  [.op (some "Query") ⟨1, [.field 2 none "n" [] none true 3 [.spread "A", .spread "B"]]⟩,
   .frag ⟨"A", "N", ⟨4, [.field 5 none "n" [] none true 6
      [.spread "B", .field 7 (some "x") "a" [] none false 0 []]]⟩⟩,
   .frag ⟨"B", "N", ⟨8, [.field 9 none "n" [] none true 10
      [.spread "A", .field 11 (some "x") "b" [] none false 0 []]]⟩⟩]

example : cyclicDoc.IdsUnique := by
  intro a ha b hb h
  simp only [Doc.allSets, cyclicDoc, List.flatMap_cons, List.flatMap_nil, Defn.ss, selsSubSets,
    Sel.subSets, if_true, List.append_nil, List.nil_append, List.cons_append, List.mem_cons,
    List.not_mem_nil, or_false, Bool.false_eq_true, if_false] at ha hb
  rcases ha with rfl | rfl | rfl | rfl | rfl | rfl <;>
    rcases hb with rfl | rfl | rfl | rfl | rfl | rfl <;> first | rfl | (simp at h)

example : (implConflicts cyclicSchema cyclicDoc).isSome = true ∧
    (implConflicts cyclicSchema cyclicDoc).map (·.length) = some 1 ∧
    Spec.specConflictB cyclicSchema cyclicDoc = some true := by decide +kernel

/-- C14-e (**partial**: the local step of `overlap_iff`).  For two field entries of which at most
one has a sub-selection — the leaves of the rule's comparison tree — `find_conflict` reports a
conflict iff the pair violates the specification's requirements on a pair (`Spec.direct`:
SameResponseShape on the return types, identical `@stream`, and — unless the parents are known
to be mutually exclusive — identical field names and identical arguments), and leaves the rule's
state unchanged.  "Known to be mutually exclusive" is the inherited flag or two different object
parent types, which is exactly ¬(`full` ∧ parents overlap) of the specification.

Missing for the full statement: lifting this through (1) the correspondence between
`collect_fields_and_fragment_spreads` + the visitor and the specification's fragment-expanded sets,
(2) the recursion into sub-selections, and (3) the global soundness of the two memo tables
(`pairset_sound` gives the per-entry fact it rests on). -/
theorem overlap_iff_partial (env : Env) (hle : LinOrd env.le) (n : Nat) (parentExcl : Bool)
    (rn : String) (e1 e2 : FieldEntry) (σ : St)
    (h1 : e1.node.argsOK) (h2 : e2.node.argsOK)
    (hd1 : e1.defTy = Spec.fieldType env.s e1.parent e1.node.name)
    (hd2 : e2.defTy = Spec.fieldType env.s e2.parent e2.node.name)
    (hsub : (e1.node.hasSub && e2.node.hasSub) = false) :
    ∃ cs, findConflict env (n + 1) parentExcl rn e1 e2 σ = some (σ, cs) ∧
      (cs ≠ [] ↔ Spec.direct env.s ⟨e1.inst, e2.inst, !parentExcl⟩ = true) :=
  findConflict_local env hle n parentExcl rn e1 e2 σ h1 h2 hd1 hd2 hsub

/-- no field of the document is the meta field `__typename` (for which the rule has no
definition, see the known finding) -/
def NoTypename (s : Schema) (d : Doc) : Prop :=
  ∀ st0 ∈ Spec.initStates s d, ∀ st, Spec.Reach s d st0 st →
    st.a.node.name ≠ "__typename" ∧ st.b.node.name ≠ "__typename"

/-- the specification never stops at a scalar/enum pair that both have sub-selections
(ScalarLeafs holds) -/
def LeafNoSub (s : Schema) (d : Doc) : Prop :=
  ∀ st0 ∈ Spec.initStates s d, ∀ st, Spec.Reach s d st0 st →
    Spec.leafStop s st = true → (st.a.node.hasSub && st.b.node.hasSub) = false

/-- The target, unrestricted over schemas and documents (cyclic spreads, one fragment under many
parents, both memo tables): the rule reports at least one conflict iff the specification finds an
unmergeable pair.  **Not proved** — evidence: three-way differential testing (`checks/c14.py`).
Without `NoTypename` the statement is false for the code as it is (corpus witness
`w04_typename_vs_int`). -/
def overlap_iff_full : Prop :=
  ∀ (s : Schema) (d : Doc), d.IdsUnique → d.argsWF = true → NoTypename s d → LeafNoSub s d →
    ((∃ cs, implConflicts s d = some cs ∧ cs ≠ []) ↔ ¬ Spec.specMergeable s d)

/-- Known finding, machine-checked on the model: `{ t { ... on T1 { f: __typename } ... on T2 { f: i } } }`
(`i: Int`) — the rule reports nothing, the specification rejects (`String!` vs `Int`). -/
def typenameSchema : Schema :=
  [⟨"Query", .object, [("t", .comp "U")]⟩, ⟨"U", .union, []⟩,
   ⟨"T1", .object, [("i", .leaf "Int")]⟩, ⟨"T2", .object, [("i", .leaf "Int")]⟩]

def typenameDoc : Doc :=
  [.op (some "Query") ⟨1, [.field 2 none "t" [] none true 3
    [.inline (some "T1") 4 [.field 5 (some "f") "__typename" [] none false 0 []],
     .inline (some "T2") 6 [.field 7 (some "f") "i" [] none false 0 []]]]⟩]

example : implConflicts typenameSchema typenameDoc = some [] ∧
    Spec.specConflictB typenameSchema typenameDoc = some true := by decide +kernel

end Gql.Props.C14
