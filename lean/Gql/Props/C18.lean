import Gql.Types.Introspection
import Gql.Types.ClientSchema
import Gql.Types.WFSchema
import Gql.Generated.IntrospectionOptions
import Gql.Proofs.Introspection
import Gql.Proofs.ClientSchema
import Gql.Proofs.ClientNoCrash
import Gql.Proofs.IntroConform
import Gql.Generated.IntrospectionTypes
import Gql.Types.ClientText
import Gql.Proofs.ClientDefaults
import Gql.Props.C08
/-!
# C18 — Introspection describes the schema truthfully and can rebuild it

Property theorems only (lemmas: `Gql/Proofs/Introspection.lean`, `Gql/Proofs/ClientSchema.lean`).

Model: `Gql.Types.introspect printV s o` — the `data` of executing `get_introspection_query(**o)` on a schema
(resolvers of type/introspection.py, key order of the query text); `Gql.Types.restrict o` — what switching
options off removes from the full result; `Gql.Types.typeLookup` — `__type(name:)`; `Gql.Types.buildClient env`
— build_client_schema.py including the forcing of its thunks by `GraphQLSchema.__init__`.

Parameters instead of models: `printV` (`print_ast` of a default value) and `env.parseV`
(`parse_const_value`) with the law `parseV (printV v) = ok v` as a hypothesis — that law is property C08, and
the section "Default values as text" below instantiates both parameters with the printer / parser models and
proves it (`client_roundtrip_text`, hypothesis `DefaultsWf` instead of the law);
`env.reserved` (the standard scalar / introspection types), `env.locOk` (`DirectiveLocation` member names),
`env.limit` (recursion limit).  Not modelled: the executor over the meta-schema (that the query text
validates and executes without errors is observed on the implementation by checks/c18.py).
Spec: `Gql.Types.Spec.Conforms` (GraphQL result coercion) against the T1 table
`Gql.Generated.introspectionTable` (the declared fields of `introspection_types`, regenerated from
type/introspection.py on every run).
-/
namespace Gql.Props.C18
open Gql Gql.Types

/-- T1: the option list the theorems quantify over is the signature of `get_introspection_query`
(regenerated from the source on every run; an added / renamed / reordered option breaks this). -/
theorem options_cover_signature : Gql.Generated.introspectionOptionNames = Options.names := by decide

/-- T1: the `Options` record has one boolean per extracted option. -/
theorem options_bits_length (o : Options) :
    o.toBits.length = Gql.Generated.introspectionOptionNames.length := by
  simp [Options.toBits, Gql.Generated.introspectionOptionNames]

/-- C18 "equals the full-options result minus exactly the attributes and deprecated input values that the
switched-off options omit": for every schema (no bound, no well-formedness needed) and every option set. -/
theorem introspect_restrict {V : Type} (printV : V → List Nat) (s : Schema V) (o : Options) :
    introspect printV s o = restrict o (introspect printV s (Options.full o.typeDepth)) :=
  Gql.Types.introspect_restrict printV s o

/-- The same over the explicit enumeration of the `2^n` option sets of the extracted option list. -/
theorem introspect_restrict_all {V : Type} (printV : V → List Nat) (s : Schema V) (depth : Nat) :
    ∀ o ∈ Options.all depth, introspect printV s o = restrict o (introspect printV s (Options.full depth)) := by
  intro o ho
  have hd : o.typeDepth = depth := by
    simp only [Options.all, List.mem_filterMap] at ho
    obtain ⟨bs, _, hbs⟩ := ho
    match bs, hbs with
    | [a, b, c, d, e, f, g], hbs => simp [Options.ofBits] at hbs; rw [← hbs]
  have := Gql.Types.introspect_restrict printV s o
  rwa [hd] at this

/-- The enumeration has `2^n` members, `n` the number of extracted options. -/
theorem all_options_count (depth : Nat) :
    (Options.all depth).length = 2 ^ Gql.Generated.introspectionOptionNames.length := by
  simp [Options.all, Options.bitLists, Options.names, Options.ofBits, Gql.Generated.introspectionOptionNames]

/-- C18 "single-type lookups agree with the full type list": `__type(name: n) { ...FullType }` is the entry
of `__schema.types` with that name (`null` when there is none), under every option set. -/
theorem type_lookup {V : Type} (printV : V → List Nat) (s : Schema V) (o : Options) (n : List Nat) :
    typeLookup printV s o n = findTypeEntry n (introspect printV s o) :=
  Gql.Types.type_lookup printV s o n

/-- C18 "building a client schema from the full result gives …": on a well-formed schema `build_client_schema`
of the full-options result returns exactly the schema (so every observation of it — `print_schema`,
`find_schema_changes`, introspection — coincides with the original's).  Default values travel as printed
literal strings and are re-parsed: `hpp` is property C08's round-trip law for const values. -/
theorem client_roundtrip {V : Type} [DecidableEq V] (env : ClientEnv V) (printV : V → List Nat)
    (hpp : ∀ v, env.parseV (printV v) = .ok v) (depth : Nat) (s : Schema V) (hwf : WFSchema env depth s) :
    buildClient env (introspect printV s (Options.full depth)) = .ok s :=
  Gql.Types.client_roundtrip env printV hpp depth s hwf

/-- Corollary: the client schema "prints identically, has no differences": any function of the schema
(`print_schema`, `find_schema_changes original ·`) gives the same value on the rebuilt schema. -/
theorem client_indistinguishable {V α : Type} [DecidableEq V] (env : ClientEnv V) (printV : V → List Nat)
    (hpp : ∀ v, env.parseV (printV v) = .ok v) (depth : Nat) (s : Schema V) (hwf : WFSchema env depth s)
    (observe : Schema V → α) :
    ∃ c, buildClient env (introspect printV s (Options.full depth)) = .ok c ∧ observe c = observe s :=
  ⟨s, client_roundtrip env printV hpp depth s hwf, rfl⟩

/-- C18 "… and introspects to the same result again" (under every option set). -/
theorem reintrospect {V : Type} [DecidableEq V] (env : ClientEnv V) (printV : V → List Nat)
    (hpp : ∀ v, env.parseV (printV v) = .ok v) (depth : Nat) (s : Schema V) (hwf : WFSchema env depth s) :
    ∃ c, buildClient env (introspect printV s (Options.full depth)) = .ok c ∧
      ∀ o, introspect printV c o = introspect printV s o :=
  ⟨s, client_roundtrip env printV hpp depth s hwf, fun _ => rfl⟩

/-- C18 (robustness of the rebuild): `build_client_schema` never *crashes* — raises anything but its own
`TypeError` / `GraphQLError` — on a result of the standard query: for ANY schema value (not only well-formed
ones) and ANY option set it returns a schema or one of its own errors.  Hypotheses: `parse_const_value` itself
does not crash, and the reference depth of the query is below the interpreter's recursion limit. -/
theorem buildClient_no_crash_on_introspect {V : Type} (env : ClientEnv V) (printV : V → List Nat)
    (hparse : ∀ x, ¬ (env.parseV x).isCrash) (s : Schema V) (o : Options) (hdepth : o.typeDepth < env.limit) :
    ¬ (buildClient env (introspect printV s o)).isCrash := by
  have := Gql.Types.buildClient_noCrash env printV (fun x => by simpa [NoCrash] using hparse x) o hdepth s
  simpa [NoCrash] using this

/-- C18 "its result conforms to the introspection types", for every option set: the result is
`{ "__schema": v }` and `v` is a legal value of the declared type of the `__schema` meta field
(`__Schema!`) — recursively: every entry of every object is a declared field of the corresponding
introspection type, a field declared Non-Null is never `null`, a field declared as a list is a list (of
conforming items), `kind` is a `__TypeKind` value name, `locations` are `__DirectiveLocation` value names,
`String` / `Boolean` fields hold strings / booleans.  `Introspectable s`: the schema has a query root and
its directive locations are `DirectiveLocation` members (what a `GraphQLSchema` that can execute a query
guarantees; implied by `validate_schema == []`). -/
theorem introspect_conforms {V : Type} (printV : V → List Nat) (s : Schema V) (o : Options)
    (h : Introspectable s) :
    introspect printV s o = .obj [(.schema, schemaJson printV s o)] ∧
      Spec.Conforms Gql.Generated.introspectionTable Gql.Generated.schemaMetaFieldType (schemaJson printV s o) :=
  ⟨rfl, Gql.Types.conf_schemaJson printV s o h⟩

/-- The same for single-type lookups: `__type(name:)` yields a legal value of the declared type of the
`__type` meta field (`__Type`, nullable), for any schema value. -/
theorem type_lookup_conforms {V : Type} (printV : V → List Nat) (s : Schema V) (o : Options) (n : List Nat) :
    Spec.Conforms Gql.Generated.introspectionTable Gql.Generated.typeMetaFieldType (typeLookup printV s o n) :=
  Gql.Types.conf_typeLookup printV s o n

/-- The conformance predicate discriminates: `null` is not a legal `__schema`, and an object with an
undeclared entry is not a legal `__Type`. -/
theorem conforms_rejects :
    ¬ Spec.Conforms Gql.Generated.introspectionTable Gql.Generated.schemaMetaFieldType .null ∧
    ¬ Spec.Conforms Gql.Generated.introspectionTable (.named "__Type") (.obj [(.locations, .null)]) := by
  constructor
  · intro h
    cases h with
    | null _ hn => simp [Gql.Generated.schemaMetaFieldType, ITy.isNonNull] at hn
    | nonNull _ _ hn _ => exact hn rfl
  · intro h
    generalize ht : ITy.named "__Type" = t at h
    generalize hj : Json.obj [(Key.locations, Json.null)] = j at h
    cases h with
    | null _ _ => cases hj
    | nonNull _ _ _ _ => cases ht
    | list _ _ _ => cases ht
    | string _ => cases hj
    | boolean _ => cases hj
    | enum _ _ _ _ _ => cases hj
    | object n fields kvs hl hdecl _ =>
      cases ht
      cases hj
      have hf : fields = rowOf "__Type" := by
        have := lookup_Type
        rw [hl] at this
        exact Option.some.inj this
      subst hf
      have := hdecl (.locations, .null) (by simp)
      revert this
      decide

/-! ### Default values as text: the print/parse hypothesis discharged by C08

`client_roundtrip` takes the law `parseV (printV v) = ok v` as a hypothesis.  Here the two parameters are the
printer model (`print_ast`, `Gql.Syntax.printAst`) and the parser model (`parse_const_value`,
`Gql.Syntax.parseSource .constValue`) themselves (`Gql/Types/ClientText.lean`), a default value is its literal
tree (`Gql.Syntax.Ast`), and the law is C08's `roundtrip_value`. -/

open Gql.Text Gql.Syntax in
/-- The tree is a well-formed constant value literal: the tree of a `Val` (C08's typed value tree) that is
`Val.wf true` — valid names and number texts, enum values other than `true`/`false`/`null`, strings of Unicode
scalar values, block-representable block strings, no variables. -/
def ConstLiteral (d : Ast) : Prop := ∃ v : Val, Val.wf true v ∧ d = v.toAst

/-- Every default-value literal of the schema (arguments of fields, input fields, arguments of directives)
is a well-formed constant literal.  The real code guarantees it for a schema built from SDL text: the literal
is what `parse_const_value` / `parse_value_literal(is_const=True)` returned (`parsed_default_wf` below: every
tree the parser model returns on text without surrogate code points is a `ConstLiteral`); for a
programmatically built schema the literal is the result of `ast_from_value`, which builds Int / Float texts
from Python numbers, names from enum value names and input field names (`assert_name` / schema validation
checks them), and string values from `str`s.  Not decidable as stated (number texts and block
representability are existential), but equivalent to a statement about the finite list `s.defaults`
(`Gql.Types.defaultsSat_iff`). -/
def DefaultsWf (s : Schema Gql.Syntax.Ast) : Prop := ∀ d ∈ s.defaults, ConstLiteral d

open Gql.Text Gql.Syntax in
/-- Where `DefaultsWf` comes from for SDL-built schemas (C08 `parse_wf_value`): whatever `parse_const_value`
returns on a source text without surrogate code points — any flags, any `max_tokens` — is a well-formed
constant literal. -/
theorem parsed_default_wf (cfg : Cfg) (src : List Nat) (hsrc : ∀ x ∈ src, isSurr x = false) (d : Ast)
    (h : parseSource .constValue cfg src = .ok d) : ConstLiteral d :=
  Gql.Props.C08.parse_wf_value cfg true src hsrc d h

open Gql.Text Gql.Syntax in
/-- The `defaultValue` string of the introspection result is what the printer model prints, and the printer
does not crash on a well-formed constant literal (so the totalisation in `printDefault` is never used under
`DefaultsWf`). -/
theorem printDefault_ok (w : Widths) (d : Ast) (hd : ConstLiteral d) :
    printAst w d = .ok (printDefault w d) := by
  obtain ⟨v, _, rfl⟩ := hd
  simp [printDefault, printAst_val]

open Gql.Text Gql.Syntax in
/-- **The hypothesis `hpp` of `client_roundtrip`, proved** (C08 `roundtrip_value` at the CONST VALUE entry
point): for all widths with `object ≥ 4` (true of the generated ones), any parser flags, no `max_tokens`
(`build_client_schema` calls `parse_const_value(default_value_str)` with no options), the text the printer
model prints for a well-formed constant literal is parsed by the real parser model back to that literal. -/
theorem default_text_roundtrip (w : Widths) (hw : 4 ≤ w.object) (cfg : Cfg) (hm : cfg.maxTokens = none)
    (d : Ast) (hd : ConstLiteral d) : parseDefaultText cfg (printDefault w d) = .ok d := by
  obtain ⟨v, hwf, rfl⟩ := hd
  obtain ⟨text, hp, hparse⟩ := Gql.Props.C08.roundtrip_value w hw cfg hm true v hwf
  have ht : printDefault w v.toAst = text := by simp [printDefault, hp]
  have hparse' : parseSource .constValue cfg text = .ok v.toAst := by simpa using hparse
  simp [parseDefaultText, ht, hparse']

open Gql.Syntax in
/-- **C18 client round trip with default values as TEXT, no print/parse hypothesis.**  For every well-formed
schema (`WFSchema`, as in `client_roundtrip`) whose default-value literals are well-formed constant literals
(`DefaultsWf`): the full-options introspection result — every `defaultValue` the string printed by the printer
model (`printDefault_ok`) — fed to `build_client_schema`, which re-parses every such string with the real
parser model of `parse_const_value`, gives back exactly the schema.  All widths with `object ≥ 4`, any parser
flags, no `max_tokens`; any reserved-type list, location predicate, recursion limit.  (Outside the model, as
before: `ast_from_value` / `value_from_ast` between the Python default value and its literal.) -/
theorem client_roundtrip_text (w : Widths) (hw : 4 ≤ w.object) (cfg : Cfg) (hm : cfg.maxTokens = none)
    (reserved : List (TypeDef Ast)) (locOk : List Nat → Bool) (limit depth : Nat) (s : Schema Ast)
    (hwf : WFSchema (textEnv cfg reserved locOk limit) depth s) (hd : DefaultsWf s) :
    buildClient (textEnv cfg reserved locOk limit) (introspect (printDefault w) s (Options.full depth)) = .ok s :=
  Gql.Types.client_roundtrip_on (textEnv cfg reserved locOk limit) (printDefault w) ConstLiteral
    (fun d hd => default_text_roundtrip w hw cfg hm d hd) depth s hwf
    ((Gql.Types.defaultsSat_iff ConstLiteral s).2 hd)

open Gql.Syntax in
/-- Corollary ("… and introspects to the same result again", text level): the rebuilt schema has the same
introspection result under every option set, `defaultValue` strings included. -/
theorem reintrospect_text (w : Widths) (hw : 4 ≤ w.object) (cfg : Cfg) (hm : cfg.maxTokens = none)
    (reserved : List (TypeDef Ast)) (locOk : List Nat → Bool) (limit depth : Nat) (s : Schema Ast)
    (hwf : WFSchema (textEnv cfg reserved locOk limit) depth s) (hd : DefaultsWf s) :
    ∃ c, buildClient (textEnv cfg reserved locOk limit) (introspect (printDefault w) s (Options.full depth)) = .ok c ∧
      ∀ o, introspect (printDefault w) c o = introspect (printDefault w) s o :=
  ⟨s, client_roundtrip_text w hw cfg hm reserved locOk limit depth s hwf hd, fun _ => rfl⟩

/-! ### Non-vacuity: a concrete well-formed schema

`schema { query: Q }  interface I { f(x: In = <v> @deprecated(reason: "d")): [Int!] }
type Q implements I { f(x: In = <v> @deprecated(reason: "d")): [Int!]  e: E @deprecated(reason: "d") }
enum E { A }  input In @oneOf { x: Int }  scalar Int   directive @d repeatable on QUERY`
(names as code points: Q=81 I=73 E=69 A=65 f=102 x=120 e=101 d=100 In=73,110 Int=73,110,116). -/

private def exArg : InputValue (List Nat) :=
  ⟨[120], some [100], .named [73, 110] .inputObject, some [118], some [100]⟩
private def exF : Field (List Nat) := ⟨[102], none, [exArg], .list (.nonNull (.named [73, 110, 116] .scalar)), none⟩
private def exE : Field (List Nat) := ⟨[101], some [], [], .named [69] .enum, some [100]⟩
private def exTypes : List (TypeDef (List Nat)) :=
  [⟨.interface, [73], some [100], none, [exF], [], [], [], [], false⟩,
   ⟨.object, [81], none, none, [exF, exE], [.named [73] .interface], [], [], [], false⟩,
   ⟨.enum, [69], none, none, [], [], [], [⟨[65], none, some [100]⟩], [], false⟩,
   ⟨.inputObject, [73, 110], none, none, [], [], [], [],
      [⟨[120], none, .named [73, 110, 116] .scalar, none, some [100]⟩], true⟩,
   ⟨.scalar, [73, 110, 116], some [100], some [100], [], [], [], [], [], false⟩]
private def exSchema : Schema (List Nat) :=
  ⟨some [100], some ([81], .object), none, none, exTypes,
   [⟨[100], none, true, some [100], [[81, 85, 69, 82, 89]], [exArg]⟩]⟩
private def exEnv : ClientEnv (List Nat) :=
  ⟨.ok, [⟨.scalar, [73, 110, 116], some [100], some [100], [], [], [], [], [], false⟩], fun l => l = [81, 85, 69, 82, 89], 50⟩

example : WFSchema exEnv 9 exSchema := by decide
example : ∀ v, exEnv.parseV (id v) = .ok v := fun _ => rfl
example : buildClient exEnv (introspect id exSchema (Options.full 9)) = .ok exSchema :=
  client_roundtrip exEnv id (fun _ => rfl) 9 exSchema (by decide)
-- the same schema is *not* well-formed for type_depth 1 (`f : [Int!]` is wrapped twice): the hypothesis discriminates
example : ¬ WFSchema exEnv 1 exSchema := by decide
-- the concrete schema meets the hypothesis of `introspect_conforms`
example : Introspectable exSchema := ⟨rfl, by decide⟩
-- a parser that never crashes / a depth below the limit exist (hypotheses of `buildClient_no_crash_on_introspect`)
example : (∀ x, ¬ (exEnv.parseV x).isCrash) ∧ (Options.full 9).typeDepth < exEnv.limit :=
  ⟨fun _ => by simp [exEnv, Out.isCrash], by decide⟩
-- outside `WFSchema` the builder answers with its own error, not a crash: a union whose member is not in the
-- type list, introspected with every option switched off
example : buildClient exEnv (introspect id
      (⟨none, none, none, none, [⟨.union, [85], none, none, [], [], [.named [81] .object], [], [], false⟩], []⟩ :
        Schema (List Nat)) ⟨false, false, false, false, false, false, false, 9⟩) = .err "TypeError" := by decide
-- the option enumeration on the concrete schema
example : (⟨false, true, false, true, false, true, false, 9⟩ : Options) ∈ Options.all 9 := by decide

/-! ### Non-vacuity of the text-level theorems: the same schema with the default literal `[1, { a: B }]` -/

open Gql.Text Gql.Syntax in
private def tLit : Val := .list [.int [49], .obj [([97], .enum [66])]]
open Gql.Text Gql.Syntax in
private def tD : Ast := tLit.toAst
private def tArg : InputValue Gql.Syntax.Ast :=
  ⟨[120], some [100], .named [73, 110] .inputObject, some tD, some [100]⟩
private def tF : Field Gql.Syntax.Ast := ⟨[102], none, [tArg], .list (.nonNull (.named [73, 110, 116] .scalar)), none⟩
private def tE : Field Gql.Syntax.Ast := ⟨[101], some [], [], .named [69] .enum, some [100]⟩
private def tInt : TypeDef Gql.Syntax.Ast := ⟨.scalar, [73, 110, 116], some [100], some [100], [], [], [], [], [], false⟩
private def tTypes : List (TypeDef Gql.Syntax.Ast) :=
  [⟨.interface, [73], some [100], none, [tF], [], [], [], [], false⟩,
   ⟨.object, [81], none, none, [tF, tE], [.named [73] .interface], [], [], [], false⟩,
   ⟨.enum, [69], none, none, [], [], [], [⟨[65], none, some [100]⟩], [], false⟩,
   ⟨.inputObject, [73, 110], none, none, [], [], [], [],
      [⟨[120], none, .named [73, 110, 116] .scalar, some (Gql.Text.Val.toAst (.int [49])), some [100]⟩], true⟩,
   tInt]
private def tSchema : Schema Gql.Syntax.Ast :=
  ⟨some [100], some ([81], .object), none, none, tTypes,
   [⟨[100], none, true, some [100], [[81, 85, 69, 82, 89]], [tArg]⟩]⟩
private def tEnv : ClientEnv Gql.Syntax.Ast := textEnv {} [tInt] (fun l => l = [81, 85, 69, 82, 89]) 50

open Gql.Text in
theorem wf_one : Val.wf true (.int [49]) :=
  ⟨⟨[], [49], [], []⟩, ⟨Or.inl rfl, by decide, Or.inl rfl, Or.inl rfl⟩, rfl, rfl⟩
open Gql.Text in
theorem wf_tLit : Val.wf true tLit :=
  ⟨wf_one, ⟨by decide, ⟨by decide, by decide, by decide, by decide⟩, trivial⟩, trivial⟩

-- the schema is well-formed (decided with the hand-written `DecidableEq Ast`, reserved-type comparison included)
example : WFSchema tEnv 9 tSchema := by decide
-- its default literals are well-formed constant literals
theorem tSchema_defaultsWf : DefaultsWf tSchema := by
  intro d hd
  have : d = tD ∨ d = Gql.Text.Val.toAst (.int [49]) := by
    simp [Schema.defaults, ivsDefaults, tSchema, tTypes, tF, tE, tInt, tArg] at hd
    rcases hd with h | h | h <;> simp [h]
  rcases this with rfl | rfl
  · exact ⟨tLit, wf_tLit, rfl⟩
  · exact ⟨_, wf_one, rfl⟩
-- the generated widths qualify, the default `Cfg` has no `max_tokens`: `client_roundtrip_text` applies
example : buildClient tEnv (introspect (printDefault Gql.Syntax.Widths.generated) tSchema (Options.full 9))
    = .ok tSchema :=
  client_roundtrip_text Gql.Syntax.Widths.generated (by decide) {} rfl [tInt] _ 50 9 tSchema (by decide)
    tSchema_defaultsWf
-- the `defaultValue` string of the model is the printed text `[1, { a: B }]`
example : printDefault Gql.Syntax.Widths.generated tD = Gql.Syntax.S "[1, { a: B }]" := by
  rw [show tD = tLit.toAst from rfl]
  have := printDefault_ok Gql.Syntax.Widths.generated tLit.toAst ⟨tLit, wf_tLit, rfl⟩
  rw [Gql.Text.printAst_val] at this
  rw [← Out.ok.inj this]
  decide
-- `DefaultsWf` discriminates: a variable is no constant literal
example : ¬ ConstLiteral (Gql.Text.Val.toAst (.var [97])) := by
  rintro ⟨v, hwf, h⟩
  cases v <;> simp [Gql.Text.Val.toAst] at h
  rename_i n
  simp [Gql.Text.Val.wf] at hwf

end Gql.Props.C18
