/-
Data types shared by the model of `OverlappingFieldsCanBeMergedRule`
(src/graphql/validation/rules/overlapping_fields_can_be_merged.py) and by the specification
`SpecMerge` (GraphQL spec, "Field Selection Merging").

A *mini schema*: named types with a kind and (for object / interface types) a field table
`name ↦ return type`.  Argument definitions are not part of the table: neither the rule nor the
specification's algorithm reads them (arguments are compared syntactically).

A *document*: operations and named fragments over selection sets of fields (alias, arguments,
optional `@stream` arguments, optional sub-selection), inline fragments and fragment spreads.
Every selection set and every field node carries an identity (`id`), standing for the Python
object identity the rule's caches key on.  Names are ASCII GraphQL names (`String`).
-/
namespace Gql.Exec

/-- An output type.  `leaf` = scalar or enum, `comp` = object, interface or union. -/
inductive Ty where
  | leaf (n : String)
  | comp (n : String)
  | list (t : Ty)
  | nonNull (t : Ty)
  deriving DecidableEq, Repr, Inhabited

namespace Ty
/-- `get_named_type` -/
def named : Ty → String
  | leaf n => n
  | comp n => n
  | list t => t.named
  | nonNull t => t.named
end Ty

/-- Kind of a named type; `other` = scalar, enum or input object. -/
inductive Kind where
  | object | interface | union | other
  deriving DecidableEq, Repr, Inhabited

structure TypeDef where
  name : String
  kind : Kind
  fields : List (String × Ty)
  deriving Repr, Inhabited

abbrev Schema := List TypeDef

namespace Schema
/-- `schema.get_type(name)` -/
def getType (s : Schema) (n : String) : Option TypeDef := s.find? (fun t => t.name == n)

/-- `type_from_ast(schema, NamedTypeNode)`: the name if the schema has it. -/
def typeFromAst (s : Schema) (n : String) : Option String := (s.getType n).map (·.name)

def kindOf (s : Schema) : Option String → Option Kind
  | none => none
  | some n => (s.getType n).map (·.kind)

/-- `is_object_type(parent_type)` for a possibly-`None` named type. -/
def isObject (s : Schema) (p : Option String) : Bool := s.kindOf p == some Kind.object

def isComposite (s : Schema) (p : Option String) : Bool :=
  match s.kindOf p with
  | some Kind.object | some Kind.interface | some Kind.union => true
  | _ => false

/-- `parent_type.fields.get(field_name) if is_object_type(p) or is_interface_type(p) else None` -/
def fieldDef (s : Schema) (p : Option String) (f : String) : Option Ty :=
  match p with
  | none => none
  | some n =>
    match s.getType n with
    | none => none
    | some t =>
      if t.kind == Kind.object || t.kind == Kind.interface then
        (t.fields.find? (fun x => x.1 == f)).map (·.2)
      else none
end Schema

/-- A GraphQL input value as the rule sees it: variables and scalar literals are opaque leaves
(identified by their printed text), lists keep their order, input objects keep the order in
which their fields were written. -/
inductive Value where
  | leaf (s : String)
  | list (vs : List Value)
  | obj (fs : List (String × Value))
  deriving Repr, Inhabited

abbrev Args := List (String × Value)

/-- A selection.  `field`: node identity, alias, name, arguments, arguments of the first
directive called `stream` (if any), whether there is a sub-selection set, its identity and its
selections.  `inline`: optional type condition, identity of its selection set, selections. -/
inductive Sel where
  | field (id : Nat) (alias : Option String) (name : String) (args : Args) (stream : Option Args)
      (hasSub : Bool) (subId : Nat) (sub : List Sel)
  | inline (tc : Option String) (ssId : Nat) (sels : List Sel)
  | spread (name : String)
  deriving Repr, Inhabited

/-- A selection set: identity and selections. -/
structure SelSet where
  id : Nat
  sels : List Sel
  deriving Repr, Inhabited

structure FragDef where
  name : String
  typeCond : String
  ss : SelSet
  deriving Repr, Inhabited

/-- An executable definition, in document order.  For operations `root` is
`schema.get_root_type(operation)` (its name), if any. -/
inductive Defn where
  | op (root : Option String) (ss : SelSet)
  | frag (f : FragDef)
  deriving Repr, Inhabited

abbrev Doc := List Defn

namespace Doc
def frags (d : Doc) : List FragDef :=
  d.filterMap (fun | .frag f => some f | _ => none)

/-- `context.get_fragment(name)`: a dict comprehension over the definitions, so the *last*
definition of a name wins. -/
def getFragment (d : Doc) (n : String) : Option FragDef :=
  d.frags.reverse.find? (fun f => f.name == n)
end Doc

/-- The field data the rule and the specification read from a field node. -/
structure FieldNode where
  id : Nat
  alias : Option String
  name : String
  args : Args
  stream : Option Args
  hasSub : Bool
  subId : Nat
  sub : List Sel
  deriving Repr, Inhabited

namespace FieldNode
def responseName (f : FieldNode) : String := f.alias.getD f.name
def subSet (f : FieldNode) : SelSet := ⟨f.subId, f.sub⟩
end FieldNode

/-! ### well-formedness facts other validation rules guarantee (hypotheses of the theorems) -/

def namesUnique (xs : List (String × Value)) : Bool :=
  match xs with
  | [] => true
  | x :: rest => !(rest.any (fun y => y.1 == x.1)) && namesUnique rest

mutual
/-- input-object field names are unique in every object of the value (UniqueInputFieldNames) -/
def Value.keysUnique : Value → Bool
  | .leaf _ => true
  | .list vs => valuesKeysUnique vs
  | .obj fs => namesUnique fs && fieldsKeysUnique fs
def valuesKeysUnique : List Value → Bool
  | [] => true
  | v :: vs => v.keysUnique && valuesKeysUnique vs
def fieldsKeysUnique : List (String × Value) → Bool
  | [] => true
  | (_, v) :: fs => v.keysUnique && fieldsKeysUnique fs
end

/-- argument names unique (UniqueArgumentNames) and every value `keysUnique` -/
def argsWF (a : Args) : Bool := namesUnique a && fieldsKeysUnique a

mutual
def Sel.argsWF : Sel → Bool
  | .field _ _ _ args st _ _ sub =>
    Gql.Exec.argsWF args && (match st with | some a => Gql.Exec.argsWF a | none => true) &&
      selsArgsWF sub
  | .inline _ _ sels => selsArgsWF sels
  | .spread _ => true
def selsArgsWF : List Sel → Bool
  | [] => true
  | x :: xs => x.argsWF && selsArgsWF xs
end

def Doc.argsWF (d : Doc) : Bool :=
  d.all (fun df => match df with
    | .op _ ss => selsArgsWF ss.sels
    | .frag f => selsArgsWF f.ss.sels)

/-! ### sizes used by the fuel bound -/

mutual
/-- nesting depth of fields -/
def Sel.depth : Sel → Nat
  | .field _ _ _ _ _ _ _ sub => 1 + selsDepth sub
  | .inline _ _ sels => selsDepth sels
  | .spread _ => 0
def selsDepth : List Sel → Nat
  | [] => 0
  | x :: xs => max x.depth (selsDepth xs)
end

mutual
/-- all selection sets strictly below a selection (field sub-selections, inline fragment bodies) -/
def Sel.subSets : Sel → List SelSet
  | .field _ _ _ _ _ hasSub subId sub => (if hasSub then [⟨subId, sub⟩] else []) ++ selsSubSets sub
  | .inline _ ssId sels => ⟨ssId, sels⟩ :: selsSubSets sels
  | .spread _ => []
def selsSubSets : List Sel → List SelSet
  | [] => []
  | x :: xs => x.subSets ++ selsSubSets xs
end

mutual
/-- the field nodes of a selection set, looking through inline fragments (not through spreads) -/
def Sel.fields : Sel → List FieldNode
  | .field id al name args st hasSub subId sub => [⟨id, al, name, args, st, hasSub, subId, sub⟩]
  | .inline _ _ sels => selsFields sels
  | .spread _ => []
def selsFields : List Sel → List FieldNode
  | [] => []
  | x :: xs => x.fields ++ selsFields xs
end

mutual
/-- the fragment names spread in a selection set, looking through inline fragments only -/
def Sel.directSpreads : Sel → List String
  | .field .. => []
  | .inline _ _ sels => selsDirectSpreads sels
  | .spread n => [n]
def selsDirectSpreads : List Sel → List String
  | [] => []
  | x :: xs => x.directSpreads ++ selsDirectSpreads xs
end

mutual
/-- names of all fragment spreads below -/
def Sel.spreadNames : Sel → List String
  | .field _ _ _ _ _ _ _ sub => selsSpreadNames sub
  | .inline _ _ sels => selsSpreadNames sels
  | .spread n => [n]
def selsSpreadNames : List Sel → List String
  | [] => []
  | x :: xs => x.spreadNames ++ selsSpreadNames xs
end

def Defn.ss : Defn → SelSet
  | .op _ ss => ss
  | .frag f => f.ss

def Doc.depth (d : Doc) : Nat := (d.map (fun df => selsDepth df.ss.sels)).foldr max 0
/-- every selection set of the document -/
def Doc.allSets (d : Doc) : List SelSet := d.flatMap (fun df => df.ss :: selsSubSets df.ss.sels)
/-- selection-set identities are object identities: equal ids, same selection set -/
def Doc.IdsUnique (d : Doc) : Prop := ∀ a ∈ d.allSets, ∀ b ∈ d.allSets, a.id = b.id → a = b
def Doc.spreadNames (d : Doc) : List String := d.flatMap (fun df => selsSpreadNames df.ss.sels)

end Gql.Exec
