/-
C02 — the specification's execution algorithm (GraphQL, October 2021, §6 "Execution"), written
independently of the implementation model as pure structural recursion over the data graph:

  ExecuteRequest / ExecuteQuery / ExecuteMutation        §6.1, §6.2
  ExecuteSelectionSet, CollectFields, DoesFragmentTypeApply   §6.3
  ExecuteField, CoerceArgumentValues, ResolveFieldValue,
  CompleteValue, ResolveAbstractType, MergeSelectionSets      §6.4
  Handling Field Errors                                    §6.4.4

There is no state: every function returns its value together with the field errors raised (in
depth-first order, each with the path of the response position where it was raised) and the
resolver invocations made.  `out = none` means "a field error was raised here and this position
is null"; `absorb` is the propagation rule: a nullable position becomes `null`, a Non-Null
position hands the null to its parent (… to the nearest nullable ancestor, or to `data`).
Once a field error propagates out of a selection set (or list), the siblings that have not been
executed yet are not executed ("may be cancelled to avoid unnecessary work", §6.4.4).

Points where the specification text is silent and the reading taken here (all outside validated
requests, or conventions of the data graph):
* `@skip`/`@include`: the `if` argument is coerced with CoerceArgumentValues against `Boolean!`
  (the directive's definition); a coercion failure is a field error of the field whose selection
  set is being collected (a request error at the root).  This is the one case the spec defers to
  run time (a nullable variable with a default that is explicitly `null`).
* an argument given twice / a non-`Boolean` `if` value: see `lookupArg`, `PyVal.truthy`.
* data conventions: `RVal.raise` inside a list is an item whose completion raises; a non-object
  value at an object position resolves all its fields to `null`; `ResolveAbstractType` reads the
  node's `__typename`.
-/
import Gql.Exec.Data

namespace Gql.Exec.Spec

structure R (α : Type) where
  out : Option α
  errs : List FErr
  log : List Call

/-- ordered map response key → fields -/
abbrev Groups := List (Name × List FieldNode)

structure Ctx where
  ops : Ops
  schema : Schema
  doc : Doc
  vars : Vars

/-! ### CoerceArgumentValues (§6.4.1) -/

/-- CoerceArgumentValues: `coercedValues` is an (insertion-ordered) map, filled argument
definition by argument definition; `none` = a field error is raised.  The last step of the
algorithm ("if value is null … / a variable is used as is / otherwise coerce") is the input
coercion `ops.coerceLiteral` of the value layer (C15). -/
def coerceArgumentValues (cx : Ctx) (args : List (Name × Value)) :
    List ArgDef → ArgMap → Option ArgMap
  | [], coercedValues => some coercedValues
  | a :: rest, coercedValues =>
    let argumentValue := lookupArg args a.name
    -- hasValue / value, looking through a variable
    let hasValue : Bool :=
      match argumentValue with
      | none => false
      | some (.var x) => (cx.vars.lookup x).isSome
      | some _ => true
    let here : Option (Option PyVal) :=       -- some none: no entry for this argument
      if !hasValue && a.default.isSome then
        match a.default with
        | some d => (cx.ops.coerceLiteral cx.schema [] a.type d).map some
        | none => none
      else
        match argumentValue with
        | none => if a.type.nonNull then none else some none
        | some v =>
          if !hasValue then (if a.type.nonNull then none else some none)
          else (cx.ops.coerceLiteral cx.schema cx.vars a.type v).map some
    match here with
    | some (some v) => coerceArgumentValues cx args rest (coercedValues.set a.name v)
    | some none => coerceArgumentValues cx args rest coercedValues
    | none => none

/-! ### CollectFields (§6.3.2) -/

/-- value of the `if` argument of a `@skip`/`@include` directive; `none` = coercion failed -/
def directiveIf (cx : Ctx) (d : Directive) : Option Bool :=
  match coerceArgumentValues cx d.args [{ name := "if", type := boolNN, default := none }] [] with
  | some m => (m.lookup "if").map PyVal.truthy
  | none => none

/-- `some true`: selected; `some false`: skipped; `none`: a directive could not be coerced. -/
def included (cx : Ctx) (dirs : List Directive) : Option Bool :=
  let skip : Option Bool :=
    match dirs.find? (fun d => d.name == "skip") with
    | some d => directiveIf cx d
    | none => some false
  match skip with
  | none => none
  | some true => some false
  | some false =>
    match dirs.find? (fun d => d.name == "include") with
    | some d => directiveIf cx d
    | none => some true

/-- DoesFragmentTypeApply(objectType, fragmentType) -/
def doesFragmentTypeApply (s : Schema) (objectType : Name) (fragmentType : Name) : Bool :=
  match s.lookup fragmentType with
  | some (.object ..) => fragmentType == objectType
  | some (.iface ..) => s.isSubType fragmentType objectType
  | some (.union ..) => s.isSubType fragmentType objectType
  | _ => false

/-- "append all items in fragmentGroup to groupForResponseKey" (created at the end if absent) -/
def appendGroup : Groups → Name → List FieldNode → Groups
  | [], k, fs => [(k, fs)]
  | (k', g) :: rest, k, fs =>
    if k' == k then (k', g ++ fs) :: rest else (k', g) :: appendGroup rest k fs

def mergeGroups (g : Groups) : Groups → Groups
  | [] => g
  | (k, fs) :: rest => mergeGroups (appendGroup g k fs) rest

mutual
/-- The loop of CollectFields over a selection set with accumulator `groupedFields`;
`visitedFragments` is threaded (the spec passes it by reference); `recur` is CollectFields on a
fragment definition's selection set. -/
def collectLoop (cx : Ctx) (objectType : Name)
    (recur : List Selection → List Name → Out ErrKind (Groups × List Name)) :
    List Selection → Groups → List Name → Out ErrKind (Groups × List Name)
  | [], grouped, visited => .ok (grouped, visited)
  | sel :: rest, grouped, visited =>
    match collectOne cx objectType recur sel grouped visited with
    | .ok (grouped', visited') => collectLoop cx objectType recur rest grouped' visited'
    | .err e => .err e
    | .crash c => .crash c

def collectOne (cx : Ctx) (objectType : Name)
    (recur : List Selection → List Name → Out ErrKind (Groups × List Name)) :
    Selection → Groups → List Name → Out ErrKind (Groups × List Name)
  | .field alias name args dirs sels, grouped, visited =>
    match included cx dirs with
    | none => .err .directiveCoercion
    | some false => .ok (grouped, visited)
    | some true =>
      let f : FieldNode := { alias := alias, name := name, args := args, dirs := dirs, sels := sels }
      .ok (appendGroup grouped f.key [f], visited)
  | .spread name dirs, grouped, visited =>
    match included cx dirs with
    | none => .err .directiveCoercion
    | some false => .ok (grouped, visited)
    | some true =>
      if visited.contains name then .ok (grouped, visited)
      else
        let visited := name :: visited
        match cx.doc.frag name with
        | none => .ok (grouped, visited)
        | some fragment =>
          if !doesFragmentTypeApply cx.schema objectType fragment.cond then .ok (grouped, visited)
          else
            match recur fragment.sels visited with
            | .ok (fragmentGroups, visited) => .ok (mergeGroups grouped fragmentGroups, visited)
            | .err e => .err e
            | .crash c => .crash c
  | .inline cond dirs sels, grouped, visited =>
    match included cx dirs with
    | none => .err .directiveCoercion
    | some false => .ok (grouped, visited)
    | some true =>
      let applies := match cond with
        | none => true
        | some c => doesFragmentTypeApply cx.schema objectType c
      if !applies then .ok (grouped, visited)
      else
        match collectLoop cx objectType recur sels [] visited with
        | .ok (fragmentGroups, visited) => .ok (mergeGroups grouped fragmentGroups, visited)
        | .err e => .err e
        | .crash c => .crash c
end

/-- CollectFields; the fuel bounds the nesting of distinct fragment spreads (cycles are cut by
`visitedFragments`); `fuelOf doc` always suffices (`Gql.Props.C02.collect_terminates`). -/
def collectFieldsFuel (cx : Ctx) (objectType : Name) :
    Nat → List Selection → List Name → Out ErrKind (Groups × List Name)
  | 0 => fun _ _ => .crash "RecursionError"
  | n + 1 => fun sels visited =>
    collectLoop cx objectType (collectFieldsFuel cx objectType n) sels [] visited

def fuelOf (d : Doc) : Nat := d.frags.length + 1

/-- CollectFields(objectType, selectionSet, variableValues) with an empty `visitedFragments` -/
def collectFields (cx : Ctx) (objectType : Name) (sels : List Selection) : Out ErrKind Groups :=
  match collectFieldsFuel cx objectType (fuelOf cx.doc) sels [] with
  | .ok (g, _) => .ok g
  | .err e => .err e
  | .crash c => .crash c

/-- MergeSelectionSets(fields) -/
def mergeSelectionSets (fields : List FieldNode) : List Selection :=
  fields.flatMap (·.sels)

/-! ### results -/

namespace R
def pure {α} (a : α) : R α := { out := some a, errs := [], log := [] }
/-- a field error of kind `k` raised at response position `pos` -/
def fail {α} (pos : List PSeg) (k : ErrKind) : R α :=
  { out := none, errs := [{ path := some pos, kind := k }], log := [] }
end R

/-- Handling field errors at a response position of type `t`: a value stays; a raised/propagated
null stays `null` if the position is nullable and propagates to the parent otherwise. -/
def absorb (t : TypeRef) (r : R Json) : R Json :=
  match r.out with
  | some _ => r
  | none => if t.nonNull then r else { r with out := some .null }

/-- ResolveAbstractType via the node's `__typename`; the result must be an object type that is a
possible type of the abstract type. -/
def resolveAbstractType (s : Schema) (abs : Name) : TN → Except ErrKind Name
  | .missing => .error .abstractUnresolved
  | .bad => .error .abstractBadName
  | .name n =>
    match s.lookup n with
    | none => .error .abstractUnknown
    | some (.object ..) => if s.isSubType abs n then .ok n else .error .abstractNotPossible
    | some _ => .error .abstractNonObject

/-- CoerceResult(leafType, value) -/
def coerceResult (cx : Ctx) (pos : List PSeg) (n : Name) (l : PyLeaf) : R Json :=
  match cx.ops.serialize cx.schema n l with
  | some .null => R.fail pos .leaf
  | some j => R.pure j
  | none => R.fail pos .leaf

/-- CompleteValue on `null` -/
def completeNull (t : TypeRef) (pos : List PSeg) : R Json :=
  if t.nonNull then R.fail pos .nullNonNull else R.pure .null

/-- how a child of the current object value is resolved and completed:
field name, argument values, field type, fields, response position -/
abbrev Child := Name → ArgMap → TypeRef → List FieldNode → List PSeg → R Json

/-- ExecuteField(objectType, objectValue, fieldType, fields, variableValues); inner `none`: the
field is not defined on `objectType` (no entry in the result map). -/
def executeField (cx : Ctx) (objectType : Name) (child : Child) (pos : List PSeg)
    (fields : List FieldNode) : R (Option Json) :=
  match fields with
  | [] => { out := some none, errs := [], log := [] }   -- groups are never empty
  | field :: _ =>
    let fieldName := field.name
    if fieldName == "__typename" then
      let r := absorb (.named "String" true)
        (coerceResult cx pos "String" (.str (objectType.toList.map Char.toNat)))
      { out := r.out.map some, errs := r.errs, log := r.log }
    else
      match cx.schema.getField objectType fieldName with
      | none => { out := some none, errs := [], log := [] }
      | some fd =>
        let r : R Json :=
          match coerceArgumentValues cx field.args fd.args [] with
          | none => R.fail pos .argCoercion
          | some argumentValues =>
            let c := child fieldName argumentValues fd.type fields pos
            { c with log := { path := pos, parent := objectType, field := fieldName,
                              args := argumentValues } :: c.log }
        let r := absorb fd.type r
        { out := r.out.map some, errs := r.errs, log := r.log }

/-- the loop of ExecuteSelectionSet over the grouped field set (normal, i.e. serial depth-first
order; a propagating field error cancels the remaining siblings) -/
def executeGroups (cx : Ctx) (objectType : Name) (child : Child) (pos : List PSeg) :
    Groups → R (List (Name × Json))
  | [] => R.pure []
  | (responseKey, fields) :: rest =>
    let r := executeField cx objectType child (pos ++ [.key responseKey]) fields
    match r.out with
    | none => { out := none, errs := r.errs, log := r.log }
    | some v =>
      let rs := executeGroups cx objectType child pos rest
      { out := rs.out.map (fun kvs => match v with
          | some j => (responseKey, j) :: kvs
          | none => kvs),
        errs := r.errs ++ rs.errs, log := r.log ++ rs.log }

/-- ExecuteSelectionSet(MergeSelectionSets(fields), objectType, objectValue, variableValues) -/
def executeSelectionSet (cx : Ctx) (objectType : Name) (sels : List Selection) (pos : List PSeg)
    (child : Child) : R Json :=
  match collectFields cx objectType sels with
  | .err k => R.fail pos k
  | .crash _ => R.fail pos .badOutputType
  | .ok groups =>
    let r := executeGroups cx objectType child pos groups
    { out := r.out.map Json.obj, errs := r.errs, log := r.log }

/-- CompleteValue for a non-null result that is not a list -/
def completeNamed (cx : Ctx) (t : TypeRef) (fields : List FieldNode) (pos : List PSeg)
    (leaf? : Option PyLeaf) (tn : TN) (child : Child) : R Json :=
  match t with
  | .list _ _ => R.fail pos .notIterable
  | .named n _ =>
    match cx.schema.kind n with
    | .leaf =>
      match leaf? with
      | some l => coerceResult cx pos n l
      | none => R.fail pos .leaf
    | .object => executeSelectionSet cx n (mergeSelectionSets fields) pos child
    | .abstract =>
      match resolveAbstractType cx.schema n tn with
      | .ok objectType => executeSelectionSet cx objectType (mergeSelectionSets fields) pos child
      | .error k => R.fail pos k
    | _ => R.fail pos .badOutputType

def nullChild : Child := fun _ _ t _ pos => completeNull t pos

mutual
/-- CompleteValue(fieldType, fields, result, variableValues) at response position `pos`, including
"ResolveFieldValue raised" (`RVal.raise`). -/
def completeValue (cx : Ctx) (t : TypeRef) (fields : List FieldNode) (pos : List PSeg) :
    RVal → R Json
  | .raise tag none => R.fail pos (.raised tag)
  | .raise tag (some ownPath) =>
    -- an error that already carries a path is reported as it is
    { out := none, errs := [{ path := some ownPath, kind := .raised tag }], log := [] }
  | .null => completeNull t pos
  | .leaf l => completeNamed cx t fields pos (some l) .missing nullChild
  | .list items =>
    match t with
    | .list innerType _ =>
      let r := completeItems cx innerType fields pos 0 items
      { out := r.out.map Json.list, errs := r.errs, log := r.log }
    | .named _ _ => completeNamed cx t fields pos none .missing nullChild
  | .obj tn resolve =>
    completeNamed cx t fields pos none tn
      (fun name args t' fields' pos' => completeValue cx t' fields' pos' (resolve name args))

/-- the items of a list value, each at response position `pos ++ [i]` -/
def completeItems (cx : Ctx) (innerType : TypeRef) (fields : List FieldNode) (pos : List PSeg)
    (i : Nat) : List RVal → R (List Json)
  | [] => R.pure []
  | x :: xs =>
    let r := absorb innerType (completeValue cx innerType fields (pos ++ [.idx i]) x)
    match r.out with
    | none => { out := none, errs := r.errs, log := r.log }
    | some j =>
      let rs := completeItems cx innerType fields pos (i + 1) xs
      { out := rs.out.map (j :: ·), errs := r.errs ++ rs.errs, log := r.log ++ rs.log }
end

def childOf (cx : Ctx) (objectValue : RVal) : Child :=
  fun name args t fields pos => completeValue cx t fields pos (objectValue.child name args)

/-! ### ExecuteRequest (§6.1) -/

/-- GetOperation(document, operationName) -/
def getOperation (ops : List Operation) (operationName : Option Name) : Option Operation :=
  match operationName with
  | none =>
    match ops with
    | [op] => some op
    | _ => none
  | some n => ops.reverse.find? (fun op => op.name == some n)

def rootType (s : Schema) (k : OpKind) : Option Name :=
  let n? := match k with
    | .query => some s.query
    | .mutation => s.mutation
  match n? with
  | some n => if s.kind n == .object then some n else none
  | none => none

/-- ExecuteRequest(schema, document, operationName, variableValues, initialValue) with already
coerced variable values.  A request error gives `data = null` and a single error without path;
a field error that propagates through only Non-Null positions gives `data = null`. -/
def executeRequest (ops : Ops) (s : Schema) (doc : Doc) (operationName : Option Name)
    (vars : Vars) (initialValue : RVal) : Resp :=
  let cx : Ctx := { ops := ops, schema := s, doc := doc, vars := vars }
  match getOperation doc.ops operationName with
  | none => { data := .null, errors := [⟨none, .noOperation⟩], log := [] }
  | some op =>
    match rootType s op.kind with
    | none => { data := .null, errors := [⟨none, .noRootType⟩], log := [] }
    | some objectType =>
      match collectFields cx objectType op.sels with
      | .err k => { data := .null, errors := [⟨none, k⟩], log := [] }
      | .crash _ => { data := .null, errors := [⟨none, .badOutputType⟩], log := [] }
      | .ok groups =>
        let r := executeGroups cx objectType (childOf cx initialValue) [] groups
        { data := match r.out with
            | some kvs => .obj kvs
            | none => .null,
          errors := r.errs, log := r.log }

end Gql.Exec.Spec
