import Gql.Exec.OverlapTypes
/-
Specification: GraphQL spec §5.3.2 "Field Selection Merging", transcribed independently of the
implementation model (`Overlap.lean` is not imported).

```
FieldsInSetCanMerge(set):
  fieldsForName = the fields with a given response name in set, *including visiting fragments
                  and inline fragments*
  for each pair fieldA, fieldB in fieldsForName:
    SameResponseShape(fieldA, fieldB) must be true
    if the parent types of fieldA and fieldB are equal or if either is not an Object Type:
      fieldA and fieldB must have identical field names
      fieldA and fieldB must have identical sets of arguments
      mergedSet = selection set of fieldA + selection set of fieldB
      FieldsInSetCanMerge(mergedSet) must be true

SameResponseShape(fieldA, fieldB):
  typeA, typeB = return types
  if typeA or typeB is Non-Null: both must be; unwrap both
  if typeA or typeB is List: both must be; unwrap both; repeat
  if typeA or typeB is Scalar or Enum: return typeA == typeB
  mergedSet = selection set of fieldA + selection set of fieldB
  for each pair subfieldA, subfieldB with one response name in mergedSet (visiting fragments):
    SameResponseShape(subfieldA, subfieldB) must be true
```
The rule holds of a document when `FieldsInSetCanMerge(set)` holds for *every selection set* of
the document.  With cyclic fragment spreads the recursion above does not terminate, so it is read
the only way it can be: a document is rejected iff a *finite* chain of "this pair, then a pair of
its merged sub-selections, …" ends in a pair that fails one of the local requirements
(`direct`).  That is reachability in the finite graph of `State`s, `SpecConflict` below;
`specConflictB` decides it by depth-first search.

Conventions for inputs the spec text does not cover (documented in the check's ASSUMPTIONS):
* `@stream`: the incremental-delivery draft and the reference implementation require both
  fields of a pair to have `@stream` with identical arguments or neither — checked for every
  pair (also shape-only pairs), as part of `direct`;
* a field whose parent type does not define it has no return type; its type requirement is
  vacuous (other validation rules reject the document);
* `__typename` has type `String!` on every composite parent (spec §4.1).
-/
namespace Gql.Exec.Spec
open Gql.Exec

/-- A field of an expanded set: the type it was selected on, and the field node. -/
structure FieldInst where
  parent : Option String
  node : FieldNode
  deriving Repr, Inhabited

/-- Return type of field `name` selected on `parent`. -/
def fieldType (s : Schema) (parent : Option String) (name : String) : Option Ty :=
  if name == "__typename" then
    (if s.isComposite parent then some (Ty.nonNull (Ty.leaf "String")) else none)
  else s.fieldDef parent name

/-! ### "the fields in set including visiting fragments and inline fragments" -/

abbrev Expander := Option String → List Sel → List String → List FieldInst × List String

mutual
/-- One selection; `rec` expands the body of a named fragment (one level less of fuel);
`vis` = names of the fragments already visited in this set. -/
def expandSel (s : Schema) (d : Doc) (rec : Expander) (parent : Option String) :
    Sel → List String → List FieldInst × List String
  | .field id al name args st hasSub subId sub, vis =>
    ([⟨parent, ⟨id, al, name, args, st, hasSub, subId, sub⟩⟩], vis)
  | .inline tc _ sels, vis =>
    expandSels s d rec (match tc with | some n => s.typeFromAst n | none => parent) sels vis
  | .spread name, vis =>
    if vis.contains name then ([], vis)
    else
      match d.getFragment name with
      | none => ([], name :: vis)
      | some fr => rec (s.typeFromAst fr.typeCond) fr.ss.sels (name :: vis)
def expandSels (s : Schema) (d : Doc) (rec : Expander) (parent : Option String) :
    List Sel → List String → List FieldInst × List String
  | [], vis => ([], vis)
  | x :: xs, vis =>
    let r1 := expandSel s d rec parent x vis
    let r2 := expandSels s d rec parent xs r1.2
    (r1.1 ++ r2.1, r2.2)
end

/-- `n` levels of named-fragment nesting.  Each level visits a fragment not visited before, so
`number of fragment definitions + 1` levels are never exhausted. -/
def expandLvl (s : Schema) (d : Doc) : Nat → Expander
  | 0 => fun _ _ vis => ([], vis)
  | n + 1 => fun parent sels vis => expandSels s d (expandLvl s d n) parent sels vis

def expandWith (s : Schema) (d : Doc) (parent : Option String) (sels : List Sel)
    (vis : List String) : List FieldInst × List String :=
  expandLvl s d (d.frags.length + 1) parent sels vis

/-- mergedSet of two fields, expanded with one shared visited set; each sub-selection set is
selected on the named return type of its field. -/
def mergedFields (s : Schema) (d : Doc) (a b : FieldInst) : List FieldInst :=
  let pa := (fieldType s a.parent a.node.name).map Ty.named
  let pb := (fieldType s b.parent b.node.name).map Ty.named
  let ra := expandWith s d pa (if a.node.hasSub then a.node.sub else []) []
  let rb := expandWith s d pb (if b.node.hasSub then b.node.sub else []) ra.2
  ra.1 ++ rb.1

/-! ### local requirements on a pair -/

/-- ¬ SameResponseShape, type part (Non-Null first, then List, then leaves, as in the spec). -/
def shapeConflict : Ty → Ty → Bool
  | .nonNull a, .nonNull b => shapeConflict a b
  | .nonNull _, _ => true
  | _, .nonNull _ => true
  | .list a, .list b => shapeConflict a b
  | .list _, _ => true
  | _, .list _ => true
  | .leaf a, .leaf b => a != b
  | .leaf _, _ => true
  | _, .leaf _ => true
  | .comp _, .comp _ => false

def lookupFirst (fs : List (String × Value)) (k : String) : Option Value :=
  (fs.find? (fun f => f.1 == k)).map (·.2)

mutual
/-- Equality of input values up to the order of input-object fields. -/
def valueEquiv : Value → Value → Bool
  | .leaf a, .leaf b => a == b
  | .list as, .list bs => listEquiv as bs
  | .obj as, .obj bs => as.length == bs.length && fieldsSub as bs
  | _, _ => false
def listEquiv : List Value → List Value → Bool
  | [], [] => true
  | a :: as, b :: bs => valueEquiv a b && listEquiv as bs
  | _, _ => false
/-- every `name: value` of the first has an equivalent `name: value'` in the second -/
def fieldsSub : List (String × Value) → List (String × Value) → Bool
  | [], _ => true
  | (k, v) :: as, bs =>
    (match lookupFirst bs k with
     | some v' => valueEquiv v v'
     | none => false) && fieldsSub as bs
end

/-- "identical sets of arguments": same argument names, equivalent values. -/
def argsEquiv (a b : Args) : Bool := a.length == b.length && fieldsSub a b

def streamsEquiv : Option Args → Option Args → Bool
  | none, none => true
  | some a, some b => argsEquiv a b
  | _, _ => false

/-- "the parent types are equal or either is not an Object Type" -/
def parentsOverlap (s : Schema) (a b : FieldInst) : Bool :=
  a.parent == b.parent || !s.isObject a.parent || !s.isObject b.parent

/-- A pair to be checked: `full` = under FieldsInSetCanMerge, otherwise only SameResponseShape. -/
structure State where
  a : FieldInst
  b : FieldInst
  full : Bool
  deriving Repr, Inhabited

def typesOf (s : Schema) (st : State) : Option Ty × Option Ty :=
  (fieldType s st.a.parent st.a.node.name, fieldType s st.b.parent st.b.node.name)

/-- the type requirement is vacuous for a field its parent type does not define -/
def typesConflict : Option Ty → Option Ty → Bool
  | some ta, some tb => shapeConflict ta tb
  | _, _ => false

/-- The pair itself violates a requirement. -/
def direct (s : Schema) (st : State) : Bool :=
  typesConflict (typesOf s st).1 (typesOf s st).2
  || !streamsEquiv st.a.node.stream st.b.node.stream
  || (st.full && parentsOverlap s st.a st.b &&
      (st.a.node.name != st.b.node.name || !argsEquiv st.a.node.args st.b.node.args))

/-- innermost named type is a scalar/enum -/
def namedIsLeaf : Ty → Bool
  | .leaf _ => true
  | .comp _ => false
  | .list t => namedIsLeaf t
  | .nonNull t => namedIsLeaf t

def pairsOf {α : Type} : List α → List (α × α)
  | [] => []
  | x :: xs => xs.map (fun y => (x, y)) ++ pairsOf xs

def sameNamePairs (fs : List FieldInst) : List (FieldInst × FieldInst) :=
  (pairsOf fs).filter (fun p => p.1.node.responseName == p.2.node.responseName)

/-- the pair is under FieldsInSetCanMerge and its parents overlap: sub-pairs are merged fully -/
def deeper (s : Schema) (st : State) : Bool := st.full && parentsOverlap s st.a st.b

/-- SameResponseShape returns at scalar/enum types without looking at sub-selections -/
def leafStop (s : Schema) (st : State) : Bool :=
  match typesOf s st with
  | (some ta, some tb) => namedIsLeaf ta || namedIsLeaf tb
  | _ => false

/-- The pairs the spec goes on to check after `st`. -/
def succs (s : Schema) (d : Doc) (st : State) : List State :=
  if (!deeper s st && leafStop s st) = true then []
  else (sameNamePairs (mergedFields s d st.a st.b)).map (fun p => ⟨p.1, p.2, deeper s st⟩)

/-! ### every selection set of the document, with the type it is selected on -/

mutual
def setsOfSel (s : Schema) (parent : Option String) : Sel → List (Option String × List Sel)
  | .field _ _ name _ _ hasSub _ sub =>
    if hasSub then
      let p := (fieldType s parent name).map Ty.named
      (p, sub) :: setsOfSels s p sub
    else []
  | .inline tc _ sels =>
    let p := match tc with | some n => s.typeFromAst n | none => parent
    (p, sels) :: setsOfSels s p sels
  | .spread _ => []
def setsOfSels (s : Schema) (parent : Option String) : List Sel → List (Option String × List Sel)
  | [] => []
  | x :: xs => setsOfSel s parent x ++ setsOfSels s parent xs
end

def allSets (s : Schema) (d : Doc) : List (Option String × List Sel) :=
  d.flatMap (fun df =>
    match df with
    | .op root ss => (root, ss.sels) :: setsOfSels s root ss.sels
    | .frag f =>
      let p := s.typeFromAst f.typeCond
      (p, f.ss.sels) :: setsOfSels s p f.ss.sels)

/-- FieldsInSetCanMerge(set) starts from every same-name pair of every selection set. -/
def initStates (s : Schema) (d : Doc) : List State :=
  (allSets s d).flatMap (fun ps =>
    (sameNamePairs (expandWith s d ps.1 ps.2 []).1).map (fun p => ⟨p.1, p.2, true⟩))

/-- `t` is checked (immediately) after `st`. -/
def Step (s : Schema) (d : Doc) (st t : State) : Prop := t ∈ succs s d st

inductive Reach (s : Schema) (d : Doc) : State → State → Prop where
  | refl (st : State) : Reach s d st st
  | step {a b c : State} : Step s d a b → Reach s d b c → Reach s d a c

/-- The specification finds a pair of fields with one response name that cannot be merged. -/
def SpecConflict (s : Schema) (d : Doc) : Prop :=
  ∃ st0 ∈ initStates s d, ∃ st, Reach s d st0 st ∧ direct s st = true

def specMergeable (s : Schema) (d : Doc) : Prop := ¬ SpecConflict s d

/-! ### deciding `SpecConflict`: depth-first search over the finite state graph -/

def State.key (st : State) : Nat × Nat × Bool := (st.a.node.id, st.b.node.id, st.full)

/-- Work-list DFS; `seen` = keys of states already expanded. -/
def dfs (s : Schema) (d : Doc) : Nat → List (Nat × Nat × Bool) → List State → Option Bool
  | 0, _, [] => some false
  | 0, _, _ :: _ => none
  | _ + 1, _, [] => some false
  | n + 1, seen, st :: rest =>
    if seen.contains st.key then dfs s d n seen rest
    else if direct s st then some true
    else dfs s d n (st.key :: seen) (succs s d st ++ rest)

mutual
def countFieldsSel : Sel → Nat
  | .field _ _ _ _ _ _ _ sub => 1 + countFieldsSels sub
  | .inline _ _ sels => countFieldsSels sels
  | .spread _ => 0
def countFieldsSels : List Sel → Nat
  | [] => 0
  | x :: xs => countFieldsSel x + countFieldsSels xs
end

def countFields (d : Doc) : Nat :=
  (d.map (fun df => match df with
    | .op _ ss => countFieldsSels ss.sels
    | .frag f => countFieldsSels f.ss.sels)).sum

/-- Enough steps (proved: `specConflictB_isSome`): every state is expanded at most once — at most
`2·F²` keys, `F` = number of field nodes — and each expansion pushes at most `(3F)²` successors
(a merged set has at most `3F` fields: two sub-selections and every fragment once); plus the
initial work list. -/
def specFuel (s : Schema) (d : Doc) : Nat :=
  let f := countFields d
  (2 * (f * f) + 1) * (9 * (f * f) + 1) + (initStates s d).length + 1

/-- `some true`: the specification rejects the document; `none` cannot happen (fuel). -/
def specConflictB (s : Schema) (d : Doc) : Option Bool :=
  dfs s d (specFuel s d) [] (initStates s d)

end Gql.Exec.Spec
