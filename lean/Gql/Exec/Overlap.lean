import Gql.Exec.OverlapTypes
/-
Model of `OverlappingFieldsCanBeMergedRule` as written in
src/graphql/validation/rules/overlapping_fields_can_be_merged.py (function names are the
Python ones in camelCase), for standard documents (no experimental fragment arguments, so every
`var_map` is `None` and a spread's key is `Name()` for a defined fragment, `Name` otherwise).

Recursion through named fragments is fuel-indexed (`none` = out of fuel); the bound that makes
`none` impossible is proved in `Gql/Proofs/OverlapTerm.lean`.
-/
namespace Gql.Exec.Overlap
open Gql.Exec

/-! ### `natural_comparison_key` and `sort_value_node` -/

def isDigit (c : Char) : Bool := '0' ≤ c && c ≤ '9'

/-- `re.split(r"(\d+)", key)`: alternating non-digit / digit runs, first and last run are
non-digit runs (possibly empty).  `dig` = currently inside a digit run, `cur` reversed. -/
def splitRuns : List Char → Bool → List Char → List (List Char)
  | [], dig, cur => if dig then [cur.reverse, []] else [cur.reverse]
  | c :: cs, dig, cur =>
    if isDigit c == dig then splitRuns cs dig (c :: cur)
    else cur.reverse :: splitRuns cs (!dig) [c]

def cmpChars : List Char → List Char → Ordering
  | [], [] => .eq
  | [], _ :: _ => .lt
  | _ :: _, [] => .gt
  | a :: as, b :: bs => if a < b then .lt else if b < a then .gt else cmpChars as bs

def digitsVal (cs : List Char) : Nat := cs.foldl (fun n c => 10 * n + (c.toNat - 48)) 0

/-- Python tuple comparison of two natural keys; `dig` tells whether the heads are digit runs
(compared as `(int(part), part)`). -/
def cmpRuns : Bool → List (List Char) → List (List Char) → Ordering
  | _, [], [] => .eq
  | _, [], _ :: _ => .lt
  | _, _ :: _, [] => .gt
  | dig, a :: as, b :: bs =>
    let c :=
      if dig then
        (if digitsVal a < digitsVal b then .lt else if digitsVal b < digitsVal a then .gt
         else cmpChars a b)
      else cmpChars a b
    match c with
    | .eq => cmpRuns (!dig) as bs
    | o => o

/-- `natural_comparison_key(a) <= natural_comparison_key(b)` -/
def naturalLe (a b : String) : Bool :=
  cmpRuns false (splitRuns a.toList false []) (splitRuns b.toList false []) != .gt

/-- Stable insertion (what `sorted` does with equal keys: earlier stays earlier). -/
def insertBy (le : String → String → Bool) (x : String × Value) :
    List (String × Value) → List (String × Value)
  | [] => [x]
  | y :: ys => if le x.1 y.1 then x :: y :: ys else y :: insertBy le x ys

def sortBy (le : String → String → Bool) : List (String × Value) → List (String × Value)
  | [] => []
  | x :: xs => insertBy le x (sortBy le xs)

mutual
/-- `sort_value_node` -/
def sortValue (le : String → String → Bool) : Value → Value
  | .leaf s => .leaf s
  | .list vs => .list (sortValues le vs)
  | .obj fs => .obj (sortBy le (sortFieldValues le fs))
def sortValues (le : String → String → Bool) : List Value → List Value
  | [] => []
  | v :: vs => sortValue le v :: sortValues le vs
/-- `sort_field` mapped over the fields -/
def sortFieldValues (le : String → String → Bool) : List (String × Value) → List (String × Value)
  | [] => []
  | (k, v) :: fs => (k, sortValue le v) :: sortFieldValues le fs
end

mutual
/-- Equality of value trees; stands for equality of their printed text (`print_ast`). -/
def valueBeq : Value → Value → Bool
  | .leaf a, .leaf b => a == b
  | .list as, .list bs => valuesBeq as bs
  | .obj as, .obj bs => fieldsBeq as bs
  | _, _ => false
def valuesBeq : List Value → List Value → Bool
  | [], [] => true
  | a :: as, b :: bs => valueBeq a b && valuesBeq as bs
  | _, _ => false
def fieldsBeq : List (String × Value) → List (String × Value) → Bool
  | [], [] => true
  | (k, a) :: as, (l, b) :: bs => k == l && valueBeq a b && fieldsBeq as bs
  | _, _ => false
end

/-- `stringify_value(v1) == stringify_value(v2)` -/
def sameValue (le : String → String → Bool) (v1 v2 : Value) : Bool :=
  valueBeq (sortValue le v1) (sortValue le v2)

/-- `{arg.name.value: arg.value for arg in args}.get(name)`: the last one wins. -/
def lookupLast (args : Args) (n : String) : Option Value :=
  (args.reverse.find? (fun a => a.1 == n)).map (·.2)

/-- body of the `for arg1 in args1` loop: `values2.get(name)` is present and prints the same -/
def argMatches (le : String → String → Bool) (args2 : Args) (a : String × Value) : Bool :=
  match lookupLast args2 a.1 with
  | none => false
  | some v2 => sameValue le a.2 v2

/-- `same_arguments(args1, None, args2, None)` -/
def sameArguments (le : String → String → Bool) (args1 args2 : Args) : Bool :=
  if args1.isEmpty then args2.isEmpty
  else if args2.isEmpty then false
  else if args1.length != args2.length then false
  else args1.all (argMatches le args2)

/-- `same_streams` on the arguments of the first `@stream` directive of each field. -/
def sameStreams (le : String → String → Bool) : Option Args → Option Args → Bool
  | none, none => true
  | some a, some b => sameArguments le a b
  | _, _ => false

/-! ### `do_types_conflict` -/

def isLeaf : Ty → Bool
  | .leaf _ => true
  | _ => false

def doTypesConflict : Ty → Ty → Bool
  | .list a, .list b => doTypesConflict a b
  | .list _, _ => true
  | _, .list _ => true
  | .nonNull a, .nonNull b => doTypesConflict a b
  | .nonNull _, _ => true
  | _, .nonNull _ => true
  | a, b => if isLeaf a || isLeaf b then a != b else false

/-- `type1 and type2 and do_types_conflict(type1, type2)` -/
def defsConflict : Option Ty → Option Ty → Bool
  | some t1, some t2 => doTypesConflict t1 t2
  | _, _ => false

/-! ### field maps, spreads, caches -/

/-- `NodeAndDef = (parent_type, node, field_def)`; only the return type of the definition is
read. -/
structure FieldEntry where
  parent : Option String
  node : FieldNode
  defTy : Option Ty
  deriving Repr, Inhabited

/-- A `NodeAndDefCollection` together with its object identity (that of the selection set it
was built — and cached — for). -/
structure FieldMap where
  id : Nat
  entries : List (String × List FieldEntry)
  deriving Repr, Inhabited

structure Spread where
  key : String
  name : String
  deriving Repr, Inhabited, DecidableEq

abbrev Cached := FieldMap × List Spread

structure Conflict where
  responseName : String
  /-- 0 different fields, 1 differing arguments, 2 differing stream directives,
  3 conflicting types, 4 sub-field conflicts -/
  kind : Nat
  fields1 : List Nat
  fields2 : List Nat
  deriving Repr, DecidableEq, Inhabited

/-- The rule instance's mutable state. -/
structure St where
  /-- `cached_fields_and_fragment_spreads`, keyed by selection set identity -/
  cache : List (Nat × Cached) := []
  /-- `compared_fields_and_fragment_pairs` (`OrderedPairSet`) -/
  cfp : List ((Nat × String) × Bool) := []
  /-- `compared_fragment_pairs` (`PairSet`) -/
  cmp : List ((String × String) × Bool) := []
  deriving Inhabited

def assocGet {κ β : Type} [BEq κ] (m : List (κ × β)) (k : κ) : Option β :=
  (m.find? (fun e => e.1 == k)).map (·.2)

/-- `d[k] = v` -/
def assocSet {κ β : Type} [BEq κ] (m : List (κ × β)) (k : κ) (v : β) : List (κ × β) :=
  match m with
  | [] => [(k, v)]
  | e :: es => if e.1 == k then (k, v) :: es else e :: assocSet es k v

/-- `has` of both pair sets: `True if flag else flag == result`. -/
def flagHas (stored : Option Bool) (flag : Bool) : Bool :=
  match stored with
  | none => false
  | some r => if flag then true else r == false

def St.cfpHas (σ : St) (a : Nat) (b : String) (weak : Bool) : Bool :=
  flagHas (assocGet σ.cfp (a, b)) weak

def St.cfpAdd (σ : St) (a : Nat) (b : String) (weak : Bool) : St :=
  { σ with cfp := assocSet σ.cfp (a, b) weak }

/-- `key1, key2 = (a, b) if a < b else (b, a)` -/
def pairKey (a b : String) : String × String := if a < b then (a, b) else (b, a)

def St.cmpHas (σ : St) (a b : String) (excl : Bool) : Bool :=
  flagHas (assocGet σ.cmp (pairKey a b)) excl

def St.cmpAdd (σ : St) (a b : String) (excl : Bool) : St :=
  { σ with cmp := assocSet σ.cmp (pairKey a b) excl }

/-- `node_and_defs[response_name].append(...)`, creating the list at the end of the dict. -/
def addEntry (m : List (String × List FieldEntry)) (rn : String) (e : FieldEntry) :
    List (String × List FieldEntry) :=
  match m with
  | [] => [(rn, [e])]
  | (k, es) :: rest => if k == rn then (k, es ++ [e]) :: rest else (k, es) :: addEntry rest rn e

/-- `fragment_spreads[key] = spread` (the value is determined by the key). -/
def addSpread (sps : List Spread) (sp : Spread) : List Spread :=
  if sps.any (fun x => x.key == sp.key) then sps else sps ++ [sp]

/-- `get_fragment_spread` without fragment arguments. -/
def mkSpread (d : Doc) (name : String) : Spread :=
  ⟨if (d.getFragment name).isSome then name ++ "()" else name, name⟩

def mkFieldNode (id : Nat) (alias : Option String) (name : String) (args : Args)
    (stream : Option Args) (hasSub : Bool) (subId : Nat) (sub : List Sel) : FieldNode :=
  ⟨id, alias, name, args, stream, hasSub, subId, sub⟩

mutual
/-- `collect_fields_and_fragment_spreads` -/
def collectSel (s : Schema) (d : Doc) (parent : Option String) :
    Sel → List (String × List FieldEntry) × List Spread →
      List (String × List FieldEntry) × List Spread
  | .field id al name args st hasSub subId sub, (m, sps) =>
    let node := mkFieldNode id al name args st hasSub subId sub
    (addEntry m node.responseName ⟨parent, node, s.fieldDef parent name⟩, sps)
  | .inline tc _ sels, acc =>
    let p := match tc with
      | some n => s.typeFromAst n
      | none => parent
    collectSels s d p sels acc
  | .spread name, (m, sps) => (m, addSpread sps (mkSpread d name))
def collectSels (s : Schema) (d : Doc) (parent : Option String) :
    List Sel → List (String × List FieldEntry) × List Spread →
      List (String × List FieldEntry) × List Spread
  | [], acc => acc
  | x :: xs, acc => collectSels s d parent xs (collectSel s d parent x acc)
end

def computeFields (s : Schema) (d : Doc) (parent : Option String) (ss : SelSet) : Cached :=
  let r := collectSels s d parent ss.sels ([], [])
  (⟨ss.id, r.1⟩, r.2)

/-- `get_fields_and_fragment_spreads` -/
def getFields (s : Schema) (d : Doc) (σ : St) (parent : Option String) (ss : SelSet) :
    St × Cached :=
  match assocGet σ.cache ss.id with
  | some c => (σ, c)
  | none =>
    let c := computeFields s d parent ss
    ({ σ with cache := assocSet σ.cache ss.id c }, c)

/-- `get_referenced_fields_and_fragment_spreads` -/
def getReferenced (s : Schema) (d : Doc) (σ : St) (fr : FragDef) : St × Cached :=
  match assocGet σ.cache fr.ss.id with
  | some c => (σ, c)
  | none => getFields s d σ (s.typeFromAst fr.typeCond) fr.ss

def fmGet (fm : FieldMap) (rn : String) : Option (List FieldEntry) := assocGet fm.entries rn

/-- The `(response_name, field1, field2)` triples `collect_conflicts_between` visits. -/
def betweenPairs (fm1 fm2 : FieldMap) : List (String × FieldEntry × FieldEntry) :=
  fm1.entries.flatMap (fun (rn, fs1) =>
    match fmGet fm2 rn with
    | none => []
    | some fs2 => fs1.flatMap (fun f1 => fs2.map (fun f2 => (rn, f1, f2))))

/-- all `(xs[i], xs[j])`, `i < j`, in the order of the two nested loops -/
def pairsOf {α : Type} : List α → List (α × α)
  | [] => []
  | x :: xs => xs.map (fun y => (x, y)) ++ pairsOf xs

/-- The triples `collect_conflicts_within` visits. -/
def withinPairs (fm : FieldMap) : List (String × FieldEntry × FieldEntry) :=
  fm.entries.flatMap (fun (rn, fs) => (pairsOf fs).map (fun p => (rn, p.1, p.2)))

abbrev Res := Option (St × List Conflict)

/-- A `for` loop whose body may extend `conflicts` and mutate the rule state. -/
def forEach {α : Type} (xs : List α) (f : α → St → Res) (σ : St) : Res :=
  match xs with
  | [] => some (σ, [])
  | x :: xs =>
    match f x σ with
    | none => none
    | some (σ1, c1) =>
      match forEach xs f σ1 with
      | none => none
      | some (σ2, c2) => some (σ2, c1 ++ c2)

def andThen (r : Res) (k : St → Res) : Res :=
  match r with
  | none => none
  | some (σ1, c1) =>
    match k σ1 with
    | none => none
    | some (σ2, c2) => some (σ2, c1 ++ c2)

/-- `subfield_conflicts` -/
def subfieldConflicts (cs : List Conflict) (rn : String) (id1 id2 : Nat) : List Conflict :=
  if cs.isEmpty then []
  else [⟨rn, 4, id1 :: cs.flatMap (·.fields1), id2 :: cs.flatMap (·.fields2)⟩]

/-- Steps (B)/(C) of `find_conflicts_within_selection_set`, in loop order. -/
inductive Task where
  | fieldsFrag (sp : Spread)
  | frags (a b : Spread)

def withinTasks : List Spread → List Task
  | [] => []
  | sp :: rest => Task.fieldsFrag sp :: (rest.map (Task.frags sp) ++ withinTasks rest)

structure Env where
  s : Schema
  d : Doc
  le : String → String → Bool

mutual
/-- `find_conflict` (the returned list has at most one element) -/
def findConflict (env : Env) : Nat → Bool → String → FieldEntry → FieldEntry → St → Res
  | 0, _, _, _, _, _ => none
  | n + 1, parentExcl, rn, e1, e2, σ =>
    let excl := parentExcl ||
      (e1.parent != e2.parent && env.s.isObject e1.parent && env.s.isObject e2.parent)
    if !excl && e1.node.name != e2.node.name then
      some (σ, [⟨rn, 0, [e1.node.id], [e2.node.id]⟩])
    else if !excl && !sameArguments env.le e1.node.args e2.node.args then
      some (σ, [⟨rn, 1, [e1.node.id], [e2.node.id]⟩])
    else if !sameStreams env.le e1.node.stream e2.node.stream then
      some (σ, [⟨rn, 2, [e1.node.id], [e2.node.id]⟩])
    else if defsConflict e1.defTy e2.defTy then
      some (σ, [⟨rn, 3, [e1.node.id], [e2.node.id]⟩])
    else if e1.node.hasSub && e2.node.hasSub then
      match findConflictsBetweenSubSelectionSets env n excl (e1.defTy.map Ty.named)
          e1.node.subSet (e2.defTy.map Ty.named) e2.node.subSet σ with
      | none => none
      | some (σ', cs) => some (σ', subfieldConflicts cs rn e1.node.id e2.node.id)
    else some (σ, [])

/-- `find_conflicts_between_sub_selection_sets` -/
def findConflictsBetweenSubSelectionSets (env : Env) :
    Nat → Bool → Option String → SelSet → Option String → SelSet → St → Res
  | 0, _, _, _, _, _, _ => none
  | n + 1, excl, p1, ss1, p2, ss2, σ =>
    let (σ, (fm1, sps1)) := getFields env.s env.d σ p1 ss1
    let (σ, (fm2, sps2)) := getFields env.s env.d σ p2 ss2
    -- (H)
    andThen (forEach (betweenPairs fm1 fm2)
      (fun t => findConflict env n excl t.1 t.2.1 t.2.2) σ) fun σ =>
    -- (I)
    andThen (forEach sps2 (fun sp => collectConflictsBetweenFieldsAndFragment env n excl fm1 sp) σ)
      fun σ =>
    andThen (forEach sps1 (fun sp => collectConflictsBetweenFieldsAndFragment env n excl fm2 sp) σ)
      fun σ =>
    -- (J)
    forEach (sps1.flatMap (fun a => sps2.map (fun b => (a, b))))
      (fun p => collectConflictsBetweenFragments env n excl p.1 p.2) σ

/-- `collect_conflicts_between_fields_and_fragment` -/
def collectConflictsBetweenFieldsAndFragment (env : Env) :
    Nat → Bool → FieldMap → Spread → St → Res
  | 0, _, _, _, _ => none
  | n + 1, excl, fm, sp, σ =>
    if σ.cfpHas fm.id sp.key excl then some (σ, [])
    else
      let σ := σ.cfpAdd fm.id sp.key excl
      match env.d.getFragment sp.name with
      | none => some (σ, [])
      | some fr =>
        let (σ, (fm2, sps)) := getReferenced env.s env.d σ fr
        -- `if field_map is field_map2`
        if fm.id == fm2.id then some (σ, [])
        else
          -- (D)
          andThen (forEach (betweenPairs fm fm2)
            (fun t => findConflict env n excl t.1 t.2.1 t.2.2) σ) fun σ =>
          -- (E)
          forEach sps (fun sp2 => collectConflictsBetweenFieldsAndFragment env n excl fm sp2) σ

/-- `collect_conflicts_between_fragments` -/
def collectConflictsBetweenFragments (env : Env) : Nat → Bool → Spread → Spread → St → Res
  | 0, _, _, _, _ => none
  | n + 1, excl, sp1, sp2, σ =>
    if sp1.key == sp2.key then some (σ, [])
    else if σ.cmpHas sp1.key sp2.key excl then some (σ, [])
    else
      let σ := σ.cmpAdd sp1.key sp2.key excl
      match env.d.getFragment sp1.name, env.d.getFragment sp2.name with
      | some fr1, some fr2 =>
        let (σ, (fm1, sps1)) := getReferenced env.s env.d σ fr1
        let (σ, (fm2, sps2)) := getReferenced env.s env.d σ fr2
        -- (F)
        andThen (forEach (betweenPairs fm1 fm2)
          (fun t => findConflict env n excl t.1 t.2.1 t.2.2) σ) fun σ =>
        -- (G)
        andThen (forEach sps2 (fun r2 => collectConflictsBetweenFragments env n excl sp1 r2) σ)
          fun σ =>
        forEach sps1 (fun r1 => collectConflictsBetweenFragments env n excl r1 sp2) σ
      | _, _ => some (σ, [])
end

/-- `find_conflicts_within_selection_set` -/
def findConflictsWithinSelectionSet (env : Env) (fuel : Nat) (parent : Option String)
    (ss : SelSet) (σ : St) : Res :=
  let (σ, (fm, sps)) := getFields env.s env.d σ parent ss
  -- (A)
  andThen (forEach (withinPairs fm) (fun t => findConflict env fuel false t.1 t.2.1 t.2.2) σ)
    fun σ =>
  -- (B), (C)
  forEach (withinTasks sps) (fun t =>
    match t with
    | .fieldsFrag sp => collectConflictsBetweenFieldsAndFragment env fuel false fm sp
    | .frags a b => collectConflictsBetweenFragments env fuel false a b) σ

/-! ### the visitor: `enter_selection_set` on every selection set, with `TypeInfo`'s parent type -/

/-- `named_type if is_composite_type(named_type) else None` -/
def compositeOrNone (s : Schema) (p : Option String) : Option String :=
  if s.isComposite p then p else none

mutual
def visitSel (env : Env) (fuel : Nat) (parent : Option String) : Sel → St → Res
  | .field _ _ name _ _ hasSub subId sub, σ =>
    if hasSub then
      let p := compositeOrNone env.s ((env.s.fieldDef parent name).map Ty.named)
      andThen (findConflictsWithinSelectionSet env fuel p ⟨subId, sub⟩ σ)
        (visitSels env fuel p sub)
    else some (σ, [])
  | .inline tc ssId sels, σ =>
    let p := match tc with
      | some n => compositeOrNone env.s (env.s.typeFromAst n)
      | none => parent
    andThen (findConflictsWithinSelectionSet env fuel p ⟨ssId, sels⟩ σ)
      (visitSels env fuel p sels)
  | .spread _, σ => some (σ, [])
def visitSels (env : Env) (fuel : Nat) (parent : Option String) : List Sel → St → Res
  | [], σ => some (σ, [])
  | x :: xs, σ => andThen (visitSel env fuel parent x σ) (visitSels env fuel parent xs)
end

def visitDefn (env : Env) (fuel : Nat) (df : Defn) (σ : St) : Res :=
  match df with
  | .op root ss =>
    let p := if env.s.isObject root then root else none
    andThen (findConflictsWithinSelectionSet env fuel p ss σ) (visitSels env fuel p ss.sels)
  | .frag f =>
    let p := compositeOrNone env.s (env.s.typeFromAst f.typeCond)
    andThen (findConflictsWithinSelectionSet env fuel p f.ss σ) (visitSels env fuel p f.ss.sels)

/-- All conflicts the rule reports for a document, in report order (`none`: out of fuel). -/
def implConflictsFuel (le : String → String → Bool) (fuel : Nat) (s : Schema) (d : Doc) :
    Option (List Conflict) :=
  (forEach d (visitDefn ⟨s, d, le⟩ fuel) {}).map (·.2)

/-- The spread keys that can occur in the document. -/
def spreadKeys (d : Doc) : List String := d.spreadNames.map (fun n => (mkSpread d n).key)

/-- How often the two memo tables can let a comparison through at most: each of the
`sets × keys` + `keys × keys` slots twice (first under either flag, then once more when a
non-exclusive query finds an exclusive entry). -/
def memoCapacity (d : Doc) : Nat :=
  2 * (d.allSets.length * (spreadKeys d).length) + 2 * ((spreadKeys d).length * (spreadKeys d).length)

/-- Recursion depth that is always enough (proved: `Gql.Props.C14.terminates`): between two
passes through a memo table the recursion only descends into sub-selections, two frames per
nesting level. -/
def fuelBound (d : Doc) : Nat := (memoCapacity d + 1) * (2 * d.depth + 2)

def implConflicts (s : Schema) (d : Doc) : Option (List Conflict) :=
  implConflictsFuel naturalLe (fuelBound d) s d

end Gql.Exec.Overlap
