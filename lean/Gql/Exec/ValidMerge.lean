/-
C13 — Field Selection Merging (specification §5.3.2) on C13's own document model, as an
executable predicate per operation (`Valid.specMergeable`), next to `Valid.validOp`.

```
FieldsInSetCanMerge(set):
  fieldsForName = the fields with a given response name in set, including visiting fragments
                  and inline fragments
  for each pair fieldA, fieldB in fieldsForName:
    SameResponseShape(fieldA, fieldB) must be true
    if the parent types of fieldA and fieldB are equal or if either is not an Object Type:
      fieldA and fieldB must have identical field names
      fieldA and fieldB must have identical sets of arguments
      mergedSet = selection set of fieldA + selection set of fieldB
      FieldsInSetCanMerge(mergedSet) must be true

SameResponseShape(fieldA, fieldB):
  typeA, typeB = return types; Non-Null and List wrappers must agree
  if typeA or typeB is Scalar or Enum: return typeA == typeB
  mergedSet = selection set of fieldA + selection set of fieldB
  for each pair subfieldA, subfieldB with one response name in mergedSet (visiting fragments):
    SameResponseShape(subfieldA, subfieldB) must be true
```

"The fields of a set, visiting fragments" is not built as a list: `allFields` is the bounded
quantifier "every field of the expanded set satisfies `p`" (the parent type of a field is the
innermost enclosing type condition, or the type the set is selected on).  The nesting of named
fragments is bounded by the number of fragment definitions (`fragFuel`), the nesting of fields by
the number of field selections of the document (`depthFuel`); for a document without fragment
cycles neither bound is reached, and running out of either makes the predicate `false` (never
`true`), so `specMergeable … = true` always means that the specification's conditions hold for
every pair that is looked at.  Pairs are taken in both orders and a field is paired with itself:
`FieldsInSetCanMerge(selection set of f)` for every field `f` reached is then part of the check of
the pair `(f, f)`, which is the specification's "for every selection set of the document".

One deliberate deviation from the letter of the specification, towards the implementation: the
meta field `__typename` has no entry in a field table, so SameResponseShape asks nothing of a pair
with a `__typename` (`shapeTypeOf`; C14's known finding `missed-conflict-typename-meta-field`).
The predicate is a *hypothesis* of the soundness theorem and has to hold of every document
`validate()` accepts; weaker is stronger.

C14 (`Gql/Exec/SpecMerge.lean`) states the same algorithm over its own document model (node
identities, `@stream`) for the comparison with `overlapping_fields_can_be_merged.py`; here it is
stated over the executor's document model so that it can be a hypothesis of the soundness
theorem, and `checks/c13.py` compares it with `validate()` in the required direction.
-/
import Gql.Exec.ValidDoc

namespace Gql.Exec.Valid

/-! ### the fields of a set, visiting fragments -/

mutual
/-- every field of the expanded selection `sel` (selected on `parent`) satisfies `p parent' node`;
`recur` is the same question for the body of a named fragment (one level less of fuel) -/
def allFieldsSel (doc : Doc) (recur : Name → List Selection → Bool) (p : Name → FieldNode → Bool)
    (parent : Name) : Selection → Bool
  | .field alias name args dirs sels =>
    p parent { alias := alias, name := name, args := args, dirs := dirs, sels := sels }
  | .inline cond _ sels =>
    allFieldsSels doc recur p (match cond with | some c => c | none => parent) sels
  | .spread name _ =>
    match doc.frag name with
    | some fr => recur fr.cond fr.sels
    | none => true
def allFieldsSels (doc : Doc) (recur : Name → List Selection → Bool) (p : Name → FieldNode → Bool)
    (parent : Name) : List Selection → Bool
  | [] => true
  | sel :: rest => allFieldsSel doc recur p parent sel && allFieldsSels doc recur p parent rest
end

/-- `n` levels of named-fragment nesting; out of fuel: `false` -/
def allFieldsFuel (doc : Doc) (p : Name → FieldNode → Bool) : Nat → Name → List Selection → Bool
  | 0 => fun _ _ => false
  | n + 1 => fun parent sels => allFieldsSels doc (allFieldsFuel doc p n) p parent sels

def fragFuel (doc : Doc) : Nat := doc.frags.length + 1

/-- every field of the set `sels` selected on `parent`, visiting fragments, satisfies `p` -/
def allFields (doc : Doc) (parent : Name) (sels : List Selection) (p : Name → FieldNode → Bool) :
    Bool :=
  allFieldsFuel doc p (fragFuel doc) parent sels

/-- every field of mergedSet = (`selsA` selected on `ta`) + (`selsB` selected on `tb`) -/
def allMerged (doc : Doc) (ta : Name) (selsA : List Selection) (tb : Name) (selsB : List Selection)
    (p : Name → FieldNode → Bool) : Bool :=
  allFields doc ta selsA p && allFields doc tb selsB p

/-- every pair of fields of mergedSet -/
def allMergedPairs (doc : Doc) (ta : Name) (selsA : List Selection) (tb : Name)
    (selsB : List Selection) (p : Name → FieldNode → Name → FieldNode → Bool) : Bool :=
  allMerged doc ta selsA tb selsB (fun p1 x => allMerged doc ta selsA tb selsB (fun p2 y => p p1 x p2 y))

/-! ### local requirements -/

/-- return type of field `name` selected on `parent` (`__typename : String!` everywhere) -/
def fieldTypeOf (s : Schema) (parent name : Name) : Option TypeRef :=
  if name == "__typename" then some (.named "String" true)
  else (getFieldAny s parent name).map (·.type)

/-- the named type sub-selections of field `name` on `parent` are selected on -/
def subParent (s : Schema) (parent name : Name) : Name :=
  match fieldTypeOf s parent name with
  | some t => t.baseName
  | none => ""

/-- SameResponseShape, the part about the two return types: wrappers agree, and if either named
type is a scalar or enum the two are the same type -/
def sameShapeType (s : Schema) : TypeRef → TypeRef → Bool
  | .named a na, .named b nb => na == nb && (if isLeaf s a || isLeaf s b then a == b else true)
  | .list x na, .list y nb => na == nb && sameShapeType s x y
  | _, _ => false

mutual
/-- equality of value literals up to the order of input-object fields -/
def valueEquiv : Value → Value → Bool
  | .var a, .var b => a == b
  | .int a, .int b => a == b
  | .flt a, .flt b => a == b
  | .str a, .str b => a == b
  | .bool a, .bool b => a == b
  | .null, .null => true
  | .enum a, .enum b => a == b
  | .list as, .list bs => listEquiv as bs
  | .obj as, .obj bs => as.length == bs.length && fieldsSub as bs
  | _, _ => false
def listEquiv : List Value → List Value → Bool
  | [], [] => true
  | a :: as, b :: bs => valueEquiv a b && listEquiv as bs
  | _, _ => false
/-- every `name: value` of the first has an equivalent `name: value'` in the second -/
def fieldsSub : List (Name × Value) → List (Name × Value) → Bool
  | [], _ => true
  | (k, v) :: as, bs =>
    (match bs.find? (fun f => f.1 == k) with
     | some (_, v') => valueEquiv v v'
     | none => false) && fieldsSub as bs
end

/-- "identical sets of arguments" -/
def argsEquiv (a b : List (Name × Value)) : Bool := a.length == b.length && fieldsSub a b

/-- "the parent types are equal or either is not an Object Type" -/
def parentsOverlap (s : Schema) (pa pb : Name) : Bool :=
  pa == pb || s.kind pa != .object || s.kind pb != .object

/-! ### SameResponseShape and FieldsInSetCanMerge on a pair of fields -/

/-- the return type SameResponseShape compares: the definition of `name` in the field table of
`parent`.  The meta field `__typename` is in no field table, so the requirement on a pair with a
`__typename` is vacuous.  This is deliberately what `overlapping_fields_can_be_merged.py` (and
graphql-js) do, not the letter of the specification (C14's known finding
`missed-conflict-typename-meta-field`: `{ t { ... on T1 { f: __typename } ... on T2 { f: i } } }`
is accepted): the predicate has to accept every document `validate()` accepts, and the soundness
theorem only gets stronger with a weaker hypothesis — it does not need the response shapes of
fields under different object types to agree at all. -/
def shapeTypeOf (s : Schema) (parent name : Name) : Option TypeRef :=
  (getFieldAny s parent name).map (·.type)

/-- SameResponseShape(fieldA, fieldB) with `d` levels of field nesting left.  A field its parent
type does not define has no return type: the requirement is vacuous (FieldsOnCorrectType rejects
the document). -/
def sameShape (s : Schema) (doc : Doc) : Nat → Name → FieldNode → Name → FieldNode → Bool
  | 0, _, _, _, _ => false
  | d + 1, pa, a, pb, b =>
    match shapeTypeOf s pa a.name, shapeTypeOf s pb b.name with
    | some ta, some tb =>
      sameShapeType s ta tb &&
      (if isLeaf s ta.baseName || isLeaf s tb.baseName then true
       else allMergedPairs doc ta.baseName a.sels tb.baseName b.sels
          (fun p1 x p2 y => x.key != y.key || sameShape s doc d p1 x p2 y))
    | _, _ => true

/-- what FieldsInSetCanMerge requires of the pair `fieldA`, `fieldB` of a set, with `d` levels of
field nesting left: nothing if the response names differ; otherwise the same response shape, and
if the parent types overlap the same field, identical arguments and a mergeable merged set. -/
def pairCanMerge (s : Schema) (doc : Doc) : Nat → Name → FieldNode → Name → FieldNode → Bool
  | 0, _, _, _, _ => false
  | d + 1, pa, a, pb, b =>
    a.key != b.key ||
    (sameShape s doc (d + 1) pa a pb b &&
     (!parentsOverlap s pa pb ||
      (a.name == b.name && argsEquiv a.args b.args &&
       allMergedPairs doc (subParent s pa a.name) a.sels (subParent s pb b.name) b.sels
         (fun p1 x p2 y => pairCanMerge s doc d p1 x p2 y))))

/-- FieldsInSetCanMerge(`sels` selected on `parent`) -/
def fieldsInSetCanMerge (s : Schema) (doc : Doc) (d : Nat) (parent : Name) (sels : List Selection) :
    Bool :=
  allMergedPairs doc parent sels parent [] (fun p1 x p2 y => pairCanMerge s doc d p1 x p2 y)

mutual
def countFieldsSel : Selection → Nat
  | .field _ _ _ _ sels => 1 + countFieldsSels sels
  | .inline _ _ sels => countFieldsSels sels
  | .spread _ _ => 0
def countFieldsSels : List Selection → Nat
  | [] => 0
  | sel :: rest => countFieldsSel sel + countFieldsSels rest
end

/-- more levels than a chain of nested field selections can have in a document without fragment
cycles -/
def depthFuel (doc : Doc) : Nat :=
  (doc.ops.map (fun o => countFieldsSels o.sels)).sum +
    (doc.frags.map (fun f => countFieldsSels f.sels)).sum + 2

/-- **Field Selection Merging for the operation `op` of `doc`**: FieldsInSetCanMerge holds for the
operation's selection set and for the selection set of every fragment definition (and so, through
the pairs `(f, f)`, for every selection set below them). -/
def specMergeable (s : Schema) (doc : Doc) (op : Operation) : Bool :=
  match rootTypeOf s op.kind with
  | none => false
  | some root =>
    fieldsInSetCanMerge s doc (depthFuel doc) root op.sels &&
    doc.frags.all (fun fr => fieldsInSetCanMerge s doc (depthFuel doc) fr.cond fr.sels)

end Gql.Exec.Valid
