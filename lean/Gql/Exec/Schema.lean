/-
C02/C13 — type system as the executor sees it.

Names are GraphQL `Name`s (`[_A-Za-z][_0-9A-Za-z]*`, ASCII by grammar) and are kept as Lean `String`;
string *values* (leaf data, string literals) are `List Nat` code points (surrogates allowed).

A type reference follows the SDL grammar `Type := Name '!'? | '[' Type ']' '!'?`: every node
carries its own non-null flag, so `NonNull(NonNull(_))` is not representable (it is not
constructible through `build_schema` either).

The five built-in scalars are implicit (present in every schema under their names).
-/
import Gql.Text.Out

namespace Gql.Exec

abbrev Name := String

inductive TypeRef where
  | named (n : Name) (nn : Bool)
  | list (of : TypeRef) (nn : Bool)
  deriving Repr, DecidableEq, Inhabited

namespace TypeRef
def nonNull : TypeRef → Bool
  | named _ b => b
  | list _ b => b

/-- The same type with the outer non-null marker removed (`NonNull.of_type`). -/
def nullable : TypeRef → TypeRef
  | named n _ => named n false
  | list t _ => list t false

def baseName : TypeRef → Name
  | named n _ => n
  | list t _ => baseName t
end TypeRef

/-- GraphQL value literal.  Float literals are kept as a number of halves (`flt 3` is `1.5`):
the harness only writes float literals of that form (see `checks/c02.py`). -/
inductive Value where
  | var (n : Name)
  | int (i : Int)
  | flt (halves : Int)
  | str (s : List Nat)
  | bool (b : Bool)
  | null
  | enum (n : Name)
  | list (vs : List Value)
  | obj (fs : List (Name × Value))
  deriving Repr, Inhabited

/-- Coerced (Python-side) input value handed to resolvers. Enum values of SDL-built schemas are
their names (`str`). `dict` keeps insertion order. -/
inductive PyVal where
  | null
  | int (i : Int)
  | flt (halves : Int)
  | str (s : List Nat)
  | bool (b : Bool)
  | list (xs : List PyVal)
  | dict (kvs : List (Name × PyVal))
  deriving Repr, Inhabited

abbrev ArgMap := List (Name × PyVal)
/-- Coerced variable values (`VariableValues.coerced`): absent key = no runtime value. -/
abbrev Vars := List (Name × PyVal)

structure ArgDef where
  name : Name
  type : TypeRef
  default : Option Value
  deriving Repr, Inhabited

structure FieldDef where
  name : Name
  args : List ArgDef
  type : TypeRef
  deriving Repr, Inhabited

inductive TypeDef where
  | object (name : Name) (ifaces : List Name) (fields : List FieldDef)
  | iface (name : Name) (ifaces : List Name) (fields : List FieldDef)
  | union (name : Name) (members : List Name)
  | enum (name : Name) (values : List Name)
  | input (name : Name) (fields : List ArgDef)
  | scalar (name : Name)
  deriving Repr, Inhabited

def TypeDef.name : TypeDef → Name
  | .object n _ _ => n
  | .iface n _ _ => n
  | .union n _ => n
  | .enum n _ => n
  | .input n _ => n
  | .scalar n => n

structure Schema where
  types : List TypeDef
  query : Name
  mutation : Option Name
  /-- names of the input object types declared `@oneOf` -/
  oneOfs : List Name := []
  deriving Repr, Inhabited

def builtinScalars : List Name := ["Int", "Float", "String", "Boolean", "ID"]

namespace Schema

/-- `schema.get_type(name)` (`None` when unknown). -/
def lookup (s : Schema) (n : Name) : Option TypeDef :=
  match s.types.find? (fun d => d.name == n) with
  | some d => some d
  | none => if builtinScalars.contains n then some (.scalar n) else none

inductive Kind where
  | leaf | object | abstract | input | unknown
  deriving Repr, DecidableEq

def kind (s : Schema) (n : Name) : Kind :=
  match s.lookup n with
  | some (.object ..) => .object
  | some (.iface ..) => .abstract
  | some (.union ..) => .abstract
  | some (.enum ..) => .leaf
  | some (.scalar ..) => .leaf
  | some (.input ..) => .input
  | none => .unknown

/-- `schema.is_sub_type(abstract, object)` for an object type `o`: union membership, or the
interface is among the object's declared interfaces. -/
def isSubType (s : Schema) (abs o : Name) : Bool :=
  match s.lookup abs with
  | some (.union _ ms) => ms.contains o
  | some (.iface ..) =>
    match s.lookup o with
    | some (.object _ is _) => is.contains abs
    | some (.iface _ is _) => is.contains abs
    | _ => false
  | _ => false

/-- Fields of an object type (`parent_type.fields`); `none` when `o` is not an object type. -/
def objectFields (s : Schema) (o : Name) : Option (List FieldDef) :=
  match s.lookup o with
  | some (.object _ _ fs) => some fs
  | _ => none

/-- `schema.get_field(parent_type, name)` without the meta fields (`__typename` is handled by the
executors, `__schema`/`__type` are outside the model). -/
def getField (s : Schema) (o : Name) (f : Name) : Option FieldDef :=
  match s.objectFields o with
  | some fs => fs.find? (fun d => d.name == f)
  | none => none

end Schema

/-- `type_.is_one_of` -/
def Schema.isOneOf (s : Schema) (n : Name) : Bool := s.oneOfs.contains n

/-- `is_required_argument`: non-null type and no default. -/
def ArgDef.required (a : ArgDef) : Bool := a.type.nonNull && a.default.isNone

end Gql.Exec
