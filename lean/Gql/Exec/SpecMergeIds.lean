import Gql.Exec.OverlapTypes
/-
Field-node identities of a document (spec side of C14).

`Spec.specConflictB` remembers expanded states by `(id of field a, id of field b, full)`
(`Spec.State.key`).  `FieldNode.id` stands for the Python object identity of a field node; that
the search decides the specification (`specConflictB_iff`) needs these identities to be pairwise
different.  The condition is decidable; the driver reports it for every case (`U 1`).
-/
namespace Gql.Exec

mutual
/-- identities of all field nodes below a selection, each position once -/
def Sel.allIds : Sel → List Nat
  | .field id _ _ _ _ hasSub _ sub => id :: (if hasSub then selsAllIds sub else [])
  | .inline _ _ sels => selsAllIds sels
  | .spread _ => []
def selsAllIds : List Sel → List Nat
  | [] => []
  | x :: xs => x.allIds ++ selsAllIds xs
end

/-- identities of all field nodes of the document -/
def Doc.fieldIds (d : Doc) : List Nat := d.flatMap (fun df => selsAllIds df.ss.sels)

/-- field-node identities are pairwise different (they stand for Python object identities of
distinct AST nodes) -/
def Doc.FieldIdsNodup (d : Doc) : Prop := d.fieldIds.Nodup

instance (d : Doc) : Decidable d.FieldIdsNodup := by unfold Doc.FieldIdsNodup; infer_instance

/-! ### the document with `__typename` hidden

The rule looks field definitions up in the field table of the parent type; `__typename` is in no
table.  The specification run on `d.hideMeta z` (for a `z` that is no GraphQL name) is the
specification with `__typename` regarded as a field without return type; the driver reports its
verdict too (`T`), and the check compares the rule with it on every document that selects
`__typename`. -/

mutual
/-- every `__typename` selection renamed to the field `z` (response name kept through the alias):
for a `z` no type defines, the specification then sees a field without return type — which is
how the rule sees `__typename` -/
def Sel.hideMeta (z : String) : Sel → Sel
  | .field id al name args st hasSub subId sub =>
    if name == "__typename" then
      .field id (some (al.getD name)) z args st hasSub subId (selsHideMeta z sub)
    else .field id al name args st hasSub subId (selsHideMeta z sub)
  | .inline tc ssId sels => .inline tc ssId (selsHideMeta z sels)
  | .spread n => .spread n
def selsHideMeta (z : String) : List Sel → List Sel
  | [] => []
  | x :: xs => x.hideMeta z :: selsHideMeta z xs
end

def Doc.hideMeta (d : Doc) (z : String) : Doc :=
  d.map (fun df => match df with
    | .op root ss => .op root ⟨ss.id, selsHideMeta z ss.sels⟩
    | .frag f => .frag ⟨f.name, f.typeCond, ⟨f.ss.id, selsHideMeta z f.ss.sels⟩⟩)

end Gql.Exec
