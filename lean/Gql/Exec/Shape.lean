/-
C13 — data that conforms to the schema (`Conforms`) and the shape a response must have
(`shapeOk`): keys (in order), nesting, nullability and leaf kinds, as the selection set and the
schema's types prescribe for the runtime types present in the data.
-/
import Gql.Exec.SpecExec

namespace Gql.Exec.Valid
open Gql.Exec

/-- the object type a value of the named output type `n` has at run time -/
def runtimeType (s : Schema) (n : Name) (tn : TN) : Option Name :=
  match s.kind n with
  | .object => some n
  | .abstract =>
    match Spec.resolveAbstractType s n tn with
    | .ok rt => some rt
    | .error _ => none
  | _ => none

mutual
/-- The data graph has values of the declared kinds: no `null` at Non-Null positions, leaves that
the leaf type serialises, lists at list positions, object nodes whose `__typename` names a
possible object type and whose resolvers — for every field of that type and all arguments —
return conforming values; no raising resolver. -/
def Conforms (ops : Ops) (s : Schema) : TypeRef → RVal → Prop
  | t, .null => t.nonNull = false
  | _, .raise _ _ => False
  | t, .leaf l =>
    match t with
    | .named n _ => s.kind n = .leaf ∧ ∃ j, ops.serialize s n l = some j ∧ j ≠ .null
    | .list _ _ => False
  | t, .list items =>
    match t with
    | .list t' _ => ConformsL ops s t' items
    | .named _ _ => False
  | t, .obj tn f =>
    match t with
    | .named n _ =>
      ∃ rt fs, runtimeType s n tn = some rt ∧ s.objectFields rt = some fs ∧
        ∀ fd ∈ fs, ∀ args, Conforms ops s fd.type (f fd.name args)
    | .list _ _ => False

def ConformsL (ops : Ops) (s : Schema) (t : TypeRef) : List RVal → Prop
  | [] => True
  | x :: xs => Conforms ops s t x ∧ ConformsL ops s t xs
end

def cpsOfName (n : Name) : List Nat := n.toList.map Char.toNat

/-- the JSON kind a leaf type prescribes -/
def leafShape (s : Schema) (n : Name) (j : Json) : Bool :=
  match s.lookup n with
  | some (.enum _ vals) =>
    match j with
    | .str cs => vals.any (fun v => cpsOfName v == cs)
    | _ => false
  | some (.scalar nm) =>
    if nm == "Int" then (match j with
      | .int i => -2147483648 ≤ i && i ≤ 2147483647
      | _ => false)
    else if nm == "Float" then (match j with
      | .flt _ => true
      | .int _ => true
      | _ => false)
    else if nm == "String" || nm == "ID" then (match j with
      | .str _ => true
      | _ => false)
    else if nm == "Boolean" then (match j with
      | .bool _ => true
      | _ => false)
    else (match j with
      | .null => false
      | _ => true)
  | _ => false

/-- how the value of a child field is checked: field name, argument values, field type, fields,
response value -/
abbrev ShapeChild := Name → ArgMap → TypeRef → List FieldNode → Json → Bool

/-- the result map has exactly one entry per response key whose field is defined on the object
type, in the order of the grouped field set, each of the prescribed shape -/
def shapeGroups (cx : Spec.Ctx) (objectType : Name) (child : ShapeChild) :
    Spec.Groups → List (Name × Json) → Bool
  | [], [] => true
  | [], _ :: _ => false
  | (k, fields) :: rest, kvs =>
    match fields with
    | [] => false
    | field :: _ =>
      if field.name == "__typename" then
        match kvs with
        | (k', .str cs) :: kvs' =>
          k' == k && cs == cpsOfName objectType && shapeGroups cx objectType child rest kvs'
        | _ => false
      else
        match cx.schema.getField objectType field.name with
        | none => shapeGroups cx objectType child rest kvs
        | some fd =>
          match kvs with
          | (k', j) :: kvs' =>
            k' == k &&
            (match Spec.coerceArgumentValues cx field.args fd.args [] with
              | some a => child field.name a fd.type fields j
              | none => false) &&
            shapeGroups cx objectType child rest kvs'
          | [] => false

mutual
def shapeOk (cx : Spec.Ctx) (t : TypeRef) (fields : List FieldNode) : RVal → Json → Bool
  | .null, j =>
    !t.nonNull && (match j with
      | .null => true
      | _ => false)
  | .raise _ _, _ => false
  | .leaf _, j =>
    match t with
    | .named n _ => cx.schema.kind n == .leaf && leafShape cx.schema n j
    | .list _ _ => false
  | .list items, j =>
    match t, j with
    | .list t' _, .list js => shapeItems cx t' fields items js
    | _, _ => false
  | .obj tn f, j =>
    match t, j with
    | .named n _, .obj kvs =>
      match runtimeType cx.schema n tn with
      | none => false
      | some rt =>
        match Spec.collectFields cx rt (Spec.mergeSelectionSets fields) with
        | .ok groups =>
          shapeGroups cx rt (fun name args t' fields' j' => shapeOk cx t' fields' (f name args) j')
            groups kvs
        | _ => false
    | _, _ => false

def shapeItems (cx : Spec.Ctx) (t : TypeRef) (fields : List FieldNode) :
    List RVal → List Json → Bool
  | [], [] => true
  | x :: xs, j :: js => shapeOk cx t fields x j && shapeItems cx t fields xs js
  | _, _ => false
end

/-- shape of the whole response `data` for an operation on a root value -/
def shapeResponse (ops : Ops) (s : Schema) (doc : Doc) (op : Operation) (vars : Vars)
    (root : RVal) (data : Json) : Bool :=
  let cx : Spec.Ctx := { ops := ops, schema := s, doc := doc, vars := vars }
  match Spec.rootType s op.kind, data with
  | some rt, .obj kvs =>
    match Spec.collectFields cx rt op.sels with
    | .ok groups =>
      shapeGroups cx rt (fun name args t fields j => shapeOk cx t fields (root.child name args) j)
        groups kvs
    | _ => false
  | _, _ => false

end Gql.Exec.Valid
