/-
C02/C13 — the backing data graph served by synchronous resolvers, and responses.

`RVal` is what a resolver hands back (or what sits in a list): `null` (`None`), a leaf, `raise`
(at a field position: the resolver raises an exception; inside a list: an `Exception` instance,
which `complete_value` raises; `ownPath` is the path of a `GraphQLError` that already carries one —
`located_error` keeps such an error as it is, both executors report it under its own path), a list, or an object node with the `__typename` the type resolver
reads and a *resolver function* `field name → coerced arguments → RVal`.  Resolvers are functions,
so the theorems quantify over all (pure, synchronous) resolvers, not only finite tables; the
recursion of both executors is structural on this tree.

A non-object value used as the source of an object type (legal for the executor: any non-null
value is accepted when there is no `is_type_of`) resolves every field to `null`
(the harness resolver returns `None` for non-object sources).
-/
import Gql.Exec.Doc

namespace Gql.Exec

/-- Leaf data.  `flt h` is the Python float `h / 2` (covers integral and non-integral floats
without a float model; the float conversions proper belong to C16). -/
inductive PyLeaf where
  | int (i : Int)
  | flt (halves : Int)
  | str (s : List Nat)
  | bool (b : Bool)
  deriving Repr, DecidableEq, Inhabited

/-- What the type resolver returns for a value: `None`, a `str`, or something that is not a `str`. -/
inductive TN where
  | missing
  | name (n : Name)
  | bad
  deriving Repr, DecidableEq, Inhabited

/-- Response path segment (`Path.as_list()`). -/
inductive PSeg where
  | key (k : Name)
  | idx (i : Nat)
  deriving Repr, DecidableEq, Inhabited

inductive RVal where
  | null
  | leaf (l : PyLeaf)
  | raise (tag : Nat) (ownPath : Option (List PSeg))
  | list (items : List RVal)
  | obj (tn : TN) (resolve : Name → ArgMap → RVal)
  deriving Inhabited

/-- `field_resolver(source, info, **args)` of the harness. -/
def RVal.child : RVal → Name → ArgMap → RVal
  | .obj _ f, n, a => f n a
  | _, _, _ => .null

/-- `type_resolver(value, info, abstract_type)` of the harness. -/
def RVal.typename : RVal → TN
  | .obj tn _ => tn
  | _ => .missing

inductive Json where
  | null
  | int (i : Int)
  | flt (halves : Int)
  | str (s : List Nat)
  | bool (b : Bool)
  | list (xs : List Json)
  | obj (kvs : List (Name × Json))
  deriving Repr, Inhabited

/-- Why a field error was raised (message wording is not part of the model). -/
inductive ErrKind where
  | raised (tag : Nat)        -- resolver raised / exception instance in a list
  | nullNonNull               -- "Cannot return null for non-nullable field"
  | leaf                      -- output coercion of a leaf failed
  | notIterable               -- "Expected Iterable"
  | abstractUnresolved        -- type resolver returned None
  | abstractBadName           -- ... returned a non-str
  | abstractUnknown           -- ... a name that is not in the schema
  | abstractNonObject         -- ... a name of a non-object type
  | abstractNotPossible       -- ... an object type that is not a possible type
  | argCoercion               -- get_argument_values raised (request-attributable)
  | directiveCoercion         -- @skip/@include `if` could not be coerced (request-attributable)
  | badOutputType             -- field type is not an output type of the schema (invalid schema)
  | noRootType                -- "Schema is not configured to execute ... operation"
  | noOperation               -- operation selection failed
  deriving Repr, DecidableEq, Inhabited

/-- A response error: its path (`none` for request-level errors) and its kind. -/
structure FErr where
  path : Option (List PSeg)
  kind : ErrKind
  deriving Repr, DecidableEq, Inhabited

/-- One resolver invocation: response path, parent type, field name, coerced arguments. -/
structure Call where
  path : List PSeg
  parent : Name
  field : Name
  args : ArgMap
  deriving Repr, Inhabited

structure Resp where
  data : Json
  errors : List FErr
  log : List Call
  deriving Repr, Inhabited

/-- Python truthiness of a coerced value (`if skip and skip["if"]`).  For a validated document the
coerced value of the `Boolean!` argument `if` is a `bool`; the specification leaves the ill-typed
case undefined, so both executors use this function there. -/
def PyVal.truthy : PyVal → Bool
  | .null => false
  | .int i => i != 0
  | .flt h => h != 0
  | .str s => !s.isEmpty
  | .bool b => b
  | .list xs => !xs.isEmpty
  | .dict kvs => !kvs.isEmpty

/-- The value an argument list provides for a name (`{arg.name.value: arg for arg in node.arguments}`:
the last one wins; validation makes argument names unique, so any choice agrees on validated
documents). -/
def lookupArg (args : List (Name × Value)) (n : Name) : Option Value :=
  (args.reverse.find? (fun p => p.1 == n)).map (·.2)

/-- `coerced_values[out_name] = v` on an insertion-ordered dict. -/
def ArgMap.set : ArgMap → Name → PyVal → ArgMap
  | [], n, v => [(n, v)]
  | (k, w) :: rest, n, v => if k == n then (k, v) :: rest else (k, w) :: ArgMap.set rest n v

/-- The type of the `if` argument of `@skip` / `@include`. -/
def boolNN : TypeRef := .named "Boolean" true

/-- The value layer both executors are parametric in (it is the subject of C15/C16, not of this
property): output coercion of a leaf type and input coercion of a literal under coerced
variables (`none` = `Undefined` = invalid).  The driver instantiates it with `Concrete.ops`
(`Gql/Exec/Values.lean`), which the correspondence run ties to the code. -/
structure Ops where
  serialize : Schema → Name → PyLeaf → Option Json
  coerceLiteral : Schema → Vars → TypeRef → Value → Option PyVal

end Gql.Exec
