/-
C02/C13 — executable documents: operations, fields (alias / arguments / directives /
sub-selections), inline fragments, fragment spreads, fragment definitions, variable definitions.
`@defer`/`@stream` and fragment arguments are outside the model (they need an opt-in schema /
parser flag; a document using them does not validate against the schemas considered).
-/
import Gql.Exec.Schema

namespace Gql.Exec

structure Directive where
  name : Name
  args : List (Name × Value)
  deriving Repr, Inhabited

inductive Selection where
  | field (alias : Option Name) (name : Name) (args : List (Name × Value))
      (dirs : List Directive) (sels : List Selection)
  | inline (cond : Option Name) (dirs : List Directive) (sels : List Selection)
  | spread (name : Name) (dirs : List Directive)
  deriving Repr, Inhabited

/-- A field selection as an object of its own (what `FieldDetails.node` points to). -/
structure FieldNode where
  alias : Option Name
  name : Name
  args : List (Name × Value)
  dirs : List Directive
  sels : List Selection
  deriving Repr, Inhabited

/-- `get_field_entry_key`: alias if present, else the field name. -/
def FieldNode.key (f : FieldNode) : Name :=
  match f.alias with
  | some a => a
  | none => f.name

structure FragDef where
  name : Name
  cond : Name
  sels : List Selection
  deriving Repr, Inhabited

structure VarDef where
  name : Name
  type : TypeRef
  default : Option Value
  deriving Repr, Inhabited

inductive OpKind where
  | query | mutation
  deriving Repr, DecidableEq, Inhabited

structure Operation where
  kind : OpKind
  name : Option Name
  vars : List VarDef
  sels : List Selection
  deriving Repr, Inhabited

structure Doc where
  ops : List Operation
  frags : List FragDef
  deriving Repr, Inhabited

/-- `fragments.get(name)`; the executor's dict is filled in document order, a later definition
with the same name overwrites an earlier one. -/
def Doc.frag (d : Doc) (n : Name) : Option FragDef :=
  d.frags.reverse.find? (fun f => f.name == n)

end Gql.Exec
