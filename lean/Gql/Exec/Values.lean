/-
C02 — concrete value layer used by the driver (`Concrete.ops`).

The executors and all C02/C13 theorems are parametric in `Ops`; this file is the instance the
correspondence run compares with the code (scalars.py `serialize_*` / `parse_*_literal`,
`GraphQLEnumType.coerce_output_value`, `coerce_input_literal`) on the harness' value domain:
ints, floats that are a whole number of halves (|x| < 2^52), bools, and strings; numeric strings
are only of the forms `-?[0-9]+` and `-?[0-9]+.[05]`.  The full coercion zoo is C15/C16.
-/
import Gql.Exec.Data

namespace Gql.Exec

mutual
def PyVal.beq : PyVal → PyVal → Bool
  | .null, .null => true
  | .int a, .int b => a == b
  | .flt a, .flt b => a == b
  | .str a, .str b => a == b
  | .bool a, .bool b => a == b
  | .list a, .list b => PyVal.beqList a b
  | .dict a, .dict b => PyVal.beqKvs a b
  | _, _ => false
def PyVal.beqList : List PyVal → List PyVal → Bool
  | [], [] => true
  | x :: xs, y :: ys => PyVal.beq x y && PyVal.beqList xs ys
  | _, _ => false
def PyVal.beqKvs : List (Name × PyVal) → List (Name × PyVal) → Bool
  | [], [] => true
  | (k, x) :: xs, (l, y) :: ys => k == l && PyVal.beq x y && PyVal.beqKvs xs ys
  | _, _ => false
end

def ArgMap.beq (a b : ArgMap) : Bool := PyVal.beqKvs a b

namespace Concrete

def minInt : Int := -2147483648
def maxInt : Int := 2147483647
def inRange (i : Int) : Bool := minInt ≤ i && i ≤ maxInt

def cpsOf (s : String) : List Nat := s.toList.map Char.toNat

def decimal (i : Int) : List Nat := cpsOf (toString i)

/-- `str(float)` for a float that is `h` halves, |h| small (no exponent form). -/
def floatRepr (h : Int) : List Nat :=
  let a := h.natAbs
  let body := toString (a / 2) ++ (if a % 2 == 0 then ".0" else ".5")
  cpsOf ((if h < 0 then "-" else "") ++ body)

def isDigit (c : Nat) : Bool := 48 ≤ c && c ≤ 57

def digitsVal : List Nat → Nat → Nat
  | [], acc => acc
  | c :: cs, acc => digitsVal cs (acc * 10 + (c - 48))

/-- `-?[0-9]+` -/
def parseIntStr (s : List Nat) : Option Int :=
  let (neg, ds) := match s with
    | 45 :: r => (true, r)
    | r => (false, r)
  if ds.isEmpty || !ds.all isDigit then none
  else
    let n : Int := digitsVal ds 0
    some (if neg then -n else n)

/-- halves of `-?[0-9]+` or `-?[0-9]+.[05]` -/
def parseHalvesStr (s : List Nat) : Option Int :=
  let (neg, r) := match s with
    | 45 :: r => (true, r)
    | r => (false, r)
  let ip := r.takeWhile isDigit
  let rest := r.dropWhile isDigit
  if ip.isEmpty then none
  else
    let n : Int := digitsVal ip 0
    let h : Option Int := match rest with
      | [] => some (2 * n)
      | [46, 48] => some (2 * n)
      | [46, 53] => some (2 * n + 1)
      | _ => none
    h.map (fun h => if neg then -h else h)

def twoPow53 : Int := 9007199254740992

def serializeInt : PyLeaf → Option Json
  | .bool b => some (.int (if b then 1 else 0))
  | .int i => if inRange i then some (.int i) else none
  | .flt h => if h % 2 == 0 && inRange (h / 2) then some (.int (h / 2)) else none
  | .str s => match parseIntStr s with
    | some i => if inRange i then some (.int i) else none
    | none => none

def serializeFloat : PyLeaf → Option Json
  | .bool b => some (.int (if b then 1 else 0))
  | .flt h => some (.flt h)
  | .int i => if -twoPow53 ≤ i && i ≤ twoPow53 then some (.flt (2 * i)) else none
  | .str s => (parseHalvesStr s).map .flt

def serializeString : PyLeaf → Option Json
  | .str s => some (.str s)
  | .bool b => some (.str (cpsOf (if b then "true" else "false")))
  | .flt h => some (.str (floatRepr h))
  | .int i => some (.str (decimal i))

def serializeBoolean : PyLeaf → Option Json
  | .bool b => some (.bool b)
  | .flt h => some (.bool (h != 0))
  | .int i => some (.bool (i != 0))
  | .str _ => none

def serializeID : PyLeaf → Option Json
  | .str s => some (.str s)
  | .int i => some (.str (decimal i))
  | .flt h => if h % 2 == 0 then some (.str (decimal (h / 2))) else none
  | .bool _ => none

def leafJson : PyLeaf → Json
  | .int i => .int i
  | .flt h => .flt h
  | .str s => .str s
  | .bool b => .bool b

def serialize (s : Schema) (n : Name) (l : PyLeaf) : Option Json :=
  match s.lookup n with
  | some (.enum _ vals) =>
    match l with
    | .str cs => match vals.find? (fun v => cpsOf v == cs) with
      | some _ => some (.str cs)
      | none => none
    | _ => none
  | some (.scalar nm) =>
    if nm == "Int" then serializeInt l
    else if nm == "Float" then serializeFloat l
    else if nm == "String" then serializeString l
    else if nm == "Boolean" then serializeBoolean l
    else if nm == "ID" then serializeID l
    else some (leafJson l)  -- custom scalar: default `serialize` is the identity
  | _ => none

/-! ### input coercion of literals (`coerce_input_literal`) -/

def unwrapLists : TypeRef → Nat × Name
  | .named n _ => (0, n)
  | .list t _ => let (k, n) := unwrapLists t; (k + 1, n)

def wrapN : Nat → PyVal → PyVal
  | 0, v => v
  | k + 1, v => .list [wrapN k v]

def varIsNullish (vars : Vars) (x : Name) : Bool :=
  match vars.lookup x with
  | none => true
  | some .null => true
  | _ => false

/-- Result of coercing one provided input-object field. -/
inductive FieldRes where
  | undefinedField
  | missingVar
  | invalid
  | ok (v : PyVal)

def scalarLit (nm : Name) : Value → Option PyVal
  | .int i =>
    if nm == "Int" then (if inRange i then some (.int i) else none)
    else if nm == "Float" then some (.flt (2 * i))
    else if nm == "ID" then some (.str (decimal i))
    else none
  | .flt h => if nm == "Float" then some (.flt h) else none
  | .str s => if nm == "String" || nm == "ID" then some (.str s) else none
  | .bool b => if nm == "Boolean" then some (.bool b) else none
  | _ => none

/-- Assemble an input object from the coerced provided fields, in definition order. -/
def assemble (dflt : TypeRef → Value → Option PyVal) (res : List (Name × FieldRes)) :
    List ArgDef → Option (List (Name × PyVal))
  | [] => some []
  | d :: ds =>
    let useDefault : Option (Option (Name × PyVal)) :=
      if d.required then none
      else match d.default with
        | none => some none
        | some lit => match dflt d.type lit with
          | some v => some (some (d.name, v))
          | none => none
    let here : Option (Option (Name × PyVal)) :=
      match res.reverse.find? (fun p => p.1 == d.name) with
      | none => useDefault
      | some (_, .missingVar) => useDefault
      | some (_, .ok v) => some (some (d.name, v))
      | some (_, _) => none
    match here, assemble dflt res ds with
    | some (some kv), some rest => some (kv :: rest)
    | some none, some rest => some rest
    | _, _ => none

mutual
/-- `coerce_input_literal(value_node, type_, variable_values)`; `dflt` coerces input-field defaults. -/
def coerceLitCore (s : Schema) (vars : Vars) (dflt : TypeRef → Value → Option PyVal) :
    TypeRef → Value → Option PyVal
  | t, .var x =>
    match vars.lookup x with
    | some .null => if t.nonNull then none else some .null
    | some v => some v
    | none => none
  | t, .null => if t.nonNull then none else some .null
  | .list t' _, .list vs => (coerceItems s vars dflt t' vs).map .list
  | .named _ _, .list _ => none
  | t, .obj fs =>
    let (k, n) := unwrapLists t
    match s.lookup n with
    | some (.input _ defs) =>
      let res := coerceFields s vars dflt defs fs
      if res.any (fun p => match p.2 with | .undefinedField => true | _ => false) then none
      else
        match assemble dflt res defs with
        | none => none
        | some kvs =>
          -- `@oneOf`: exactly one provided field, with a non-null value
          if s.isOneOf n &&
              !((fs.map (·.1)).eraseDups.length == 1 && kvs.length == 1 &&
                kvs.all (fun p => match p.2 with | .null => false | _ => true)) then none
          else some (wrapN k (.dict kvs))
    | _ => none
  | t, .enum e =>
    let (k, n) := unwrapLists t
    match s.lookup n with
    | some (.enum _ vals) => if vals.contains e then some (wrapN k (.str (cpsOf e))) else none
    | _ => none
  | t, v =>
    let (k, n) := unwrapLists t
    match s.lookup n with
    | some (.scalar nm) => (scalarLit nm v).map (wrapN k)
    | _ => none

def coerceItems (s : Schema) (vars : Vars) (dflt : TypeRef → Value → Option PyVal) (t : TypeRef) :
    List Value → Option (List PyVal)
  | [] => some []
  | v :: vs =>
    let head : Option PyVal :=
      match coerceLitCore s vars dflt t v with
      | some r => some r
      | none =>
        match v with
        | .var x => if !t.nonNull && varIsNullish vars x then some .null else none
        | _ => none
    match head, coerceItems s vars dflt t vs with
    | some h, some r => some (h :: r)
    | _, _ => none

def coerceFields (s : Schema) (vars : Vars) (dflt : TypeRef → Value → Option PyVal)
    (defs : List ArgDef) : List (Name × Value) → List (Name × FieldRes)
  | [] => []
  | (n, v) :: fs =>
    let r : FieldRes :=
      match defs.find? (fun d => d.name == n) with
      | none => .undefinedField
      | some d =>
        let missing := match v with
          | .var x => (vars.lookup x).isNone
          | _ => false
        if missing then .missingVar
        else match coerceLitCore s vars dflt d.type v with
          | some r => .ok r
          | none => .invalid
    (n, r) :: coerceFields s vars dflt defs fs
end

/-- Defaults of input-object fields are coerced without variables; nesting of defaults inside
defaults is cut at depth 8 (the harness generates depth ≤ 2). -/
def coerceLitN (s : Schema) : Nat → Vars → TypeRef → Value → Option PyVal
  | 0, vars => coerceLitCore s vars (fun _ _ => none)
  | n + 1, vars => coerceLitCore s vars (coerceLitN s n [])

def coerceLiteral (s : Schema) (vars : Vars) (t : TypeRef) (v : Value) : Option PyVal :=
  coerceLitN s 8 vars t v

/-! ### input coercion of runtime values (`coerce_input_value`) and CoerceVariableValues

Used by the driver only: the executors and the theorems take *coerced* variable values; here the
raw variable values of a request are coerced independently of the implementation, so that a
defect of `get_variable_values` shows as wrong resolver arguments against the specification. -/

/-- `coerce_int` / `coerce_float` / `coerce_string` / `coerce_boolean` / `coerce_id` -/
def scalarValue (nm : Name) : PyVal → Option PyVal
  | .int i =>
    if nm == "Int" then (if inRange i then some (.int i) else none)
    else if nm == "Float" then (if -twoPow53 ≤ i && i ≤ twoPow53 then some (.flt (2 * i)) else none)
    else if nm == "ID" then some (.str (decimal i))
    else none
  | .flt h =>
    if nm == "Int" then (if h % 2 == 0 && inRange (h / 2) then some (.int (h / 2)) else none)
    else if nm == "Float" then some (.flt h)
    else if nm == "ID" then (if h % 2 == 0 then some (.str (decimal (h / 2))) else none)
    else none
  | .str s => if nm == "String" || nm == "ID" then some (.str s) else none
  | .bool b => if nm == "Boolean" then some (.bool b) else none
  | _ => none

/-- assemble an input object from coerced provided fields (absent: default or omitted) -/
def assembleVal (dflt : TypeRef → Value → Option PyVal) (res : List (Name × Option PyVal)) :
    List ArgDef → Option (List (Name × PyVal))
  | [] => some []
  | d :: ds =>
    let here : Option (Option (Name × PyVal)) :=
      match res.find? (fun p => p.1 == d.name) with
      | none =>
        if d.required then none
        else match d.default with
          | none => some none
          | some lit => match dflt d.type lit with
            | some v => some (some (d.name, v))
            | none => none
      | some (_, some v) => some (some (d.name, v))
      | some (_, none) => none
    match here, assembleVal dflt res ds with
    | some (some kv), some rest => some (kv :: rest)
    | some none, some rest => some rest
    | _, _ => none

mutual
def coerceValCore (s : Schema) (dflt : TypeRef → Value → Option PyVal) : TypeRef → PyVal → Option PyVal
  | t, .null => if t.nonNull then none else some .null
  | .list t' _, .list xs => (coerceValItems s dflt t' xs).map .list
  | .named _ _, .list _ => none
  | t, .dict kvs =>
    let (k, n) := unwrapLists t
    match s.lookup n with
    | some (.input _ defs) =>
      if kvs.any (fun p => !(defs.any (fun d => d.name == p.1))) then none
      else
        match assembleVal dflt (coerceValFields s dflt defs kvs) defs with
        | none => none
        | some out =>
          if s.isOneOf n &&
              !(kvs.length == 1 && out.length == 1 &&
                out.all (fun p => match p.2 with | .null => false | _ => true)) then none
          else some (wrapN k (.dict out))
    | _ => none
  | t, v =>
    let (k, n) := unwrapLists t
    match s.lookup n with
    | some (.scalar nm) => (scalarValue nm v).map (wrapN k)
    | some (.enum _ vals) =>
      match v with
      | .str cs => if vals.any (fun e => cpsOf e == cs) then some (wrapN k (.str cs)) else none
      | _ => none
    | _ => none

def coerceValItems (s : Schema) (dflt : TypeRef → Value → Option PyVal) (t : TypeRef) :
    List PyVal → Option (List PyVal)
  | [] => some []
  | v :: vs =>
    match coerceValCore s dflt t v, coerceValItems s dflt t vs with
    | some h, some r => some (h :: r)
    | _, _ => none

def coerceValFields (s : Schema) (dflt : TypeRef → Value → Option PyVal) (defs : List ArgDef) :
    List (Name × PyVal) → List (Name × Option PyVal)
  | [] => []
  | (n, v) :: fs =>
    let r : Option PyVal :=
      match defs.find? (fun d => d.name == n) with
      | none => none
      | some d => coerceValCore s dflt d.type v
    (n, r) :: coerceValFields s dflt defs fs
end

/-- `coerce_input_value(value, type)` -/
def coerceInputValue (s : Schema) (t : TypeRef) (v : PyVal) : Option PyVal :=
  coerceValCore s (coerceLitN s 8 []) t v

/-- CoerceVariableValues(schema, operation, variableValues): `none` = request error -/
def coerceVariableValues (s : Schema) : List VarDef → Vars → Option Vars
  | [], _ => some []
  | vd :: rest, raw =>
    let here : Option (Option (Name × PyVal)) :=
      match raw.lookup vd.name with
      | none =>
        match vd.default with
        | some lit => (coerceLiteral s [] vd.type lit).map (fun v => some (vd.name, v))
        | none => if vd.type.nonNull then none else some none
      | some v => (coerceInputValue s vd.type v).map (fun c => some (vd.name, c))
    match here, coerceVariableValues s rest raw with
    | some (some kv), some r => some (kv :: r)
    | some none, some r => some r
    | _, _ => none

def ops : Ops := { serialize := serialize, coerceLiteral := coerceLiteral }

end Concrete
end Gql.Exec
