/-
C13 — the validation rules execution depends on, transcribed from the specification (§5) as one
executable predicate per operation:

  FieldsOnCorrectType, ScalarLeafs, KnownArgumentNames, UniqueArgumentNames,
  ProvidedRequiredArguments, ValuesOfCorrectType (static input coercion of literals, incl.
  UniqueInputFieldNames and required input fields), KnownTypeNames, KnownFragmentNames,
  FragmentsOnCompositeTypes, PossibleFragmentSpreads, NoFragmentCycles, KnownDirectives /
  UniqueDirectivesPerLocation (for `@skip`/`@include`), VariablesAreInputTypes,
  UniqueVariableNames, NoUndefinedVariables, VariablesInAllowedPosition (with the default-value
  clause of `allowed_variable_usage`).

Rules that only reject harmless documents (unused variables / fragments, lone anonymous
operation, unique operation / fragment names) are deliberately left out: the predicate has to
accept everything `validate()` accepts (checked by `checks/c13.py`), and the soundness theorem is
stronger with fewer hypotheses.  Field merging (OverlappingFieldsCanBeMerged) is C14's subject and
enters the theorems as the hypothesis that the fields of a response key agree on name and
arguments.
-/
import Gql.Exec.Data

namespace Gql.Exec.Valid

def isInputType (s : Schema) (n : Name) : Bool :=
  match s.kind n with
  | .leaf => true
  | .input => true
  | _ => false

def isComposite (s : Schema) (n : Name) : Bool :=
  match s.kind n with
  | .object => true
  | .abstract => true
  | _ => false

def isLeaf (s : Schema) (n : Name) : Bool := s.kind n == .leaf

/-- `schema.get_possible_types` (object type: itself) -/
def possibleTypes (s : Schema) (n : Name) : List Name :=
  match s.lookup n with
  | some (.object ..) => [n]
  | some (.union _ ms) => ms
  | some (.iface ..) =>
    s.types.filterMap (fun d => match d with
      | .object o is _ => if is.contains n then some o else none
      | _ => none)
  | _ => []

/-- `do_types_overlap` -/
def typesOverlap (s : Schema) (a b : Name) : Bool :=
  a == b || (possibleTypes s a).any (fun x => (possibleTypes s b).contains x)

/-- fields of an object or interface type -/
def getFieldAny (s : Schema) (parent field : Name) : Option FieldDef :=
  match s.lookup parent with
  | some (.object _ _ fs) => fs.find? (fun d => d.name == field)
  | some (.iface _ _ fs) => fs.find? (fun d => d.name == field)
  | _ => none

/-- `is_type_sub_type_of` on input types -/
def isSubTypeRef : TypeRef → TypeRef → Bool
  | .named a na, .named b nb => (!nb || na) && a == b
  | .list x na, .list y nb => (!nb || na) && isSubTypeRef x y
  | _, _ => false

/-- `allowed_variable_usage` (variables_in_allowed_position.py) -/
def allowedUsage (varType : TypeRef) (varDefault : Option Value) (locType : TypeRef)
    (locHasDefault : Bool) : Bool :=
  if locType.nonNull && !varType.nonNull then
    let hasNonNullVarDefault := match varDefault with
      | some .null => false
      | some _ => true
      | none => false
    if !hasNonNullVarDefault && !locHasDefault then false
    else isSubTypeRef varType locType.nullable
  else isSubTypeRef varType locType

def scalarAccepts (nm : Name) : Value → Bool
  | .int i =>
    if nm == "Int" then (-2147483648 ≤ i && i ≤ 2147483647)
    else nm == "Float" || nm == "ID"
  | .flt _ => nm == "Float"
  | .str _ => nm == "String" || nm == "ID"
  | .bool _ => nm == "Boolean"
  | _ => false

def nodupNames : List Name → Bool
  | [] => true
  | n :: rest => !rest.contains n && nodupNames rest

/-- `@oneOf` input object literal: exactly one field, not the `null` literal, and a variable
there must be of a Non-Null type (VariablesInAllowedPosition, OneOf clause) -/
def oneOfOk (env : List VarDef) (fs : List (Name × Value)) : Bool :=
  match fs with
  | [(_, v)] =>
    (match v with
      | .null => false
      | .var x => (match env.find? (fun vd => vd.name == x) with
        | some vd => vd.type.nonNull
        | none => false)
      | _ => true)
  | _ => false

mutual
/-- ValuesOfCorrectType + VariablesInAllowedPosition + NoUndefinedVariables for a value in a
position of type `t` whose location has a default iff `locDefault`. -/
def validValue (s : Schema) (env : List VarDef) : TypeRef → Bool → Value → Bool
  | t, locDefault, .var x =>
    match env.find? (fun vd => vd.name == x) with
    | none => false
    | some vd => allowedUsage vd.type vd.default t locDefault
  | t, _, .null => !t.nonNull
  | .list t' _, _, .list vs => validItems s env t' vs
  | .named _ _, _, .list _ => false
  | t, _, .obj fs =>
    match s.lookup t.baseName with
    | some (.input _ defs) =>
      nodupNames (fs.map (·.1)) &&
      defs.all (fun d => !d.required || (fs.map (·.1)).contains d.name) &&
      (!s.isOneOf t.baseName || oneOfOk env fs) &&
      validObjFields s env defs fs
    | _ => false
  | t, _, .enum e =>
    match s.lookup t.baseName with
    | some (.enum _ vals) => vals.contains e
    | _ => false
  | t, _, v =>
    match s.lookup t.baseName with
    | some (.scalar nm) => scalarAccepts nm v
    | _ => false

def validItems (s : Schema) (env : List VarDef) (t : TypeRef) : List Value → Bool
  | [] => true
  | v :: vs => validValue s env t false v && validItems s env t vs

def validObjFields (s : Schema) (env : List VarDef) (defs : List ArgDef) :
    List (Name × Value) → Bool
  | [] => true
  | (n, v) :: fs =>
    (match defs.find? (fun d => d.name == n) with
      | none => false
      | some d => validValue s env d.type d.default.isSome v) &&
    validObjFields s env defs fs
end

/-- KnownArgumentNames, UniqueArgumentNames, ProvidedRequiredArguments, ValuesOfCorrectType -/
def validArgs (s : Schema) (env : List VarDef) (defs : List ArgDef) (args : List (Name × Value)) :
    Bool :=
  nodupNames (args.map (·.1)) &&
  args.all (fun p => defs.any (fun d => d.name == p.1) &&
    defs.all (fun d => d.name != p.1 || validValue s env d.type d.default.isSome p.2)) &&
  defs.all (fun d => !d.required || (args.map (·.1)).contains d.name)

/-- only `@skip` / `@include`, each at most once, with a valid `if: Boolean!` -/
def validDirs (s : Schema) (env : List VarDef) (dirs : List Directive) : Bool :=
  nodupNames (dirs.map (·.name)) &&
  dirs.all (fun d => (d.name == "skip" || d.name == "include") &&
    validArgs s env [{ name := "if", type := boolNN, default := none }] d.args)

structure VCtx where
  schema : Schema
  doc : Doc
  env : List VarDef

mutual
def validSel (cx : VCtx) (parent : Name) : Selection → Bool
  | .field _ name args dirs sels =>
    validDirs cx.schema cx.env dirs &&
    (if name == "__typename" then args.isEmpty && sels.isEmpty
     else match getFieldAny cx.schema parent name with
      | none => false
      | some fd =>
        validArgs cx.schema cx.env fd.args args &&
        (if isLeaf cx.schema fd.type.baseName then sels.isEmpty
         else !sels.isEmpty && validSels cx fd.type.baseName sels))
  | .inline cond dirs sels =>
    validDirs cx.schema cx.env dirs &&
    (match cond with
      | none => validSels cx parent sels
      | some c => isComposite cx.schema c && typesOverlap cx.schema c parent && validSels cx c sels)
  | .spread name dirs =>
    validDirs cx.schema cx.env dirs &&
    (match cx.doc.frag name with
      | none => false
      | some fr => isComposite cx.schema fr.cond && typesOverlap cx.schema fr.cond parent)

def validSels (cx : VCtx) (parent : Name) : List Selection → Bool
  | [] => true
  | sel :: rest => validSel cx parent sel && validSels cx parent rest
end

mutual
/-- names of the fragments spread (directly) in a selection set -/
def spreadsInSel : Selection → List Name
  | .field _ _ _ _ sels => spreadsIn sels
  | .inline _ _ sels => spreadsIn sels
  | .spread name _ => [name]

def spreadsIn : List Selection → List Name
  | [] => []
  | sel :: rest => spreadsInSel sel ++ spreadsIn rest
end

def addNames (acc : List Name) : List Name → List Name
  | [] => acc
  | n :: rest => addNames (if acc.contains n then acc else acc ++ [n]) rest

/-- one step of the transitive closure of "spreads" -/
def reachStep (d : Doc) (acc : List Name) : List Name :=
  addNames acc (acc.flatMap (fun n => match d.frag n with
    | some fr => spreadsIn fr.sels
    | none => []))

def reachIter (d : Doc) : Nat → List Name → List Name
  | 0, acc => acc
  | k + 1, acc => reachIter d k (reachStep d acc)

/-- the fragments an operation / selection set can reach through spreads -/
def reachable (d : Doc) (sels : List Selection) : List Name :=
  reachIter d d.frags.length (addNames [] (spreadsIn sels))

/-- the set `r` of fragment names is closed under "spreads" (a run-time certificate that the
breadth-first closure `reachable` has reached its fixpoint; it always has — at most
`d.frags.length` rounds add a new fragment definition — and checking it makes the closure
property available to the soundness proof without a counting argument) -/
def reachClosed (d : Doc) (r : List Name) : Bool :=
  (r.flatMap (fun n => match d.frag n with
    | some fr => spreadsIn fr.sels
    | none => [])).all (fun m => r.contains m)

/-- NoFragmentCycles -/
def acyclic (d : Doc) : Bool :=
  d.frags.all (fun fr => !(reachable d fr.sels).contains fr.name)

/-- VariablesAreInputTypes, UniqueVariableNames, valid default values -/
def validVarDefs (s : Schema) (vds : List VarDef) : Bool :=
  nodupNames (vds.map (·.name)) &&
  vds.all (fun vd => isInputType s vd.type.baseName &&
    (match vd.default with
      | none => true
      | some v => validValue s [] vd.type false v))

def rootTypeOf (s : Schema) (k : OpKind) : Option Name :=
  let n? := match k with
    | .query => some s.query
    | .mutation => s.mutation
  match n? with
  | some n => if s.kind n == .object then some n else none
  | none => none

/-- the operation `op` of `doc` passes the rules execution depends on -/
def validOp (s : Schema) (doc : Doc) (op : Operation) : Bool :=
  let cx : VCtx := { schema := s, doc := doc, env := op.vars }
  match rootTypeOf s op.kind with
  | none => false
  | some root =>
    validVarDefs s op.vars &&
    validSels cx root op.sels &&
    (reachable doc op.sels).all (fun n => match doc.frag n with
      | some fr => validSels cx fr.cond fr.sels
      | none => false) &&
    (spreadsIn op.sels).all (fun m => (reachable doc op.sels).contains m) &&
    reachClosed doc (reachable doc op.sels) &&
    acyclic doc

def validDoc (s : Schema) (doc : Doc) : Bool := doc.ops.all (validOp s doc)

/-! ### the run-time exception of the specification

A nullable variable whose runtime value is `null` (given, or by a `null` default) sits in a
Non-Null position.  In a document accepted by the rules such a usage exists only where it was
allowed because a default exists (the variable's or the position's), which is exactly the case
the specification defers to run time.  Decided per position: list items have no default, an
input-object field has one only if its definition declares it. -/

mutual
def excValue (s : Schema) (env : List VarDef) (vars : Vars) : TypeRef → Value → Bool
  | t, .var x =>
    match env.find? (fun vd => vd.name == x), vars.lookup x with
    | some vd, some .null => t.nonNull && !vd.type.nonNull
    | _, _ => false
  | .list t' _, .list vs => excItems s env vars t' vs
  | t, .obj fs =>
    match s.lookup t.baseName with
    | some (.input _ defs) => excFields s env vars defs fs
    | _ => false
  | _, _ => false
def excItems (s : Schema) (env : List VarDef) (vars : Vars) (t : TypeRef) : List Value → Bool
  | [] => false
  | v :: vs => excValue s env vars t v || excItems s env vars t vs
def excFields (s : Schema) (env : List VarDef) (vars : Vars) (defs : List ArgDef) :
    List (Name × Value) → Bool
  | [] => false
  | (n, v) :: fs =>
    (match defs.find? (fun d => d.name == n) with
      | some d => excValue s env vars d.type v
      | none => false) || excFields s env vars defs fs
end

def excArgs (s : Schema) (env : List VarDef) (vars : Vars) (defs : List ArgDef)
    (args : List (Name × Value)) : Bool :=
  args.any (fun p => defs.any (fun d => d.name == p.1 && excValue s env vars d.type p.2))

def excDirs (s : Schema) (env : List VarDef) (vars : Vars) (dirs : List Directive) : Bool :=
  dirs.any (fun d => excArgs s env vars [{ name := "if", type := boolNN, default := none }] d.args)

mutual
def excSel (s : Schema) (env : List VarDef) (vars : Vars) (parent : Name) : Selection → Bool
  | .field _ name args dirs sels =>
    excDirs s env vars dirs ||
    (match getFieldAny s parent name with
      | some fd => excArgs s env vars fd.args args || excSels s env vars fd.type.baseName sels
      | none => false)
  | .inline cond dirs sels =>
    excDirs s env vars dirs ||
    excSels s env vars (match cond with | some c => c | none => parent) sels
  | .spread _ dirs => excDirs s env vars dirs
def excSels (s : Schema) (env : List VarDef) (vars : Vars) (parent : Name) : List Selection → Bool
  | [] => false
  | sel :: rest => excSel s env vars parent sel || excSels s env vars parent rest
end

/-- the run-time exception applies to this request -/
def mayHitNullViaDefault (s : Schema) (doc : Doc) (op : Operation) (vars : Vars) : Bool :=
  match rootTypeOf s op.kind with
  | none => false
  | some root =>
    excSels s op.vars vars root op.sels ||
    (reachable doc op.sels).any (fun n => match doc.frag n with
      | some fr => excSels s op.vars vars fr.cond fr.sels
      | none => false)

end Gql.Exec.Valid
