/-
C13 — the validation rules execution depends on, transcribed from the specification (§5) as one
executable predicate per operation:

  FieldsOnCorrectType, ScalarLeafs, KnownArgumentNames, UniqueArgumentNames,
  ProvidedRequiredArguments, ValuesOfCorrectType (static input coercion of literals, incl.
  UniqueInputFieldNames and required input fields), KnownTypeNames, KnownFragmentNames,
  FragmentsOnCompositeTypes, PossibleFragmentSpreads, NoFragmentCycles, KnownDirectives /
  UniqueDirectivesPerLocation (for `@skip`/`@include`), VariablesAreInputTypes,
  UniqueVariableNames, NoUndefinedVariables, VariablesInAllowedPosition (with the default-value
  clause of `allowed_variable_usage`).

Rules that only reject harmless documents (unused variables / fragments, lone anonymous
operation, unique operation / fragment names) are deliberately left out: the predicate has to
accept everything `validate()` accepts (checked by `checks/c13.py`), and the soundness theorem is
stronger with fewer hypotheses.  Field merging (OverlappingFieldsCanBeMerged) is C14's subject and
enters the theorems as the hypothesis that the fields of a response key agree on name and
arguments.
-/
import Gql.Exec.Data

namespace Gql.Exec.Valid

def isInputType (s : Schema) (n : Name) : Bool :=
  match s.kind n with
  | .leaf => true
  | .input => true
  | _ => false

def isComposite (s : Schema) (n : Name) : Bool :=
  match s.kind n with
  | .object => true
  | .abstract => true
  | _ => false

def isLeaf (s : Schema) (n : Name) : Bool := s.kind n == .leaf

/-- `schema.get_possible_types` (object type: itself) -/
def possibleTypes (s : Schema) (n : Name) : List Name :=
  match s.lookup n with
  | some (.object ..) => [n]
  | some (.union _ ms) => ms
  | some (.iface ..) =>
    s.types.filterMap (fun d => match d with
      | .object o is _ => if is.contains n then some o else none
      | _ => none)
  | _ => []

/-- `do_types_overlap` -/
def typesOverlap (s : Schema) (a b : Name) : Bool :=
  a == b || (possibleTypes s a).any (fun x => (possibleTypes s b).contains x)

/-- fields of an object or interface type -/
def getFieldAny (s : Schema) (parent field : Name) : Option FieldDef :=
  match s.lookup parent with
  | some (.object _ _ fs) => fs.find? (fun d => d.name == field)
  | some (.iface _ _ fs) => fs.find? (fun d => d.name == field)
  | _ => none

/-- `is_type_sub_type_of` on input types -/
def isSubTypeRef : TypeRef → TypeRef → Bool
  | .named a na, .named b nb => (!nb || na) && a == b
  | .list x na, .list y nb => (!nb || na) && isSubTypeRef x y
  | _, _ => false

/-- `allowed_variable_usage` (variables_in_allowed_position.py) -/
def allowedUsage (varType : TypeRef) (varDefault : Option Value) (locType : TypeRef)
    (locHasDefault : Bool) : Bool :=
  if locType.nonNull && !varType.nonNull then
    let hasNonNullVarDefault := match varDefault with
      | some .null => false
      | some _ => true
      | none => false
    if !hasNonNullVarDefault && !locHasDefault then false
    else isSubTypeRef varType locType.nullable
  else isSubTypeRef varType locType

def scalarAccepts (nm : Name) : Value → Bool
  | .int i =>
    if nm == "Int" then (-2147483648 ≤ i && i ≤ 2147483647)
    else nm == "Float" || nm == "ID"
  | .flt _ => nm == "Float"
  | .str _ => nm == "String" || nm == "ID"
  | .bool _ => nm == "Boolean"
  | _ => false

def nodupNames : List Name → Bool
  | [] => true
  | n :: rest => !rest.contains n && nodupNames rest

mutual
/-- ValuesOfCorrectType + VariablesInAllowedPosition + NoUndefinedVariables for a value in a
position of type `t` whose location has a default iff `locDefault`. -/
def validValue (s : Schema) (env : List VarDef) : TypeRef → Bool → Value → Bool
  | t, locDefault, .var x =>
    match env.find? (fun vd => vd.name == x) with
    | none => false
    | some vd => allowedUsage vd.type vd.default t locDefault
  | t, _, .null => !t.nonNull
  | .list t' _, _, .list vs => validItems s env t' vs
  | .named _ _, _, .list _ => false
  | t, _, .obj fs =>
    match s.lookup t.baseName with
    | some (.input _ defs) =>
      nodupNames (fs.map (·.1)) &&
      defs.all (fun d => !d.required || (fs.map (·.1)).contains d.name) &&
      validObjFields s env defs fs
    | _ => false
  | t, _, .enum e =>
    match s.lookup t.baseName with
    | some (.enum _ vals) => vals.contains e
    | _ => false
  | t, _, v =>
    match s.lookup t.baseName with
    | some (.scalar nm) => scalarAccepts nm v
    | _ => false

def validItems (s : Schema) (env : List VarDef) (t : TypeRef) : List Value → Bool
  | [] => true
  | v :: vs => validValue s env t false v && validItems s env t vs

def validObjFields (s : Schema) (env : List VarDef) (defs : List ArgDef) :
    List (Name × Value) → Bool
  | [] => true
  | (n, v) :: fs =>
    (match defs.find? (fun d => d.name == n) with
      | none => false
      | some d => validValue s env d.type d.default.isSome v) &&
    validObjFields s env defs fs
end

/-- KnownArgumentNames, UniqueArgumentNames, ProvidedRequiredArguments, ValuesOfCorrectType -/
def validArgs (s : Schema) (env : List VarDef) (defs : List ArgDef) (args : List (Name × Value)) :
    Bool :=
  nodupNames (args.map (·.1)) &&
  args.all (fun p => defs.any (fun d => d.name == p.1) &&
    defs.all (fun d => d.name != p.1 || validValue s env d.type d.default.isSome p.2)) &&
  defs.all (fun d => !d.required || (args.map (·.1)).contains d.name)

/-- only `@skip` / `@include`, each at most once, with a valid `if: Boolean!` -/
def validDirs (s : Schema) (env : List VarDef) (dirs : List Directive) : Bool :=
  nodupNames (dirs.map (·.name)) &&
  dirs.all (fun d => (d.name == "skip" || d.name == "include") &&
    validArgs s env [{ name := "if", type := boolNN, default := none }] d.args)

structure VCtx where
  schema : Schema
  doc : Doc
  env : List VarDef

mutual
def validSel (cx : VCtx) (parent : Name) : Selection → Bool
  | .field _ name args dirs sels =>
    validDirs cx.schema cx.env dirs &&
    (if name == "__typename" then args.isEmpty && sels.isEmpty
     else match getFieldAny cx.schema parent name with
      | none => false
      | some fd =>
        validArgs cx.schema cx.env fd.args args &&
        (if isLeaf cx.schema fd.type.baseName then sels.isEmpty
         else !sels.isEmpty && validSels cx fd.type.baseName sels))
  | .inline cond dirs sels =>
    validDirs cx.schema cx.env dirs &&
    (match cond with
      | none => validSels cx parent sels
      | some c => isComposite cx.schema c && typesOverlap cx.schema c parent && validSels cx c sels)
  | .spread name dirs =>
    validDirs cx.schema cx.env dirs &&
    (match cx.doc.frag name with
      | none => false
      | some fr => isComposite cx.schema fr.cond && typesOverlap cx.schema fr.cond parent)

def validSels (cx : VCtx) (parent : Name) : List Selection → Bool
  | [] => true
  | sel :: rest => validSel cx parent sel && validSels cx parent rest
end

mutual
/-- names of the fragments spread (directly) in a selection set -/
def spreadsInSel : Selection → List Name
  | .field _ _ _ _ sels => spreadsIn sels
  | .inline _ _ sels => spreadsIn sels
  | .spread name _ => [name]

def spreadsIn : List Selection → List Name
  | [] => []
  | sel :: rest => spreadsInSel sel ++ spreadsIn rest
end

def addNames (acc : List Name) : List Name → List Name
  | [] => acc
  | n :: rest => addNames (if acc.contains n then acc else acc ++ [n]) rest

/-- one step of the transitive closure of "spreads" -/
def reachStep (d : Doc) (acc : List Name) : List Name :=
  addNames acc (acc.flatMap (fun n => match d.frag n with
    | some fr => spreadsIn fr.sels
    | none => []))

def reachIter (d : Doc) : Nat → List Name → List Name
  | 0, acc => acc
  | k + 1, acc => reachIter d k (reachStep d acc)

/-- the fragments an operation / selection set can reach through spreads -/
def reachable (d : Doc) (sels : List Selection) : List Name :=
  reachIter d d.frags.length (addNames [] (spreadsIn sels))

/-- NoFragmentCycles -/
def acyclic (d : Doc) : Bool :=
  d.frags.all (fun fr => !(reachable d fr.sels).contains fr.name)

/-- VariablesAreInputTypes, UniqueVariableNames, valid default values -/
def validVarDefs (s : Schema) (vds : List VarDef) : Bool :=
  nodupNames (vds.map (·.name)) &&
  vds.all (fun vd => isInputType s vd.type.baseName &&
    (match vd.default with
      | none => true
      | some v => validValue s [] vd.type false v))

def rootTypeOf (s : Schema) (k : OpKind) : Option Name :=
  let n? := match k with
    | .query => some s.query
    | .mutation => s.mutation
  match n? with
  | some n => if s.kind n == .object then some n else none
  | none => none

/-- the operation `op` of `doc` passes the rules execution depends on -/
def validOp (s : Schema) (doc : Doc) (op : Operation) : Bool :=
  let cx : VCtx := { schema := s, doc := doc, env := op.vars }
  match rootTypeOf s op.kind with
  | none => false
  | some root =>
    validVarDefs s op.vars &&
    validSels cx root op.sels &&
    (reachable doc op.sels).all (fun n => match doc.frag n with
      | some fr => validSels cx fr.cond fr.sels
      | none => false) &&
    acyclic doc

def validDoc (s : Schema) (doc : Doc) : Bool := doc.ops.all (validOp s doc)

/-! ### the run-time exception of the specification -/

mutual
/-- does the value use a variable that has the runtime value `null` (or no value with a `null`
default) … -/
def usesNullVar (vars : Vars) : Value → Bool
  | .var x => match vars.lookup x with
    | some .null => true
    | _ => false
  | .list vs => usesNullVarL vars vs
  | .obj fs => usesNullVarO vars fs
  | _ => false
def usesNullVarL (vars : Vars) : List Value → Bool
  | [] => false
  | v :: vs => usesNullVar vars v || usesNullVarL vars vs
def usesNullVarO (vars : Vars) : List (Name × Value) → Bool
  | [] => false
  | (_, v) :: fs => usesNullVar vars v || usesNullVarO vars fs
end

mutual
def nullVarInSel (vars : Vars) : Selection → Bool
  | .field _ _ args dirs sels =>
    args.any (fun p => usesNullVar vars p.2) ||
    dirs.any (fun d => d.args.any (fun p => usesNullVar vars p.2)) || nullVarInSels vars sels
  | .inline _ dirs sels =>
    dirs.any (fun d => d.args.any (fun p => usesNullVar vars p.2)) || nullVarInSels vars sels
  | .spread _ dirs => dirs.any (fun d => d.args.any (fun p => usesNullVar vars p.2))
def nullVarInSels (vars : Vars) : List Selection → Bool
  | [] => false
  | sel :: rest => nullVarInSel vars sel || nullVarInSels vars rest
end

/-- Conservative over-approximation of "a nullable variable that is null reaches a position":
some variable with runtime value `null` is used somewhere in the operation or its fragments.
When this is false the run-time exception of the property cannot apply. -/
def mayHitNullViaDefault (doc : Doc) (op : Operation) (vars : Vars) : Bool :=
  nullVarInSels vars op.sels ||
  (reachable doc op.sels).any (fun n => match doc.frag n with
    | some fr => nullVarInSels vars fr.sels
    | none => false)

end Gql.Exec.Valid
