/-
C02 — model of the synchronous executor, mirroring
  executor.py   execute_operation, execute_fields(_serially), execute_field, complete_value,
                complete_list_value/complete_iterable_value/complete_list_item_value,
                complete_leaf_value, complete_abstract_value, ensure_valid_runtime_type,
                complete_object_value, collect_subfields (memo), handle_field_error,
                CollectedErrors.add / has_nulled_position
  collect_fields.py  collect_fields, collect_subfields, collect_fields_impl,
                should_include_node, does_fragment_condition_match
  values.py     get_argument_values, coerce_argument, maybe_use_default_value
  coerce_input_value.py  coerce_default_value (the memo on default inputs)

State (`EState`): the collected errors and nulled positions, the resolver call log, the heap of
allocated `FieldDetails` (object identity = allocation serial = index in the heap, never reused),
the sub-selection memo keyed on `(return type, serials)`, and the memo of coerced argument
defaults (the only state that survives a request).

Python exceptions: `Exn.raw k` is an exception that is not yet located, `Exn.located e` a
`GraphQLError` that already has a path (`located_error` returns it unchanged).  Everything that
can raise inside `execute_field` sits inside its `try … except Exception`, so there is no crash
site there; the two `crash`es of the model are `field_details_list[0]` on an empty list
(`IndexError`) and fragment recursion running out of fuel (`RecursionError`) — both are proved
unreachable (`Gql.Props.C02.impl_no_crash`, `collect_terminates`).

Without awaitables `execute_fields_serially` (mutations) computes the same as `execute_fields`.
For a non-null result `completed` is a list, a dict or a non-`None` leaf, so the `completed is None`
test of the NonNull branch of `complete_value` only fires for a `None`/`Undefined` result; the
model tests it there.
-/
import Gql.Exec.Data

namespace Gql.Exec.Impl

structure FieldDetails where
  serial : Nat
  node : FieldNode
  deriving Repr, Inhabited

/-- `GroupedFieldSet`: insertion-ordered dict response key → field details list. -/
abbrev Groups := List (Name × List FieldDetails)

/-- `grouped_field_set[key].append(fd)` on a `defaultdict(list)`. -/
def addField : Groups → Name → FieldDetails → Groups
  | [], k, fd => [(k, [fd])]
  | (k', fds) :: rest, k, fd =>
    if k' == k then (k', fds ++ [fd]) :: rest else (k', fds) :: addField rest k fd

/-- `Path` segment; field segments carry the parent type name (`Path.typename`). -/
inductive ISeg where
  | key (k : Name) (parent : Name)
  | idx (i : Nat)
  deriving Repr, DecidableEq, Inhabited

/-- `Path` linked list: innermost segment first (`prev` = tail). -/
abbrev IPath := List ISeg

def ISeg.toP : ISeg → PSeg
  | .key k _ => .key k
  | .idx i => .idx i

/-- `Path.as_list()` -/
def asList (p : IPath) : List PSeg := p.reverse.map ISeg.toP

inductive Exn where
  | raw (k : ErrKind)
  | located (e : FErr)
  deriving Repr, Inhabited

/-- identity of an argument definition (owner type, field, position in the field's argument
dict): the hidden memo lives on the argument's `GraphQLDefaultInput` object -/
abbrev DKey := Name × Name × Nat
abbrev DMemo := List (DKey × PyVal)
abbrev MemoKey := Name × List Nat

structure EState where
  errors : List FErr
  positions : List (Option IPath)
  log : List Call
  heap : List FieldNode
  memo : List (MemoKey × Groups)
  dmemo : DMemo
  deriving Inhabited

abbrev M (α : Type) := EState → Out Exn α × EState

namespace M
@[inline] def pure {α} (a : α) : M α := fun st => (.ok a, st)
@[inline] def bind {α β} (x : M α) (f : α → M β) : M β := fun st =>
  match x st with
  | (.ok a, st') => f a st'
  | (.err e, st') => (.err e, st')
  | (.crash c, st') => (.crash c, st')
@[inline] def throw {α} (e : Exn) : M α := fun st => (.err e, st)
@[inline] def crash {α} (c : String) : M α := fun st => (.crash c, st)
end M

instance : Monad M where
  pure := M.pure
  bind := M.bind

structure Ctx where
  ops : Ops
  schema : Schema
  doc : Doc
  vars : Vars

/-! ### collect_fields.py -/

/-- `get_argument_values(GraphQL{Skip,Include}Directive, directive_node, variable_values)["if"]`
as Python truthiness. -/
def dirIf (cx : Ctx) (d : Directive) : Out Exn Bool :=
  match lookupArg d.args "if" with
  | none => .err (.raw .directiveCoercion)
  | some v =>
    match cx.ops.coerceLiteral cx.schema cx.vars boolNN v with
    | some r => .ok r.truthy
    | none => .err (.raw .directiveCoercion)

/-- `should_include_node` -/
def shouldInclude (cx : Ctx) (dirs : List Directive) : Out Exn Bool :=
  let incl : Out Exn Bool :=
    match dirs.find? (fun d => d.name == "include") with
    | none => .ok true
    | some d => dirIf cx d
  match dirs.find? (fun d => d.name == "skip") with
  | none => incl
  | some d =>
    match dirIf cx d with
    | .ok true => .ok false
    | .ok false => incl
    | .err e => .err e
    | .crash c => .crash c

/-- `does_fragment_condition_match` -/
def condMatch (s : Schema) (cond : Option Name) (rt : Name) : Bool :=
  match cond with
  | none => true
  | some c =>
    match s.lookup c with
    | none => false
    | some _ => if c == rt then true else if s.kind c == .abstract then s.isSubType c rt else false

structure CState where
  groups : Groups
  visited : List Name
  heap : List FieldNode

mutual
/-- `collect_fields_impl` loop; `recur` is the call on a fragment definition's selection set. -/
def collectSels (cx : Ctx) (rt : Name) (recur : List Selection → CState → Out Exn CState) :
    List Selection → CState → Out Exn CState
  | [], st => .ok st
  | sel :: rest, st =>
    match collectSel cx rt recur sel st with
    | .ok st' => collectSels cx rt recur rest st'
    | .err e => .err e
    | .crash c => .crash c

def collectSel (cx : Ctx) (rt : Name) (recur : List Selection → CState → Out Exn CState) :
    Selection → CState → Out Exn CState
  | .field alias name args dirs sels, st =>
    match shouldInclude cx dirs with
    | .ok true =>
      let node : FieldNode := { alias := alias, name := name, args := args, dirs := dirs, sels := sels }
      .ok { st with groups := addField st.groups node.key ⟨st.heap.length, node⟩,
                    heap := st.heap ++ [node] }
    | .ok false => .ok st
    | .err e => .err e
    | .crash c => .crash c
  | .inline cond dirs sels, st =>
    match shouldInclude cx dirs with
    | .ok true => if condMatch cx.schema cond rt then collectSels cx rt recur sels st else .ok st
    | .ok false => .ok st
    | .err e => .err e
    | .crash c => .crash c
  | .spread name dirs, st =>
    match shouldInclude cx dirs with
    | .ok true =>
      match cx.doc.frag name with
      | none => .ok st
      | some fr =>
        if !condMatch cx.schema (some fr.cond) rt then .ok st
        else if st.visited.contains name then .ok st
        else recur fr.sels { st with visited := name :: st.visited }
    | .ok false => .ok st
    | .err e => .err e
    | .crash c => .crash c
end

/-- Fragment nesting is cut by the visited map; the fuel bounds the *nesting* of distinct
fragments, `doc.frags.length + 1` always suffices (`Gql.Props.C02.collect_terminates`). -/
def collectFuel (cx : Ctx) (rt : Name) : Nat → List Selection → CState → Out Exn CState
  | 0 => fun _ _ => .crash "RecursionError"
  | n + 1 => collectSels cx rt (collectFuel cx rt n)

def fuelOf (d : Doc) : Nat := d.frags.length + 1

/-- `collect_fields(schema, fragments, variable_values, runtime_type, operation)` -/
def collectRoot (cx : Ctx) (rt : Name) (sels : List Selection) (heap : List FieldNode) :
    Out Exn (Groups × List FieldNode) :=
  match collectFuel cx rt (fuelOf cx.doc) sels { groups := [], visited := [], heap := heap } with
  | .ok st => .ok (st.groups, st.heap)
  | .err e => .err e
  | .crash c => .crash c

/-- the loop of `collect_subfields` over the field details (one shared context / visited map) -/
def collectSubLoop (cx : Ctx) (rt : Name) : List FieldDetails → CState → Out Exn CState
  | [], st => .ok st
  | fd :: rest, st =>
    match collectFuel cx rt (fuelOf cx.doc) fd.node.sels st with
    | .ok st' => collectSubLoop cx rt rest st'
    | .err e => .err e
    | .crash c => .crash c

/-- `collect_subfields(schema, fragments, variable_values, operation, return_type, field_details_list)` -/
def collectSubfields (cx : Ctx) (rt : Name) (fds : List FieldDetails) (heap : List FieldNode) :
    Out Exn (Groups × List FieldNode) :=
  match collectSubLoop cx rt fds { groups := [], visited := [], heap := heap } with
  | .ok st => .ok (st.groups, st.heap)
  | .err e => .err e
  | .crash c => .crash c

def memoGet (m : List (MemoKey × Groups)) (k : MemoKey) : Option Groups :=
  (m.find? (fun e => e.1 == k)).map (·.2)

/-- `Executor.collect_subfields`: memo keyed on `(return_type, *map(id, field_details_list))`. -/
def collectSubfieldsM (cx : Ctx) (rt : Name) (fds : List FieldDetails) : M Groups := fun st =>
  let key : MemoKey := (rt, fds.map (·.serial))
  match memoGet st.memo key with
  | some g => (.ok g, st)
  | none =>
    match collectSubfields cx rt fds st.heap with
    | .ok (g, heap') => (.ok g, { st with heap := heap', memo := st.memo ++ [(key, g)] })
    | .err e => (.err e, st)
    | .crash c => (.crash c, st)

/-! ### values.py -/

def dmemoGet (m : DMemo) (k : DKey) : Option PyVal :=
  (m.find? (fun e => e.1 == k)).map (·.2)

/-- `maybe_use_default_value` → `coerce_default_value` with the hidden memo on the default input. -/
def useDefault (cx : Ctx) (key : DKey) (a : ArgDef) (acc : ArgMap) : M ArgMap := fun st =>
  match a.default with
  | none => (.ok acc, st)
  | some lit =>
    match dmemoGet st.dmemo key with
    | some v => (.ok (acc.set a.name v), st)
    | none =>
      match cx.ops.coerceLiteral cx.schema [] a.type lit with
      | some v => (.ok (acc.set a.name v), { st with dmemo := st.dmemo ++ [(key, v)] })
      | none => (.err (.raw .argCoercion), st)

/-- `coerce_argument` -/
def coerceArgument (cx : Ctx) (key : DKey) (args : List (Name × Value)) (a : ArgDef)
    (acc : ArgMap) : M ArgMap :=
  match lookupArg args a.name with
  | none =>
    if a.required then M.throw (.raw .argCoercion) else useDefault cx key a acc
  | some v =>
    let missingVar : Bool :=
      match v with
      | .var x => (cx.vars.lookup x).isNone
      | _ => false
    if missingVar && !a.required then useDefault cx key a acc
    else
      match cx.ops.coerceLiteral cx.schema cx.vars a.type v with
      | some r => M.pure (acc.set a.name r)
      | none => M.throw (.raw .argCoercion)

/-- `get_argument_values(field_def, node, variable_values)` -/
def getArgumentValues (cx : Ctx) (owner field : Name) (args : List (Name × Value)) :
    Nat → List ArgDef → ArgMap → M ArgMap
  | _, [], acc => M.pure acc
  | i, a :: rest, acc =>
    M.bind (coerceArgument cx (owner, field, i) args a acc)
      (getArgumentValues cx owner field args (i + 1) rest)

/-! ### error handling -/

/-- `CollectedErrors.has_nulled_position` -/
def hasNulled (positions : List (Option IPath)) : IPath → Bool
  | [] => positions.contains (some []) || positions.contains none
  | seg :: prev => positions.contains (some (seg :: prev)) || hasNulled positions prev

def hasNulledOpt (positions : List (Option IPath)) : Option IPath → Bool
  | some p => hasNulled positions p
  | none => positions.contains none

/-- `CollectedErrors.add` -/
def addError (e : FErr) (pos : Option IPath) : M Unit := fun st =>
  if hasNulledOpt st.positions pos then (.ok (), st)
  else (.ok (), { st with positions := st.positions ++ [pos], errors := st.errors ++ [e] })

def locate (e : Exn) (path : IPath) : FErr :=
  match e with
  | .raw k => { path := some (asList path), kind := k }
  | .located e => e

/-- `handle_field_error` -/
def handleFieldError (e : Exn) (t : TypeRef) (path : IPath) : M Unit :=
  if t.nonNull then M.throw (.located (locate e path))
  else addError (locate e path) (some path)

/-- `try: <body> except Exception as raw_error: handle_field_error(...); <None>` -/
def protect (t : TypeRef) (path : IPath) (body : M Json) : M Json := fun st =>
  match body st with
  | (.ok j, st') => (.ok j, st')
  | (.err e, st') =>
    match handleFieldError e t path st' with
    | (.ok _, st'') => (.ok .null, st'')
    | (.err e', st'') => (.err e', st'')
    | (.crash c, st'') => (.crash c, st'')
  | (.crash c, st') => (.crash c, st')

def logCall (c : Call) : M Unit := fun st => (.ok (), { st with log := st.log ++ [c] })

/-! ### executor.py -/

/-- `ensure_valid_runtime_type` (result: the runtime object type name) -/
def ensureValidRuntimeType (s : Schema) (abs : Name) : TN → Except ErrKind Name
  | .missing => .error .abstractUnresolved
  | .bad => .error .abstractBadName
  | .name n =>
    match s.lookup n with
    | none => .error .abstractUnknown
    | some (.object ..) => if s.isSubType abs n then .ok n else .error .abstractNotPossible
    | some _ => .error .abstractNonObject

/-- `complete_leaf_value` -/
def completeLeaf (cx : Ctx) (n : Name) (l : PyLeaf) : M Json :=
  match cx.ops.serialize cx.schema n l with
  | some .null => M.throw (.raw .leaf)
  | some j => M.pure j
  | none => M.throw (.raw .leaf)

/-- `complete_value` on `None`/`Undefined` -/
def completeNull (t : TypeRef) : M Json :=
  if t.nonNull then M.throw (.raw .nullNonNull) else M.pure .null

/-- How the children of the current source value are completed: field name, coerced arguments,
field type, field details, field path. -/
abbrev Child := Name → ArgMap → TypeRef → List FieldDetails → IPath → M Json

def typenameType : TypeRef := .named "String" true

/-- `execute_field` (`none` = `Undefined`: no such field on the parent type). -/
def executeField (cx : Ctx) (parent : Name) (child : Child) (path : IPath)
    (fds : List FieldDetails) : M (Option Json) :=
  match fds with
  | [] => M.crash "IndexError"
  | fd0 :: _ =>
    let name := fd0.node.name
    if name == "__typename" then
      -- TypeNameMetaFieldDef: `String!`, own resolver returning `info.parent_type.name`
      M.bind (protect typenameType path
        (completeLeaf cx "String" (.str (parent.toList.map Char.toNat)))) (fun j => M.pure (some j))
    else
      match cx.schema.getField parent name with
      | none => M.pure none
      | some fdef =>
        M.bind (protect fdef.type path
          (M.bind (getArgumentValues cx parent name fd0.node.args 0 fdef.args []) fun args =>
            M.bind (logCall { path := asList path, parent := parent, field := name, args := args })
              fun _ => child name args fdef.type fds path)) (fun j => M.pure (some j))

/-- `execute_fields` -/
def executeFields (cx : Ctx) (parent : Name) (child : Child) (path : IPath) :
    Groups → M (List (Name × Json))
  | [] => M.pure []
  | (key, fds) :: rest =>
    M.bind (executeField cx parent child (.key key parent :: path) fds) fun r =>
      M.bind (executeFields cx parent child path rest) fun rs =>
        M.pure (match r with
          | some j => (key, j) :: rs
          | none => rs)

/-- `complete_object_value` → `collect_and_execute_subfields` -/
def completeObject (cx : Ctx) (rt : Name) (fds : List FieldDetails) (path : IPath)
    (child : Child) : M Json :=
  M.bind (collectSubfieldsM cx rt fds) fun groups =>
    M.bind (executeFields cx rt child path groups) fun kvs => M.pure (.obj kvs)

/-- `complete_value` for a non-null, non-list result: `leaf?` is the result when it is a leaf,
`tn` what the type resolver returns for it, `child` how its fields resolve. -/
def completeNamed (cx : Ctx) (t : TypeRef) (fds : List FieldDetails) (path : IPath)
    (leaf? : Option PyLeaf) (tn : TN) (child : Child) : M Json :=
  match t with
  | .list _ _ => M.throw (.raw .notIterable)
  | .named n _ =>
    match cx.schema.kind n with
    | .leaf =>
      match leaf? with
      | some l => completeLeaf cx n l
      | none => M.throw (.raw .leaf)
    | .abstract =>
      match ensureValidRuntimeType cx.schema n tn with
      | .ok rt => completeObject cx rt fds path child
      | .error k => M.throw (.raw k)
    | .object => completeObject cx n fds path child
    | _ => M.throw (.raw .badOutputType)

/-- children of a source that is not an object node: every resolver call returns `None` -/
def nullChild : Child := fun _ _ t _ _ => completeNull t

mutual
/-- `complete_value(return_type, field_details_list, info, path, result)` -/
def completeValue (cx : Ctx) (t : TypeRef) (fds : List FieldDetails) (path : IPath) :
    RVal → M Json
  | .raise tag none => M.throw (.raw (.raised tag))
  | .raise tag (some p) => M.throw (.located { path := some p, kind := .raised tag })
  | .null => completeNull t
  | .leaf l => completeNamed cx t fds path (some l) .missing nullChild
  | .list items =>
    match t with
    | .list t' _ => M.bind (completeItems cx t' fds path 0 items) fun js => M.pure (.list js)
    | .named _ _ => completeNamed cx t fds path none .missing nullChild
  | .obj tn f =>
    completeNamed cx t fds path none tn
      (fun name args t' fds' p => completeValue cx t' fds' p (f name args))

/-- `complete_iterable_value` / `complete_list_item_value` -/
def completeItems (cx : Ctx) (t : TypeRef) (fds : List FieldDetails) (path : IPath) (i : Nat) :
    List RVal → M (List Json)
  | [] => M.pure []
  | x :: xs =>
    M.bind (protect t (.idx i :: path) (completeValue cx t fds (.idx i :: path) x)) fun j =>
      M.bind (completeItems cx t fds path (i + 1) xs) fun js => M.pure (j :: js)
end

/-- how the fields of an arbitrary source value resolve (`field_resolver(source, info, **args)`) -/
def childOf (cx : Ctx) (src : RVal) : Child :=
  fun name args t fds p => completeValue cx t fds p (src.child name args)

/-! ### requests -/

/-- operation selection of `Executor.build` -/
def selectOp (ops : List Operation) (opName : Option Name) : Option Operation :=
  match opName with
  | none =>
    match ops with
    | [op] => some op
    | _ => none
  | some n => ops.reverse.find? (fun op => op.name == some n)

def rootType (s : Schema) (k : OpKind) : Option Name :=
  let n? := match k with
    | .query => some s.query
    | .mutation => s.mutation
  match n? with
  | some n => if s.kind n == .object then some n else none
  | none => none

def initState (dm : DMemo) : EState :=
  { errors := [], positions := [], log := [], heap := [], memo := [], dmemo := dm }

/-- `execute_operation` after `build` (variables already coerced): response and the default memo. -/
def executeRequest (ops : Ops) (s : Schema) (doc : Doc) (opName : Option Name) (vars : Vars)
    (root : RVal) (dm : DMemo) : Out Unit Resp × DMemo :=
  let cx : Ctx := { ops := ops, schema := s, doc := doc, vars := vars }
  match selectOp doc.ops opName with
  | none => (.ok { data := .null, errors := [⟨none, .noOperation⟩], log := [] }, dm)
  | some op =>
    let st0 := initState dm
    match rootType s op.kind with
    | none => (.ok { data := .null, errors := [⟨none, .noRootType⟩], log := [] }, dm)
    | some rt =>
      match collectRoot cx rt op.sels st0.heap with
      | .crash c => (.crash c, dm)
      | .err e => (.ok { data := .null, errors := [locateRoot e], log := [] }, dm)
      | .ok (groups, heap) =>
        match executeFields cx rt (childOf cx root) [] groups { st0 with heap := heap } with
        | (.ok kvs, st) => (.ok { data := .obj kvs, errors := st.errors, log := st.log }, st.dmemo)
        | (.err e, st) =>
          match addError (locateRoot e) none st with
          | (_, st') => (.ok { data := .null, errors := st'.errors, log := st'.log }, st'.dmemo)
        | (.crash c, st) => (.crash c, st.dmemo)
where
  locateRoot (e : Exn) : FErr :=
    match e with
    | .raw k => { path := none, kind := k }
    | .located e => e

/-- a request on a fixed schema -/
structure Request where
  doc : Doc
  opName : Option Name
  vars : Vars
  root : RVal

/-- Run a list of requests one after the other on the same schema, threading the state that
survives a request. -/
def runAll (ops : Ops) (s : Schema) : List Request → DMemo → List (Out Unit Resp)
  | [], _ => []
  | r :: rs, dm =>
    let (resp, dm') := executeRequest ops s r.doc r.opName r.vars r.root dm
    resp :: runAll ops s rs dm'

end Gql.Exec.Impl
