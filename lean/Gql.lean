-- This module serves as the root of the `Gql` library.
-- Import modules here that should be built as part of the library.
import Gql.Basic
