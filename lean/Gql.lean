-- Root of the `Gql` library.  The per-property models were built independently and some of them
-- declare the same names (e.g. `Gql.Async.Path`), so there is deliberately no module importing all of
-- them: `./setup.sh` builds every `Gql.Props.Cxx` module and every driver executable instead.
import Gql.Text.Out
