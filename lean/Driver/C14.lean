import Driver.Proto
import Gql.Exec.Overlap
import Gql.Exec.SpecMerge
import Gql.Exec.SpecMergeIds
/-
Line protocol for C14.  One case per line, prefix notation, space separated:

  case   := "case" schema doc
  schema := "S" n typedef*            typedef := name kind(o|i|u|x) n (fname ty)*
  ty     := "l:"name | "c:"name | "L" ty | "N" ty
  doc    := "D" n defn*               defn := "O" (root|"-") selset | "F" name typeCond selset
  selset := id n sel*
  sel    := "f" id (alias|"-") name args ("-" | "+" args) ("0" | "1" selset)
          | "i" (tc|"-") selset | "s" name
  args   := n (name value)*           value := "v:"text | "[" n value* | "{" n (name value)*

Output: `I <impl conflicts | fuel> S <spec: 0|1|fuel> W <argsWF 0|1> B <fuel bound> U <field ids
pairwise different 0|1> T <spec with `__typename` hidden: 0|1|fuel>`, conflicts as
`name,kind,id.id…,id.id…` joined by `;` (`-` when there are none).
-/
open Gql.Exec Driver

abbrev P := StateT (List String) Option

def tok : P String := do
  match (← get) with
  | [] => failure
  | t :: ts => set ts; pure t

def nat : P Nat := do
  match (← tok).toNat? with
  | some n => pure n
  | none => failure

def optName : P (Option String) := do
  let t ← tok
  pure (if t == "-" then none else some t)

partial def rep {α : Type} (n : Nat) (p : P α) : P (List α) :=
  if n == 0 then pure [] else do
    let x ← p
    let xs ← rep (n - 1) p
    pure (x :: xs)

partial def pTy : P Ty := do
  let t ← tok
  if t == "L" then return Ty.list (← pTy)
  if t == "N" then return Ty.nonNull (← pTy)
  if t.startsWith "l:" then return Ty.leaf (t.drop 2).toString
  if t.startsWith "c:" then return Ty.comp (t.drop 2).toString
  failure

def pKind : P Kind := do
  match (← tok) with
  | "o" => pure Kind.object
  | "i" => pure Kind.interface
  | "u" => pure Kind.union
  | "x" => pure Kind.other
  | _ => failure

def pTypeDef : P TypeDef := do
  let name ← tok
  let kind ← pKind
  let n ← nat
  let fields ← rep n (do let f ← tok; let t ← pTy; pure (f, t))
  pure ⟨name, kind, fields⟩

def pSchema : P Schema := do
  let t ← tok
  if t != "S" then failure
  let n ← nat
  rep n pTypeDef

partial def pValue : P Value := do
  let t ← tok
  if t == "[" then
    let n ← nat
    return Value.list (← rep n pValue)
  if t == "{" then
    let n ← nat
    return Value.obj (← rep n (do let k ← tok; let v ← pValue; pure (k, v)))
  if t.startsWith "v:" then return Value.leaf (t.drop 2).toString
  failure

def pArgs : P Args := do
  let n ← nat
  rep n (do let k ← tok; let v ← pValue; pure (k, v))

mutual
partial def pSel : P Sel := do
  let t ← tok
  if t == "f" then
    let id ← nat
    let al ← optName
    let name ← tok
    let args ← pArgs
    let st ← tok
    let stream ← (if st == "+" then do let a ← pArgs; pure (some a) else pure none)
    let hs ← tok
    if hs == "1" then
      let ss ← pSelSet
      return Sel.field id al name args stream true ss.id ss.sels
    else
      return Sel.field id al name args stream false 0 []
  if t == "i" then
    let tc ← optName
    let ss ← pSelSet
    return Sel.inline tc ss.id ss.sels
  if t == "s" then return Sel.spread (← tok)
  failure
partial def pSelSet : P SelSet := do
  let id ← nat
  let n ← nat
  let sels ← rep n pSel
  pure ⟨id, sels⟩
end

def pDefn : P Defn := do
  let t ← tok
  if t == "O" then
    let root ← optName
    let ss ← pSelSet
    return Defn.op root ss
  if t == "F" then
    let name ← tok
    let tc ← tok
    let ss ← pSelSet
    return Defn.frag ⟨name, tc, ss⟩
  failure

def pDoc : P Doc := do
  let t ← tok
  if t != "D" then failure
  let n ← nat
  rep n pDefn

def showIds (xs : List Nat) : String := ".".intercalate (xs.map toString)

def showConflict (c : Overlap.Conflict) : String :=
  s!"{c.responseName},{c.kind},{showIds c.fields1},{showIds c.fields2}"

def showImpl : Option (List Overlap.Conflict) → String
  | none => "fuel"
  | some [] => "-"
  | some cs => ";".intercalate (cs.map showConflict)

def showSpec : Option Bool → String
  | none => "fuel"
  | some true => "1"
  | some false => "0"

def step (line : String) : String :=
  match words line with
  | "case" :: rest =>
    match (do let s ← pSchema; let d ← pDoc; pure (s, d) : P (Schema × Doc)).run rest with
    | some ((s, d), []) =>
      let impl := Overlap.implConflicts s d
      let spec := Spec.specConflictB s d
      let wf := if d.argsWF then 1 else 0
      let u := if decide d.FieldIdsNodup then 1 else 0
      -- "?" is no GraphQL name: fresh for every schema and document
      let blind := Spec.specConflictB s (d.hideMeta "?")
      s!"I {showImpl impl} S {showSpec spec} W {wf} B {Overlap.fuelBound d} U {u} T {showSpec blind}"
    | _ => "bad-case"
  | "fuelcase" :: f :: rest =>
    -- the same, with an explicit (smaller) recursion budget for the implementation model
    match f.toNat?, (do let s ← pSchema; let d ← pDoc; pure (s, d) : P (Schema × Doc)).run rest with
    | some f, some ((s, d), []) =>
      s!"I {showImpl (Overlap.implConflictsFuel Overlap.naturalLe f s d)}"
    | _, _ => "bad-case"
  | "natle" :: a :: b :: [] => if Overlap.naturalLe a b then "1" else "0"
  | _ => "bad-op"

def main : IO Unit := run step
