import Driver.Proto
import Gql.Types.SchemaValidate
import Gql.Spec.TypeSystem
/-
Line protocol for C20.  One raw schema per line (prefix notation, counts before repeated
parts, names as plain ASCII tokens):

  schema := root root root N type*N M dir*M            root := "-" | name
  type   := name ("S" kind | "O" nI name*nI nF field*nF | "I" nI name*nI nF field*nF
                 | "U" n name*n | "E" n name*n | "N" oneOf nF ival*nF)
  field  := name tref nA ival*nA deprecated
  ival   := name tref ("-" | "=" lit) legacyDefault deprecated
  tref   := "n" name | "l" tref | "!" tref
  lit    := "null" | "i" int | "f" | "s" | "b" | "e" name | "[" n lit*n | "{" n (name lit)*n
  dir    := name nLocations nA ival*nA repeatable

Output: `<ok|crash CLS>;<pinned: ok|crash CLS>;<spec 0|1>;<outOfFuel 0|1>;<uninhabited input objects, comma separated>;<kind:subject>*`
-/
open Gql Gql.Types Driver

abbrev P := StateT (List String) Option

def tok : P String := do
  match (← get) with
  | [] => failure
  | t :: ts => set ts; pure t

def pNat : P Nat := do
  let t ← tok
  match t.toNat? with
  | some n => pure n
  | none => failure

def pBool : P Bool := do pure ((← pNat) != 0)

def pName : P Str := do pure ((← tok).toList.map Char.toNat)

def pMany {α : Type} (p : P α) : Nat → P (List α)
  | 0 => pure []
  | n + 1 => do
    let x ← p
    let xs ← pMany p n
    pure (x :: xs)

partial def pTRef : P TRef := do
  match (← tok) with
  | "n" => pure (.named (← pName))
  | "l" => pure (.list (← pTRef))
  | "!" => pure (.nonNull (← pTRef))
  | _ => failure

partial def pLit : P Lit := do
  match (← tok) with
  | "null" => pure .null
  | "i" =>
    let t ← tok
    match t.toInt? with
    | some i => pure (.int i)
    | none => failure
  | "f" => pure .float
  | "s" => pure .str
  | "b" => pure .bool
  | "e" => pure (.enum (← pName))
  | "[" =>
    let n ← pNat
    pure (.list (← pMany pLit n))
  | "{" =>
    let n ← pNat
    pure (.obj (← pMany (do let k ← pName; let v ← pLit; pure (k, v)) n))
  | _ => failure

def pIVal : P InputValue := do
  let name ← pName
  let type ← pTRef
  let d ← tok
  let default ← (match d with
    | "-" => pure none
    | "=" => do pure (some (← pLit))
    | _ => failure : P (Option Lit))
  let legacy ← pBool
  let dep ← pBool
  pure ⟨name, type, default, legacy, dep⟩

def pField : P Field := do
  let name ← pName
  let type ← pTRef
  let n ← pNat
  let args ← pMany pIVal n
  let dep ← pBool
  pure ⟨name, type, args, dep⟩

def pScalarKind : P ScalarKind := do
  match (← tok) with
  | "int" => pure .int
  | "float" => pure .float
  | "string" => pure .string
  | "boolean" => pure .boolean
  | "id" => pure .id
  | "custom" => pure .custom
  | _ => failure

def pType : P NamedType := do
  let name ← pName
  match (← tok) with
  | "S" => pure ⟨name, .scalar (← pScalarKind)⟩
  | "O" =>
    let is ← pMany pName (← pNat)
    let fs ← pMany pField (← pNat)
    pure ⟨name, .object is fs⟩
  | "I" =>
    let is ← pMany pName (← pNat)
    let fs ← pMany pField (← pNat)
    pure ⟨name, .interface is fs⟩
  | "U" => pure ⟨name, .union (← pMany pName (← pNat))⟩
  | "E" => pure ⟨name, .enum (← pMany pName (← pNat))⟩
  | "N" =>
    let oneOf ← pBool
    let fs ← pMany pIVal (← pNat)
    pure ⟨name, .input fs oneOf⟩
  | _ => failure

def pDirective : P Directive := do
  let name ← pName
  let locs ← pNat
  let args ← pMany pIVal (← pNat)
  let rep ← pBool
  pure ⟨name, locs, args, rep⟩

def pRoot : P (Option Str) := do
  match (← tok) with
  | "-" => pure none
  | t => pure (some (t.toList.map Char.toNat))

def pSchema : P RawSchema := do
  let q ← pRoot
  let m ← pRoot
  let sub ← pRoot
  let types ← pMany pType (← pNat)
  let dirs ← pMany pDirective (← pNat)
  pure ⟨q, m, sub, types, dirs⟩

def showStr (s : Str) : String := String.ofList (s.map Char.ofNat)

def kindName (k : Kind) : String :=
  match k with
  | .queryMissing => "queryMissing" | .rootNotObject => "rootNotObject"
  | .rootsNotDistinct => "rootsNotDistinct" | .directiveNoLocations => "directiveNoLocations"
  | .reservedName => "reservedName" | .notInputType => "notInputType"
  | .notOutputType => "notOutputType" | .requiredArgDeprecated => "requiredArgDeprecated"
  | .badDefault => "badDefault" | .noFields => "noFields"
  | .implementsNonInterface => "implementsNonInterface" | .implementsSelf => "implementsSelf"
  | .implementsTwice => "implementsTwice" | .missingTransitive => "missingTransitive"
  | .implementsCircular => "implementsCircular" | .ifaceFieldMissing => "ifaceFieldMissing"
  | .ifaceFieldType => "ifaceFieldType" | .ifaceArgMissing => "ifaceArgMissing"
  | .ifaceArgType => "ifaceArgType" | .extraRequiredArg => "extraRequiredArg"
  | .implDeprecated => "implDeprecated" | .unionEmpty => "unionEmpty" | .unionDup => "unionDup"
  | .unionNonObject => "unionNonObject" | .enumEmpty => "enumEmpty" | .inputEmpty => "inputEmpty"
  | .requiredInputFieldDeprecated => "requiredInputFieldDeprecated"
  | .oneOfNonNull => "oneOfNonNull" | .oneOfDefault => "oneOfDefault"
  | .nonNullCycle => "nonNullCycle" | .defaultCycle => "defaultCycle"

def showOut (r : Out Unit (List Err)) : String × String :=
  match r with
  | .ok es => ("ok", " ".intercalate (es.map (fun e => kindName e.kind ++ ":" ++ showStr e.subj)))
  | .err _ => ("err", "")
  | .crash c => ("crash " ++ c, "")

def step (line : String) : String :=
  match (pSchema.run (words line)) with
  | some (s, []) =>
    let (a, errs) := showOut (validateSchema s)
    let (p, _) := showOut (Pinned.validateSchema s)
    let spec := if Spec.TypeSystemValid s then "1" else "0"
    let oof := if validateSchemaOutOfFuel s then "1" else "0"
    let unin := ",".intercalate ((Spec.uninhabited s).map showStr)
    s!"{a};{p};{spec};{oof};{unin};{errs}"
  | _ => "bad-op"

def main : IO Unit := run step
