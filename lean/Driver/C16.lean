import Driver.ValProto
open Gql Gql.Values Driver

/-- `out <leaf> <conv> <value>`: `coerce_output_value`; `in …`: `coerce_input_value`;
`leaf …`: `complete_leaf_value`; `dom <leaf> <value>`: is the value in the spec domain
of the type (the oracle; decidable transcription of `Spec.LeafDomain`). -/
def inDomain : Leaf → PyVal → Bool
  | .scalar .int, .int n => -(2 ^ 31) ≤ n && n ≤ 2 ^ 31 - 1
  | .scalar .float, .float (.fin _ _ _) => true
  | .scalar .float, .int n => -(2 ^ 53) ≤ n && n ≤ 2 ^ 53
  | .scalar .string, .str _ => true
  | .scalar .id, .str _ => true
  | .scalar .boolean, .bool _ => true
  | .enum e, .str s => e.names.contains s
  | _, _ => false

def step (line : String) : String :=
  match words line with
  | op :: rest =>
    match pLeaf rest with
    | none => "bad-leaf"
    | some (t, rest) =>
      if op == "dom" then
        match pVal rest with
        | some (v, []) => if inDomain t v then "1" else "0"
        | _ => "bad-value"
      else
        match pConv rest with
        | none => "bad-conv"
        | some (c, rest) =>
          match pVal rest with
          | some (v, []) =>
            if op == "out" then showR (t.coerceOutputValue c v)
            else if op == "in" then showR (t.coerceInputValue c v)
            else if op == "leaf" then showR (completeLeafValue c t v)
            else "bad-op"
          | _ => "bad-value"
  | _ => "bad-op"

def main : IO Unit := run step
