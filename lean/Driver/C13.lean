/-
Driver for C13:
    valid (case SCHEMA DOC)                      → `v <doc> <op>* m <op>*`   (1 = passes `Valid.validOp`;
                                                   after `m`: `Valid.specMergeable` per operation)
    shape (case SCHEMA (req DOC OPNAME|- VARS DATA) J)
        → `s <shape> <mayNull> <specErrors>`: `Valid.shapeResponse` of the response value `J`
          (the implementation's `data`), whether a variable with runtime value null is in use
          (the run-time exception of the property), number of errors of `Spec.executeRequest`.
-/
import Driver.ExecSexp
import Gql.Exec.ValidDoc
import Gql.Exec.ValidMerge
import Gql.Exec.Shape
open Gql Gql.Exec Driver C02Driver

namespace C13Driver

def bit (b : Bool) : String := if b then "1" else "0"

def runValid (x : Sexp) : P String := do
  match x with
  | .list [.atom "case", sch, d] =>
    let s ← schemaOf sch
    let doc ← docOf d
    let ops := doc.ops.map (Valid.validOp s doc)
    let ms := doc.ops.map (Valid.specMergeable s doc)
    pure ("v " ++ bit (Valid.validDoc s doc) ++ String.join (ops.map (fun b => " " ++ bit b)) ++ " m" ++
      String.join (ms.map (fun b => " " ++ bit b)))
  | _ => fail "case"

def runShape (x : Sexp) : P String := do
  match x with
  | .list [.atom "case", sch, req, j] =>
    let s ← schemaOf sch
    let r ← reqOf req
    let data ← jsonOf j
    match Spec.getOperation r.doc.ops r.opName with
    | none => pure "s 0 0 0"
    | some op =>
      let shape := Valid.shapeResponse Concrete.ops s r.doc op r.vars r.root data
      let mayNull := Valid.mayHitNullViaDefault s r.doc op r.vars
      let spec := Spec.executeRequest Concrete.ops s r.doc r.opName r.vars r.root
      pure s!"s {bit shape} {bit mayNull} {spec.errors.length}"
  | _ => fail "case"

def step (line : String) : String :=
  match words line with
  | "valid" :: _ =>
    match parseSexp (tokenize ((line.drop 6).toString)) with
    | none => "bad-sexp"
    | some x => match runValid x with
      | .ok s => s
      | .error e => s!"bad-case {e}"
  | "shape" :: _ =>
    match parseSexp (tokenize ((line.drop 6).toString)) with
    | none => "bad-sexp"
    | some x => match runShape x with
      | .ok s => s
      | .error e => s!"bad-case {e}"
  | _ => "bad-op"

end C13Driver

def main : IO Unit := Driver.run C13Driver.step
