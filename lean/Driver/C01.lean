import Driver.Proto
import Gql.Syntax.Parser
import Gql.Spec.ResponseFormat
import Gql.Request.Pipeline
open Gql Gql.Text Gql.Syntax Gql.Spec Gql.Request Driver

def kindName (k : TokKind) : String := kindPyName k

def lexErrName : LexErrKind → String
  | .unexpectedDotDot => "unexpectedDotDot" | .digitBeforeDot => "digitBeforeDot"
  | .singleQuote => "singleQuote" | .unexpectedChar => "unexpectedChar"
  | .invalidChar => "invalidChar" | .digitAfterZero => "digitAfterZero"
  | .expectedDigit => "expectedDigit" | .invalidCharInString => "invalidCharInString"
  | .unterminatedString => "unterminatedString" | .invalidUnicodeEscape => "invalidUnicodeEscape"
  | .invalidCharEscape => "invalidCharEscape"

def synName : SynKind → String
  | .expected => "expected" | .unexpected => "unexpected"
  | .unexpectedDescription => "unexpectedDescription" | .unexpectedVariable => "unexpectedVariable"
  | .reservedEnumValue => "reservedEnumValue" | .tooManyTokens => "tooManyTokens"

def showParse : Out PErr Ast → String
  | .ok a => "ok " ++ a.toWire
  | .err (.lex e) => s!"err {lexErrName e.kind} {e.pos}"
  | .err (.syn k p) => s!"err {synName k} {p}"
  | .crash c => s!"crash {c}"

def entryOf : String → Option Entry
  | "document" => some .document | "value" => some .value | "const_value" => some .constValue
  | "type" => some .type | "schema_coordinate" => some .schemaCoordinate | _ => none

def showTok (t : Token) : String :=
  let v := match t.value with
    | none => "-"
    | some v => "v " ++ showNats v
  s!"{kindName t.kind} {t.start} {t.stop} {t.line} {t.column} {v}"

partial def showStream : Stream → List String
  | .cons t r => showTok t :: showStream r
  | .eof a l c => [showTok (eofToken a l c)]
  | .lexErr e => [s!"err {lexErrName e.kind} {e.pos}"]
  | .crash c => [s!"crash {c}"]

/-- tokens of the wire encoding of a JSON-ish value → `J` -/
partial def parseJ : List String → Option (J × List String)
  | "null" :: r => some (.null, r)
  | "true" :: r => some (.bool true, r)
  | "false" :: r => some (.bool false, r)
  | "f" :: r => some (.float, r)
  | "s" :: r => some (.str, r)
  | "[" :: r =>
    let rec items (ts : List String) (acc : List J) : Option (J × List String) :=
      match ts with
      | "]" :: r => some (.list acc.reverse, r)
      | [] => none
      | _ => match parseJ ts with
        | some (v, r) => items r (v :: acc)
        | none => none
    items r []
  | "{" :: r =>
    let rec kvs (ts : List String) (acc : List (String × J)) : Option (J × List String) :=
      match ts with
      | "}" :: r => some (.obj acc.reverse, r)
      | k :: ts' =>
        let key := if k.startsWith "k:" then (k.drop 2).toString else "?"
        match parseJ ts' with
        | some (v, r) => kvs r ((key, v) :: acc)
        | none => none
      | [] => none
    kvs r []
  | w :: r =>
    if w.startsWith "i" then
      match (w.drop 1).toString.toInt? with
      | some i => some (.int i, r)
      | none => none
    else if w.startsWith "x:" then some (.other (w.drop 2).toString, r)
    else none
  | [] => none

def attrOf : String → Option Attr
  | "missing" => some .missing | "good" => some .good | "ill" => some .illTyped
  | "raises" => some .raises | _ => none

def pathOfLen (n : Nat) : List PathSeg := List.replicate n .key

def showPathLen : Option (List PathSeg) → String
  | some p => toString p.length
  | none => "none"

def stageOf (w : String) : Option (StageOut Unit) :=
  match w with
  | "ret" => some (.ret ()) | "gql" => some (.raiseGql {}) | "other" => some (.raiseOther "X") | _ => none

def step (line : String) : String :=
  match words line with
  | "parse" :: e :: fa :: dd :: mt :: cps =>
    match entryOf e, parseNats cps with
    | some e, some body =>
      let maxTokens : Option Int := if mt = "-" then none else mt.toInt?
      let cfg : Cfg := { maxTokens, fragArgs := fa = "1", dirOnDir := dd = "1" }
      showParse (parseSource e cfg body)
    | _, _ => "bad-op"
  | "coordlex" :: cps =>
    match parseNats cps with
    | some body => " | ".intercalate (showStream (coordStreamOf body))
    | none => "bad-op"
  | "wf" :: pre :: toks =>
    match parseJ toks with
    | some (j, []) => if wfResponse (pre = "1") j then "ok" else "bad " ++ wfWhy (pre = "1") j
    | _ => "bad-op"
  | ["pipeline", se, p, v, x] =>
    -- se: 0/1 schema errors; p: ret/gql/other; v: ret0/ret1/gql/other; x: ret/gql/other
    let vst : Option (StageOut (List GErr)) :=
      match v with
      | "ret0" => some (.ret []) | "ret1" => some (.ret [{}]) | "gql" => some (.raiseGql {})
      | "other" => some (.raiseOther "X") | _ => none
    let xst : Option (StageOut Resp) :=
      match x with
      | "ret" => some (.ret ⟨true, none⟩) | "gql" => some (.raiseGql {})
      | "other" => some (.raiseOther "X") | _ => none
    match stageOf p, vst, xst with
    | some pst, some vst, some xst =>
      match graphqlImpl { schemaErrors := if se = "1" then [{}] else [], parse := pst, validate := vst, execute := xst } with
      | .result r =>
        let tag := if r.dataIsMap then "data" else "nodata"
        let n := match r.errors with | some es => toString es.length | none => "none"
        s!"result {tag} errors={n} wf={wfResponse (!r.dataIsMap) r.formatted}"
      | .raised c => s!"raised {c}"
    | _, _, _ => "bad-op"
  | ["located", hardened, isExc, gql, strOk, m, s, p, n, x, plen, chain] =>
    -- hardened: 1 = located_error with the F7 guard, 0 = the unguarded code
    -- gql: "-" not a GraphQLError | "none" GraphQLError without path | <k> GraphQLError with a path of length k
    match attrOf m, attrOf s, attrOf p, attrOf n, attrOf x, plen.toNat? with
    | some m, some s, some p, some n, some x, some plen =>
      let gqlPath : Option (Option (List PathSeg)) :=
        if gql = "-" then none else if gql = "none" then some none
        else some (some (pathOfLen (gql.toNat?.getD 0)))
      let e : Exn := { isException := isExc = "1", gqlPath, strOk := strOk = "1", message := m,
                        source := s, positions := p, nodes := n, extensions := x }
      let nn : List Bool := chain.toList.map (fun c => c == '1')
      match handleFieldErrorChain (hardened = "1") nn e (pathOfLen plen) with
      | .collected g => s!"collected path={showPathLen g.path}"
      | .escaped c => s!"escaped {c}"
    | _, _, _, _, _, _ => "bad-op"
  | _ => "bad-op"

def main : IO Unit := run step
