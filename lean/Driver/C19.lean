import Driver.C17Ops
import Gql.Types.SchemaRoots
/-! C19 driver: the schema-content operations shared with C17, plus `rootsstable A B` — the
decidable hypothesis of `Gql.Props.C19.extend_eq_build` on two definition lists. -/
namespace Driver.C19
open Gql Gql.Types Gql.Types.SExp Driver

def step (line : String) : String :=
  match words line with
  | "rootsstable" :: toks =>
    match parseToks toks with
    | some [a, b] =>
      match dDefs a, dDefs b with
      | some a, some b => if rootsStable a b then "T" else "F"
      | _, _ => "bad-args"
    | _ => "bad-sexp"
  | _ => Driver.C17Ops.step line

end Driver.C19

def main : IO Unit := Driver.run Driver.C19.step
