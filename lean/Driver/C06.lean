import Driver.Proto
import Gql.Async.Lifecycle
open Gql.Async.Lifecycle Driver

/-- `end <kind> <bits> <n>`: a state with one registered pending task per source (started or not,
per bit) and `n` further registered pending tasks is stopped; every requested cancellation is
delivered and the hook fires (`quiesce`).  Output: the end state the property demands. -/
def kindOf : String → Option StopKind
  | "aclose" => some .aclose
  | "abort" => some .abort
  | "exhausted" => some .exhausted
  | "resolverRaise" => some .resolverRaise
  | "sourceRaise" => some .sourceRaise
  | _ => none

def mkTask (src : Option SrcSt) : Task :=
  { st := .pending, registered := true, cancelReq := false, hangs := true, src := src }

def showSrc : Option SrcSt → String
  | some (.closed n) => toString (min n 9)
  | _ => "0"

def step' (line : String) : String :=
  match words line with
  | ["end", k, bits, n] =>
    match kindOf k, n.toNat? with
    | some k, some n =>
      let srcTasks := (if bits = "-" then [] else bits.toList).map
        (fun c => mkTask (some (if c = '1' then SrcSt.running else SrcSt.notStarted)))
      let s0 : St := { init with tasks := srcTasks ++ List.replicate n (mkTask none) }
      let s := quiesce (step s0 (.stop k))
      let closed := String.join ((s.tasks.take srcTasks.length).map (fun t => showSrc t.src))
      let pending := pendingCount s.tasks
      s!"pending={pending} closed={if srcTasks.isEmpty then "-" else closed} hook={if s.hookFired = 1 then "ok" else toString s.hookFired} released={if s.released then 1 else 0}"
    | _, _ => "bad-op"
  | _ => "bad-op"

def main : IO Unit := Driver.run step'
