/-
Line protocol shared by the per-property drivers: one case per input line, one canonical
line of output per case.  Strings cross the boundary as space-separated decimal code points.
-/
namespace Driver

def parseNats (ws : List String) : Option (List Nat) :=
  ws.mapM (fun w => w.toNat?)

def showNats (xs : List Nat) : String :=
  " ".intercalate (xs.map toString)

def words (line : String) : List String :=
  (line.splitOn " ").filter (fun w => w ≠ "")

partial def loop (h : IO.FS.Stream) (out : IO.FS.Stream) (step : String → String) : IO Unit := do
  let line ← h.getLine
  if line.isEmpty then
    out.flush
    return ()
  let line := (line.dropEndWhile (fun c => c = '\n' || c = '\r')).toString
  out.putStrLn (step line)
  loop h out step

def run (step : String → String) : IO Unit := do
  loop (← IO.getStdin) (← IO.getStdout) step

end Driver
