import Driver.ValProto
import Gql.Values.ToLiteral
import Gql.Values.Variables
open Gql Gql.Values Driver

/-!
type    := n <str> | l type | nn type
default := - | dv value | dl literal | lg value
def     := sc <Scalar> | en <enum> | io <oneOf:0|1> <n> (<str> type default)*
typemap := <n> (<str> def)*
vars    := - | + <n> (<str> type (- | literal) value)* <m> (<str> value)*
fvars   := - | + <n> <str>* <m> (<str> value)*   (fragment-declared names; their coerced values)
ops     : cv conv typemap type value | vv … | tl … | cl conv typemap vars fvars type literal | vl …
          gv conv typemap <n> (<str> (- | type) (- | literal))* value(dict)
-/

partial def pType : P InType := fun ts => do
  let (t, ts) ← pTok ts
  match t with
  | "n" => do let (s, ts) ← pStr ts; pure (.named s, ts)
  | "l" => do let (x, ts) ← pType ts; pure (.list x, ts)
  | "nn" => do let (x, ts) ← pType ts; pure (.nonNull x, ts)
  | _ => none

def pDefault : P FieldDefault := fun ts => do
  let (t, ts) ← pTok ts
  match t with
  | "-" => pure (.none, ts)
  | "dv" => do let (v, ts) ← pVal ts; pure (.value v, ts)
  | "dl" => do let (l, ts) ← pLit ts; pure (.literal l, ts)
  | "lg" => do let (v, ts) ← pVal ts; pure (.legacy v, ts)
  | _ => none

def pField : P Field := fun ts => do
  let (name, ts) ← pStr ts
  let (t, ts) ← pType ts
  let (d, ts) ← pDefault ts
  pure (⟨name, t, d⟩, ts)

def pNamedDef : P NamedDef := fun ts => do
  let (t, ts) ← pTok ts
  match t with
  | "sc" => do let (s, ts) ← pScalar ts; pure (.scalar s, ts)
  | "en" => do let (e, ts) ← pEnum ts; pure (.enum e, ts)
  | "io" => do
    let (o, ts) ← pBit ts
    let (n, ts) ← pNat ts
    let (fs, ts) ← pCount pField n ts
    pure (.inputObject fs o, ts)
  | _ => none

def pTypeMap : P TypeMap := fun ts => do
  let (n, ts) ← pNat ts
  pCount (fun ts => do
    let (k, ts) ← pStr ts
    let (d, ts) ← pNamedDef ts
    pure ((k, d), ts)) n ts

def pVars : P (Option VarValues) := fun ts => do
  let (t, ts) ← pTok ts
  match t with
  | "-" => pure (none, ts)
  | "+" => do
    let (n, ts) ← pNat ts
    let (srcs, ts) ← pCount (fun ts => do
      let (k, ts) ← pStr ts
      let (t, ts) ← pType ts
      let (d, ts) ← pOpt pLit ts
      let (v, ts) ← pVal ts
      pure ((k, VarSource.mk t d v), ts)) n ts
    let (m, ts) ← pNat ts
    let (co, ts) ← pCount (fun ts => do
      let (k, ts) ← pStr ts
      let (v, ts) ← pVal ts
      pure ((k, v), ts)) m ts
    pure (some ⟨srcs, co⟩, ts)
  | _ => none

/-- fvars := - | + <n> <str>* <m> (<str> value)* -/
def pFragVars : P (Option FragVarValues) := fun ts => do
  let (t, ts) ← pTok ts
  match t with
  | "-" => pure (none, ts)
  | "+" => do
    let (n, ts) ← pNat ts
    let (srcs, ts) ← pCount pStr n ts
    let (m, ts) ← pNat ts
    let (co, ts) ← pCount (fun ts => do
      let (k, ts) ← pStr ts
      let (v, ts) ← pVal ts
      pure ((k, v), ts)) m ts
    pure (some ⟨srcs, co⟩, ts)
  | _ => none

def pVarDef : P VarDef := fun ts => do
  let (k, ts) ← pStr ts
  let (t, ts) ← pOpt pType ts
  let (d, ts) ← pOpt pLit ts
  pure (⟨k, t, d⟩, ts)

def showSeg : Seg → String
  | .key k => "k" ++ ".".intercalate (k.map toString)
  | .idx i => s!"i{i}"

def showPath (p : Path) : String :=
  if p.isEmpty then "." else "/".intercalate (p.map showSeg)

def showPaths (ps : List Path) : String :=
  " ".intercalate ("E" :: ps.map showPath)

def depth : Nat := 24

def step (line : String) : String :=
  match words line with
  | op :: rest =>
    match pConv rest with
    | none => "bad-conv"
    | some (c, rest) =>
    match pTypeMap rest with
    | none => "bad-typemap"
    | some (tm, rest) =>
      let D := mkD c tm depth
      if op == "cv" || op == "vv" || op == "tl" then
        match pType rest with
        | none => "bad-type"
        | some (t, rest) =>
          match pVal rest with
          | some (v, []) =>
            if op == "cv" then showR (coerceValue c D tm v t)
            else if op == "vv" then showPaths (validateInputValue c tm v t)
            else match valueToLiteral c tm v t with
              | some l => "lit " ++ showLit l
              | none => "none"
          | _ => "bad-value"
      else if op == "cl" || op == "vl" then
        match pVars rest with
        | none => "bad-vars"
        | some (vars0, rest) =>
          match pFragVars rest with
          | none => "bad-fragvars"
          | some (fvars, rest) =>
          let vars := scopeVars vars0 fvars
          match pType rest with
          | none => "bad-type"
          | some (t, rest) =>
            match pLit rest with
            | some (l, []) =>
              if op == "cl" then showR (coerceLiteral c D tm vars l t)
              else showPaths (validateInputLiteral c tm vars l t)
            | _ => "bad-literal"
      else if op == "gv" then
        match pNat rest with
        | none => "bad-count"
        | some (n, rest) =>
          match pCount pVarDef n rest with
          | none => "bad-vardefs"
          | some (defs, rest) =>
            match pVal rest with
            | some (.dict inputs, []) =>
              (match getVariableValues c D tm defs inputs with
               | .ok (.inl errs) => " ".intercalate ("errs" :: errs.map fun e => ".".intercalate (e.var.map toString) ++ ":" ++ showPath e.path)
               | .ok (.inr vv) => "vals " ++ showVal (.dict vv.coerced)
               | .err _ => "err"
               | .crash k => "crash " ++ k)
            | _ => "bad-inputs"
      else "bad-op"
  | _ => "bad-op"

def main : IO Unit := run step
