import Driver.C17Ops
def main : IO Unit := Driver.run Driver.C17Ops.step
