import Driver.C17Ops
import Gql.Types.PrintSchemaText
/-! C17 driver: the shared schema-content operations plus `text` (the SDL text of `print_schema`). -/
open Gql Gql.Types Gql.Types.SExp Driver in
def stepC17 (line : String) : String :=
  match words line with
  | "text" :: toks =>
    match parseToks toks with
    | some [s] =>
      match dSchema s with
      | some s => render (.str (PrintSchema.printSchemaText Gql.Syntax.Widths.generated s))
      | none => "bad-schema"
    | _ => "bad-sexp"
  | _ => Driver.C17Ops.step line

def main : IO Unit := Driver.run stepC17
