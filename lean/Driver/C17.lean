import Driver.C17Ops
import Gql.Types.PrintSchemaText
import Gql.Types.PrintSchemaTextWF
/-! C17 driver: the shared schema-content operations plus `text` (the SDL text of `print_schema`)
and `textwf` (the decidable hypothesis `textWFb` of the text theorems, with
`experimental_directives_on_directive_definitions` as the harness parses; the second letter is the
value without that flag). -/
open Gql Gql.Types Gql.Types.SExp Driver in
def stepC17 (line : String) : String :=
  match words line with
  | "text" :: toks =>
    match parseToks toks with
    | some [s] =>
      match dSchema s with
      | some s => render (.str (PrintSchema.printSchemaText Gql.Syntax.Widths.generated s))
      | none => "bad-schema"
    | _ => "bad-sexp"
  | "textwf" :: toks =>
    match parseToks toks with
    | some [s] =>
      match dSchema s with
      | some s =>
        (if PrintSchema.textWFb false true s then "T" else "F") ++ " " ++
          (if PrintSchema.textWFb false false s then "T" else "F")
      | none => "bad-schema"
    | _ => "bad-sexp"
  | _ => Driver.C17Ops.step line

def main : IO Unit := Driver.run stepC17
