import Driver.Proto
import Gql.Text.PrintString
import Gql.Text.BlockString
import Gql.Text.BlockRepr
import Gql.Syntax.Printer
open Gql Gql.Text Gql.Syntax Driver

def b01 (b : Bool) : String := if b then "1" else "0"

def step (line : String) : String :=
  match words line with
  | "ps" :: cps =>
    match parseNats cps with
    | some s => showNats (printString s)
    | none => "bad-op"
  | "pbs" :: m :: cps =>
    match parseNats cps with
    | some s => showNats (printBlockString s (m == "1"))
    | none => "bad-op"
  | "ipb" :: cps =>
    match parseNats cps with
    | some s => b01 (isPrintableAsBlockString s)
    | none => "bad-op"
  | "all" :: cps =>
    match parseNats cps with
    | some s =>
      showNats (printString s) ++ " | " ++ showNats (printBlockString s false) ++ " | "
        ++ showNats (printBlockString s true) ++ " | " ++ b01 (isPrintableAsBlockString s)
        ++ " | " ++ b01 (blockRepresentable s)
    | none => "bad-op"
  | "print" :: toks =>
    match Ast.ofWire toks with
    | some a =>
      match printAst Widths.generated a with
      | .ok t => "ok " ++ showNats t
      | .err _ => "err"
      | .crash c => "crash " ++ c
    | none => "bad-wire"
  | "rep" :: cps =>
    match parseNats cps with
    | some s => b01 (blockRepresentable s)
    | none => "bad-op"
  | _ => "bad-op"

def main : IO Unit := run step
