import Driver.Proto
import Gql.Types.Introspection
import Gql.Types.ClientSchema
import Gql.Types.WFSchema
import Gql.Types.ClientText
open Gql Gql.Types Driver

/-! Line protocol of the C18 driver (see checks/c18.py, tools/c18_gen.py for the wire formats). -/

abbrev P (α : Type) := List String → Option (α × List String)

def pNat : P Nat
  | w :: ws => w.toNat?.map (·, ws)
  | [] => none

def pCps : Nat → P (List Nat)
  | 0, ws => some ([], ws)
  | n + 1, w :: ws => do
    let c ← w.toNat?
    let (r, ws) ← pCps n ws
    pure (c :: r, ws)
  | _ + 1, [] => none

def pStrBody : P (List Nat) := fun ws => do
  let (n, ws) ← pNat ws
  pCps n ws

def pStr : P (List Nat)
  | "S" :: ws => pStrBody ws
  | _ => none

def pOpt : P (Option (List Nat))
  | "N" :: ws => some (none, ws)
  | "S" :: ws => (pStrBody ws).map fun (s, ws) => (some s, ws)
  | _ => none

def pBool : P Bool
  | "T" :: ws => some (true, ws)
  | "F" :: ws => some (false, ws)
  | _ => none

def pMany {α : Type} (p : P α) : Nat → P (List α)
  | 0, ws => some ([], ws)
  | n + 1, ws => do
    let (a, ws) ← p ws
    let (r, ws) ← pMany p n ws
    pure (a :: r, ws)

def pList {α : Type} (p : P α) : P (List α)
  | "L" :: ws => do
    let (n, ws) ← pNat ws
    pMany p n ws
  | _ => none

def pKind : P Kind
  | "SCALAR" :: ws => some (.scalar, ws)
  | "OBJECT" :: ws => some (.object, ws)
  | "INTERFACE" :: ws => some (.interface, ws)
  | "UNION" :: ws => some (.union, ws)
  | "ENUM" :: ws => some (.enum, ws)
  | "INPUT_OBJECT" :: ws => some (.inputObject, ws)
  | _ => none

partial def pRef : P TypeRef
  | "n" :: ws => do
    let (n, ws) ← pStr ws
    let (k, ws) ← pKind ws
    pure (.named n k, ws)
  | "l" :: ws => (pRef ws).map fun (r, ws) => (.list r, ws)
  | "b" :: ws => (pRef ws).map fun (r, ws) => (.nonNull r, ws)
  | _ => none

abbrev V := List Nat

def pIV : P (InputValue V) := fun ws => do
  let (name, ws) ← pStr ws
  let (d, ws) ← pOpt ws
  let (t, ws) ← pRef ws
  let (dv, ws) ← pOpt ws
  let (dep, ws) ← pOpt ws
  pure (⟨name, d, t, dv, dep⟩, ws)

def pField : P (Field V) := fun ws => do
  let (name, ws) ← pStr ws
  let (d, ws) ← pOpt ws
  let (args, ws) ← pList pIV ws
  let (t, ws) ← pRef ws
  let (dep, ws) ← pOpt ws
  pure (⟨name, d, args, t, dep⟩, ws)

def pEnumValue : P EnumValue := fun ws => do
  let (name, ws) ← pStr ws
  let (d, ws) ← pOpt ws
  let (dep, ws) ← pOpt ws
  pure (⟨name, d, dep⟩, ws)

def pType : P (TypeDef V) := fun ws => do
  let (k, ws) ← pKind ws
  let (name, ws) ← pStr ws
  let (d, ws) ← pOpt ws
  let (url, ws) ← pOpt ws
  let (fields, ws) ← pList pField ws
  let (ifaces, ws) ← pList pRef ws
  let (members, ws) ← pList pRef ws
  let (evs, ws) ← pList pEnumValue ws
  let (ifs, ws) ← pList pIV ws
  let (oneOf, ws) ← pBool ws
  pure (⟨k, name, d, url, fields, ifaces, members, evs, ifs, oneOf⟩, ws)

def pDirective : P (Directive V) := fun ws => do
  let (name, ws) ← pStr ws
  let (d, ws) ← pOpt ws
  let (rep, ws) ← pBool ws
  let (dep, ws) ← pOpt ws
  let (locs, ws) ← pList pStr ws
  let (args, ws) ← pList pIV ws
  pure (⟨name, d, rep, dep, locs, args⟩, ws)

def pRoot : P (Option (List Nat × Kind))
  | "N" :: ws => some (none, ws)
  | "R" :: ws => do
    let (n, ws) ← pStr ws
    let (k, ws) ← pKind ws
    pure (some (n, k), ws)
  | _ => none

def pSchema : P (Schema V) := fun ws => do
  let (d, ws) ← pOpt ws
  let (q, ws) ← pRoot ws
  let (m, ws) ← pRoot ws
  let (s, ws) ← pRoot ws
  let (types, ws) ← pList pType ws
  let (dirs, ws) ← pList pDirective ws
  pure (⟨d, q, m, s, types, dirs⟩, ws)

/-! JSON wire codec -/

def keyTable : Array Key := #[
  .schema, .description, .queryType, .mutationType, .subscriptionType, .types, .directives, .name, .kind,
  .isRepeatable, .isDeprecated, .deprecationReason, .locations, .args, .specifiedByURL, .isOneOf, .fields,
  .inputFields, .interfaces, .enumValues, .possibleTypes, .type, .defaultValue, .ofType]

def keyIndex (k : Key) : Option Nat :=
  (List.range keyTable.size).find? fun i => keyTable[i]? == some k

def pKey : P Key
  | "x" :: ws => (pStrBody ws).map fun (s, ws) => (.other s, ws)
  | w :: ws =>
    if w.startsWith "k" then do
      let i ← (w.drop 1).toNat?
      let k ← keyTable[i]?
      pure (k, ws)
    else none
  | [] => none

mutual
partial def pJson : P Json
  | "n" :: ws => some (.null, ws)
  | "t" :: ws => some (.bool true, ws)
  | "f" :: ws => some (.bool false, ws)
  | "s" :: ws => (pStrBody ws).map fun (s, ws) => (.str s, ws)
  | "i" :: w :: ws => w.toInt?.map fun n => (.num n, ws)
  | "a" :: ws => do
    let (n, ws) ← pNat ws
    let (xs, ws) ← pJsons n ws
    pure (.arr xs, ws)
  | "o" :: ws => do
    let (n, ws) ← pNat ws
    let (kvs, ws) ← pEntries n ws
    pure (.obj kvs, ws)
  | _ => none
partial def pJsons : Nat → P (List Json)
  | 0, ws => some ([], ws)
  | n + 1, ws => do
    let (a, ws) ← pJson ws
    let (r, ws) ← pJsons n ws
    pure (a :: r, ws)
partial def pEntries : Nat → P (List (Key × Json))
  | 0, ws => some ([], ws)
  | n + 1, ws => do
    let (k, ws) ← pKey ws
    let (v, ws) ← pJson ws
    let (r, ws) ← pEntries n ws
    pure ((k, v) :: r, ws)
end

def wCps (acc : Array String) (s : List Nat) : Array String :=
  s.foldl (fun a c => a.push (toString c)) (acc.push (toString s.length))

partial def wJson (acc : Array String) : Json → Array String
  | .null => acc.push "n"
  | .bool true => acc.push "t"
  | .bool false => acc.push "f"
  | .str s => wCps (acc.push "s") s
  | .num n => (acc.push "i").push (toString n)
  | .arr xs => xs.foldl wJson ((acc.push "a").push (toString xs.length))
  | .obj kvs =>
    kvs.foldl (fun a kv =>
      let a := match kv.1 with
        | .other s => wCps (a.push "x") s
        | k => a.push ("k" ++ toString ((keyIndex k).getD 999))
      wJson a kv.2) ((acc.push "o").push (toString kvs.length))

def joinWords (a : Array String) : String := " ".intercalate a.toList

def showJson (j : Json) : String := joinWords (wJson #[] j)

/-! Schema wire encoder (for the client builder's result) -/

def wS (acc : Array String) (s : List Nat) : Array String := wCps (acc.push "S") s
def wO (acc : Array String) : Option (List Nat) → Array String
  | none => acc.push "N"
  | some s => wS acc s
def wB (acc : Array String) (b : Bool) : Array String := acc.push (if b then "T" else "F")
def wKind (acc : Array String) (k : Kind) : Array String :=
  acc.push (match k with
    | .scalar => "SCALAR" | .object => "OBJECT" | .interface => "INTERFACE"
    | .union => "UNION" | .enum => "ENUM" | .inputObject => "INPUT_OBJECT")
def wL {α : Type} (f : Array String → α → Array String) (acc : Array String) (xs : List α) : Array String :=
  xs.foldl f ((acc.push "L").push (toString xs.length))
def wRef (acc : Array String) : TypeRef → Array String
  | .named n k => wKind (wS (acc.push "n") n) k
  | .list r => wRef (acc.push "l") r
  | .nonNull r => wRef (acc.push "b") r
def wIV (acc : Array String) (iv : InputValue V) : Array String :=
  wO (wO (wRef (wO (wS acc iv.name) iv.description) iv.type) iv.default) iv.deprecationReason
def wField (acc : Array String) (f : Field V) : Array String :=
  wO (wRef (wL wIV (wO (wS acc f.name) f.description) f.args) f.type) f.deprecationReason
def wEV (acc : Array String) (e : EnumValue) : Array String :=
  wO (wO (wS acc e.name) e.description) e.deprecationReason
def wType (acc : Array String) (t : TypeDef V) : Array String :=
  wB (wL wIV (wL wEV (wL wRef (wL wRef (wL wField (wO (wO (wS (wKind acc t.kind) t.name) t.description)
    t.specifiedByURL) t.fields) t.interfaces) t.members) t.enumValues) t.inputFields) t.isOneOf
def wDirective (acc : Array String) (d : Directive V) : Array String :=
  wL wIV (wL wS (wO (wB (wO (wS acc d.name) d.description) d.isRepeatable) d.deprecationReason) d.locations) d.args
def wRoot (acc : Array String) : Option (List Nat × Kind) → Array String
  | none => acc.push "N"
  | some (n, k) => wKind (wS (acc.push "R") n) k
def wSchema (s : Schema V) : Array String :=
  wL wDirective (wL wType (wRoot (wRoot (wRoot (wO #[] s.description) s.query) s.mutation) s.subscription) s.types) s.directives

/-! Operations -/

def pBits (depth : Nat) (w : String) : Option Options :=
  Options.ofBits depth (w.toList.map (· == '1'))

def pBitsMany (depth : Nat) : Nat → P (List Options)
  | 0, ws => some ([], ws)
  | n + 1, w :: ws => do
    let o ← pBits depth w
    let (r, ws) ← pBitsMany depth n ws
    pure (o :: r, ws)
  | _ + 1, [] => none

def printV : V → List Nat := id
def parseV : List Nat → Out String V := .ok

def showClient : Out String (Schema V) → String
  | .ok s => "ok " ++ joinWords (wSchema s)
  | .err e => "err " ++ e
  | .crash c => "crash " ++ c

/-- `dv`: one `defaultValue` text through the text-level instantiation of the model (Gql/Types/ClientText.lean,
the functions `client_roundtrip_text` speaks about): `parse_const_value` model, then the printer model with the
generated widths, then `parseDefaultText` again.  Out: `ok <printed text> T|F` (T: the printed text parses back to
the same tree), `printcrash`, `err`, `crash <cls>`. -/
def showDV (t : List Nat) : String :=
  match Gql.Syntax.parseSource .constValue {} t with
  | .ok d =>
    match Gql.Syntax.printAst Gql.Syntax.Widths.generated d with
    | .ok _ =>
      let p := printDefault Gql.Syntax.Widths.generated d
      let rt := match parseDefaultText {} p with
        | .ok d' => decide (d' = d)
        | _ => false
      joinWords (wB (wS #["ok"] p) rt)
    | _ => "printcrash"
  | .err _ => "err"
  | .crash c => "crash " ++ c

def step (line : String) : String :=
  let bad := "bad-op"
  match words line with
  | "dv" :: ws => Id.run do
    let some (k, ws) := pNat ws | bad
    let some (ts, []) := pMany pStr k ws | bad
    " | ".intercalate (ts.map showDV)
  | "intro" :: ws => Id.run do
    let some (depth, ws) := pNat ws | bad
    let some (k, ws) := pNat ws | bad
    let some (os, ws) := pBitsMany depth k ws | bad
    let some (s, []) := pSchema ws | bad
    " | ".intercalate (os.map fun o => showJson (introspect printV s o))
  | "restrict" :: ws => Id.run do
    let some (k, ws) := pNat ws | bad
    let some (os, ws) := pBitsMany 0 k ws | bad
    let some (j, []) := pJson ws | bad
    " | ".intercalate (os.map fun o => showJson (restrict o j))
  | "lookup" :: ws => Id.run do
    let some (depth, ws) := pNat ws | bad
    let some ([o], ws) := pBitsMany depth 1 ws | bad
    let some (k, ws) := pNat ws | bad
    let some (names, ws) := pMany pStr k ws | bad
    let some (s, []) := pSchema ws | bad
    " | ".intercalate (names.map fun n => showJson (typeLookup printV s o n))
  | "client" :: ws => Id.run do
    let some (limit, ws) := pNat ws | bad
    let some (locs, ws) := pList pStr ws | bad
    let some (reserved, ws) := pList pType ws | bad
    let some (j, []) := pJson ws | bad
    showClient (buildClient ⟨parseV, reserved, fun l => locs.contains l, limit⟩ j)
  | "wf" :: ws => Id.run do
    let some (depth, ws) := pNat ws | bad
    let some (limit, ws) := pNat ws | bad
    let some (locs, ws) := pList pStr ws | bad
    let some (reserved, ws) := pList pType ws | bad
    let some (s, []) := pSchema ws | bad
    if wfSchema ⟨parseV, reserved, fun l => locs.contains l, limit⟩ depth s then "true" else "false"
  | _ => bad

def main : IO Unit := run step
