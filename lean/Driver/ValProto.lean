import Driver.Proto
import Gql.Values.Enum
/-
Wire format of the value layer (C15/C16 drivers): prefix tokens with explicit counts.

value   := N | U | T | F | I <int> | <float> | S <str> | L <n> value* | P <n> value*
         | D <n> (<str> value)* | O <tag> <builtin:0|1> (0 | 1 <str>)
         | J <n> value*  (other iterable) | M <n> (<str> value)*  (non-dict Mapping)
float   := Fn | Fi <neg:0|1> | Ff <neg:0|1> <m> <e>
str     := <len> <cp>*
literal := v <str> | i <str> | f <str> | s <str> | bt | bf | n | e <str> | l <n> literal*
         | o <n> (<str> literal)*
conv    := <k> entry*      entry := is <str> (- | <int>) | fs <str> (- | float) | fi <int> (- | float)
                                  | sf float <str> | si <int> (- | <str>)
-/
namespace Driver
open Gql Gql.Values

abbrev P (α : Type) := List String → Option (α × List String)

def pTok : P String
  | [] => none
  | t :: ts => some (t, ts)

def pNat : P Nat
  | [] => none
  | t :: ts => t.toNat?.map (·, ts)

def pInt : P Int
  | [] => none
  | t :: ts => t.toInt?.map (·, ts)

def pBit : P Bool
  | "0" :: ts => some (false, ts)
  | "1" :: ts => some (true, ts)
  | _ => none

def pCount {α : Type} (p : P α) : Nat → P (List α)
  | 0, ts => some ([], ts)
  | n + 1, ts => do
    let (a, ts) ← p ts
    let (as, ts) ← pCount p n ts
    pure (a :: as, ts)

def pStr : P (List Nat) := fun ts => do
  let (n, ts) ← pNat ts
  pCount pNat n ts

def pFloatTail : String → P PyFloat
  | "Fn", ts => some (.nan, ts)
  | "Fi", ts => do
    let (b, ts) ← pBit ts
    pure (.inf b, ts)
  | "Ff", ts => do
    let (b, ts) ← pBit ts
    let (m, ts) ← pNat ts
    let (e, ts) ← pInt ts
    pure (.fin b m e, ts)
  | _, _ => none

def pFloat : P PyFloat := fun ts => do
  let (t, ts) ← pTok ts
  pFloatTail t ts

partial def pVal : P PyVal := fun ts => do
  let (t, ts) ← pTok ts
  match t with
  | "N" => pure (.none, ts)
  | "U" => pure (.undefined, ts)
  | "T" => pure (.bool true, ts)
  | "F" => pure (.bool false, ts)
  | "I" => do
    let (z, ts) ← pInt ts
    pure (.int z, ts)
  | "S" => do
    let (s, ts) ← pStr ts
    pure (.str s, ts)
  | "L" => do
    let (n, ts) ← pNat ts
    let (xs, ts) ← pCount pVal n ts
    pure (.list xs, ts)
  | "P" => do
    let (n, ts) ← pNat ts
    let (xs, ts) ← pCount pVal n ts
    pure (.tuple xs, ts)
  | "D" => do
    let (n, ts) ← pNat ts
    let (xs, ts) ← pCount (fun ts => do
      let (k, ts) ← pStr ts
      let (v, ts) ← pVal ts
      pure ((k, v), ts)) n ts
    pure (.dict xs, ts)
  | "J" => do
    let (n, ts) ← pNat ts
    let (xs, ts) ← pCount pVal n ts
    pure (.iter xs, ts)
  | "M" => do
    let (n, ts) ← pNat ts
    let (xs, ts) ← pCount (fun ts => do
      let (k, ts) ← pStr ts
      let (v, ts) ← pVal ts
      pure ((k, v), ts)) n ts
    pure (.mapping xs, ts)
  | "O" => do
    let (tag, ts) ← pNat ts
    let (b, ts) ← pBit ts
    let (has, ts) ← pBit ts
    if has then do
      let (s, ts) ← pStr ts
      pure (.other ⟨tag, b, some s⟩, ts)
    else pure (.other ⟨tag, b, none⟩, ts)
  | f => do
    let (x, ts) ← pFloatTail f ts
    pure (.float x, ts)

partial def pLit : P Lit := fun ts => do
  let (t, ts) ← pTok ts
  match t with
  | "v" => do let (s, ts) ← pStr ts; pure (.var s, ts)
  | "i" => do let (s, ts) ← pStr ts; pure (.int s, ts)
  | "f" => do let (s, ts) ← pStr ts; pure (.float s, ts)
  | "s" => do let (s, ts) ← pStr ts; pure (.str s, ts)
  | "e" => do let (s, ts) ← pStr ts; pure (.enum s, ts)
  | "bt" => pure (.bool true, ts)
  | "bf" => pure (.bool false, ts)
  | "n" => pure (.null, ts)
  | "l" => do
    let (n, ts) ← pNat ts
    let (xs, ts) ← pCount pLit n ts
    pure (.list xs, ts)
  | "o" => do
    let (n, ts) ← pNat ts
    let (xs, ts) ← pCount (fun ts => do
      let (k, ts) ← pStr ts
      let (v, ts) ← pLit ts
      pure ((k, v), ts)) n ts
    pure (.obj xs, ts)
  | _ => none

def pOpt {α : Type} (p : P α) : P (Option α)
  | "-" :: ts => some (none, ts)
  | ts => do
    let (a, ts) ← p ts
    pure (some a, ts)

structure ConvTable where
  is : List (List Nat × Option Int) := []
  fs : List (List Nat × Option PyFloat) := []
  fi : List (Int × Option PyFloat) := []
  sf : List (PyFloat × List Nat) := []
  si : List (Int × Option (List Nat)) := []

def pConvEntry (tb : ConvTable) : P ConvTable := fun ts => do
  let (t, ts) ← pTok ts
  match t with
  | "is" => do
    let (s, ts) ← pStr ts
    let (r, ts) ← pOpt pInt ts
    pure ({ tb with is := (s, r) :: tb.is }, ts)
  | "fs" => do
    let (s, ts) ← pStr ts
    let (r, ts) ← pOpt pFloat ts
    pure ({ tb with fs := (s, r) :: tb.fs }, ts)
  | "fi" => do
    let (z, ts) ← pInt ts
    let (r, ts) ← pOpt pFloat ts
    pure ({ tb with fi := (z, r) :: tb.fi }, ts)
  | "sf" => do
    let (f, ts) ← pFloat ts
    let (s, ts) ← pStr ts
    pure ({ tb with sf := (f, s) :: tb.sf }, ts)
  | "si" => do
    let (z, ts) ← pInt ts
    let (r, ts) ← pOpt pStr ts
    pure ({ tb with si := (z, r) :: tb.si }, ts)
  | _ => none

def pConvN : Nat → ConvTable → P ConvTable
  | 0, tb, ts => some (tb, ts)
  | n + 1, tb, ts => do
    let (tb, ts) ← pConvEntry tb ts
    pConvN n tb ts

def pConvTable : P ConvTable := fun ts => do
  let (n, ts) ← pNat ts
  pConvN n {} ts

/-- a conversion the harness did not supply shows up as this sentinel in the output -/
def missStr : List Nat := [63, 77, 73, 83, 83, 63]

/-- The table as a `PyConv`. A key the harness did not supply is answered with a sentinel
(`?MISS?` / nan / none) — the harness supplies every conversion the implementation can
perform on the case, so a miss shows up as a disagreement, never silently. -/
def ConvTable.toConv (tb : ConvTable) : PyConv where
  intOfStr := fun s => match tb.is.find? (·.1 = s) with
    | some (_, r) => r
    | none => some 999999999999
  floatOfStr := fun s => match tb.fs.find? (·.1 = s) with
    | some (_, r) => r
    | none => some (.fin false 999999999999 7)
  floatOfInt := fun z => match tb.fi.find? (·.1 = z) with
    | some (_, r) => r
    | none => some (.fin false 999999999999 7)
  strOfFloat := fun f => match tb.sf.find? (·.1 = f) with
    | some (_, r) => r
    | none => missStr
  strOfInt := fun z => match tb.si.find? (·.1 = z) with
    | some (_, r) => r
    | none => some missStr

def pConv : P PyConv := fun ts => do
  let (tb, ts) ← pConvTable ts
  pure (tb.toConv, ts)

/-! printing -/

def showStr (s : List Nat) : String :=
  if s.isEmpty then "0" else s!"{s.length} {showNats s}"

def showFloat : PyFloat → String
  | .nan => "Fn"
  | .inf b => s!"Fi {if b then 1 else 0}"
  | .fin b m e => s!"Ff {if b then 1 else 0} {m} {e}"

partial def showVal : PyVal → String
  | .none => "N"
  | .undefined => "U"
  | .bool true => "T"
  | .bool false => "F"
  | .int z => s!"I {z}"
  | .float f => showFloat f
  | .str s => "S " ++ showStr s
  | .list xs => " ".intercalate (s!"L {xs.length}" :: xs.map showVal)
  | .tuple xs => " ".intercalate (s!"P {xs.length}" :: xs.map showVal)
  | .dict kvs => " ".intercalate (s!"D {kvs.length}" :: kvs.map (fun (k, v) => showStr k ++ " " ++ showVal v))
  | .other o => s!"O {o.tag}"
  | .iter xs => " ".intercalate (s!"J {xs.length}" :: xs.map showVal)
  | .mapping kvs => " ".intercalate (s!"M {kvs.length}" :: kvs.map (fun (k, v) => showStr k ++ " " ++ showVal v))

partial def showLit : Lit → String
  | .var s => "v " ++ showStr s
  | .int s => "i " ++ showStr s
  | .float s => "f " ++ showStr s
  | .str s => "s " ++ showStr s
  | .enum s => "e " ++ showStr s
  | .bool true => "bt"
  | .bool false => "bf"
  | .null => "n"
  | .list xs => " ".intercalate (s!"l {xs.length}" :: xs.map showLit)
  | .obj fs => " ".intercalate (s!"o {fs.length}" :: fs.map (fun (k, v) => showStr k ++ " " ++ showLit v))

def showR : Out Unit PyVal → String
  | .ok v => "ok " ++ showVal v
  | .err _ => "err"
  | .crash k => "crash " ++ k

def pScalar : P Scalar
  | "Int" :: ts => some (.int, ts)
  | "Float" :: ts => some (.float, ts)
  | "String" :: ts => some (.string, ts)
  | "Boolean" :: ts => some (.boolean, ts)
  | "ID" :: ts => some (.id, ts)
  | _ => none

def pEnum : P EnumType := fun ts => do
  let (n, ts) ← pNat ts
  let (xs, ts) ← pCount (fun ts => do
    let (k, ts) ← pStr ts
    let (v, ts) ← pVal ts
    pure ((k, v), ts)) n ts
  pure (⟨xs⟩, ts)

def pLeaf : P Leaf
  | "sc" :: ts => do
    let (s, ts) ← pScalar ts
    pure (.scalar s, ts)
  | "en" :: ts => do
    let (e, ts) ← pEnum ts
    pure (.enum e, ts)
  | _ => none

end Driver
