/-
S-expression protocol shared by the execution drivers (C02, C13): parser for schemas, documents,
coerced variables, data graphs and response values; canonical printers.
The grammar is documented in `tools/c02_gen.py` / `checks/c02.py`.
-/
import Driver.Proto
import Gql.Exec.Values
import Gql.Exec.ImplExec
import Gql.Exec.SpecExec
open Gql Gql.Exec Driver

namespace C02Driver

inductive Sexp where
  | atom (s : String)
  | list (xs : List Sexp)
  deriving Inhabited

/-- tokens: "(" ")" and maximal runs of other non-space characters -/
def tokenize (s : String) : Array String := Id.run do
  let mut out : Array String := #[]
  let mut cur : String := ""
  for c in s.toList do
    if c == '(' || c == ')' then
      if cur != "" then
        out := out.push cur
        cur := ""
      out := out.push (String.singleton c)
    else if c == ' ' then
      if cur != "" then
        out := out.push cur
        cur := ""
    else
      cur := cur.push c
  if cur != "" then out := out.push cur
  return out

/-- parse with an explicit stack -/
def parseSexp (toks : Array String) : Option Sexp := Id.run do
  let mut stack : List (List Sexp) := []
  let mut top : List Sexp := []
  for t in toks do
    if t == "(" then
      stack := top :: stack
      top := []
    else if t == ")" then
      match stack with
      | [] => return none
      | parent :: rest =>
        top := Sexp.list top.reverse :: parent
        stack := rest
    else
      top := Sexp.atom t :: top
  match stack, top with
  | [], [x] => return some x
  | _, _ => return none

abbrev P := Except String

def fail {α} (msg : String) : P α := .error msg

def atomOf : Sexp → P String
  | .atom s => pure s
  | _ => fail "atom expected"

def natOf (x : Sexp) : P Nat := do
  let s ← atomOf x
  match s.toNat? with
  | some n => pure n
  | none => fail s!"nat expected: {s}"

def intOf (x : Sexp) : P Int := do
  let s ← atomOf x
  match s.toInt? with
  | some n => pure n
  | none => fail s!"int expected: {s}"

def boolOf (x : Sexp) : P Bool := do
  let n ← natOf x
  pure (n != 0)

def optName (x : Sexp) : P (Option Name) := do
  let s ← atomOf x
  pure (if s == "-" then none else some s)

partial def typeOf : Sexp → P TypeRef
  | .list [.atom "n", n, b] => do pure (.named (← atomOf n) (← boolOf b))
  | .list [.atom "l", t, b] => do pure (.list (← typeOf t) (← boolOf b))
  | _ => fail "type"

partial def valueOf : Sexp → P Value
  | .atom "null" => pure .null
  | .list [.atom "var", n] => do pure (.var (← atomOf n))
  | .list [.atom "i", n] => do pure (.int (← intOf n))
  | .list [.atom "fl", n] => do pure (.flt (← intOf n))
  | .list (.atom "s" :: cps) => do pure (.str (← cps.mapM natOf))
  | .list [.atom "b", b] => do pure (.bool (← boolOf b))
  | .list [.atom "e", n] => do pure (.enum (← atomOf n))
  | .list (.atom "l" :: vs) => do pure (.list (← vs.mapM valueOf))
  | .list (.atom "o" :: fs) => do
    let kvs ← fs.mapM (fun f => match f with
      | .list [k, v] => do pure ((← atomOf k), (← valueOf v))
      | _ => fail "object field")
    pure (.obj kvs)
  | _ => fail "value"

partial def pyValOf : Sexp → P PyVal
  | .atom "null" => pure .null
  | .list [.atom "i", n] => do pure (.int (← intOf n))
  | .list [.atom "fl", n] => do pure (.flt (← intOf n))
  | .list (.atom "s" :: cps) => do pure (.str (← cps.mapM natOf))
  | .list [.atom "b", b] => do pure (.bool (← boolOf b))
  | .list (.atom "l" :: vs) => do pure (.list (← vs.mapM pyValOf))
  | .list (.atom "d" :: fs) => do
    let kvs ← fs.mapM (fun f => match f with
      | .list [k, v] => do pure ((← atomOf k), (← pyValOf v))
      | _ => fail "dict entry")
    pure (.dict kvs)
  | _ => fail "pyval"

def kvPyOf : Sexp → P (Name × PyVal)
  | .list [k, v] => do pure ((← atomOf k), (← pyValOf v))
  | _ => fail "kv"

def defaultOf : Sexp → P (Option Value)
  | .atom "-" => pure none
  | v => do pure (some (← valueOf v))

def argDefOf : Sexp → P ArgDef
  | .list [.atom _, n, t, d] => do
    pure { name := (← atomOf n), type := (← typeOf t), default := (← defaultOf d) }
  | _ => fail "argdef"

def fieldDefOf : Sexp → P FieldDef
  | .list (.atom "f" :: n :: t :: args) => do
    pure { name := (← atomOf n), type := (← typeOf t), args := (← args.mapM argDefOf) }
  | _ => fail "fielddef"

def namesOf : Sexp → P (List Name)
  | .list xs => xs.mapM atomOf
  | _ => fail "names"

def typeDefOf : Sexp → P TypeDef
  | .list (.atom "object" :: n :: is :: fs) => do
    pure (.object (← atomOf n) (← namesOf is) (← fs.mapM fieldDefOf))
  | .list (.atom "iface" :: n :: is :: fs) => do
    pure (.iface (← atomOf n) (← namesOf is) (← fs.mapM fieldDefOf))
  | .list (.atom "union" :: n :: ms) => do pure (.union (← atomOf n) (← ms.mapM atomOf))
  | .list (.atom "enum" :: n :: vs) => do pure (.enum (← atomOf n) (← vs.mapM atomOf))
  | .list (.atom "input" :: n :: fs) => do pure (.input (← atomOf n) (← fs.mapM argDefOf))
  | .list [.atom "scalar", n] => do pure (.scalar (← atomOf n))
  | _ => fail "typedef"

def schemaOf : Sexp → P Schema
  | .list (.atom "schema" :: q :: m :: tds) => do
    -- `(input1 NAME ARGDEF*)` is an `@oneOf` input object
    let ones := tds.filterMap (fun td => match td with
      | .list (.atom "input1" :: .atom n :: _) => some n
      | _ => none)
    let tds' := tds.map (fun td => match td with
      | .list (.atom "input1" :: rest) => Sexp.list (.atom "input" :: rest)
      | x => x)
    pure { query := (← atomOf q), mutation := (← optName m), types := (← tds'.mapM typeDefOf),
           oneOfs := ones }
  | _ => fail "schema"

def argsOf : Sexp → P (List (Name × Value))
  | .list (.atom _ :: kvs) => kvs.mapM (fun f => match f with
      | .list [k, v] => do pure ((← atomOf k), (← valueOf v))
      | _ => fail "arg")
  | _ => fail "args"

def dirOf : Sexp → P Directive
  | .list (.atom "d" :: n :: kvs) => do
    pure { name := (← atomOf n), args := (← argsOf (.list (.atom "args" :: kvs))) }
  | _ => fail "directive"

def dirsOf : Sexp → P (List Directive)
  | .list (.atom "dirs" :: ds) => ds.mapM dirOf
  | _ => fail "dirs"

partial def selOf : Sexp → P Selection
  | .list (.atom "field" :: al :: n :: args :: dirs :: sels) => do
    pure (.field (← optName al) (← atomOf n) (← argsOf args) (← dirsOf dirs) (← sels.mapM selOf))
  | .list (.atom "inline" :: c :: dirs :: sels) => do
    pure (.inline (← optName c) (← dirsOf dirs) (← sels.mapM selOf))
  | .list [.atom "spread", n, dirs] => do pure (.spread (← atomOf n) (← dirsOf dirs))
  | _ => fail "selection"

def varDefOf : Sexp → P VarDef
  | .list [.atom "v", n, t, d] => do
    pure { name := (← atomOf n), type := (← typeOf t), default := (← defaultOf d) }
  | _ => fail "vardef"

def opOf : Sexp → P Operation
  | .list (.atom "op" :: k :: n :: .list (.atom "vars" :: vds) :: sels) => do
    let kind ← match k with
      | .atom "query" => pure OpKind.query
      | .atom "mutation" => pure OpKind.mutation
      | _ => fail "op kind"
    pure { kind := kind, name := (← optName n), vars := (← vds.mapM varDefOf), sels := (← sels.mapM selOf) }
  | _ => fail "op"

def fragOf : Sexp → P FragDef
  | .list (.atom "frag" :: n :: c :: sels) => do
    pure { name := (← atomOf n), cond := (← atomOf c), sels := (← sels.mapM selOf) }
  | _ => fail "frag"

def docOf : Sexp → P Doc
  | .list [.atom "doc", .list (.atom "ops" :: ops), .list (.atom "frags" :: frs)] => do
    pure { ops := (← ops.mapM opOf), frags := (← frs.mapM fragOf) }
  | _ => fail "doc"

def varsOf : Sexp → P Vars
  | .list (.atom "vars" :: kvs) => kvs.mapM kvPyOf
  | _ => fail "vars"

/-- an entry of an object node: field name, optional guard on the coerced arguments, value -/
structure Entry where
  name : Name
  guard : Option ArgMap
  val : RVal

/-- dict keys sorted, recursively (guards are compared up to key order, like Python dicts) -/
partial def canonPy : PyVal → PyVal
  | .list xs => .list (xs.map canonPy)
  | .dict kvs => .dict ((kvs.map (fun (k, v) => (k, canonPy v))).mergeSort (fun a b => a.1 ≤ b.1))
  | v => v

def canonArgs (a : ArgMap) : ArgMap :=
  (a.map (fun (k, v) => (k, canonPy v))).mergeSort (fun x y => x.1 ≤ y.1)

def resolveFrom (es : List Entry) (n : Name) (a : ArgMap) : RVal :=
  match es.find? (fun e => e.name == n && (match e.guard with
      | none => true
      | some g => ArgMap.beq (canonArgs g) (canonArgs a))) with
  | some e => e.val
  | none => .null

partial def dataOf : Sexp → P RVal
  | .atom "null" => pure .null
  | .list [.atom "i", n] => do pure (.leaf (.int (← intOf n)))
  | .list [.atom "fl", n] => do pure (.leaf (.flt (← intOf n)))
  | .list (.atom "s" :: cps) => do pure (.leaf (.str (← cps.mapM natOf)))
  | .list [.atom "b", b] => do pure (.leaf (.bool (← boolOf b)))
  | .list [.atom "raise", t] => do pure (.raise (← natOf t) none)
  | .list [.atom "raise", t, .list (.atom "p" :: segs)] => do
    let ps ← segs.mapM (fun x => do
      let a ← atomOf x
      if a.startsWith "k:" then pure (PSeg.key (a.drop 2).toString)
      else match (a.drop 2).toString.toNat? with
        | some n => pure (PSeg.idx n)
        | none => fail "path segment")
    pure (.raise (← natOf t) (some ps))
  | .list (.atom "l" :: xs) => do pure (.list (← xs.mapM dataOf))
  | .list (.atom "obj" :: tn :: es) => do
    let tn ← match tn with
      | .atom "-" => pure TN.missing
      | .atom "bad" => pure TN.bad
      | .list [.atom "t", n] => do pure (TN.name (← atomOf n))
      | _ => fail "typename"
    let entries ← es.mapM (fun e => match e with
      | .list [n, g, v] => do
        let guard ← match g with
          | .atom "*" => pure none
          | .list (.atom "g" :: kvs) => do pure (some (← kvs.mapM kvPyOf))
          | _ => fail "guard"
        pure ({ name := (← atomOf n), guard := guard, val := (← dataOf v) } : Entry)
      | _ => fail "entry")
    pure (.obj tn (resolveFrom entries))
  | _ => fail "data"

/-- a request; `(rawvars …)` instead of `(vars …)`: raw variable values, coerced here by
`Concrete.coerceVariableValues` against the selected operation's variable definitions
(second component: `false` = variable coercion failed, a request error) -/
def reqOfS (s : Schema) : Sexp → P (Impl.Request × Bool)
  | .list [.atom "req", d, n, vs, data] => do
    let doc ← docOf d
    let opName ← optName n
    let root ← dataOf data
    match vs with
    | .list (.atom "rawvars" :: kvs) =>
      let raw ← kvs.mapM kvPyOf
      let defs := match Spec.getOperation doc.ops opName with
        | some op => op.vars
        | none => []
      match Concrete.coerceVariableValues s defs raw with
      | some vars => pure ({ doc := doc, opName := opName, vars := vars, root := root }, true)
      | none => pure ({ doc := doc, opName := opName, vars := [], root := root }, false)
    | _ => pure ({ doc := doc, opName := opName, vars := (← varsOf vs), root := root }, true)
  | _ => fail "req"

def reqOf (x : Sexp) : P Impl.Request := do
  let (r, _) ← reqOfS default x
  pure r


partial def jsonOf : Sexp → P Json
  | .atom "null" => pure .null
  | .list [.atom "i", n] => do pure (.int (← intOf n))
  | .list [.atom "fl", n] => do pure (.flt (← intOf n))
  | .list (.atom "s" :: cps) => do pure (.str (← cps.mapM natOf))
  | .list [.atom "b", b] => do pure (.bool (← boolOf b))
  | .list (.atom "l" :: xs) => do pure (.list (← xs.mapM jsonOf))
  | .list (.atom "o" :: kvs) => do
    let kvs ← kvs.mapM (fun f => match f with
      | .list [k, v] => do pure ((← atomOf k), (← jsonOf v))
      | _ => fail "object entry")
    pure (.obj kvs)
  | _ => fail "json"

/-! ### output -/

def showCps (xs : List Nat) : String := " ".intercalate (xs.map toString)

partial def showJson : Json → String
  | .null => "null"
  | .int i => s!"(i {i})"
  | .flt h => s!"(fl {h})"
  | .str s => if s.isEmpty then "(s)" else s!"(s {showCps s})"
  | .bool b => s!"(b {if b then 1 else 0})"
  | .list xs => "(l" ++ String.join (xs.map (fun x => " " ++ showJson x)) ++ ")"
  | .obj kvs => "(o" ++ String.join (kvs.map (fun (k, v) => s!" ({k} {showJson v})")) ++ ")"

partial def showPyVal : PyVal → String
  | .null => "null"
  | .int i => s!"(i {i})"
  | .flt h => s!"(fl {h})"
  | .str s => if s.isEmpty then "(s)" else s!"(s {showCps s})"
  | .bool b => s!"(b {if b then 1 else 0})"
  | .list xs => "(l" ++ String.join (xs.map (fun x => " " ++ showPyVal x)) ++ ")"
  | .dict kvs =>
    -- canonical: keys sorted (the order of a coerced input object's keys is not an observable of C02)
    "(d" ++ String.join ((kvs.mergeSort (fun a b => a.1 ≤ b.1)).map (fun (k, v) => s!" ({k} {showPyVal v})")) ++ ")"

def showSeg : PSeg → String
  | .key k => s!"k:{k}"
  | .idx i => s!"i:{i}"

def showPath (p : List PSeg) : String := "(p" ++ String.join (p.map (fun s => " " ++ showSeg s)) ++ ")"

def showKind : ErrKind → String
  | .raised t => s!"raised:{t}"
  | .nullNonNull => "nullNonNull"
  | .leaf => "leaf"
  | .notIterable => "notIterable"
  | .abstractUnresolved => "abstractUnresolved"
  | .abstractBadName => "abstractBadName"
  | .abstractUnknown => "abstractUnknown"
  | .abstractNonObject => "abstractNonObject"
  | .abstractNotPossible => "abstractNotPossible"
  | .argCoercion => "argCoercion"
  | .directiveCoercion => "directiveCoercion"
  | .badOutputType => "badOutputType"
  | .noRootType => "noRootType"
  | .noOperation => "noOperation"

def showErr (e : FErr) : String :=
  match e.path with
  | some p => showPath p
  | none => "(nopath)"

def showCall (c : Call) : String :=
  s!"(call {showPath c.path} {c.parent} {c.field} (args" ++
    String.join ((c.args.mergeSort (fun a b => a.1 ≤ b.1)).map (fun (k, v) => s!" ({k} {showPyVal v})")) ++ "))"

/-- `(data J) (errs E*) (kinds K*) (log C*)` -/
def showResp (r : Resp) : String :=
  s!"(data {showJson r.data}) (errs" ++ String.join (r.errors.map (fun e => " " ++ showErr e)) ++
    ") (kinds" ++ String.join (r.errors.map (fun e => " " ++ showKind e.kind)) ++
    ") (log" ++ String.join (r.log.map (fun c => " " ++ showCall c)) ++ ")"

def showOut : Out Unit Resp → String
  | .ok r => showResp r
  | .err _ => "err"
  | .crash c => s!"crash {c}"

end C02Driver
