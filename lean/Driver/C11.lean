import Driver.Proto
import Gql.Syntax.Visitor
import Gql.Generated.AstKeys
/-
Line protocol of the C11 driver.  One case per line (space separated tokens):

  visit <fuel> <depth> <par> <m> <rules_1> … <rules_m> <tree>
  keys                                  -- prints the QUERY_DOCUMENT_KEYS table the model uses

  <par>    0: the (single) scripted visitor is passed to visit() directly; 1: ParallelVisitor(members)
  <rules>  { <rule>* }        <rule> := <phase:e|l> <selector> <action>
  <selector> := p <n> <key>*n | k <kind> | c <count> | s <serial> | any
  <key>    := - | i<nat> | n<name>
  <action> := idle | skip | brk | rm | rep <tree>
  <tree>   := ( <kind> <serial> <payload> <field>* )
  <field>  := <name> - | <name> <tree> | <name> [ <tree>* ]

Output: `M <model outcome> | S <spec outcome> | A <spec of member 0 alone> | A …`
-/
open Gql Gql.Syntax Driver

/-- scripted visitor state: number of calls so far, rendered call log (most recent first) -/
structure ScriptSt where
  calls : Nat
  log : List String

inductive Sel where
  | path (p : List Key) | kind (k : String) | count (c : Nat) | serial (s : Nat) | any

structure Rule where
  phase : Phase
  sel : Sel
  act : Action

/-! rendering -/
mutual
partial def showNode : Node → String
  | .mk k s p fs => "( " ++ k ++ " " ++ toString s ++ " " ++ p ++ " " ++ String.join (fs.map showField) ++ ")"
partial def showField : String × Child → String
  | (k, .absent) => k ++ " - "
  | (k, .one n) => k ++ " " ++ showNode n ++ " "
  | (k, .many ns) => k ++ " [ " ++ String.join (ns.map (fun n => showNode n ++ " ")) ++ "] "
end

def showKey : Key → String
  | .none => "-"
  | .idx i => "i" ++ toString i
  | .name s => "n" ++ s

def showRef : Val → String
  | .node n => n.kind ++ "@" ++ toString n.serial
  | .arr ns => "[" ++ ".".intercalate (ns.map (fun n => toString n.serial)) ++ "]"

def showOptRef : Option Val → String
  | none => "-"
  | some v => showRef v

def dotted (xs : List String) : String := if xs.isEmpty then "." else "/".intercalate xs

/-- polynomial hash of a rendered tree (reproduced on the Python side), keeps logs short -/
def polyHash (s : String) : Nat :=
  s.foldl (fun h c => (h * 131 + c.toNat) % 1000000007) 7

def showCall (c : Call) : String :=
  (match c.phase with | .enter => "E " | .leave => "L ") ++ showRef (.node c.node) ++ " " ++
    showKey c.key ++ " " ++ showOptRef c.parent ++ " " ++ dotted (c.path.map showKey) ++ " " ++
    dotted (c.ancestors.map showRef) ++
    (if c.node.serial == 0 then " =" ++ toString (polyHash (showNode c.node)) else "")

def showVal : Option Val → String
  | none => "None"
  | some (.node n) => showNode n
  | some (.arr ns) => "[ " ++ String.join (ns.map (fun n => showNode n ++ " ")) ++ "]"

/-! the scripted visitor -/
def keyEq (a b : Key) : Bool := decide (a = b)

def Sel.matches (s : Sel) (st : ScriptSt) (c : Call) : Bool :=
  match s with
  | .path p => p.length == c.path.length && (p.zip c.path).all (fun (a, b) => keyEq a b)
  | .kind k => k == c.node.kind
  | .count n => n == st.calls
  | .serial n => n == c.node.serial
  | .any => true

def scripted (rules : List Rule) : Visitor ScriptSt := fun st c =>
  let a := match rules.find? (fun r => decide (r.phase = c.phase) && r.sel.matches st c) with
    | some r => r.act
    | none => .idle
  (a, ⟨st.calls + 1, showCall c :: st.log⟩)

/-! parsing -/
abbrev P := StateT (List String) Option

def tok : P String := fun ts => match ts with | [] => none | t :: r => some (t, r)
def peek : P String := fun ts => match ts with | [] => none | t :: _ => some (t, ts)
def expect (s : String) : P Unit := do let t ← tok; if t == s then pure () else failure
def nat : P Nat := do let t ← tok; match t.toNat? with | some n => pure n | none => failure

def parseKey (t : String) : Option Key :=
  if t == "-" then some .none
  else if t.startsWith "i" then (t.drop 1).toNat?.map Key.idx
  else if t.startsWith "n" then some (.name (t.drop 1).toString)
  else none

mutual
partial def pNode : P Node := do
  expect "("
  let k ← tok
  let s ← nat
  let p ← tok
  let fs ← pFields
  pure (.mk k s p fs)
partial def pFields : P (List (String × Child)) := do
  let t ← tok
  if t == ")" then pure [] else
    let nx ← peek
    let c ← (if nx == "-" then do let _ ← tok; pure Child.absent
             else if nx == "[" then do let _ ← tok; let ns ← pNodes; pure (Child.many ns)
             else do let n ← pNode; pure (Child.one n))
    let r ← pFields
    pure ((t, c) :: r)
partial def pNodes : P (List Node) := do
  let nx ← peek
  if nx == "]" then do let _ ← tok; pure [] else
    let n ← pNode
    let r ← pNodes
    pure (n :: r)
end

partial def pKeys : Nat → P (List Key)
  | 0 => pure []
  | n + 1 => do
    let t ← tok
    match parseKey t with
    | some k => do let r ← pKeys n; pure (k :: r)
    | none => failure

partial def pRules : P (List Rule) := do
  let t ← tok
  if t == "}" then pure [] else
    let ph ← (if t == "e" then pure Phase.enter else if t == "l" then pure Phase.leave else failure)
    let st ← tok
    let sel ← (if st == "p" then do let n ← nat; let ks ← pKeys n; pure (Sel.path ks)
               else if st == "k" then do let k ← tok; pure (Sel.kind k)
               else if st == "c" then do let n ← nat; pure (Sel.count n)
               else if st == "s" then do let n ← nat; pure (Sel.serial n)
               else if st == "any" then pure Sel.any
               else failure)
    let atk ← tok
    let act ← (if atk == "idle" then pure Action.idle
               else if atk == "skip" then pure Action.skip
               else if atk == "brk" then pure Action.brk
               else if atk == "rm" then pure Action.remove
               else if atk == "rep" then do let n ← pNode; pure (Action.replace n)
               else failure)
    let r ← pRules
    pure (⟨ph, sel, act⟩ :: r)

partial def pMembers : Nat → P (List (List Rule))
  | 0 => pure []
  | n + 1 => do expect "{"; let r ← pRules; let rest ← pMembers n; pure (r :: rest)

def showLog (st : ScriptSt) : String := ";".intercalate st.log.reverse

def vk (kind : String) : List String :=
  match Gql.Generated.queryDocumentKeys.lookup kind with
  | some ks => ks
  | none => []

def showModel (members : List String) (r : Option (O (Option Val × α))) (logs : α → List String) : String :=
  let _ := members
  match r with
  | none => "fuel"
  | some (.crash c) => "crash " ++ c
  | some (.err _) => "err"
  | some (.ok (res, s)) => "ok " ++ showVal res ++ String.join ((logs s).map (fun l => " # " ++ l))

def showSpec (r : Option (Spec.Outcome α)) (logs : α → List String) : String :=
  match r with
  | none => "depth"
  | some o =>
    "ok " ++ (match o.result with | none => "?" | some x => showVal x) ++ " @" ++ toString o.iters ++
      String.join ((logs o.state).map (fun l => " # " ++ l))

def runCase (fuel depth : Nat) (par : Bool) (members : List (List Rule)) (root : Node) : String :=
  let init : ScriptSt := ⟨0, []⟩
  let alone := members.map (fun rules =>
    " | A " ++ showSpec (Spec.specVisit vk (scripted rules) depth root init)
      (fun s => [toString (polyHash (showLog s))]))
  if par then
    let v := parallel (members.map scripted)
    let s0 := parallelInit (members.map (fun _ => init))
    let logs := fun (ms : List (ScriptSt × Skipping)) => ms.map (fun m => showLog m.1)
    "M " ++ showModel [] (visitFuel root vk v s0 fuel) logs ++ " | S " ++
      showSpec (Spec.specVisit vk v depth root s0) logs ++ String.join alone
  else
    match members with
    | [rules] =>
      let v := scripted rules
      "M " ++ showModel [] (visitFuel root vk v init fuel) (fun s => [showLog s]) ++ " | S " ++
        showSpec (Spec.specVisit vk v depth root init) (fun s => [showLog s]) ++ String.join alone
    | _ => "bad-op"

def pCase : P String := do
  let fuel ← nat
  let depth ← nat
  let par ← nat
  let m ← nat
  let members ← pMembers m
  let root ← pNode
  pure (runCase fuel depth (par == 1) members root)

def step (line : String) : String :=
  match words line with
  | "visit" :: rest =>
    match pCase rest with
    | some (out, []) => out
    | _ => "bad-op"
  | ["keys"] =>
    ";".intercalate (Gql.Generated.queryDocumentKeys.map (fun (k, ks) => k ++ ":" ++ ",".intercalate ks))
  | _ => "bad-op"

def main : IO Unit := run step
