import Driver.Proto
import Gql.Text.Lexer
open Gql Gql.Text Driver

def kindName : TokKind → String
  | .sof => "SOF" | .eof => "EOF" | .bang => "BANG" | .dollar => "DOLLAR" | .amp => "AMP"
  | .parenL => "PAREN_L" | .parenR => "PAREN_R" | .dot => "DOT" | .spread => "SPREAD"
  | .colon => "COLON" | .equals => "EQUALS" | .at => "AT" | .bracketL => "BRACKET_L"
  | .bracketR => "BRACKET_R" | .braceL => "BRACE_L" | .pipe => "PIPE" | .braceR => "BRACE_R"
  | .name => "NAME" | .int => "INT" | .float => "FLOAT" | .string => "STRING"
  | .blockString => "BLOCK_STRING" | .comment => "COMMENT"

def errName : LexErrKind → String
  | .unexpectedDotDot => "unexpectedDotDot" | .digitBeforeDot => "digitBeforeDot"
  | .singleQuote => "singleQuote" | .unexpectedChar => "unexpectedChar"
  | .invalidChar => "invalidChar" | .digitAfterZero => "digitAfterZero"
  | .expectedDigit => "expectedDigit" | .invalidCharInString => "invalidCharInString"
  | .unterminatedString => "unterminatedString" | .invalidUnicodeEscape => "invalidUnicodeEscape"
  | .invalidCharEscape => "invalidCharEscape"

def showTok (t : Token) : String :=
  let v := match t.value with
    | none => "-"
    | some v => "v " ++ showNats v
  s!"{kindName t.kind} {t.start} {t.stop} {t.line} {t.column} {v}"

def showLex : LexOut (List Token) → String
  | .ok ts => "ok " ++ " | ".intercalate (ts.map showTok)
  | .err e => s!"err {errName e.kind} {e.pos}"
  | .crash c => s!"crash {c}"

def stepLex (line : String) : String :=
  match words line with
  | "lex" :: cps =>
    match parseNats cps with
    | some body => showLex (lexAll body)
    | none => "bad-op"
  | _ => "bad-op"

def main : IO Unit := run stepLex
