import Driver.Proto
import Gql.Types.SExp
import Gql.Types.Sort
/-! Line-protocol operations shared by the C17 and C19 drivers (schema content models). -/
namespace Driver.C17Ops
open Gql Gql.Types Gql.Types.SExp Driver

def showB (r : B Schema) : String :=
  match r with
  | .ok s => "ok " ++ render (eSchema s)
  | .err _ => "err"
  | .crash c => s!"crash {c}"

def kindName (k : ChangeKind) : String :=
  let s := reprStr k
  -- "Gql.Types.ChangeKind.X" -> "X"
  (s.splitOn ".").getLast!

def showChange (c : Change) : String :=
  "( " ++ kindName c.kind ++ " " ++ String.join (c.subject.map (fun s => render (.str s) ++ " ")) ++ ")"

def step (line : String) : String :=
  match words line with
  | [] => "bad-op"
  | op :: toks =>
    match parseToks toks with
    | none => "bad-sexp"
    | some xs =>
      match op, xs with
      | "defs", [s] =>
        match dSchema s with
        | some s => render (eDefs (schemaToDefs s))
        | none => "bad-schema"
      | "build", [d] =>
        match dDefs d with
        | some d => showB (buildFromDefs d)
        | none => "bad-defs"
      | "extend", [s, d] =>
        match dSchema s, dDefs d with
        | some s, some d => showB (extendDefs s d) ++ (if extendReturnsSame d then " same" else " new")
        | _, _ => "bad-args"
      | "wf", [s] =>
        match dSchema s with
        | some s => if WFSchema s then "T" else "F"
        | none => "bad-schema"
      | "roundtrip", [s] =>
        match dSchema s with
        | some s => if buildFromDefs (schemaToDefs s) = .ok s then "T" else "F"
        | none => "bad-schema"
      | "changes", [a, b] =>
        match dSchema a, dSchema b with
        | some a, some b => "( " ++ String.join ((changes a b).map (fun c => showChange c ++ " ")) ++ ")"
        | _, _ => "bad-args"
      | "sort", [s] =>
        match dSchema s with
        | some s => render (eSchema (sortSchema s))
        | none => "bad-schema"
      | "natkey", [.str s] => render (.list ((natKey s).map .str))
      | "natle", [.str a, .str b] => if natLe a b then "T" else "F"
      | "blockp", [.str s] => if isPrintableAsBlockString s then "T" else "F"
      | "sortvalue", [v] =>
        match dValue v with
        | some v => render (eValue (sortValue v))
        | none => "bad-value"
      | _, _ => "bad-op"

end Driver.C17Ops
