import Driver.Proto
import Gql.Async.Assemble
import Gql.Async.Plan
import Gql.Async.CollectDefer
import Gql.Async.IncExec
import Gql.Async.IncGroups
import Driver.ExecSexp
/-!
Line-protocol driver for C04.

JSON crosses the boundary as a prefix token stream:
  `n` null, `t`/`f` booleans, `i<int>`, `s<cp>.<cp>…` strings (code points, `s` = empty),
  `[<k>` array of k values, `{<k>` object of k (key-string, value) pairs.

Commands
  `asm <mode> J`   J = {"mode-data"…} see `runCheck`: fold the payloads with `Assemble.apply`, then decide
                   the property clause (`exact` / `approx`) against the reference.
  `plan …`         `buildExecutionPlan` on a grouped field set (see `runPlan`).
  `incexec (case SCHEMA REQ)`  the incremental executor model `IncExec.incCut` on one request in
                   C02's s-expression syntax (see `runIncExec`).
-/
open Gql.Async Driver

namespace C04

/-! ### token codec -/

def parseStr (tok : String) : Option (List Nat) :=
  let body := (tok.drop 1).toString
  if body.isEmpty then some [] else (body.splitOn ".").mapM (fun w => w.toNat?)

mutual
def parseJ : Nat → List String → Option (J × List String)
  | 0, _ => none
  | _, [] => none
  | fuel + 1, tok :: rest =>
    if tok = "n" then some (.null, rest)
    else if tok = "t" then some (.bool true, rest)
    else if tok = "f" then some (.bool false, rest)
    else if tok.startsWith "i" then
      match (tok.drop 1).toString.toInt? with
      | some i => some (.int i, rest)
      | none => none
    else if tok.startsWith "s" then
      match parseStr tok with
      | some s => some (.str s, rest)
      | none => none
    else if tok.startsWith "[" then
      match (tok.drop 1).toString.toNat? with
      | some k =>
        match parseArr fuel k rest with
        | some (xs, rest') => some (.arr xs, rest')
        | none => none
      | none => none
    else if tok.startsWith "{" then
      match (tok.drop 1).toString.toNat? with
      | some k =>
        match parseObj fuel k rest with
        | some (kvs, rest') => some (.obj kvs, rest')
        | none => none
      | none => none
    else none
def parseArr : Nat → Nat → List String → Option (List J × List String)
  | 0, _, _ => none
  | _, 0, toks => some ([], toks)
  | fuel + 1, k + 1, toks =>
    match parseJ fuel toks with
    | some (x, rest) =>
      match parseArr fuel k rest with
      | some (xs, rest') => some (x :: xs, rest')
      | none => none
    | none => none
def parseObj : Nat → Nat → List String → Option (List (List Nat × J) × List String)
  | 0, _, _ => none
  | _, 0, toks => some ([], toks)
  | _, _ + 1, [] => none
  | fuel + 1, k + 1, ktok :: toks =>
    match parseStr ktok, parseJ fuel toks with
    | some key, some (x, rest) =>
      match parseObj fuel k rest with
      | some (xs, rest') => some ((key, x) :: xs, rest')
      | none => none
    | _, _ => none
end

def showStr (s : List Nat) : String := "s" ++ ".".intercalate (s.map toString)

mutual
def showJ : J → String
  | .null => "n"
  | .bool true => "t"
  | .bool false => "f"
  | .int i => "i" ++ toString i
  | .str s => showStr s
  | .arr xs => "[" ++ toString xs.length ++ showList xs
  | .obj kvs => "{" ++ toString kvs.length ++ showFields kvs
def showList : List J → String
  | [] => ""
  | x :: xs => " " ++ showJ x ++ showList xs
def showFields : List (List Nat × J) → String
  | [] => ""
  | (k, v) :: rest => " " ++ showStr k ++ " " ++ showJ v ++ showFields rest
end

/-! ### decoding `.formatted` payloads -/

def key (s : String) : List Nat := s.toList.map Char.toNat

def field (name : String) : J → Option J
  | .obj kvs => lookup (key name) kvs
  | _ => none

def toSeg : J → Option Seg
  | .str s => some (.key s)
  | .int i => if i ≥ 0 then some (.idx i.toNat) else none
  | _ => none

def toPath : J → Option Path
  | .arr xs => xs.mapM toSeg
  | _ => none

/-- `errors: [{message, path?, …}]` → the paths (an error without path counts as `[]`). -/
def errorPaths : Option J → Option (List Path)
  | none => some []
  | some (.arr es) =>
    es.mapM (fun e =>
      match field "path" e with
      | none => some []
      | some p => toPath p)
  | some _ => none

def strOf : J → Option (List Nat)
  | .str s => some s
  | _ => none

def decPending : Option J → Option (List PendingE)
  | none => some []
  | some (.arr ps) =>
    ps.mapM (fun p => do
      let id ← (field "id" p) >>= strOf
      let path ← (field "path" p) >>= toPath
      pure { id := id, path := path })
  | some _ => none

def decInc (e : J) : Option IncE := do
  let id ← (field "id" e) >>= strOf
  let errs ← errorPaths (field "errors" e)
  match field "items" e with
  | some (.arr items) => pure (.stream id items errs)
  | some _ => none
  | none =>
    let data ← field "data" e
    let sub ← match field "subPath" e with
      | none => some []
      | some p => toPath p
    pure (.defer id sub data errs)

def decCompleted (c : J) : Option CompletedE := do
  let id ← (field "id" c) >>= strOf
  match field "errors" c with
  | none => pure { id := id, errors := none }
  | some es =>
    let ps ← errorPaths (some es)
    pure { id := id, errors := some ps }

def decList (f : J → Option α) : Option J → Option (List α)
  | none => some []
  | some (.arr xs) => xs.mapM f
  | some _ => none

def decPayload (p : J) : Option Payload := do
  let pending ← decPending (field "pending" p)
  let inc ← decList decInc (field "incremental" p)
  let comp ← decList decCompleted (field "completed" p)
  let hasNext ← match field "hasNext" p with
    | some (.bool b) => some b
    | _ => none
  pure { pending := pending, incremental := inc, completed := comp, hasNext := hasNext }

def showPath (p : Path) : String :=
  "/".intercalate (p.map (fun s => match s with
    | .key k => String.ofList (k.map Char.ofNat)
    | .idx i => toString i))

/-- target path of the first incremental entry that `apply` rejects -/
def firstFailTarget (st : State) : List IncE → Option Path
  | [] => none
  | e :: rest =>
    match apply st e with
    | .ok st' => firstFailTarget st' rest
    | .error _ =>
      match e with
      | .defer id sub _ _ => (pendingPath id st.pending).map (· ++ sub)
      | .stream id _ _ => pendingPath id st.pending

def locateFailure (st : State) : List Payload → Option Path
  | [] => none
  | p :: rest =>
    match applyPayload st p with
    | .ok st' => locateFailure st' rest
    | .error _ =>
      match announce st p.pending with
      | .ok st1 => firstFailTarget st1 p.incremental
      | .error _ => none

def pathJ (p : Path) : J :=
  .arr (p.map (fun s => match s with
    | .key k => .str k
    | .idx i => .int i))

/-- Input object: {mode: "exact"|"approx", ref: J, refErrors: [path…], truncated: [path…],
payloads: [initial, subsequent…]}.  Output: `<verdict> | <assembled data>`; verdict is `ok`,
`apply-fail <class> <payload index>` (followed by ` | <target path of the rejected entry>`), or
`<clause>-fail <what>`. -/
def runCheck (input : J) : String :=
  match field "mode" input, field "ref" input, (field "refErrors" input) >>= (decList toPath ∘ some),
        (field "truncated" input) >>= (decList toPath ∘ some), field "payloads" input with
  | some (.str mode), some ref, some refErrors, some truncated, some (.arr (initial :: rest)) =>
    match field "data" initial, errorPaths (field "errors" initial),
          decPending (field "pending" initial), rest.mapM decPayload with
    | some data, some errs, some pend, some payloads =>
      match assemble data errs pend payloads with
      | .error (f, i) =>
        let target :=
          match announce (initState data errs) pend with
          | .ok st0 => (locateFailure st0 payloads).map (fun p => showJ (pathJ p))
          | .error _ => none
        s!"apply-fail {f.name} {i} | n | " ++ target.getD "n"
      | .ok st =>
        let ev : Spec.Evidence :=
          { errors := st.errors, failedFragments := st.failedAt, failedStreams := st.failedAt,
            failedUnannounced := st.failedUnannounced > 0 }
        let tail := " | " ++ showJ st.data
        let truncOk := Spec.raisedStreamsReported truncated st.failedAt st.data
        if !st.data.wf then "format-fail duplicate-keys-in-assembled-data" ++ tail
        else if !st.pending.isEmpty then "protocol-fail pending-never-completed" ++ tail
        else if !truncOk then "withheld-fail raising-stream-not-completed-with-errors" ++ tail
        else if mode = key "exact" then
          if !(Spec.exact truncated st.failedAt ref st.data) then "exact-fail data-differs" ++ tail
          else if !Spec.samePaths refErrors (st.errors ++ st.completedErrors) then
            "exact-fail error-paths-differ" ++ tail
          else "ok" ++ tail
        else
          if Spec.approx ev [] ref st.data then "ok" ++ tail
          else "approx-fail not-an-approximation" ++ tail
    | _, _, _, _ => "bad-payload"
  | _, _, _, _, _ => "bad-input"

/-! ### plan -/

/-- `plan <ndu> <parent of du 0 or ->…  <nparent> <du…> <nkeys> (<key> <nfields> (<du or ->)…)…`
Output: `planned k…  | set: du… => k… | …` with keys as indices. -/
def parseOptNat (w : String) : Option (Option Nat) :=
  if w = "-" then some none else w.toNat?.map some

def takeN (n : Nat) (xs : List α) : Option (List α × List α) :=
  if xs.length < n then none else some (xs.take n, xs.drop n)

def parseGroups : Nat → Nat → List String → Option (List (Nat × List (Option Nat)))
  | 0, _, _ => none
  | _, 0, [] => some []
  | _, 0, _ :: _ => none
  | fuel + 1, n + 1, k :: cnt :: rest => do
    let k ← k.toNat?
    let cnt ← cnt.toNat?
    let (fs, rest') ← takeN cnt rest
    let fs ← fs.mapM parseOptNat
    let more ← parseGroups fuel n rest'
    pure ((k, fs) :: more)
  | _, _, _ => none

def showNatList (xs : List Nat) : String := " ".intercalate (xs.map toString)

def runPlan (ws : List String) : String :=
  match ws with
  | ndu :: rest =>
    match ndu.toNat? with
    | none => "bad-op"
    | some ndu =>
      match takeN ndu rest with
      | none => "bad-op"
      | some (ps, rest) =>
        match ps.mapM parseOptNat, rest with
        | some parents, np :: rest =>
          match np.toNat? with
          | none => "bad-op"
          | some np =>
            match takeN np rest with
            | none => "bad-op"
            | some (pd, rest) =>
              match pd.mapM (fun w => w.toNat?), rest with
              | some parentSet, nk :: rest =>
                match nk.toNat? with
                | none => "bad-op"
                | some nk =>
                  match parseGroups (rest.length + 2) nk rest with
                  | none => "bad-op"
                  | some groups =>
                    let parentOf : Nat → Option Nat := fun d => (parents[d]?).join
                    let gfs : Plan.GroupedFieldSet Nat :=
                      groups.map (fun g => (g.1, g.2.map (fun d => ({ node := 0, deferUsage := d } : Plan.FieldDetails))))
                    let plan := Plan.buildExecutionPlan parentOf (ndu + 1) gfs parentSet
                    "planned " ++ showNatList (plan.groupedFieldSet.map (·.1)) ++
                      String.join (plan.newGroupedFieldSets.map (fun s =>
                        " | " ++ showNatList s.1 ++ " => " ++ showNatList (s.2.map (·.1))))
              | _, _ => "bad-op"
        | _, _ => "bad-op"
  | _ => "bad-op"

/-! ### collect -/

open Gql.Async.Collect in
def parseDefer (w : String) : Option (Option (Option Nat)) :=
  if w = "-" then some none
  else if w = "N" then some (some none)
  else if w.startsWith "L" then (w.drop 1).toString.toNat?.map (fun l => some (some l))
  else none

def parseBool (w : String) : Option Bool :=
  if w = "1" then some true else if w = "0" then some false else none

open Gql.Async.Collect in
mutual
def parseSel : Nat → List String → Option (Sel × List String)
  | 0, _ => none
  | fuel + 1, "F" :: k :: n :: i :: rest => do
    let _ := fuel
    pure (.field (← k.toNat?) (← n.toNat?) (← parseBool i), rest)
  | fuel + 1, "I" :: i :: c :: d :: n :: rest => do
    let (sels, rest') ← parseSels fuel (← n.toNat?) rest
    pure (.inline (← parseBool i) (← parseBool c) (← parseDefer d) sels, rest')
  | fuel + 1, "S" :: i :: c :: nm :: d :: n :: rest => do
    let (sels, rest') ← parseSels fuel (← n.toNat?) rest
    pure (.spread (← parseBool i) (← parseBool c) (← nm.toNat?) (← parseDefer d) sels, rest')
  | _, _ => none
def parseSels : Nat → Nat → List String → Option (List Sel × List String)
  | 0, _, _ => none
  | _, 0, toks => some ([], toks)
  | fuel + 1, k + 1, toks => do
    let (x, rest) ← parseSel fuel toks
    let (xs, rest') ← parseSels fuel k rest
    pure (x :: xs, rest')
end

open Gql.Async.Collect in
def parseParts : Nat → Nat → List String → Option (List (Option Nat × List Sel))
  | 0, _, _ => none
  | _, 0, [] => some []
  | _, 0, _ :: _ => none
  | fuel + 1, k + 1, du :: n :: rest => do
    let du ← parseOptNat du
    let (sels, rest') ← parseSels fuel (← n.toNat?) rest
    let more ← parseParts fuel k rest'
    pure ((du, sels) :: more)
  | _, _, _ => none

def showOptNat : Option Nat → String
  | none => "-"
  | some n => toString n

/-- `collect <base> <nparts> (<du|-> <nsels> sel…)…` → `key:node/du,…;… | label/parent,…` -/
def runCollect (ws : List String) : String :=
  match ws with
  | base :: np :: rest =>
    match base.toNat?, np.toNat? with
    | some base, some np =>
      match parseParts (rest.length + 2) np rest with
      | some parts =>
        let st := Gql.Async.Collect.collectSubfields base parts
        ";".intercalate (st.grouped.map (fun g =>
          toString g.1 ++ ":" ++ ",".intercalate (g.2.map (fun fd => toString fd.node ++ "/" ++ showOptNat fd.du))))
        ++ " | " ++
        ",".intercalate (st.newUsages.map (fun u => showOptNat u.1 ++ "/" ++ showOptNat u.2))
      | none => "bad-op"
    | _, _ => "bad-op"
  | _ => "bad-op"

/-! ### incexec -/

def showPiece : Piece → String
  | .merge p data => "m " ++ showJ (pathJ p) ++ " " ++ showJ (.obj data)
  | .append p items => "a " ++ showJ (pathJ p) ++ " " ++ showJ (.arr items)

def showAnn (a : IncExec.Ann) : String :=
  showJ (.arr [pathJ a.1, .arr (a.2.map (fun g => .arr [pathJ g.1, match g.2 with
    | some l => .str l
    | none => .null]))])

/-- `incexec (case SCHEMA (req DOC OPNAME|- VARS DATA))` →
`varerror` | `none <spec errors> | <spec data>` |
`ok wf=<0|1> asm=<0|1> ref=<0|1> specerrs=<n> | <initial data> | <spec data of the stripped document> | <piece> ; <piece> … | <ann> ; <ann> …`
(`ann` = `[target path, [[delivery group path, label|null]…]]` of the piece at the same position, `IncExec.incGroups`)
where `asm` = folding the pieces into the initial data gives exactly the cut's reference,
`ref` = the cut's reference is the same JSON value as the specification's response data of the
document with `@defer` removed. -/
def runIncExec (x : C02Driver.Sexp) : C02Driver.P String := do
  match x with
  | .list [.atom "case", sch, req] =>
    let s ← C02Driver.schemaOf sch
    let (r, okv) ← C02Driver.reqOfS s req
    if !okv then pure "varerror" else
    let ops := Gql.Exec.Concrete.ops
    let spec := Gql.Exec.Spec.executeRequest ops s (IncExec.stripDefer r.doc) r.opName r.vars r.root
    let specJ := IncExec.toJ spec.data
    let showSpec := match specJ with
      | some j => showJ j
      | none => "float"
    match IncExec.incCut ops s r.doc r.opName r.vars r.root with
    | none => pure s!"none {spec.errors.length} | {showSpec}"
    | some c =>
      let asm := match foldPieces c.initial c.pieces with
        | .ok j => J.eqv j c.ref && J.eqv c.ref j
        | .error _ => false
      let ref := match specJ with
        | some j => J.eqv j c.ref && J.eqv c.ref j
        | none => false
      let b (x : Bool) : String := if x then "1" else "0"
      pure (s!"ok wf={b c.wf} asm={b asm} ref={b ref} specerrs={spec.errors.length} | " ++
        showJ c.initial ++ " | " ++ showSpec ++ " | " ++ " ; ".intercalate (c.pieces.map showPiece) ++
        " | " ++ (match IncExec.incGroups ops s r.doc r.opName r.vars r.root with
          | some anns => " ; ".intercalate (anns.map showAnn)
          | none => "noann"))
  | _ => C02Driver.fail "case"

def step (line : String) : String :=
  match words line with
  | "incexec" :: _ =>
    match C02Driver.parseSexp (C02Driver.tokenize ((line.drop 8).toString)) with
    | none => "bad-sexp"
    | some x =>
      match runIncExec x with
      | .ok s => s
      | .error e => s!"bad-case {e}"
  | "asm" :: toks =>
    match parseJ (2 * toks.length + 2) toks with
    | some (j, []) => runCheck j
    | _ => "bad-json"
  | "plan" :: ws => runPlan ws
  | "collect" :: ws => runCollect ws
  | _ => "bad-op"

end C04

def main : IO Unit := run C04.step
