import Driver.Proto
import Gql.Async.Publisher
import Gql.Async.StreamQueue
import Gql.Async.EnvOk
/-
Line protocol of the C05 driver (all tokens are decimal integers after the op word):

  sim   FUEL GROUPS TASKS STREAMS WORKOPT HISTORY      -- WorkQueue + Publisher model on a history
  proto WITHDATA PARENTS J PAYLOADS                    -- Spec.Protocol.check on a payload stream
  sq    ENTRIES                                        -- StreamItemQueue.batches() model

  many X      := n X*n
  GROUPS      := many (g parent|-1 label|-1 (many key))
  TASKS       := many (t (many g) MODE)       MODE := 0 RESULT | 1 | 2 | 3 RESULT | 4
  STREAMS     := many (s label|-1 (many key))
  RESULT      := (many g) (many key) tag errs WORKOPT
  WORKOPT     := 0 | 1 (many g) (many t) (many s)
  HISTORY     := many (many EV)
  EV          := 0 t RESULT | 1 t | 2 s (many ITEM) stopped | 3 s | 4 s | 5
  ITEM        := idx|-1 tag errs WORKOPT
  J           := 0 | 1 n | 2 (many (key J)) | 3 (many J)
  PARENTS     := many (childLabel parentLabel)
  PAYLOADS    := many (hasNext (many (id (many key) label|-1)) (many INC) (many (id failed)))
  INC         := 0 id (many key) J | 1 id (many (idx|-1 J))
-/
open Gql.Async Gql.Spec.Protocol Driver

abbrev P := StateT (List Int) Option

def num : P Int := do
  match (← get) with
  | [] => failure
  | x :: r => set r; pure x

def nat : P Nat := do
  let x ← num
  if x < 0 then failure else pure x.toNat

def optNat : P (Option Nat) := do
  let x ← num
  pure (if x < 0 then none else some x.toNat)

def flag : P Bool := do pure ((← num) != 0)

def rep {α : Type} : Nat → P α → P (List α)
  | 0, _ => pure []
  | n + 1, p => do
    let x ← p
    let xs ← rep n p
    pure (x :: xs)

def many {α : Type} (p : P α) : P (List α) := do rep (← nat) p

partial def pJ : P J := do
  match (← nat) with
  | 0 => pure .null
  | 1 => pure (.leaf (← nat))
  | 2 => pure (.obj (← many (do let k ← nat; let v ← pJ; pure (k, v))))
  | 3 => pure (.arr (← many pJ))
  | _ => failure

def pWorkOpt : P (Option Work) := do
  if (← nat) == 0 then pure none
  else
    let g ← many nat
    let t ← many nat
    let s ← many nat
    pure (some { groups := g, tasks := t, streams := s })

def pResult : P TResult := do
  let gs ← many nat
  let path ← many nat
  let tag ← nat
  let errs ← flag
  let w ← pWorkOpt
  pure { value := { groups := gs, path := path, data := .leaf tag, errs := errs }, work := w }

def pItem : P IResult := do
  let idx ← optNat
  let tag ← nat
  let errs ← flag
  let w ← pWorkOpt
  pure { value := { idx := idx, item := .leaf tag, errs := errs }, work := w }

def pMode : P TaskMode := do
  match (← nat) with
  | 0 => pure (.sync (← pResult))
  | 1 => pure .syncFail
  | 2 => pure .async
  | 3 => pure (.early (← pResult))
  | 4 => pure .earlyFail
  | _ => failure

def pEv : P GraphEvent := do
  match (← nat) with
  | 0 => do let t ← nat; let r ← pResult; pure (.taskSuccess t r)
  | 1 => pure (.taskFailure (← nat))
  | 2 => do let s ← nat; let items ← many pItem; let st ← flag; pure (.streamItems s items st)
  | 3 => pure (.streamSuccess (← nat))
  | 4 => pure (.streamFailure (← nat))
  | 5 => pure .stop
  | _ => failure

structure GDecl where
  g : Nat
  parent : Option Nat
  label : Option Nat
  path : List Nat

structure TDecl where
  t : Nat
  groups : List Nat
  mode : TaskMode

structure SDecl where
  s : Nat
  label : Option Nat
  path : List Nat

def pG : P GDecl := do
  let g ← nat; let p ← optNat; let l ← optNat; let path ← many nat
  pure ⟨g, p, l, path⟩

def pT : P TDecl := do
  let t ← nat; let gs ← many nat; let m ← pMode
  pure ⟨t, gs, m⟩

def pS : P SDecl := do
  let s ← nat; let l ← optNat; let path ← many nat
  pure ⟨s, l, path⟩

def mkStatic (gs : List GDecl) (ts : List TDecl) : Static where
  parent g := (gs.find? (·.g == g)).bind (·.parent)
  tgroups t := match ts.find? (·.t == t) with | some d => d.groups | none => []
  mode t := match ts.find? (·.t == t) with | some d => d.mode | none => .async

def mkPubStatic (gs : List GDecl) (ss : List SDecl) : PubStatic where
  gpath g := match gs.find? (·.g == g) with | some d => d.path | none => []
  glabel g := (gs.find? (·.g == g)).bind (·.label)
  spath s := match ss.find? (·.s == s) with | some d => d.path | none => []
  slabel s := (ss.find? (·.s == s)).bind (·.label)

def sNats (xs : List Nat) : String := "[" ++ ",".intercalate (xs.map toString) ++ "]"

def sOpt : Option Nat → String
  | none => "-"
  | some n => toString n

def sJ : J → String
  | .leaf n => toString n
  | .null => "null"
  | _ => "?"

def sEv : WQEvent → String
  | .groupValues g vals => s!"GV {g} {sNats (vals.map (fun v => match v.data with | .leaf n => n | _ => 0))}"
  | .groupSuccess g ng ns => s!"GS {g} {sNats ng} {sNats ns}"
  | .groupFailure g => s!"GF {g}"
  | .streamValues s vals ng ns =>
    s!"SV {s} {sNats (vals.map (fun v => match v.item with | .leaf n => n | _ => 0))} {sNats ng} {sNats ns}"
  | .streamSuccess s => s!"SS {s}"
  | .streamFailure s => s!"SF {s}"
  | .termination => "TERM"

def sBatches (bs : List (List WQEvent)) : String :=
  " ".intercalate (bs.map (fun b => "(" ++ "; ".intercalate (b.map sEv) ++ ")"))

def sPending (p : Pending) : String := s!"{p.id}@{sNats p.path}#{sOpt p.label}"

def sIncr : Incr → String
  | .defer i sub d => s!"D{i}{sNats sub}={sJ d}"
  | .stream i items => s!"S{i}=" ++ "[" ++ ",".intercalate (items.map (fun it => sJ it.2)) ++ "]"

def sCompleted (c : Completed) : String := s!"{c.id}" ++ (if c.failed then "!" else "")

def sPayload (p : Payload) : String :=
  "{p:" ++ " ".intercalate (p.pending.map sPending) ++ " i:" ++ " ".intercalate (p.incremental.map sIncr)
    ++ " c:" ++ " ".intercalate (p.completed.map sCompleted) ++ " n:" ++ (if p.hasNext then "1" else "0") ++ "}"

def sVerdict : Option Verdict → String
  | none => "ok"
  | some v => s!"{v.clause.name} payload={v.payload} id={v.id}"

def simCase : P String := do
  let fuel ← nat
  let gs ← many pG
  let ts ← many pT
  let ss ← many pS
  let w ← pWorkOpt
  let hist ← many (many pEv)
  let σ := mkStatic gs ts
  let π := mkPubStatic gs ss
  let envok := envOk σ fuel w hist
  let (q0, ig, is) := init σ w
  let (s0, b0) := Sys.start σ π fuel w
  let _ := q0
  let rec go (s : Sys) (h : List Tick) (acc : List String) : Sys × List String :=
    match h with
    | [] => (s, acc)
    | t :: r =>
      let (s', bs) := Sys.tick σ π fuel s t
      go s' r (acc ++ [sBatches bs])
  let (sEnd, ticks) := go s0 hist [sBatches b0]
  let exhausted := !sEnd.wq.channel.isEmpty
  let parentOf := gs.filterMap (fun d => match d.parent with | some p => some (d.g, p) | none => none)
  -- groups are labelled by their own number in the direct runs
  let verdict := checkPrefix false (enclByLabels parentOf) .null sEnd.out
  pure (s!"init {sNats ig} {sNats is} | " ++ " | ".intercalate ticks ++ " || " ++
    " ".intercalate (sEnd.out.map sPayload) ++
    s!" || started {sNats (sEnd.wq.started.mergeSort)} pumps {sNats (sEnd.wq.pumps.mergeSort)}" ++
    s!" || envok {if envok then 1 else 0} model-protocol {sVerdict verdict}" ++
    (if exhausted then " FUEL-EXHAUSTED" else ""))

def pPending : P Pending := do
  let id ← nat; let path ← many nat; let l ← optNat
  pure { id := id, path := path, label := l }

def pInc : P Incr := do
  match (← nat) with
  | 0 => do let id ← nat; let sub ← many nat; let d ← pJ; pure (.defer id sub d)
  | 1 => do
    let id ← nat
    let items ← many (do let i ← optNat; let v ← pJ; pure (i, v))
    pure (.stream id items)
  | _ => failure

def pPayload : P Payload := do
  let hn ← flag
  let pend ← many pPending
  let inc ← many pInc
  let comp ← many (do let id ← nat; let f ← flag; pure ({ id := id, failed := f } : Completed))
  pure { pending := pend, incremental := inc, completed := comp, hasNext := hn }

def protoCase : P String := do
  let withData ← flag
  let complete ← flag
  let parents ← many (do let c ← nat; let p ← nat; pure (c, p))
  let d ← pJ
  let ps ← many pPayload
  let v := if complete then check withData (enclByLabels parents) d ps
           else checkPrefix withData (enclByLabels parents) d ps
  pure (sVerdict v)

def pEntry : P SQEntry := do
  match (← nat) with
  | 0 => pure (.item (← nat))
  | 1 => pure (.pendingFut (← nat))
  | 2 => pure (.doneFut (← nat))
  | 3 => pure (.failedFut (← nat))
  | 4 => pure .endMark
  | 5 => pure .errorMark
  | 7 => pure (.cancelledFut (← nat))
  | _ => failure

def sSQ : SQOut → String
  | .park => "park"
  | .wait i => s!"wait {i}"
  | .finish => "finish"
  | .raise => "raise"
  | .yield b st => s!"yield {sNats b} stopped={if st then 1 else 0}"

def sqCase : P String := do
  let entries ← many pEntry
  pure (" ; ".intercalate ((sqRun (2 * entries.length + 4) none (sqAfterProducer entries)).map sSQ))

def runP (p : P String) (toks : List String) : String :=
  match toks.mapM (fun w => w.toInt?) with
  | none => "bad-op"
  | some xs =>
    match p.run xs with
    | some (s, []) => s
    | some (_, _) => "bad-op trailing"
    | none => "bad-op parse"

def step (line : String) : String :=
  match words line with
  | "sim" :: r => runP simCase r
  | "proto" :: r => runP protoCase r
  | "sq" :: r => runP sqCase r
  | _ => "bad-op"

def main : IO Unit := run step
