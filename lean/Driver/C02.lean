/-
Driver for C02 (and the execution part of C13): one case per line
    exec (case SCHEMA REQ*)        REQ := (req DOC OPNAME|- VARS DATA)
runs the request sequence through
  * the implementation model threading the surviving state (`Impl.runAll`),
  * the implementation model from the initial state for every request,
  * the specification (`Spec.executeRequest`) for every request,
and prints the three response lists (canonical text, see `showResp` in `Driver/ExecSexp.lean`).
-/
import Driver.ExecSexp
open Gql Gql.Exec Driver

namespace C02Driver

/-- put `varerror` at the positions of the requests whose variables could not be coerced -/
def weave : List Bool → List String → List String
  | [], _ => []
  | true :: bs, x :: xs => x :: weave bs xs
  | true :: bs, [] => "missing" :: weave bs []
  | false :: bs, xs => "varerror" :: weave bs xs

def runCase (x : Sexp) : P String := do
  match x with
  | .list (.atom "case" :: sch :: reqs) =>
    let s ← schemaOf sch
    let rqs ← reqs.mapM (reqOfS s)
    let oks := rqs.map (·.2)
    let rs := (rqs.filter (·.2)).map (·.1)
    let ops := Concrete.ops
    let threaded := Impl.runAll ops s rs []
    let fresh := rs.map (fun r => (Impl.executeRequest ops s r.doc r.opName r.vars r.root []).1)
    let spec := rs.map (fun r => Spec.executeRequest ops s r.doc r.opName r.vars r.root)
    pure (" ; ".intercalate (weave oks (threaded.map showOut)) ++ " # " ++
          " ; ".intercalate (weave oks (fresh.map showOut)) ++ " # " ++
          " ; ".intercalate (weave oks (spec.map showResp)))
  | _ => fail "case"

def step (line : String) : String :=
  match words line with
  | "exec" :: _ =>
    match parseSexp (tokenize ((line.drop 5).toString)) with
    | none => "bad-sexp"
    | some x =>
      match runCase x with
      | .ok s => s
      | .error e => s!"bad-case {e}"
  | _ => "bad-op"

end C02Driver

def main : IO Unit := Driver.run C02Driver.step
