import Driver.Proto
import Gql.Async.Subscribe
open Gql Gql.Async.Subscribe Driver

/-- Events cross the boundary as (position, class of the reference result, number of field
errors of the reference result); `runEv` produces the class as data and one error token
`(position, j)` per field error, so a foreign error in a response is visible. -/
abbrev Ev := Nat × Nat × Nat

def runEv (e : Ev) : Nat × List (Nat × Nat) :=
  (e.2.1, (List.range e.2.2).map (fun j => (e.1, j)))

def execEv (e : Ev) : Response Nat (Nat × Nat) :=
  execEvent runEv { rootValue := (0, 0, 0), collectedErrors := [] } e

def parseOps : List String → Option (List Op)
  | [] => some []
  | "P" :: r => (parseOps r).map (Op.push :: ·)
  | "L" :: r => (parseOps r).map (Op.pull :: ·)
  | "C" :: r => (parseOps r).map (Op.close :: ·)
  | _ => none

def parseEvents : Nat → Nat → List Nat → Option (List Ev × List Nat)
  | 0, _, rest => some ([], rest)
  | n + 1, pos, c :: e :: rest =>
    match parseEvents n (pos + 1) rest with
    | some (evs, r) => some ((pos, c, e) :: evs, r)
    | none => none
  | _, _, _ => none

def showDelivered : Delivered (Response Nat (Nat × Nat)) Unit → String
  | .resp r => s!"r{r.data}/{r.errors.length}"
  | .done => "D"
  | .exc _ => "X"

def splitAtBar : List String → List String × List String
  | [] => ([], [])
  | "|" :: r => ([], r)
  | w :: r => let (a, b) := splitAtBar r; (w :: a, b)

def showOutcome : Out Unit (Outcome Ev Unit) → String
  | .ok (.errorsOnly n) => s!"result {n}"
  | .ok (.stream _) => "stream"
  | .err _ => "err"
  | .crash c => s!"crash {c}"

def faultOf : String → Option CreateFault
  | "noSubscriptionType" => some .noSubscriptionType
  | "emptyRootSelection" => some .emptyRootSelection
  | "unknownField" => some .unknownField
  | "argumentCoercion" => some .argumentCoercion
  | "resolverRaises" => some .resolverRaises
  | "resolverReturnsError" => some .resolverReturnsError
  | "notAsyncIterable" => some .notAsyncIterable
  | _ => none

def step (line : String) : String :=
  match words line with
  | "sub" :: t :: n :: rest =>
    let (nums, ops) := splitAtBar rest
    match n.toNat?, parseNats nums, parseOps ops with
    | some n, some nums, some ops =>
      match parseEvents n 0 nums with
      | some (evs, []) =>
        let term : Term Unit := if t = "raise" then .raise () else .finish
        let src : Source Ev Unit := { events := evs, term := term }
        match subscribe (.source src false) with
        | .ok (.stream s) =>
          let st := run execEv (init s) ops
          let drained := run execEv st (drainOps st)
          "stream " ++ " ".intercalate (st.out.map showDelivered) ++ s!" closed={st.srcClosed}"
            ++ s!" full={if drained.finished then 1 else 0}"
        | o => showOutcome o
      | _ => "bad-op"
    | _, _, _ => "bad-op"
  | "req" :: "fault" :: k :: aw :: [] =>
    match faultOf k with
    | some f => showOutcome (subscribe (.fault f (aw = "1")) : Out Unit (Outcome Ev Unit))
    | none => "bad-op"
  | "req" :: "build" :: "noOperation" :: [] =>
    showOutcome (subscribe (.badBuild .noOperation) : Out Unit (Outcome Ev Unit))
  | "req" :: "build" :: "variableCoercion" :: n :: [] =>
    match n.toNat? with
    | some (n + 1) => showOutcome (subscribe (.badBuild (.variableCoercion n)) : Out Unit (Outcome Ev Unit))
    | _ => "bad-op"
  | _ => "bad-op"

def main : IO Unit := Driver.run step
