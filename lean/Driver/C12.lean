import Driver.Proto
import Gql.Validation.Framework
import Gql.Validation.Context
import Gql.Validation.Rules
import Gql.Generated.ValidationTables
/-!
Line protocol of the C12 driver.

  `<mode> <max|inf> <tree> | <rule>*`
     mode  `ti`      validate():      visit(doc, TypeInfoVisitor(ti, ParallelVisitor(rules)), keys)
           `plain`   validate_sdl():  visit(doc, ParallelVisitor(rules))
           `tisingle` visit(doc, TypeInfoVisitor(ti, rule0))      `psingle` visit(doc, rule0)
     tree  `( kind child* )`, node ids = preorder numbers from 0
     rule  `seed pSkip pBreak hmode nested`  — a scripted rule: decision and number of reported errors
           are a fixed arithmetic function of (seed, rule index, phase, node id)
  out   `calls r.p.id.d1.….dn …|errs r.p.id.j … [A]|final d1.….dn|stop b`
        (d* = depths of the TypeInfo stacks, in the order of `Generated.tiStackNames`)

  `memo <nfrag> <req>*` — the context-cache model on a fixed small pure instance (see `memoStep`).

  `rules <max|inf> <Rule1,Rule2+Rule3+…> <atree>` — the modelled concrete rules (`Gql.Validation.Rules`) through the
     model's `validate`; atree `( kind field value child* )` (`-` = empty), node ids = preorder numbers from 0
  out   `Rule:name:id.id.… … [A]|u b`   (errors in order; `u` = identities unique)
-/
open Gql Gql.Validation Driver

structure Spec where
  seed : Nat
  pSkip : Nat
  pBreak : Nat
  hmode : Nat
  nested : Nat

def mix (seed ridx phase id : Nat) : Nat :=
  ((seed * 1000003 + ridx * 8191 + phase * 131 + id * 7919 + 12345) * 2654435761) % 4294967296

def phaseNo : Phase → Nat
  | .enter => 0
  | .leave => 1

def handles (sp : Spec) (ridx : Nat) (ph : Phase) (k : String) : Bool :=
  match sp.hmode with
  | 0 => true
  | 1 => ph == .enter
  | 2 => ph == .leave
  | _ => match ph with
    | .enter => (k.length + ridx) % 2 == 0
    | .leave => (k.length + ridx) % 3 != 0

abbrev E := Nat × Nat × Nat × Nat

def mkRule (sp : Spec) (ridx : Nat) : Rule Nat Unit E where
  hEnter := handles sp ridx .enter
  hLeave := handles sp ridx .leave
  step := fun _ ph i _ =>
    let x := mix sp.seed ridx (phaseNo ph) i.id
    let d := (x / 65536) % 100
    let a := if d < sp.pSkip then Action.skip else if d < sp.pSkip + sp.pBreak then Action.brk else Action.idle
    let n := if (x / 11) % 4 == 0 then (x / 7) % 3 else 0
    (a, (), (List.range n).map (fun j => (ridx, phaseNo ph, i.id, j)))

/-- parse `( kind child* )*` with preorder ids -/
partial def parseTrees (ws : List String) (next : Nat) : Option (List Tree × List String × Nat) :=
  match ws with
  | "(" :: k :: rest =>
    match parseTrees rest (next + 1) with
    | some (cs, ")" :: rest', n') =>
      match parseTrees rest' n' with
      | some (sibs, rest'', n'') => some (Tree.node ⟨next, k⟩ cs :: sibs, rest'', n'')
      | none => none
    | _ => none
  | _ => some ([], ws, next)

def parseSpecs : List Nat → Option (List Spec)
  | [] => some []
  | a :: b :: c :: d :: e :: rest => (parseSpecs rest).map (fun r => ⟨a, b, c, d, e⟩ :: r)
  | _ => none

def lookups : Lookups Nat := ⟨fun _ _ _ => some 0, fun _ _ _ => some 0⟩

def showDepths (ti : TI Nat) : String :=
  ".".intercalate ((ti.depths Generated.tiStackNames).map toString)

def showCall (ridx : Nat) (c : Call Nat) (withTi : Bool) : String :=
  s!"{ridx}.{phaseNo c.phase}.{c.info.id}" ++ (if withTi then "." ++ showDepths c.ti else "")

def showErr (e : E) : String := s!"{e.1}.{e.2.1}.{e.2.2.1}.{e.2.2.2}"

/-- Calls of all members merged back into the global order is not recoverable from the per-member
logs; the driver prints them per member (member order), and so does the Python side. -/
def showMembers (ms : List (Member Nat Unit E)) (withTi : Bool) : String :=
  " ".intercalate ((ms.zipIdx.map (fun (m, idx) => m.calls.map (fun c => showCall idx c withTi))).flatten)

def outLine (ms : List (Member Nat Unit E)) (errs : List E) (aborted : Bool) (final : Option (TI Nat)) (stop : Bool) : String :=
  -- after an abort the exception unwinds without `TypeInfo.leave`; the final TypeInfo is not compared
  let showFinal := final.isSome && !aborted
  "calls " ++ showMembers ms final.isSome ++ "|errs " ++ " ".intercalate (errs.map showErr) ++ (if aborted then " A" else "")
    ++ "|final " ++ (match final with | some ti => (if showFinal then showDepths ti else "-") | none => "-") ++ "|stop " ++ (if stop then "1" else "0")

/-- the hypotheses of `parallel_alone_direct` hold for this tree -/
def wellNested (t : Tree) : String :=
  if t.noSelfNest && t.noRegNest Generated.tiTable then "|wn 1" else "|wn 0"

def runCase (mode : String) (max : Option Nat) (t : Tree) (specs : List Spec) : String :=
  let rules : List (Rule Nat Unit E × Unit) := specs.zipIdx.map (fun (sp, idx) => (mkRule sp idx, ()))
  match mode with
  | "ti" =>
    let r := validateRun Generated.tiTable lookups max rules t
    outLine r.1.2.members r.1.2.sink.errs r.1.2.sink.aborted (some r.1.1) r.2
  | "plain" =>
    let r := run0 (plainVisitor TI.init (parallel (τ := Nat) max)) (PState.start rules) t
    outLine r.1.members r.1.sink.errs r.1.sink.aborted none r.2
  | "tisingle" =>
    match rules with
    | (r0, s0) :: _ =>
      let r := run0 (tiVisitor (realDriver Generated.tiTable lookups) single) (TI.init, Member.start r0 s0) t
      outLine [r.1.2] r.1.2.errs false (some r.1.1) r.2
    | [] => "bad-op"
  | "psingle" =>
    match rules with
    | (r0, s0) :: _ =>
      let r := run0 (plainVisitor (TI.init (τ := Nat)) single) (Member.start r0 s0) t
      outLine [r.1] r.1.errs false none r.2
    | [] => "bad-op"
  | _ => "bad-op"

/-! memo: a fixed pure instance — `nfrag` fragments `0..nfrag-1`; operation `k` references the
fragments `f` with `(k + f) % 2 = 0`; usages of a node are `[100*tag + n]`. -/
def memoPure (nfrag : Nat) : Context.Pure Nat where
  fragment := fun n => if n < nfrag then some n else none
  spreads := fun n => [n, n + 1]
  recFrags := fun k => (List.range nfrag).filter (fun f => (k + f) % 2 == 0)
  usages := fun r => match r with
    | .op k => [100 + k]
    | .frag f => [200 + f, 300 + f]

def showResp : Context.Resp Nat → String
  | .frag none => "~"
  | .frag (some n) => s!"f{n}"
  | .ids xs => "[" ++ ",".intercalate (xs.map toString) ++ "]"
  | .us xs => "<" ++ ",".intercalate (xs.map toString) ++ ">"

def parseReqs : List String → Option (List Context.Req)
  | [] => some []
  | k :: n :: rest =>
    match n.toNat?, parseReqs rest with
    | some n, some r =>
      match k with
      | "F" => some (.fragment n :: r)
      | "S" => some (.spreads n :: r)
      | "R" => some (.recFrags n :: r)
      | "UO" => some (.usages (.op n) :: r)
      | "UF" => some (.usages (.frag n) :: r)
      | "RU" => some (.recUsages n :: r)
      | _ => none
    | _, _ => none
  | _ => none


/-! the modelled concrete rules -/
open Gql.Validation.Rules in
partial def parseATrees (ws : List String) (next : Nat) : Option (List ATree × List String × Nat) :=
  match ws with
  | "(" :: k :: f :: v :: rest =>
    match parseATrees rest (next + 1) with
    | some (cs, ")" :: rest', n') =>
      match parseATrees rest' n' with
      | some (sibs, rest'', n'') =>
        some (ATree.node ⟨next, k⟩ (if f == "-" then "" else f) (if v == "-" then "" else v) cs :: sibs, rest'', n'')
      | none => none
    | _ => none
  | _ => some ([], ws, next)

open Gql.Validation.Rules in
def showRErr (e : RErr) : String :=
  s!"{e.rule}:{e.name}:" ++ ".".intercalate (e.nodes.map toString)

open Gql.Validation.Rules in
def runRules (max : Option Nat) (names : List String) (doc : ATree) : String :=
  let found := names.map (fun n => ((modelled (τ := Nat) doc).find? (fun r => r.1 == n)).map (·.2))
  if found.any (·.isNone) then "bad-rule"
  else
    let rules : List (CRule Nat × RS) := found.filterMap (fun r => r.map (fun x => (x, RS.init)))
    let res := validate Generated.tiTable lookups max rules doc.erase
    " ".intercalate (res.map (fun r => match r with | .error e => showRErr e | .aborted => "A"))
      ++ "|u " ++ (if doc.ids.eraseDups.length == doc.ids.length then "1" else "0")

def step (line : String) : String :=
  match words line with
  | "rules" :: mx :: names :: rest =>
    let max : Option (Option Nat) := if mx == "inf" then some none else mx.toNat?.map some
    match max, parseATrees rest 0 with
    | some max, some ([t], [], _) =>
      -- `+` separates independent `validate` runs, `,` the rules of one run; `0` = the empty rule list
      " || ".intercalate ((names.splitOn "+").map (fun g => runRules max ((g.splitOn ",").filter (fun w => w ≠ "" && w ≠ "0")) t))
    | _, _ => "bad-op"
  | "memo" :: nf :: rest =>
    match nf.toNat?, parseReqs rest with
    | some nf, some reqs =>
      " ".intercalate ((Context.runReqs (memoPure nf) Context.Ctx.empty reqs).1.map showResp)
    | _, _ => "bad-op"
  | mode :: mx :: rest =>
    let max : Option (Option Nat) := if mx == "inf" then some none else mx.toNat?.map some
    let treeWs := rest.takeWhile (· ≠ "|")
    let specWs := (rest.dropWhile (· ≠ "|")).drop 1
    match max, parseTrees treeWs 0, parseNats specWs with
    | some max, some ([t], [], _), some ns =>
      match parseSpecs ns with
      | some specs => runCase mode max t specs ++ wellNested t
      | none => "bad-op"
    | _, _, _ => "bad-op"
  | _ => "bad-op"

def main : IO Unit := run step
