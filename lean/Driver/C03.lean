import Driver.Proto
import Gql.Async.Monitor
open Gql.Async Driver

/-
Line: `<q|m> <forest> | <events>`
forest  := `F k node*k`
node    := `N nn gates res k node*k`   res := `R` | `U` | `L n` | `C kind` (0 object, 1 list, 2 async-iterator list)
events  := (`R path` | `S path` | `C path` | `D`)*     path := dot separated indices
Out   : `ok <data> | <nulled paths ;-separated> | <steps> | <delivered data or ->`  or  `bad <event index> <reason>`
-/

partial def parseNode : List String → Option (Cfg → Cfg) × List String
  | "N" :: nn :: g :: ws =>
    let resP : Option (Res × List String) := match ws with
      | "R" :: r => some (.raise, r)
      | "U" :: r => some (.null, r)
      | "L" :: n :: r => n.toNat?.map (fun n => (.leaf n, r))
      | "C" :: l :: r => some (.comp (if l == "1" then .list else if l == "2" then .aiter else .obj), r)
      | _ => none
    match resP, g.toNat? with
    | some (res, k :: r), some g =>
      match k.toNat? with
      | some k =>
        let rec kids (n : Nat) (ws : List String) : Option (Cfg × List String) :=
          match n with
          | 0 => some (.nil, ws)
          | n + 1 =>
            match parseNode ws with
            | (some mk, ws') => (kids n ws').map (fun (rest, ws'') => (mk rest, ws''))
            | (none, _) => none
        match kids k r with
        | some (ch, r') => (some (fun rest => Cfg.cons (nn == "1") g res .idle ch rest), r')
        | none => (none, [])
      | none => (none, [])
    | _, _ => (none, [])
  | _ => (none, [])

partial def parseForest : List String → Option (Cfg × List String)
  | "F" :: k :: ws =>
    match k.toNat? with
    | some k =>
      let rec go (n : Nat) (ws : List String) : Option (Cfg × List String) :=
        match n with
        | 0 => some (.nil, ws)
        | n + 1 =>
          match parseNode ws with
          | (some mk, ws') => (go n ws').map (fun (rest, ws'') => (mk rest, ws''))
          | (none, _) => none
      go k ws
    | none => none
  | _ => none

def parsePath (w : String) : Option Path :=
  if w == "-" then some [] else (w.splitOn ".").mapM (fun x => x.toNat?)

def parseEvents : List String → Option (List Ev)
  | [] => some []
  | "D" :: r => (parseEvents r).map (fun es => Ev.D :: es)
  | "R" :: p :: r => do let p ← parsePath p; let es ← parseEvents r; pure (Ev.R p :: es)
  | "S" :: p :: r => do let p ← parsePath p; let es ← parseEvents r; pure (Ev.S p :: es)
  | "C" :: p :: r => do let p ← parsePath p; let es ← parseEvents r; pure (Ev.C p :: es)
  | _ => none

partial def showVal : Val → String
  | .null => "_"
  | .leaf n => s!"L{n}"
  | .nil => "()"
  | v@(.cons _ _) =>
    let rec items : Val → List String
      | .cons h t => showVal h :: items t
      | _ => []
    "(" ++ " ".intercalate (items v) ++ ")"

def showPath (p : Path) : String :=
  if p.isEmpty then "-" else ".".intercalate (p.map toString)

def step (line : String) : String :=
  match words line with
  | mode :: ws =>
    match parseForest ws with
    | some (f, "|" :: evs) =>
      match parseEvents evs with
      | some es =>
        let serial := mode == "m"
        let c0 := initCfg serial f
        let spec := showVal (dataOf f)
        let specN := ";".intercalate ((specNulledF [] 0 (initQuery f)).map showPath)
        match runTrace serial { cfg := c0 } 0 es with
        | .ok m =>
          let data := match rootData m.cfg with | some v => showVal v | none => "?"
          let nul := ";".intercalate ((nulledF [] 0 m.cfg).map showPath)
          let del := match m.delivered with | some v => showVal v | none => "-"
          s!"ok {data} | {nul} | {m.steps} | {del} | {spec} | {specN}"
        | .error e => s!"bad {e} | {spec} | {specN}"
      | none => "bad-events"
    | _ => "bad-forest"
  | _ => "bad-op"

def main : IO Unit := run step
