import Driver.Proto
import Gql.Text.Location
open Gql Gql.Text Driver

def showOutLoc : Out Unit (Nat × Nat) → String
  | .ok (l, c) => s!"ok {l} {c}"
  | .err _ => "err"
  | .crash c => s!"crash {c}"

def step (line : String) : String :=
  match words line with
  | "loc" :: p :: cps =>
    match p.toNat?, parseNats cps with
    | some p, some body => showOutLoc (getLocation body p)
    | _, _ => "bad-op"
  | "spec" :: p :: cps =>
    match p.toNat?, parseNats cps with
    | some p, some body =>
      let (l, c) := Spec.lineCol body p
      let ins := if Spec.insideCRLF body p then 1 else 0
      s!"{l} {c} {ins}"
    | _, _ => "bad-op"
  | "excerpt" :: off :: ln :: cps =>
    match off.toNat?, ln.toNat?, parseNats cps with
    | some off, some ln, some body =>
      match excerptLine body off ln with
      | .ok l => "ok " ++ showNats l
      | .err _ => "err"
      | .crash c => s!"crash {c}"
    | _, _, _ => "bad-op"
  | "rendered" :: ol :: oc :: l :: c :: [] =>
    match ol.toNat?, oc.toNat?, l.toNat?, c.toNat? with
    | some ol, some oc, some l, some c =>
      let (a, b) := renderedLineCol ol oc (l, c)
      s!"{a} {b}"
    | _, _, _, _ => "bad-op"
  | _ => "bad-op"

def main : IO Unit := run step
