import Driver.Proto
import Gql.Text.Lexer
import Gql.Text.Strip
import Gql.Spec.Lex
/-!
Line-protocol driver for C09.

  lex <cps>            model lexer (`lexAll`), same canonical form as `drv_lex`
  spec <cps>           specification tokenizer (`Spec.Lex.specTokenize`): `ok KIND start stop v.. | ..` / `none`
  count <cps>          number of significant tokens by the specification / `none`
  strip <cps>          model of `strip_ignored_characters`: `ok <cps>` / `err kind pos` / `crash cls`
  pbs <0|1> <cps>      model of `print_block_string(value, minimize)`
  limit <n> <cps>      model of the `advance_lexer` counter with `max_tokens=n`: `ok count` / `limit pos` / `lexerr`
-/
open Gql Gql.Text Driver
namespace Driver.C09

def kindName : TokKind → String
  | .sof => "SOF" | .eof => "EOF" | .bang => "BANG" | .dollar => "DOLLAR" | .amp => "AMP"
  | .parenL => "PAREN_L" | .parenR => "PAREN_R" | .dot => "DOT" | .spread => "SPREAD"
  | .colon => "COLON" | .equals => "EQUALS" | .at => "AT" | .bracketL => "BRACKET_L"
  | .bracketR => "BRACKET_R" | .braceL => "BRACE_L" | .pipe => "PIPE" | .braceR => "BRACE_R"
  | .name => "NAME" | .int => "INT" | .float => "FLOAT" | .string => "STRING"
  | .blockString => "BLOCK_STRING" | .comment => "COMMENT"

def specKindName : Gql.Spec.Lex.Kind → String
  | .eof => "EOF" | .bang => "BANG" | .dollar => "DOLLAR" | .amp => "AMP"
  | .parenL => "PAREN_L" | .parenR => "PAREN_R" | .spread => "SPREAD"
  | .colon => "COLON" | .equals => "EQUALS" | .at => "AT" | .bracketL => "BRACKET_L"
  | .bracketR => "BRACKET_R" | .braceL => "BRACE_L" | .pipe => "PIPE" | .braceR => "BRACE_R"
  | .name => "NAME" | .int => "INT" | .float => "FLOAT" | .string => "STRING"
  | .blockString => "BLOCK_STRING" | .other => "OTHER"

def errName : LexErrKind → String
  | .unexpectedDotDot => "unexpectedDotDot" | .digitBeforeDot => "digitBeforeDot"
  | .singleQuote => "singleQuote" | .unexpectedChar => "unexpectedChar"
  | .invalidChar => "invalidChar" | .digitAfterZero => "digitAfterZero"
  | .expectedDigit => "expectedDigit" | .invalidCharInString => "invalidCharInString"
  | .unterminatedString => "unterminatedString" | .invalidUnicodeEscape => "invalidUnicodeEscape"
  | .invalidCharEscape => "invalidCharEscape"

def showVal : Option (List Nat) → String
  | none => "-"
  | some v => "v " ++ showNats v

def showTok (t : Token) : String :=
  s!"{kindName t.kind} {t.start} {t.stop} {t.line} {t.column} {showVal t.value}"

def showLex : LexOut (List Token) → String
  | .ok ts => "ok " ++ " | ".intercalate (ts.map showTok)
  | .err e => s!"err {errName e.kind} {e.pos}"
  | .crash c => s!"crash {c}"

def showSpecTok (t : Gql.Spec.Lex.SpecToken) : String :=
  s!"{specKindName t.kind} {t.start} {t.stop} {showVal t.value}"

def showSpec : Option (List Gql.Spec.Lex.SpecToken) → String
  | some ts => "ok " ++ " | ".intercalate (ts.map showSpecTok)
  | none => "none"

def step (line : String) : String :=
  match words line with
  | "lex" :: cps =>
    match parseNats cps with
    | some body => showLex (lexAll body)
    | none => "bad-op"
  | "spec" :: cps =>
    match parseNats cps with
    | some body => showSpec (Gql.Spec.Lex.specTokenize body)
    | none => "bad-op"
  | "count" :: cps =>
    match parseNats cps with
    | some body =>
      match Gql.Spec.Lex.tokenCount body with
      | some n => s!"ok {n}"
      | none => "none"
    | none => "bad-op"
  | "strip" :: cps =>
    match parseNats cps with
    | some body =>
      match stripIgnoredCharacters body with
      | .ok s => "ok " ++ showNats s
      | .err e => s!"err {errName e.kind} {e.pos}"
      | .crash c => s!"crash {c}"
    | none => "bad-op"
  | "pbs" :: m :: cps =>
    match parseNats cps with
    | some v => "ok " ++ showNats (printBlockString v (m == "1"))
    | none => "bad-op"
  | "limit" :: n :: cps =>
    match n.toNat?, parseNats cps with
    | some n, some body =>
      match lexAll body with
      | .ok ts =>
        match advanceAll (some n) ts 0 with
        | .ok c => s!"ok {c}"
        | .err p => s!"limit {p}"
        | .crash c => s!"crash {c}"
      | .err _ => "lexerr"
      | .crash c => s!"crash {c}"
    | _, _ => "bad-op"
  | _ => "bad-op"

end Driver.C09

def main : IO Unit := Driver.run Driver.C09.step
