"""A stream source is closed twice when the operation is aborted while a pull is pending."""
import asyncio, sys, traceback
sys.path.insert(0, sys.argv[1] if len(sys.argv) > 1 else "/repo/src")
from graphql import parse
from graphql.execution import experimental_execute_incrementally
from graphql.pyutils import AbortController
from graphql.type import (GraphQLDeferDirective, GraphQLField, GraphQLInt, GraphQLList, GraphQLObjectType, GraphQLSchema,
    GraphQLStreamDirective, specified_directives)
VERBOSE = "-v" in sys.argv
class Source:
    def __init__(self): self.acloses = 0
    def __aiter__(self): return self
    async def __anext__(self):
        await asyncio.sleep(0)
        raise StopAsyncIteration
    async def aclose(self):
        self.acloses += 1
        if VERBOSE: traceback.print_stack(limit=12)
        await asyncio.sleep(0)
async def main(rounds):
    src = Source()
    schema = GraphQLSchema(GraphQLObjectType("Query", {"kids": GraphQLField(GraphQLList(GraphQLInt), resolve=lambda *_: src)}),
        directives=[*specified_directives, GraphQLDeferDirective, GraphQLStreamDirective])
    c = AbortController()
    res = experimental_execute_incrementally(schema, parse("{ kids @stream(initialCount: 0) }"), abort_signal=c.signal)
    if asyncio.iscoroutine(res): res = await res
    it = res.subsequent_results
    pull = asyncio.ensure_future(anext(it))
    for _ in range(rounds): await asyncio.sleep(0)
    c.abort(RuntimeError("stop"))
    try: await pull
    except Exception as e: out = repr(e)
    else: out = "payload"
    await it.aclose()
    for _ in range(20): await asyncio.sleep(0)
    print(f"rounds={rounds}: pull -> {out}; source.aclose() calls: {src.acloses}")
    return src.acloses > 1
bad = [asyncio.run(main(r)) for r in range(0, 5)]
sys.exit(1 if any(bad) else 0)
