"""A list field over a class-based async iterator is never closed when its completion is cancelled
by a failing sibling (null for a non-null field): `{ item { kids nn } }`."""
import asyncio, sys
sys.path.insert(0, sys.argv[1] if len(sys.argv) > 1 else "/repo/src")
from graphql import parse
from graphql.execution import execute
from graphql.type import GraphQLField, GraphQLInt, GraphQLList, GraphQLNonNull, GraphQLObjectType, GraphQLSchema, GraphQLString

class Source:
    started = acloses = 0
    def __aiter__(self): return self
    async def __anext__(self):
        Source.started = 1
        for _ in range(10):
            await asyncio.sleep(0)
        raise StopAsyncIteration
    async def aclose(self):
        Source.acloses += 1
async def nn(_src, _info):
    await asyncio.sleep(0)
    return None
Item = GraphQLObjectType("Item", {"kids": GraphQLField(GraphQLList(GraphQLInt), resolve=lambda *_: Source()),
                                  "nn": GraphQLField(GraphQLNonNull(GraphQLString), resolve=nn)})
schema = GraphQLSchema(GraphQLObjectType("Query", {"item": GraphQLField(Item, resolve=lambda *_: {})}))
async def main():
    res = await execute(schema, parse("{ item { kids nn } }"))
    for _ in range(20): await asyncio.sleep(0)
    print(res.data, [e.message for e in res.errors or []], "| source started:", Source.started, "aclose() calls:", Source.acloses)
    return Source.started == 1 and Source.acloses != 1
sys.exit(1 if asyncio.run(main()) else 0)
