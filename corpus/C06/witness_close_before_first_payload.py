import asyncio, sys
sys.path.insert(0, sys.argv[1] if len(sys.argv) > 1 else "/repo/src")
from graphql import parse, build_schema
from graphql.execution import experimental_execute_incrementally, ExecutionHooks

schema = build_schema("""
directive @defer(if: Boolean! = true, label: String) on FRAGMENT_SPREAD | INLINE_FRAGMENT
directive @stream(if: Boolean! = true, label: String, initialCount: Int! = 0) on FIELD
type Todo { id: ID  items: [String] slow: String }
type Query { todo: Todo }
""")

async def main(early, stop):
    log = []
    state = {"running": 0, "gen_started": 0, "gen_final": 0}
    async def slow(_info):
        state["running"] += 1
        try:
            await asyncio.Future()
        finally:
            state["running"] -= 1
    async def items(_info):
        state["gen_started"] += 1
        try:
            for i in range(5):
                await asyncio.sleep(0)
                yield f"i{i}"
        finally:
            state["gen_final"] += 1
    hook = []
    res = experimental_execute_incrementally(schema, parse("{ todo { id ... @defer { slow } items @stream } }"),
        root_value={"todo": {"id": "1", "slow": slow, "items": items}}, enable_early_execution=early,
        hooks=ExecutionHooks(async_work_finished=lambda info: hook.append(dict(state))))
    if asyncio.iscoroutine(res): res = await res
    it = res.subsequent_results
    for _ in range(5): await asyncio.sleep(0)
    if stop == "aclose0":
        await it.aclose()
    elif stop == "aclose1":
        r = await anext(it); await it.aclose()
    elif stop == "cancel_pull":
        for _ in range(8):
            t = asyncio.ensure_future(anext(it))
            for _ in range(10): await asyncio.sleep(0)
            if not t.done():
                t.cancel()
                try: await t
                except BaseException as e: log.append(type(e).__name__)
                break
            log.append("payload")
        await it.aclose()
    for _ in range(30): await asyncio.sleep(0)
    tasks = [t for t in asyncio.all_tasks() if t is not asyncio.current_task()]
    print(f"early={early} stop={stop}: hook={hook} state={state} pending_tasks={len(tasks)} {log}")
    for t in tasks: t.cancel()

for early in (False, True):
    for stop in ("aclose0", "aclose1", "cancel_pull"):
        asyncio.run(main(early, stop))
