"""Abort while a pull of the subsequent results is pending, stream source mid-way (no early execution)."""
import asyncio, sys
sys.path.insert(0, sys.argv[1] if len(sys.argv) > 1 else "/repo/src")
from graphql import parse
from graphql.execution import experimental_execute_incrementally, ExecutionHooks
from graphql.pyutils import AbortController
from graphql.type import (GraphQLDeferDirective, GraphQLField, GraphQLInt, GraphQLList, GraphQLObjectType, GraphQLSchema,
    GraphQLStreamDirective, GraphQLString, specified_directives)

state = {"running": 0, "gen_started": 0, "gen_final": 0}
async def hang(_src, _info):
    state["running"] += 1
    try:
        await asyncio.Future()
    finally:
        state["running"] -= 1
async def source():
    state["gen_started"] += 1
    try:
        for i in range(4):
            await asyncio.sleep(0); await asyncio.sleep(0)
            yield {"id": i}
    finally:
        state["gen_final"] += 1
Item = GraphQLObjectType("Item", {"id": GraphQLField(GraphQLInt), "hang": GraphQLField(GraphQLString, resolve=hang)})
schema = GraphQLSchema(GraphQLObjectType("Query", {"kids": GraphQLField(GraphQLList(Item), resolve=lambda *_: source())}),
    directives=[*specified_directives, GraphQLDeferDirective, GraphQLStreamDirective])

async def main(rounds):
    for k in state: state[k] = 0
    hook = []
    c = AbortController()
    res = experimental_execute_incrementally(schema, parse("{ kids @stream(initialCount: 0) { id hang } }"), abort_signal=c.signal,
        hooks=ExecutionHooks(async_work_finished=lambda info: hook.append(dict(state))))
    if asyncio.iscoroutine(res) or asyncio.isfuture(res): res = await res
    it = res.subsequent_results
    pull = asyncio.ensure_future(anext(it))
    for _ in range(rounds): await asyncio.sleep(0)
    c.abort(RuntimeError("stop"))
    try: await pull
    except Exception as e: out = repr(e)
    else: out = "payload"
    await it.aclose()
    for _ in range(50): await asyncio.sleep(0)
    left = [t for t in asyncio.all_tasks() if t is not asyncio.current_task()]
    print(f"rounds={rounds}: pull -> {out}; hook calls {hook}; at quiescence {state}, tasks left {len(left)} {[t.get_coro().__qualname__ for t in left]}")
    for t in left: t.cancel()
    return bool(left) or len(hook) != 1 or any(h["running"] or h["gen_started"] != h["gen_final"] for h in hook) or state["gen_started"] != state["gen_final"]
bad = [asyncio.run(main(r)) for r in range(0, 12)]
sys.exit(1 if any(bad) else 0)
