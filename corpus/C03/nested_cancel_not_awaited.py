"""gather_with_cancel: a cancelled sibling does not wait for ITS cancelled children.

mutation { first { charge audit { quick slow } } second }
`charge: String!` fails; `audit` (an object with two awaitable fields, i.e. a nested
gather_with_cancel) is cancelled.  asyncio.gather (return_exceptions=False) completes as soon as
the FIRST child has finished its cancellation, and `except Exception` in gather_with_cancel does
not see the CancelledError, so the cancelled `audit` task finishes while `slow` is still running
its `finally`; the outer gather_with_cancel only waits for `audit`.  Root field `second` starts
while a resolver of `first` is still unwinding.
usage: python nested_cancel_not_awaited.py <repo>
"""
import asyncio
import sys

sys.path.insert(0, sys.argv[1] + "/src")
from graphql import GraphQLField, GraphQLNonNull, GraphQLObjectType, GraphQLSchema, GraphQLString, execute, parse  # noqa: E402

events = []


def slow_resolver(name, cleanup_steps):
    async def resolve(_s, _i):
        events.append(f"{name}:start")
        try:
            await asyncio.sleep(3600)
        finally:
            for _ in range(cleanup_steps):  # roll back: needs the event loop
                await asyncio.sleep(0)
            events.append(f"{name}:end")

    return resolve


async def charge(_s, _i):
    await asyncio.sleep(0)
    raise RuntimeError("card declined")


def second(_s, _i):
    events.append("second:start")
    return "ok"


Audit = GraphQLObjectType("Audit", {
    "quick": GraphQLField(GraphQLString, resolve=slow_resolver("quick", 0)),
    "slow": GraphQLField(GraphQLString, resolve=slow_resolver("slow", 10)),
})
Payment = GraphQLObjectType("Payment", {
    "charge": GraphQLField(GraphQLNonNull(GraphQLString), resolve=charge),
    "audit": GraphQLField(Audit, resolve=lambda *_: {}),
})
schema = GraphQLSchema(
    GraphQLObjectType("Query", {"ping": GraphQLField(GraphQLString)}),
    GraphQLObjectType("Mutation", {
        "first": GraphQLField(Payment, resolve=lambda *_: {}),
        "second": GraphQLField(GraphQLString, resolve=second),
    }),
)


async def main():
    result = await execute(schema, parse("mutation { first { charge audit { quick slow } } second }"))
    for _ in range(20):
        await asyncio.sleep(0)
    print(result.data, [e.path for e in result.errors or []])
    print(events)
    i = events.index("second:start")
    late = [e for e in events[i:] if e.endswith(":end")]
    if late:
        print("VIOLATION: 'second' started before", late, "of the subtree of 'first'")
        return 1
    return 0


sys.exit(asyncio.run(main()))
