"""gather_with_cancel: a second cancellation interrupts the cleanup of an already cancelled task.

{ box { feed must } fatal }      must: String!   fatal: String!   feed: [String] (async generator)
1. `must` fails: the gather_with_cancel of `box` cancels `feed` and waits for it
   (`await gather(*futures, return_exceptions=True)`); the async generator behind `feed` is in
   its `finally`, releasing its resource in several awaited steps.
2. `fatal` fails: the gather_with_cancel of the root cancels the `box` task, which is inside
   that wait; cancelling the waiting gather cancels its children AGAIN, so a second
   CancelledError is thrown into the generator's `finally`: the release is cut short.
usage: python second_cancel_interrupts_cleanup.py <repo>
"""
import asyncio
import sys

sys.path.insert(0, sys.argv[1] + "/src")
from graphql import GraphQLField, GraphQLList, GraphQLNonNull, GraphQLObjectType, GraphQLSchema, GraphQLString, execute, parse  # noqa: E402

log = []
must_go = None
fatal_go = None


async def feed_source():
    log.append("feed:opened")
    try:
        await asyncio.sleep(3600)
        yield "never"
    finally:
        log.append("feed:release step 1")
        fatal_go.set()  # the second failure happens while we are releasing
        try:
            await asyncio.sleep(0)
            await asyncio.sleep(0)
            await asyncio.sleep(0)
            log.append("feed:release step 2 (resource released)")
        except asyncio.CancelledError:
            log.append("feed:release INTERRUPTED by a second cancellation")
            raise


async def must(_s, _i):
    await must_go.wait()
    raise RuntimeError("must failed")


async def fatal(_s, _i):
    await fatal_go.wait()
    raise RuntimeError("fatal failed")


Box = GraphQLObjectType("Box", {
    "feed": GraphQLField(GraphQLList(GraphQLString), resolve=lambda *_: feed_source()),
    "must": GraphQLField(GraphQLNonNull(GraphQLString), resolve=must),
})
schema = GraphQLSchema(GraphQLObjectType("Query", {
    "box": GraphQLField(Box, resolve=lambda *_: {}),
    "fatal": GraphQLField(GraphQLNonNull(GraphQLString), resolve=fatal),
}))


async def main():
    global must_go, fatal_go
    must_go, fatal_go = asyncio.Event(), asyncio.Event()
    task = asyncio.ensure_future(execute(schema, parse("{ box { feed must } fatal }")))
    for _ in range(5):
        await asyncio.sleep(0)
    must_go.set()
    result = await task
    for _ in range(20):
        await asyncio.sleep(0)
    print(result.data, [e.path for e in result.errors or []])
    print(log)
    if "feed:release step 2 (resource released)" not in log:
        print("VIOLATION: the source's cleanup was started but never completed")
        return 1
    return 0


sys.exit(asyncio.run(main()))
