"""Standalone witness: a subscription response differs from execute() of the same operation with
the same event as root value (collect_subfields memo keyed on id() of FieldDetails that are freed
between events while the memo is shared by all per-event executors)."""
import asyncio, sys
sys.path.insert(0, sys.argv[1] if len(sys.argv) > 1 else "/repo/src")
from graphql import parse, GraphQLSchema, GraphQLObjectType, GraphQLField, GraphQLString, GraphQLBoolean
from graphql.execution import subscribe, execute

async def slow(src, _info):
    await asyncio.sleep(0)
    return src.get("name")

Item = GraphQLObjectType("Item", lambda: {"name": GraphQLField(GraphQLString, resolve=slow), "flag": GraphQLField(GraphQLBoolean), "kid": GraphQLField(Item)})
EVENTS = [{"ev": {"name": "a", "flag": True, "kid": {"name": "k"}}, "w": {"flag": False}},
          {"ev": None, "w": {"flag": True, "name": "b"}},
          {"ev": {"name": "c", "flag": False}, "w": None},
          {"ev": {"name": "d", "flag": True, "kid": {"name": "k2"}}, "w": {"flag": True}},
          {"ev": {"name": "e", "flag": True}, "w": {"flag": True}}]

async def source(_root, _info):
    for e in EVENTS:
        yield e

schema = GraphQLSchema(
    query=GraphQLObjectType("Query", {"dummy": GraphQLField(GraphQLString)}),
    subscription=GraphQLObjectType("Subscription", {"ev": GraphQLField(Item, subscribe=source), "w": GraphQLField(Item)}),
)

async def main():
    bad = 0
    for text in ["subscription { ev { name kid { name } } w { flag } }"]:
        doc = parse(text)
        stream = subscribe(schema, doc)
        if asyncio.iscoroutine(stream):
            stream = await stream
        i = 0
        async for res in stream:
            ref = execute(schema, doc, root_value=EVENTS[i])
            if asyncio.iscoroutine(ref): ref = await ref
            if res != ref:
                bad += 1
                print(f"{text}\n  event {i}: subscribe -> {res.data} {res.errors}\n           execute   -> {ref.data} {ref.errors}")
            i += 1
    print("mismatches", bad)
    return bad
sys.exit(1 if asyncio.run(main()) else 0)
