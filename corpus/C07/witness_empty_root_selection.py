import asyncio, sys
sys.path.insert(0, sys.argv[1] if len(sys.argv) > 1 else "/repo/src")
from graphql import parse, validate, GraphQLSchema, GraphQLObjectType, GraphQLField, GraphQLString
from graphql.execution import subscribe
async def source(_root, _info):
    yield {"ev": "x"}
schema = GraphQLSchema(query=GraphQLObjectType("Query", {"dummy": GraphQLField(GraphQLString)}),
    subscription=GraphQLObjectType("Subscription", {"ev": GraphQLField(GraphQLString, subscribe=source)}))
for text in ["subscription { ev @skip(if: true) }", "subscription ($s: Boolean = true) { ev @skip(if: $s) }", "subscription { ... @include(if: false) { ev } }"]:
    doc = parse(text)
    print(text, "| validation:", [e.message for e in validate(schema, doc)])
    try:
        r = subscribe(schema, doc)
        print("  ->", r)
    except BaseException as e:
        print("  -> raises", type(e).__name__, e)
