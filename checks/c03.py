"""C03 — the response does not depend on when resolvers complete."""
from __future__ import annotations

import json
import random
import warnings
from pathlib import Path

from tools import fw
from tools.fw import Disagreement, Failure, Report

ID = "C03"
PROPS = "Gql.Props.C03"
DRIVER = "drv_c03"
LEVEL = "proof"
LEVEL_TEXT = (
    "Lean theorems about the abstract asynchronous executor Proc (a labelled transition system over an "
    "arbitrary finite field tree, any enabled transition may fire - a superset of asyncio's schedules): "
    "an inductive invariant (every completed node carries its synchronous denotation, every recorded error "
    "is handled at a position the synchronous run nulls or below one, cancellation only below a settled "
    "parent), every maximal run ends with exactly the synchronous data and the same set of nulled positions, "
    "every final response is well formed (no null at a non-null position, nulled positions hold null in data, data "
    "null only if an error reached the root; every position where an error originated, was raised or was handled "
    "lies at or below a null in data: async_wf_error_paths), runs terminate (strictly decreasing measure), "
    "gather_with_cancel is modelled as cancel-the-rest / await them bottom-up / re-raise (states failing, unwinding), "
    "and a serial root starts field j only after every field i<j completed with nothing running or still unwinding in "
    "its subtree, except work abandoned without cancellation (mutation_serial_strict); every move of the trace "
    "monitor, the serial start included, is a transition of the system (monitor_sound, monitor_serial_start_sound). "
    "The implementation is tied "
    "to the model on explored schedules only: a harness event loop resolves every awaitable (field results, "
    "list items, async-iterator steps, resolve_type / is_type_of results) in all k! orders for small k, "
    "sampled orders up to k=10, same-tick groupings and every sync/awaitable assignment for small k; each "
    "recorded trace is monitored against Proc by the compiled model, and the property's own relations "
    "(same data and nulled positions as execute_sync, well-formedness, serial mutations in the strict reading: "
    "every resolver coroutine of an earlier root subtree - cancelled ones included - has finished before the next "
    "root field starts) are evaluated on every run of the implementation. is_type_of predicates are independently "
    "absent / synchronous / awaitable per possible type (three object types, interface and union, default type "
    "resolver and resolve_type)."
)
LEVEL_NOTE = (
    "Partial in this sense: the theorems say the *algorithm* (Proc) is schedule independent over all "
    "interleavings, for unbounded trees and schedules; that the *implementation* follows Proc is established "
    "only on the explored schedules. The model cannot exhibit CPython's allocator / garbage collector "
    "(object-lifetime defects such as F2 - a memo keyed on id() of freed objects - are outside the model and "
    "are caught by the implementation-side oracle on the dedicated 'lifetime shapes' stream) nor asyncio's "
    "actual callback ordering (the model allows every order; the harness explores completion orders of the "
    "awaitables it controls, not the order of call_soon callbacks inside one tick). Field collection, "
    "argument coercion and leaf serialisation are C02/C16's subject and enter here only as the given field "
    "tree. The model of gather_with_cancel is the documented and repaired algorithm (commit 1574f97: the cancelled "
    "awaitables are awaited also when the awaiting task is itself cancelled); 'the next root field starts only after "
    "cancelled siblings have finished unwinding' is a theorem of that model (mutation_serial_strict). That the "
    "implementation's unwinding really finishes in that order is not observable by the trace monitor (it sees resolver "
    "invocations, completions and cancel() calls, not the end of a cancelled task); it is checked on the implementation "
    "by the oracle (start / cancel / end events of every harness resolver coroutine, some with 30-40 awaited cleanup "
    "steps in finally). Work abandoned without cancellation (settle_in_background) is the separate bg = true path of "
    "the model and the known finding mutation-overlap-background on the implementation."
)
TECHNIQUE = (
    "Lean 4 theorems about a labelled transition system + trace monitor (compiled model) + controlled "
    "asyncio harness with metamorphic oracle (async run vs execute_sync)"
)
TRUSTED = [
    "hand-written Lean model Gql/Async/Proc.lean (tied to executor.py / gather_with_cancel.py / async_reduce.py "
    "by trace monitoring on the explored schedules, not by translation)",
    "the harness's own field collection (tools/c03_gen.collect) and type-resolution gate count "
    "(tools/c03_monitor.type_gates) used only to build the field tree handed to the model; the property oracle "
    "does not use them",
    "the monitor's search strategy (Gql/Async/Monitor.lean: which enabled transition explains an observed event; "
    "failing gathers are only applied when an observed cancellation or the delivery of the response needs them; "
    "leniencies: a completion of an awaitable list item the aborted list loop never reached is ignored, a completion or "
    "cancellation at or below an already cancelled task is ignored, tasks still pending at the end of the trace are "
    "accepted only below a completed position); its individual moves are proved to be transitions (monitor_sound, "
    "monitor_serial_start_sound)",
]
ASSUMPTIONS = [
    "resolvers are deterministic functions of their position (fixed request); awaitables deliver the same "
    "outcome whenever they complete",
    "asyncio delivers CancelledError only at await points and `except Exception` does not catch it (Python >= 3.8)",
    "serial clause, strict reading: when root field j starts, every resolver coroutine / awaitable of every earlier "
    "root subtree has finished - normally, by raising, or by a cancellation whose unwinding (finally blocks, awaited "
    "cleanup) has run to its end; cancellation is recorded at the moment cancel() is called. A cancelled task that is "
    "still unwinding when the next root field starts is a violation (gather_with_cancel must await the siblings it "
    "cancels)",
    "deviation of the pinned tree from the strict reading, counted in the evidence (serial_background_overlaps, with an "
    "example) and reported as the KNOWN FINDING `mutation-overlap-background` (tools/c03_oracle.STRICT_BACKGROUND = True; listed in known_findings.json): work that the executor "
    "abandons WITHOUT cancelling it stays pending until the environment completes it, so the next root field can start "
    "meanwhile. Two sources, both via Executor.settle_in_background: (1) a selection set nulled by a SYNCHRONOUS error "
    "while awaitable siblings are pending, e.g. mutation { a { slow nn } b } with slow awaitable and nn: String! "
    "raising synchronously - b starts while slow is pending and slow's sub-resolvers run after b started; (2) the "
    "default type resolver finding a synchronously matching is_type_of after awaitable predicates of earlier possible "
    "types, which are only tracked. Such overlaps are accepted only if the work was never cancelled and lies at or below "
    "a position that is null in the response, or is a discarded is_type_of result",
]
EXPLANATION = (
    "Theorems: async_invariant (+done_is_denotation, errors_are_predicted, cancellation_only_below_error), "
    "schedule_independent (+assignment_independent, agrees_with_synchronous), async_wf, async_wf_error_paths, mutation_serial "
    "(+mutation_serial_strict, completed_field_is_quiet, mutation_schedule_independent), run_terminates, "
    "serial_run_terminates, monitor_sound, monitor_serial_start_sound over Proc. "
    "Correspondence: recorded traces of the implementation under a controlled event loop are accepted by the "
    "Proc monitor and end in the predicted response. Oracle: data and nulled positions equal execute_sync; "
    "response well-formedness; serial mutation roots."
)

CORPUS = fw.VERIF / "corpus" / "C03"

warnings.simplefilter("ignore", RuntimeWarning)


# ------------------------------------------------------------------------------------ one request


def _jd(x):
    return json.dumps(x, sort_keys=False)


def _check_run(case, mask, schedule, ref, ref_nulled, root_order, rep, stats):
    """Run one schedule on the implementation and evaluate the property's relations."""
    from tools import c03_loop as L
    from tools import c03_oracle as O

    inp = {"case": case, "mask": sorted(mask), "schedule": schedule}
    out, events = L.run_async(case, mask, schedule)
    rep.evaluations += 1
    if "result" not in out:
        what = "no response: " + ("execution hangs with no awaitable pending" if out.get("hang") else str(out.get("exception")))
        rep.failures.append(Failure("no-response", what, inp, out, ref, "C03 schedule_independent"))
        return None, events
    res = out["result"]
    if _jd(res["data"]) != _jd(ref["data"]):
        fp = "data-differs-from-sync" + ("-lifetime" if case.get("stream") == "lifetime" else "")
        rep.failures.append(Failure(fp, "data differs from fully synchronous execution of the same request", inp, res, ref, "C03 schedule_independent"))
    else:
        nul = O.nulled_positions(res["data"], res["errors"])
        if nul != ref_nulled:
            rep.failures.append(Failure("nulled-positions-differ", "set of positions nulled by errors differs from synchronous execution", inp, {"nulled": nul, "result": res}, {"nulled": ref_nulled, "result": ref}, "C03 schedule_independent"))
    for fp, what, detail in O.well_formed(res):
        rep.failures.append(Failure(fp, what, inp, {"detail": detail, "result": res}, "well-formed response", "C03 async_wf"))
    if case["op"] == "mutation":
        stats["mutation_runs"] = stats.get("mutation_runs", 0) + 1
        viol, background = O.mutation_serial(case, events, res["data"], root_order)
        for fp, what, detail in viol:
            rep.failures.append(Failure(fp, what, inp, detail, "strictly serial root fields", "C03 mutation_serial"))
        if background:
            stats["serial_background_overlaps"] = stats.get("serial_background_overlaps", 0) + 1
            if "serial_background_example" not in stats:
                stats["serial_background_example"] = {"document": L.print_doc(case), "mask": sorted(mask), "schedule": schedule, "overlap": background[0]}
    if any(e[0] == "X2" for e in events):
        # observation (not part of C03): a task that is waiting for the siblings it cancelled is itself
        # cancelled, which cancels the siblings a second time and interrupts their cleanup
        stats["runs_with_second_cancellation_during_cleanup"] = stats.get("runs_with_second_cancellation_during_cleanup", 0) + 1
    if any(e[0] == "C" for e in events):
        stats["runs_with_cancellation"] = stats.get("runs_with_cancellation", 0) + 1
    return res, events


def _process_case(case, tier, rng, rep, stats, monitor):
    from tools import c03_gen as G
    from tools import c03_loop as L
    from tools import c03_oracle as O

    ref, ref_events = L.run_sync(case)
    ref_nulled = O.nulled_positions(ref["data"], ref["errors"])
    root_order = list(G.collect(case["sel"], case["frags"], "M" if case["op"] == "mutation" else "Q"))
    for fp, what, detail in O.well_formed(ref):
        rep.failures.append(Failure(fp + "-sync", what + " (synchronous execution)", {"case": case, "mask": [], "schedule": []}, {"detail": detail, "result": ref}, "well-formed response", "C03 async_wf"))
    # prune sites that never come into existence (below nulls / skipped selections)
    k0 = case["k"]
    seen = set()
    for sched in ([[s] for s in range(k0)], [[s] for s in reversed(range(k0))]):
        _, ev = L.run_async(case, range(k0), sched)
        seen |= {e[2] for e in ev if e[0] == "H"}
    if len(seen) < k0:
        G.renumber_sites(case, seen)
    k = case["k"]
    quick = tier == "quick"
    max_orders = 24 if quick else 120
    full_upto = 4 if quick else 5
    masks, all_masks = G.masks_for(rng, k, 3 if quick else 4, 2 if quick else 6)
    full = frozenset(range(k))
    nruns = 0
    exhaustive_orders = False
    for mask in masks:
        if mask == full:
            scheds, exhaustive_orders = G.schedules_for(rng, mask, max_orders, full_upto)
        elif not mask:
            scheds = [[]]
        else:
            scheds, _ = G.schedules_for(rng, mask, 6 if quick else 24, 3)
        for sched in scheds:
            res, events = _check_run(case, mask, sched, ref, ref_nulled, root_order, rep, stats)
            nruns += 1
            if monitor is not None and res is not None:
                monitor.add(case, mask, sched, events, res)
    stats["k_hist"][min(k, 10)] = stats["k_hist"].get(min(k, 10), 0) + 1
    stats["runs"] = stats.get("runs", 0) + nruns
    if exhaustive_orders:
        stats["requests_all_orders"] = stats.get("requests_all_orders", 0) + 1
    if all_masks:
        stats["requests_all_assignments"] = stats.get("requests_all_assignments", 0) + 1
    if ref["errors"]:
        stats["requests_with_errors"] = stats.get("requests_with_errors", 0) + 1
        if any(O.longest_existing_prefix(ref["data"], p or [])[0] != (p or []) for p in ref["errors"]):
            stats["requests_with_propagation"] = stats.get("requests_with_propagation", 0) + 1
    if ref["data"] is None:
        stats["requests_data_null"] = stats.get("requests_data_null", 0) + 1
    stats["op_" + case["op"]] = stats.get("op_" + case["op"], 0) + 1
    stats["stream_" + case.get("stream", "gen")] = stats.get("stream_" + case.get("stream", "gen"), 0) + 1
    kinds = _kinds(case["data"])
    for kd in kinds:
        stats["kind_" + kd] = stats.get("kind_" + kd, 0) + 1
    return k >= 1 and (bool(ref["errors"]) or k >= 2)


def _kinds(vs, acc=None):
    acc = set() if acc is None else acc
    if vs.get("aw") is not None:
        acc.add("field_or_item_awaitable")
    if vs.get("rt_aw") is not None:
        acc.add("resolve_type_awaitable")
    if vs.get("ito_aw") is not None:
        acc.add("is_type_of_awaitable")
    if vs.get("aiter") is not None:
        acc.add("async_iterator")
    if vs["t"] == "obj":
        for c in vs["f"].values():
            _kinds(c, acc)
    elif vs["t"] == "list":
        for c in vs["items"]:
            _kinds(c, acc)
    return acc


def _gen(spec):
    """spec = (seed, index, stream) -> case (deterministic)."""
    from tools import c03_gen as G

    seed, index, stream = spec
    rng = random.Random(f"{seed}:c03:{stream}:{index}")
    if stream == "lifetime":
        return G.gen_lifetime_case(rng), rng
    if stream == "mutation":
        case = G.gen_case(rng, kmax=5, op="mutation")
    elif stream == "abstract":
        case = G.gen_abstract_case(rng)
    elif stream == "cancel":
        case = G.gen_cancel_case(rng)
    elif stream == "big":
        case = G.gen_case(rng, kmax=10, depth=3, p={"width": 5, "p_comp": 0.55})
    else:
        case = G.gen_case(rng, kmax=5)
    case["stream"] = stream
    return case, rng


def _work(args):
    specs, corpus, tier, drv = args
    fw.use_repo()
    warnings.simplefilter("ignore", RuntimeWarning)
    rep = Report()
    stats = {"k_hist": {}}
    monitor = None
    if drv:
        from tools.c03_monitor import Monitor

        monitor = Monitor(fw.Driver(drv))
    for entry in corpus:
        case = json.loads(json.dumps(entry["case"]))
        rng = random.Random("corpus")
        if "schedule" in entry:
            from tools import c03_gen as G
            from tools import c03_loop as L
            from tools import c03_oracle as O

            ref, _ = L.run_sync(case)
            root_order = list(G.collect(case["sel"], case["frags"], "M" if case["op"] == "mutation" else "Q"))
            res, events = _check_run(case, frozenset(entry["mask"]), entry["schedule"], ref, O.nulled_positions(ref["data"], ref["errors"]), root_order, rep, stats)
            if monitor is not None and res is not None:
                monitor.add(case, frozenset(entry["mask"]), entry["schedule"], events, res)
        else:
            _process_case(case, tier, rng, rep, stats, monitor)
        stats["corpus_cases"] = stats.get("corpus_cases", 0) + 1
    for spec in specs:
        case, rng = _gen(spec)
        nontriv = _process_case(case, tier, rng, rep, stats, monitor)
        rep.nontrivial += 1 if nontriv else 0
        if len(rep.samples) < 2:
            from tools.c03_loop import print_doc

            rep.samples.append({"stream": spec[2], "document": print_doc(case), "k": case["k"], "variant": case["variant"]})
    if monitor is not None:
        monitor.flush(rep, stats)
    rep.stats = stats
    return rep


def _merge_stats(a, b):
    for k, v in b.items():
        if k.endswith("_example"):
            a.setdefault(k, v)
        elif isinstance(v, dict):
            d = a.setdefault(k, {})
            for kk, vv in v.items():
                d[kk] = d.get(kk, 0) + vv
        else:
            a[k] = a.get(k, 0) + v


def load_corpus():
    out = []
    if CORPUS.is_dir():
        for p in sorted(CORPUS.glob("*.json")):
            out.append(json.loads(p.read_text()))
    return out


def explore(ctx) -> Report:
    fw.use_repo()
    quick = ctx.tier == "quick"
    n_gen, n_life, n_mut, n_big = (50, 26, 30, 6) if quick else (1100, 500, 400, 100)
    n_abs, n_can = (40, 40) if quick else (600, 600)
    if ctx.escalate and quick:
        n_gen, n_life, n_mut, n_big, n_abs, n_can = 120, 60, 60, 16, 80, 80
    specs = (
        [(ctx.seed, n, "gen") for n in range(n_gen)]
        + [(ctx.seed, n, "lifetime") for n in range(n_life)]
        + [(ctx.seed, n, "mutation") for n in range(n_mut)]
        + [(ctx.seed, n, "big") for n in range(n_big)]
        + [(ctx.seed, n, "abstract") for n in range(n_abs)]
        + [(ctx.seed, n, "cancel") for n in range(n_can)]
    )
    random.Random(f"{ctx.seed}:shuffle").shuffle(specs)
    drv = DRIVER if ctx.driver else None
    import asyncio  # noqa: F401  (import before forking the workers)

    import graphql  # noqa: F401
    from tools import c03_gen, c03_loop, c03_oracle  # noqa: F401

    chunks = fw.chunked(specs, fw.WORKERS * 3)
    jobs = [(c, [], ctx.tier, drv) for c in chunks]
    jobs.insert(0, ([], load_corpus(), ctx.tier, drv))
    reps = fw.pmap(_work, jobs)
    rep = Report()
    stats = {}
    for r in reps:
        _merge_stats(stats, r.stats)
        r.stats = {}
        rep.merge(r)
    rep.stats = stats
    rep.stats["requests"] = len(specs)
    # async iterators with mixed plain / awaitable / failing items (implementation-side metamorphic stream)
    from tools import c03_aiter_mix

    c03_aiter_mix.run(rep, thorough=not quick)
    rep.rule = (
        "one case = one (request, sync/awaitable assignment, completion schedule) run of the implementation under the "
        "controlled event loop; requests from 6 seeded streams (general, lifetime shapes, mutations, many awaitables, abstract types with "
        "per-type is_type_of predicates independently absent/sync/awaitable, cancellation shapes: a failing non-null "
        "awaitable among resolver coroutines with awaited cleanup); "
        "per request: every assignment for k<=3 (thorough 4), all k! orders for k<=4 (thorough 5) else <=24 (120) sampled "
        "orders, plus same-tick groupings; a request counts as non-trivial when it has >=2 awaitables or >=1 awaitable "
        "and at least one field error; requests are distinct by construction (distinct generator indices)"
    )
    return rep


def search(ctx, rep) -> Report:
    # the property oracle already ran on every explored run; when the model is unavailable
    # or the correspondence broke, explore more requests with the oracle alone
    fw.use_repo()
    specs = [(ctx.seed + 7919, n, s) for n in range(120) for s in ("gen", "lifetime", "mutation", "abstract", "cancel")]
    chunks = fw.chunked(specs, fw.WORKERS * 2)
    reps = fw.pmap(_work, [(c, [], ctx.tier, None) for c in chunks])
    out = Report()
    for r in reps:
        r.stats = {}
        out.merge(r)
    out.notes.append(f"failing-input search: {out.evaluations} further runs with the implementation-side oracle")
    return out


def replay(ctx, payload) -> Report:
    fw.use_repo()
    inp = payload["input"]
    entry = {"case": inp["case"], "mask": inp.get("mask", []), "schedule": inp.get("schedule", [])}
    return _work(([], [entry], ctx.tier, DRIVER if ctx.driver else None))
