"""C20 — schema validation reports every type-system violation and never crashes."""
from __future__ import annotations

import copy
import json
import random
import re

from tools import c20_gen as G
from tools import fw
from tools.fw import Disagreement, Failure, Report

ID = "C20"
PROPS = "Gql.Props.C20"
DRIVER = "drv_c20"
LEVEL = "proof"
LEVEL_TEXT = (
    "Lean theorems over all raw schemas (references may point at types of the wrong kind), all proved: "
    "validate_schema never raises (on the repaired code; the pinned code raised TypeError on a default value at a "
    "non-input type, witness kept); for every raw schema with well-formed names its error list is empty exactly "
    "when the specification's type-system rules hold (validate_iff_spec, assembled from the rule families: roots, "
    "names, directives, fields/arguments, default values, interfaces incl. is_type_sub_type_of = "
    "IsValidImplementationFieldType, unions, enums, input objects/OneOf, unbreakable input cycles and default-value "
    "cycles — for both cycle validators: depth-first search with a shared visited set reports an error iff a cycle is "
    "reachable, and the specification's bounded algorithms decide the same graph property); both circular-reference "
    "validators terminate within a proved budget on every raw schema; a request against an invalid schema returns "
    "exactly the schema errors without executing. The model is tied to validate.py / type_comparators.py / "
    "validate_input_value.py by a differential run over generated valid schemas, every single (quick) and double "
    "(thorough) rule-violating mutation of them, grammar-random SDL and programmatic tweaks; the implementation's "
    "verdict is checked against the Lean spec on every case."
)
LEVEL_NOTE = (
    "Trusted: Lean kernel; hand-written model Gql/Types/SchemaValidate.lean (tied by correspondence); the "
    "transcription of the specification Gql/Spec/TypeSystem.lean; harness. Defaults given as Python values "
    "(GraphQLDefaultInput(value=...), only constructible programmatically) are NOT in RawSchema and no theorem "
    "covers validate_input_value / uncoerce_default_value (the 'uncoerce for a did-you-mean hint' fallback whose "
    "exceptions validate.py swallows): they are tied by the implementation-side oracles only — validate_schema "
    "returns a list and never raises, a second call returns the same list, graphql_sync returns exactly the schema "
    "errors — on generated invalid values (unknown/missing keys, wrong containers and leaf kinds, None under "
    "non-null, nested in lists/objects, unknown enum values) on arguments, input fields and directive arguments, and "
    "on custom scalars whose parse_value/serialize raise KeyError, ValueError, ZeroDivisionError, AttributeError, ...; "
    "where a value has an exactly equivalent const literal (built-in scalars, enums, input objects, lists, scalars "
    "with default callbacks) the case additionally goes through the model and the spec verdict via that literal. "
    "RawSchema references in root / union-member / implements positions are NAMES, so a wrapping type there "
    "(GraphQLSchema(query=GraphQLList(Obj)), a List among a union's types or a type's interfaces — programmatic only) "
    "is not expressible in the model: those schemas, like SDL whose lazily built enum values fail "
    "(enum E { X @deprecated(reason: 1) }), chains of 200/600/1200 input objects, deep copies taken before validation "
    "and callers emptying the error lists they were handed, are tied by the implementation-side oracles only "
    "(never raises; the same list again; graphql_sync returns exactly the schema errors; a rule-violating construction "
    "is not accepted; the deep copy validates like the original). A OneOf input object without a finite value is valid "
    "by the transcribed specification revision (and by validate.py); the separate Lean function Spec.uninhabited "
    "(newer specification text, not part of Spec.TypeSystemValid) is the oracle that recognises it. "
    "NonNull(NonNull(...)) is outside RawSchema."
)
TECHNIQUE = "Lean 4 proof about an executable model + differential correspondence + spec oracle on the implementation"
TRUSTED = [
    "hand-written Lean model Gql/Types/SchemaValidate.lean of type/validate.py, type_comparators.py, "
    "validate_input_literal and graphql_impl's early return; tied to the code by the correspondence run "
    "(crash/no-crash and the set of (rule kind, subject) per schema)",
    "Gql/Spec/TypeSystem.lean: the specification's type-validation rules transcribed by hand",
    "the message-to-rule-kind regex table in checks/c20.py (an unknown message degrades the comparison to "
    "error count and valid/invalid verdict; it never alarms by itself)",
]
ASSUMPTIONS = [
    "schema construction succeeded (unique type names, every reference resolves to a named type); "
    "references in implements / union member / root positions are named types",
    "default values are const literals (what SDL produces) in the model; Python-value defaults are translated to the "
    "equivalent literal when one exists (checks/c20.py _value_lit) and are otherwise covered by the implementation-side "
    "oracles only; the deprecated default_value= only matters as 'has a default'",
    "Float literals stay within the finite double range",
    "the interpreter's recursion limit is not modelled: the Lean validators are unbounded (budget |types|+1 / "
    "|input fields|+1, proved sufficient), the implementation's recursive ones raise RecursionError on input-object "
    "chains of ~500 types (known finding recursionerror:input-object-chain-depth, fingerprint computed from the "
    "schema's chain depth at run time)",
    "custom scalars use the library's default literal coercion (accept every const literal)",
    "an object literal with a repeated key denotes the map in which the last entry wins",
    "NonNull(NonNull(T)) (not expressible in SDL, not checked by validate.py) is outside RawSchema",
    "validate_iff_spec assumes well-formed names (NamesWF: no '.' in a type name, the field names of an input "
    "object pairwise different) — guaranteed by assert_name and dict keys for every constructed schema; a decided "
    "example shows the default-value-cycle family fails without it",
]
EXPLANATION = (
    "Theorems (all proved): no crash (repaired code) + pinned-code witness; validate_iff_spec: errors = [] iff "
    "Spec.TypeSystemValid for every raw schema with well-formed names, with every rule family as its own theorem; "
    "cycle validators terminate; invalid schema => response carries exactly the schema errors; cache. "
    "Correspondence: model vs validate_schema on generated/mutated/random schemas. Oracles on the implementation: "
    "raises; verdict vs Lean spec; graphql_sync on an invalid schema; cached second call."
)

# ----------------------------------------------------------------------------- message -> (kind, subject)

T = r"([^\s|]+)"
RULES = [
    ("queryMissing", r"^Query root type must be provided\.$", lambda m: ""),
    ("rootNotObject", r"^(Query|Mutation|Subscription) root type must be Object type", lambda m: m.group(1).lower()),
    ("rootsNotDistinct", r"^All root types must be different, '" + r"([^']+)" + r"' type is used as", lambda m: m.group(1)),
    ("directiveNoLocations", r"^Directive (@\S+) must include 1 or more locations\.$", lambda m: m.group(1)),
    ("reservedName", r"^Name '([^']*)' must not begin with '__'", lambda m: m.group(1)),
    ("notInputType", r"^The type of (\S+) must be Input Type but got", lambda m: m.group(1)),
    ("notOutputType", r"^The type of (\S+) must be Output Type but got", lambda m: m.group(1)),
    ("requiredArgDeprecated", r"^Required argument (\S+) cannot be deprecated\.$", lambda m: m.group(1)),
    ("requiredInputFieldDeprecated", r"^Required input field (\S+) cannot be deprecated\.$", lambda m: m.group(1)),
    ("badDefault", r"^(\S+) has invalid default value", lambda m: m.group(1)),
    ("noFields", r"^Type (\S+) must define one or more fields\.$", lambda m: m.group(1)),
    ("implementsNonInterface", r"^Type (\S+) must only implement Interface types, it cannot implement (\S+)\.$", lambda m: m.group(1) + "|" + m.group(2)),
    ("implementsSelf", r"^Type (\S+) cannot implement itself because", lambda m: m.group(1)),
    ("implementsTwice", r"^Type (\S+) can only implement (\S+) once\.$", lambda m: m.group(1) + "|" + m.group(2)),
    ("missingTransitive", r"^Type (\S+) must implement (\S+) because it is implemented by (\S+)\.$", lambda m: m.group(1) + "|" + m.group(2) + "|" + m.group(3)),
    ("implementsCircular", r"^Type (\S+) cannot implement (\S+) because it would create a circular reference\.$", lambda m: m.group(1) + "|" + m.group(2)),
    ("ifaceFieldMissing", r"^Interface field (\S+) expected but (\S+) does not provide it\.$", lambda m: m.group(1) + "|" + m.group(2)),
    ("ifaceFieldType", r"^Interface field (\S+) expects type \S+ but (\S+)\.\S+ is type \S+$", lambda m: m.group(1) + "|" + m.group(2)),
    ("ifaceArgMissing", r"^Interface field argument (\S+) expected but (\S+)\.\S+ does not provide it\.$", lambda m: m.group(1) + "|" + m.group(2)),
    ("ifaceArgType", r"^Interface field argument (\S+) expects type \S+ but ([^\s.]+)\.\S+ is type \S+$", lambda m: m.group(1) + "|" + m.group(2)),
    ("extraRequiredArg", r"^Argument '([^']+)' must not be required type '[^']+' if not provided by the Interface field '([^'.]+)\.[^']+'\.$", lambda m: m.group(1) + "|" + m.group(2)),
    ("implDeprecated", r"^Interface field (\S+) is not deprecated, so implementation field ([^\s.]+)\.\S+ must not be deprecated\.$", lambda m: m.group(1) + "|" + m.group(2)),
    ("unionEmpty", r"^Union type (\S+) must define one or more member types\.$", lambda m: m.group(1)),
    ("unionDup", r"^Union type (\S+) can only include type (\S+) once\.$", lambda m: m.group(1) + "|" + m.group(2)),
    ("unionNonObject", r"^Union type (\S+) can only include Object types, it cannot include (\S+)\.$", lambda m: m.group(1) + "|" + m.group(2)),
    ("enumEmpty", r"^Enum type (\S+) must define one or more values\.$", lambda m: m.group(1)),
    ("inputEmpty", r"^Input Object type (\S+) must define one or more fields\.$", lambda m: m.group(1)),
    ("oneOfNonNull", r"^OneOf input field (\S+) must be nullable\.$", lambda m: m.group(1)),
    ("oneOfDefault", r"^OneOf input field (\S+) cannot have a default value\.$", lambda m: m.group(1)),
    ("nonNullCycle", r"^Invalid circular reference\. The Input Object (\S+) references itself", lambda m: m.group(1)),
    ("defaultCycle", r"^Invalid circular reference\. The default value of Input Object field (\S+) references itself", lambda m: m.group(1)),
]
RULES = [(k, re.compile(rx, re.S), f) for k, rx, f in RULES]


def classify(message: str):
    for kind, rx, subj in RULES:
        m = rx.search(message)
        if m:
            return f"{kind}:{subj(m)}"
    return "other:"


# ----------------------------------------------------------------------------- implementation side


def build(case):
    """case = {"sdl": str, "tweaks": [...]} -> GraphQLSchema (not yet validated)"""
    from graphql import GraphQLDirective, GraphQLSchema, build_schema
    from graphql.type import GraphQLList, GraphQLNonNull

    # "presdl": keep the SDL pre-validation (the default of build_schema) instead of skipping it
    schema = build_schema(case["sdl"], assume_valid=False, assume_valid_sdl=not case.get("presdl"))
    tweaks = case.get("tweaks") or []
    if not tweaks:
        return schema
    kwargs = schema.to_kwargs()
    directives = list(kwargs["directives"])
    tm = schema.type_map
    extra_types = {}

    def resolve(type_sdl):
        from graphql.language import ListTypeNode, NonNullTypeNode, parse_type

        def go(node):
            if isinstance(node, NonNullTypeNode):
                inner = go(node.type)
                return None if inner is None else GraphQLNonNull(inner)
            if isinstance(node, ListTypeNode):
                inner = go(node.type)
                return None if inner is None else GraphQLList(inner)
            return extra_types.get(node.name.value) or tm.get(node.name.value)

        return go(parse_type(type_sdl))

    for tw in tweaks:
        op = tw[0]
        if op == "add_value_default":
            # an argument / input field / directive argument whose default is a Python value
            from graphql import DirectiveLocation, GraphQLArgument, GraphQLDefaultInput, GraphQLInputField

            _, kind, a, b, name, type_sdl, venc = tw[:7]
            ty = resolve(type_sdl)
            if ty is None:
                continue
            dflt = GraphQLDefaultInput(value=_decode_value(venc))
            if kind == "arg":
                t = tm.get(a)
                if t is not None and hasattr(t, "fields") and b in t.fields and hasattr(t.fields[b], "args"):
                    t.fields[b].args[name] = GraphQLArgument(ty, default=dflt)
            elif kind == "input":
                t = tm.get(a)
                if t is not None and hasattr(t, "fields") and not hasattr(t, "interfaces") and hasattr(t, "is_one_of"):
                    t.fields[name] = GraphQLInputField(ty, default=dflt)
            else:
                directives.append(GraphQLDirective(a, [DirectiveLocation.FIELD], args={name: GraphQLArgument(ty, default=dflt)}))
            continue
        if op == "raising_scalar":
            extra_types[tw[1]] = _raising_scalar(tw[1], tw[2], tw[3])
            continue
        if op in ("wrap_root", "wrap_union_member", "wrap_interface"):
            # a wrapping type where a named type is expected (only programmatic construction can do it)
            def wrapped(ty, wraps):
                for w in wraps:
                    ty = GraphQLList(ty) if w == "l" else GraphQLNonNull(ty)
                return ty

            if op == "wrap_root":
                _, opname, target, wraps = tw
                if target in tm:
                    kwargs[opname] = wrapped(tm[target], wraps)
            else:
                _, holder, target, wraps = tw
                h = tm.get(holder)
                if h is None or target not in tm:
                    continue
                if op == "wrap_union_member" and hasattr(h, "types"):
                    h.types = [*h.types, wrapped(tm[target], wraps)]
                elif op == "wrap_interface" and hasattr(h, "interfaces"):
                    h.interfaces = [*h.interfaces, wrapped(tm[target], wraps)]
            continue
        if op == "nolocs":  # a directive without locations
            directives.append(GraphQLDirective(tw[1], []))
        elif op == "legacy_default":  # deprecated default_value= on an argument / input field
            _, tn, fn, an = tw
            t = tm.get(tn)
            if t is None or not hasattr(t, "fields") or fn not in t.fields:
                continue
            f = t.fields[fn]
            target = f.args.get(an) if an else f
            if target is not None and hasattr(target, "default_value"):
                target.default_value = tw[4] if len(tw) > 4 else 1
        elif op == "share_wrappers":  # the same wrapper objects in interface and implementation
            for t in tm.values():
                for iface in getattr(t, "interfaces", ()) or ():
                    for fn, ifld in getattr(iface, "fields", {}).items():
                        tf = getattr(t, "fields", {}).get(fn)
                        if tf is not None and str(tf.type) == str(ifld.type):
                            tf.type = ifld.type
        elif op == "field_type":  # replace a field type by a programmatic wrapper chain
            _, tn, fn, wraps, target = tw
            t = tm.get(tn)
            if t is None or not hasattr(t, "fields") or fn not in t.fields or target not in tm:
                continue
            ty = tm[target]
            for w in wraps:
                ty = GraphQLList(ty) if w == "l" else GraphQLNonNull(ty)
            t.fields[fn].type = ty
    kwargs["directives"] = directives
    kwargs["assume_valid"] = False
    return GraphQLSchema(**kwargs)


def _decode_value(v):
    if isinstance(v, dict):
        if set(v) == {"__t"}:
            return tuple(_decode_value(x) for x in v["__t"])
        return {k: _decode_value(x) for k, x in v.items()}
    if isinstance(v, list):
        return [_decode_value(x) for x in v]
    return v


def _raising_scalar(name, parse_mode, serialize_mode):
    """a custom scalar whose parse_value / serialize behave as told ("raise:<Exception>", ...)"""
    import builtins

    from graphql import GraphQLError, GraphQLScalarType
    from graphql.pyutils import Undefined

    def exc(mode):
        cls = mode.split(":", 1)[1]
        return GraphQLError if cls == "GraphQLError" else getattr(builtins, cls)

    def parse_value(value):
        if parse_mode == "accept":
            return value
        if parse_mode == "reject":
            return Undefined
        raise exc(parse_mode)("parse_value: " + repr(value)[:40])

    def serialize(value):
        if serialize_mode == "identity":
            return value
        if serialize_mode == "const":
            return 0
        raise exc(serialize_mode)("serialize: " + repr(value)[:40])

    return GraphQLScalarType(name, serialize=serialize, parse_value=parse_value)


def _tref(t):
    from graphql.type import GraphQLList, GraphQLNonNull

    if isinstance(t, GraphQLNonNull):
        return "! " + _tref(t.of_type)
    if isinstance(t, GraphQLList):
        return "l " + _tref(t.of_type)
    return "n " + t.name


def _lit(node):
    from graphql.language import (
        BooleanValueNode,
        EnumValueNode,
        FloatValueNode,
        IntValueNode,
        ListValueNode,
        NullValueNode,
        ObjectValueNode,
        StringValueNode,
    )

    if isinstance(node, NullValueNode):
        return "null"
    if isinstance(node, IntValueNode):
        return f"i {int(node.value)}"
    if isinstance(node, FloatValueNode):
        return "f"
    if isinstance(node, StringValueNode):
        return "s"
    if isinstance(node, BooleanValueNode):
        return "b"
    if isinstance(node, EnumValueNode):
        return "e " + node.value
    if isinstance(node, ListValueNode):
        return f"[ {len(node.values)} " + " ".join(_lit(v) for v in node.values)
    if isinstance(node, ObjectValueNode):
        return "{ " + str(len(node.fields)) + " " + " ".join(f.name.value + " " + _lit(f.value) for f in node.fields)
    raise ValueError("unsupported literal")


class Unsupported(Exception):
    pass


def _generic_lit(v):
    import math

    if v is None:
        return "null"
    if isinstance(v, bool):
        return "b"
    if isinstance(v, int):
        return f"i {v}"
    if isinstance(v, float):
        if not math.isfinite(v):
            raise Unsupported("non-finite float")
        return "f"
    if isinstance(v, str):
        return "s"
    if isinstance(v, (list, tuple)):
        return f"[ {len(v)} " + " ".join(_generic_lit(x) for x in v)
    if isinstance(v, dict):
        for k in v:
            if not (isinstance(k, str) and k.isidentifier()):
                raise Unsupported("dict key")
        return "{ " + str(len(v)) + " " + " ".join(k + " " + _generic_lit(x) for k, x in v.items())
    raise Unsupported("value default")


def _value_lit(v, type_):
    """The const literal that `validate_input_literal` treats exactly as `validate_input_value`
    treats the Python value `v` at `type_` (same accept/reject at every leaf, same structure), or
    Unsupported when there is none (then the case is tied by the implementation-side oracles only)."""
    import math

    from graphql.type import (
        GraphQLBoolean,
        GraphQLFloat,
        GraphQLID,
        GraphQLInt,
        GraphQLList,
        GraphQLNonNull,
        GraphQLString,
        is_enum_type,
        is_input_object_type,
        is_scalar_type,
    )

    if isinstance(type_, GraphQLNonNull):
        return _value_lit(v, type_.of_type)
    if v is None:
        return "null"
    if isinstance(type_, GraphQLList):
        if isinstance(v, (list, tuple)):
            return f"[ {len(v)} " + " ".join(_value_lit(x, type_.of_type) for x in v)
        if isinstance(v, (set, frozenset)) or (hasattr(v, "__iter__") and not isinstance(v, (str, bytes, dict))):
            raise Unsupported("iterable")
        return _value_lit(v, type_.of_type)
    if is_input_object_type(type_):
        if not isinstance(v, dict):
            return _generic_lit(v)
        parts = []
        for k, x in v.items():
            if not (isinstance(k, str) and k.isidentifier()):
                raise Unsupported("dict key")
            fd = type_.fields.get(k)
            parts.append(k + " " + (_value_lit(x, fd.type) if fd is not None else _generic_lit(x)))
        return "{ " + str(len(v)) + " " + " ".join(parts)
    if is_enum_type(type_):
        if isinstance(v, str):
            return ("e " + v) if v.isidentifier() and v not in ("true", "false", "null") else "s"
        return _generic_lit(v)
    if is_scalar_type(type_):
        isnum = isinstance(v, (int, float)) and not isinstance(v, bool)
        integral = isnum and (isinstance(v, int) or (math.isfinite(v) and int(v) == v))
        if type_ is GraphQLInt or type_ is GraphQLID:
            if isnum:
                return f"i {int(v)}" if integral else "b"  # "b": a literal both reject
            return _generic_lit(v)
        if type_ is GraphQLFloat:
            if isinstance(v, float):
                return "f" if math.isfinite(v) else "b"
            if isnum:
                if abs(v) >= 2**53:
                    raise Unsupported("big int at Float")
                return f"i {v}"
            return _generic_lit(v)
        if type_ is GraphQLString or type_ is GraphQLBoolean:
            return _generic_lit(v) if not isinstance(v, float) or math.isfinite(v) else "f"
        if _has_callbacks(type_):
            raise Unsupported("custom scalar callbacks")
        return "null" if False else _generic_custom(v)
    return _generic_lit(v) if not isinstance(v, float) or math.isfinite(v) else "f"


def _generic_custom(v):
    """at a scalar with the default callbacks every value is accepted: any literal will do"""
    try:
        return _generic_lit(v)
    except Unsupported:
        return "s"


def _has_callbacks(t):
    from graphql.type import GraphQLScalarType

    return (
        t.parse_value is not GraphQLScalarType.parse_value
        or t.coerce_input_value is not GraphQLScalarType.parse_value
        or t.coerce_input_literal is not None
        or getattr(t.parse_literal, "__func__", None) is not GraphQLScalarType.parse_literal
    )


def _ival(name, iv):
    from graphql.pyutils import Undefined

    d = iv.default
    if d is None:
        ds = "-"
    elif d.literal is not None:
        ds = "= " + _lit(d.literal)
    else:
        # an external *value* (the built-in directives and introspection fields use
        # GraphQLDefaultInput(value=False) etc.): the equivalent literal
        ds = "= " + _value_lit(d.value, iv.type)
    legacy = 0 if iv.default_value is Undefined else 1
    return f"{name} {_tref(iv.type)} {ds} {legacy} {1 if iv.deprecation_reason is not None else 0}"


def _field(name, f):
    args = " ".join(_ival(a, iv) for a, iv in f.args.items())
    return f"{name} {_tref(f.type)} {len(f.args)} {args} {1 if f.deprecation_reason is not None else 0}"


def serialize(schema) -> str:
    """the driver's line for a constructed schema (see lean/Driver/C20.lean), or Unsupported"""
    try:
        return _serialize(schema)
    except Unsupported:
        raise
    except Exception as e:  # noqa: BLE001 - wrapping types in named positions, lazily failing enum values
        raise Unsupported(type(e).__name__) from e


def _serialize(schema) -> str:
    from graphql.type import (
        GraphQLBoolean,
        GraphQLFloat,
        GraphQLID,
        GraphQLInt,
        GraphQLString,
        is_enum_type,
        is_input_object_type,
        is_interface_type,
        is_object_type,
        is_scalar_type,
        is_union_type,
    )

    std = {id(GraphQLInt): "int", id(GraphQLFloat): "float", id(GraphQLString): "string", id(GraphQLBoolean): "boolean", id(GraphQLID): "id"}
    out = []
    for op in ("query_type", "mutation_type", "subscription_type"):
        r = getattr(schema, op)
        out.append(r.name if r is not None else "-")
    tm = schema.type_map
    out.append(str(len(tm)))
    for name, t in tm.items():
        if is_scalar_type(t):
            out.append(f"{name} S {std.get(id(t), 'custom')}")
        elif is_object_type(t) or is_interface_type(t):
            k = "O" if is_object_type(t) else "I"
            ifs = [i.name for i in t.interfaces]
            out.append(f"{name} {k} {len(ifs)} {' '.join(ifs)} {len(t.fields)} " + " ".join(_field(fn, f) for fn, f in t.fields.items()))
        elif is_union_type(t):
            ms = [m.name for m in t.types]
            out.append(f"{name} U {len(ms)} {' '.join(ms)}")
        elif is_enum_type(t):
            out.append(f"{name} E {len(t.values)} {' '.join(t.values)}")
        elif is_input_object_type(t):
            out.append(f"{name} N {1 if t.is_one_of else 0} {len(t.fields)} " + " ".join(_ival(fn, f) for fn, f in t.fields.items()))
        else:
            raise Unsupported("type kind")
    out.append(str(len(schema.directives)))
    for d in schema.directives:
        out.append(f"{d.name} {len(d.locations)} {len(d.args)} " + " ".join(_ival(a, iv) for a, iv in d.args.items()) + f" {1 if d.is_repeatable else 0}")
    return " ".join(" ".join(out).split())


def _input_chain_depth(schema):
    """length of the longest chain of input objects linked by input-object-typed fields (iterative)"""
    from graphql.type import get_named_type, is_input_object_type

    try:
        inputs = {n: t for n, t in schema.type_map.items() if is_input_object_type(t)}
        succ = {n: [get_named_type(f.type).name for f in t.fields.values() if is_input_object_type(get_named_type(f.type))] for n, t in inputs.items()}
    except Exception:  # noqa: BLE001
        return 0
    depth, state, best = {}, {}, 0
    for root in succ:
        stack = [(root, iter(succ[root]))]
        state[root] = state.get(root, 1)
        while stack:
            node, it = stack[-1]
            nxt = next(it, None)
            if nxt is None:
                stack.pop()
                depth[node] = 1 + max((depth.get(m, 0) for m in succ[node]), default=0)
                state[node] = 2
                best = max(best, depth[node])
            elif nxt in succ and state.get(nxt) is None:
                state[nxt] = 1
                stack.append((nxt, iter(succ[nxt])))
    return best


def _raise_fp(prefix, e, schema):
    """run-computed fingerprint of an exception escaping validate_schema / graphql_sync"""
    if isinstance(e, RecursionError) and _input_chain_depth(schema) >= 150:
        return "recursionerror:input-object-chain-depth"
    return f"{prefix}-raises-{type(e).__name__}"


def observe(schema):
    """(outcome, [classified errors], messages, oracle failures [(fingerprint, what, observed, expected)])"""
    from graphql import graphql_sync
    from graphql.type import validate_schema

    fails = []
    try:
        errs = validate_schema(schema)
    except Exception as e:  # noqa: BLE001
        fails.append((_raise_fp("validate_schema", e, schema), "validate_schema raises instead of returning errors", f"{type(e).__name__}: {e}"[:300], "a list of errors"))
        try:
            graphql_sync(schema, "{ __typename }")
        except Exception as e2:  # noqa: BLE001
            fails.append((_raise_fp("graphql_sync", e2, schema), "graphql_sync raises on a schema whose validation raises", f"{type(e2).__name__}"[:300], "a response"))
        return f"crash {type(e).__name__}", [], [], fails
    msgs = [e.message for e in errs]
    try:
        again = validate_schema(schema)
        if again is not errs and [e.message for e in again] != msgs:
            fails.append(("validate_schema-cache", "second validate_schema call returns a different list", [e.message for e in again][:5], msgs[:5]))
    except Exception as e:  # noqa: BLE001
        fails.append(("validate_schema-cache", "second validate_schema call raises", type(e).__name__, msgs[:5]))
    if errs:
        try:
            res = graphql_sync(schema, "{ __typename }")
            got = [e.message for e in (res.errors or [])]
            if res.data is not None or got != msgs:
                fails.append(("graphql_sync-invalid-schema", "request against an invalid schema does not return exactly the schema errors", {"data": repr(res.data), "errors": got[:6]}, {"data": None, "errors": msgs[:6]}))
            # a caller emptying the lists it was handed must not change the schema's validation state
            if isinstance(res.errors, list):
                res.errors.clear()
            if isinstance(errs, list):
                errs.clear()
            after = [e.message for e in validate_schema(schema)]
            res2 = graphql_sync(schema, "{ __typename }")
            got2 = [e.message for e in (res2.errors or [])]
            if after != msgs or res2.data is not None or got2 != msgs:
                fails.append(("validation-cache-mutated-through-result", "emptying the error list of a response (or of validate_schema's result) changes what the next validation / request returns", {"validate_schema": after[:6], "data": repr(res2.data), "errors": got2[:6]}, {"data": None, "errors": msgs[:6]}))
        except Exception as e:  # noqa: BLE001
            fails.append((_raise_fp("graphql_sync", e, schema), "request against an invalid schema raises", f"{type(e).__name__}: {e}"[:300], {"data": None, "errors": msgs[:6]}))
    return "ok", [classify(m) for m in msgs], msgs, fails


def observe_copy(schema_copy, outcome, msgs):
    """copy.deepcopy(schema) taken before validation must validate like the schema itself"""
    from graphql import graphql_sync
    from graphql.type import validate_schema

    if outcome != "ok":
        return []
    try:
        cm = [e.message for e in validate_schema(schema_copy)]
        if cm != msgs:
            return [("deepcopy-loses-validation-state", "copy.deepcopy(schema) taken before validation validates differently from the schema", cm[:6], msgs[:6])]
        if msgs:
            r = graphql_sync(schema_copy, "{ __typename }")
            got = [e.message for e in (r.errors or [])]
            if r.data is not None or got != msgs:
                return [("deepcopy-loses-validation-state", "a request against the deep copy of an invalid schema does not return the schema errors", {"data": repr(r.data), "errors": got[:6]}, msgs[:6])]
    except Exception as e:  # noqa: BLE001
        return [(f"deepcopy-validate-raises-{type(e).__name__}", "validating the deep copy raises", f"{type(e).__name__}: {e}"[:200], msgs[:6])]
    return []


# ----------------------------------------------------------------------------- one chunk of cases


def _work(args):
    cases, drv = args
    fw.use_repo()
    rep = Report()
    st = rep.stats
    driver = fw.Driver(drv) if drv else None
    lines, obs = [], []
    for case in cases:
        origin = case.get("origin", "?")
        st[f"origin.{origin.split(':')[0]}"] = st.get(f"origin.{origin.split(':')[0]}", 0) + 1
        try:
            schema = build(case)
        except Exception as e:  # noqa: BLE001 - not constructible: outside the property's domain
            st["not_constructible"] = st.get("not_constructible", 0) + 1
            st[f"not_constructible.{type(e).__name__}"] = st.get(f"not_constructible.{type(e).__name__}", 0) + 1
            continue
        schema_copy = None
        if case.get("deepcopy"):
            try:
                schema_copy = copy.deepcopy(schema)
                st["deepcopied"] = st.get("deepcopied", 0) + 1
            except Exception:  # noqa: BLE001 - user callbacks / very deep trees: not the property's business
                st["deepcopy_failed"] = st.get("deepcopy_failed", 0) + 1
        outcome, kinds, msgs, fails = observe(schema)
        if schema_copy is not None:
            fails += observe_copy(schema_copy, outcome, msgs)
        if case.get("expect_invalid") and outcome == "ok" and not msgs:
            fails.append(("accepts-invalid-schema:" + case["expect_invalid"], "a schema built by a rule-violating construction is accepted", [], "at least one error"))
        rep.evaluations += 1
        for fp, what, observed, expected in fails:
            rep.failures.append(Failure(fp, what, case, observed, expected, "C20 oracle (1)/(3)/cache"))
        if case.get("nodriver"):
            st["not_modelled"] = st.get("not_modelled", 0) + 1
            continue
        try:
            line = serialize(schema)
        except Unsupported:
            st["not_modelled"] = st.get("not_modelled", 0) + 1
            continue
        lines.append(line)
        obs.append((case, outcome, kinds, msgs))
    outs = driver.run(lines) if driver and lines else [None] * len(lines)
    for (case, outcome, kinds, msgs), out, line in zip(obs, outs, lines):
        if out is None:
            continue
        if out == "bad-op":
            raise fw.InfraError("driver could not parse: " + line[:300])
        model, pinned, spec, oof, unin, errs = out.split(";", 5)
        merrs = errs.split() if errs else []
        if oof == "1":
            rep.disagreements.append(Disagreement("cycle-validator-budget", case, "terminated", "model ran out of recursion budget"))
        for k in merrs:
            kk = k.split(":")[0]
            st[f"kind.{kk}"] = st.get(f"kind.{kk}", 0) + 1
        if pinned.startswith("crash"):
            st["pinned_model_would_crash"] = st.get("pinned_model_would_crash", 0) + 1
        n_model = len(merrs)
        nontrivial = bool(merrs) or bool(kinds)
        rep.nontrivial += 1 if nontrivial else 0
        st["valid_by_spec"] = st.get("valid_by_spec", 0) + (1 if spec == "1" else 0)
        st["invalid_by_spec"] = st.get("invalid_by_spec", 0) + (1 if spec == "0" else 0)
        # oracle (2): the implementation's verdict against the specification
        if outcome == "ok":
            impl_valid = not kinds
            if impl_valid != (spec == "1"):
                fp = "accepts-invalid-schema" if impl_valid else "rejects-valid-schema"
                hint = sorted(set(k.split(":")[0] for k in (merrs if impl_valid else kinds)))
                rep.failures.append(
                    Failure(
                        fp + ":" + ",".join(hint[:3]),
                        "validate_schema's verdict differs from the specification's type-system rules (Spec.TypeSystemValid)",
                        case,
                        {"errors": msgs[:8]},
                        {"spec_valid": spec == "1", "model_errors": merrs[:8]},
                        "C20 oracle (2) validate_iff_spec",
                    )
                )
            elif impl_valid and unin:
                # valid by the transcribed rules, yet an input object has no finite value (newer spec text)
                rep.failures.append(
                    Failure(
                        "oneof-cycle-uninhabited-not-reported",
                        "validate_schema accepts a schema in which an input object type has no finite value (OneOf cycle)",
                        case,
                        {"errors": []},
                        {"uninhabited": unin.split(",")},
                        "Spec.uninhabited (newer specification text, not part of Spec.TypeSystemValid)",
                    )
                )
        # correspondence: crash / no crash, and the set of (kind, subject)
        if outcome != model:
            rep.disagreements.append(Disagreement("validate_schema.outcome", case, outcome, model))
        elif outcome == "ok":
            if any(k.startswith("other:") for k in kinds):
                st["unknown_messages"] = st.get("unknown_messages", 0) + 1
                if len(kinds) != n_model:
                    rep.disagreements.append(Disagreement("validate_schema.error-count", case, len(kinds), n_model))
            elif set(kinds) != set(merrs):
                rep.disagreements.append(
                    Disagreement("validate_schema.errors", case, sorted(set(kinds) - set(merrs)), sorted(set(merrs) - set(kinds)))
                )
            elif kinds != merrs:
                st["same_set_other_order"] = st.get("same_set_other_order", 0) + 1
    if obs:
        c, o, k, _ = obs[len(obs) // 2]
        rep.samples.append({"origin": c.get("origin"), "sdl": c["sdl"][:400], "tweaks": c.get("tweaks"), "impl": o, "errors": k[:6]})
    return rep


# ----------------------------------------------------------------------------- cases

CORPUS = [
    ("F6", "type Query { g(x: Query = 1): Int }"),
    ("F6-nested", "input I { f: Query } type Query { g(x: I = {f: 1}): Int }"),
    ("F6-input-field", "input I { f: Query = 1 } type Query { g(x: I): Int }"),
    ("F6-directive", "directive @d(x: Query = 1) on FIELD type Query { g: Int }"),
    ("F6-list", "type Query { g(x: [Query!]! = [1]): Int }"),
    ("F6-oneof", "input I @oneOf { f: Query, h: Int } type Query { g(x: I = {f: 1}): Int }"),
    ("valid-min", "type Query { a: Int }"),
    ("empty", "type Query { a: Int } enum E  union U  type T  input I  interface J"),
    ("cycle", "input A { b: B! } input B { a: A! } type Query { f(a: A): Int }"),
    ("cycle-list", "input A { b: [B!]! } input B { a: A! } type Query { f(a: A): Int }"),
    ("dcycle", "input A { b: B = {} } input B { a: A = {} } type Query { f(a: A): Int }"),
    ("dcycle-ok", "input A { b: B = {a: null} } input B { a: A = {} } type Query { f(a: A): Int }"),
    ("dcycle-list", "input A { b: [A] = [{}] } type Query { f(a: A): Int }"),
    ("dup-key", "input A { x: Int, y: A } type Query { f(a: A = {x: \"s\", x: 1, y: {x: 2, x: true}}): Int }"),
    ("transitive", "interface A { a: Int } interface B implements A { a: Int } type Query implements B { a: Int }"),
    ("covariance", "interface A { a: Int! b: [Int] c: A } type Query implements A { a: Int b: [Int!] c: Query }"),
    ("union-iface", "interface A { a: U } union U = A | Query type Query implements A { a: A }"),
    ("oneof", "input I @oneOf { a: Int! b: Int = 1 c: Int } type Query { f(i: I = {a: 1, c: 2}, j: I = {c: null}, k: I = {c: 1}): Int }"),
    ("roots", "schema { query: Q mutation: Q subscription: E } type Q { a: Int } enum E { A }"),
    ("introspection-ref", "type Query { t: __Type s(k: __TypeKind = OBJECT, d: __DirectiveLocation = NOPE): __Schema }"),
    ("int-range", "type Query { f(a: Int = 2147483648, b: Int = -2147483648, c: Float = 1, d: ID = 1, e: ID = 1.5): Int }"),
    ("custom-scalar", "scalar S type Query { f(a: S = {x: [1, FOO]}, b: [S!] = 1, c: S! = null): S }"),
    ("list-coercion", "type Query { f(a: [[Int]] = 1, b: [[Int]] = [1, [2, null]], c: [Int!] = [1, null], d: [[Int!]!] = [[\"x\"]]): Int }"),
]


_PT = "input Point { x: Int y: Int } input Box { corner: Point } enum E { A B } type Query { f: Int }"
VALUE_CORPUS = [
    # invalid Python-value defaults whose "uncoerce for a did-you-mean hint" step fails internally
    ("value-unknown-key-arg", _PT, [["add_value_default", "arg", "Query", "f", "p", "Point", {"x": 1, "z": 2}]]),
    ("value-unknown-key-input-field", _PT, [["add_value_default", "input", "Box", None, "c2", "Point", {"y": 0, "w": 0}]]),
    ("value-unknown-key-dirarg", _PT, [["add_value_default", "dirarg", "vd", None, "x", "[Point!]", [{"x": 1}, {"q": None}]]]),
    ("value-nested-unknown", _PT, [["add_value_default", "arg", "Query", "f", "b", "Box!", {"corner": {"x": "s", "zz": 1}}]]),
    ("value-wrong-container", _PT, [["add_value_default", "arg", "Query", "f", "p", "Point", [1, 2]], ["add_value_default", "arg", "Query", "f", "l", "[Int!]!", {"a": 1}]]),
    ("value-null-under-nonnull", _PT, [["add_value_default", "arg", "Query", "f", "l", "[Int!]", [1, None]], ["add_value_default", "input", "Point", None, "z", "Int!", None]]),
    ("value-enum-unknown", _PT, [["add_value_default", "arg", "Query", "f", "e", "E", "NOPE"], ["add_value_default", "arg", "Query", "f", "e2", "[E]", ["A", 1, True]]]),
    ("value-did-you-mean", _PT, [["add_value_default", "arg", "Query", "f", "i", "Int", "3"], ["add_value_default", "arg", "Query", "f", "i2", "[Int]", {"__t": [1, 2.0, 2.5]}]]),
    ("value-valid", _PT, [["add_value_default", "arg", "Query", "f", "p", "Point", {"x": 1}], ["add_value_default", "arg", "Query", "f", "e", "E!", "B"], ["add_value_default", "arg", "Query", "f", "d", "ID", 3.0]]),
] + [
    (f"scalar-{pe}-{se}".replace(":", "-"), _PT, [["raising_scalar", "Rs", pe, se], ["add_value_default", "arg", "Query", "f", "n", t, v]])
    for pe, se, t, v in [
        ("raise:ValueError", "raise:KeyError", "Rs", 3),
        ("raise:KeyError", "raise:ZeroDivisionError", "[Rs!]", [1, 2]),
        ("reject", "raise:AttributeError", "Rs!", "x"),
        ("raise:ZeroDivisionError", "identity", "Rs", {"a": 1}),
        ("raise:GraphQLError", "raise:IndexError", "[Rs]", 5),
        ("accept", "raise:KeyError", "Rs", 3),
        ("raise:TypeError", "const", "Rs", 3),
        ("raise:AttributeError", "raise:RuntimeError", "Rs", 3),
    ]
]


_W4 = "type Obj { x: Int } union U = Obj interface I { x: U } type Query implements I { x: Obj }"
PROBE_CORPUS = [
    # w1: an ill-typed directive argument that only the lazily built enum values evaluate
    {"origin": "corpus:enum-value-deprecated-reason-int", "sdl": "type Query { f: E } enum E { X @deprecated(reason: 1) }"},
    {"origin": "corpus:enum-value-deprecated-reason-int-presdl", "sdl": "type Query { f: E } enum E { X @deprecated(reason: 1) }", "presdl": True},
    {"origin": "corpus:enum-value-deprecated-reason-null", "sdl": "type Query { f: E } enum E { X @deprecated(reason: null) Y }", "presdl": True},
    {"origin": "corpus:enum-value-deprecated-reason-list", "sdl": "type Query { f: E } enum E { X Y @deprecated(reason: [1]) }"},
    {"origin": "corpus:arg-deprecated-reason-int", "sdl": "type Query { f(a: Int @deprecated(reason: 1)): Int }", "presdl": True},
    {"origin": "corpus:input-field-deprecated-reason-int", "sdl": "input I { a: Int @deprecated(reason: 1) } type Query { f(i: I): Int }"},
    {"origin": "corpus:field-deprecated-reason-int", "sdl": "type Query { f: Int @deprecated(reason: 1) }"},
    {"origin": "corpus:scalar-specifiedby-int", "sdl": "scalar S @specifiedBy(url: 1) type Query { f: S }", "presdl": True},
    {"origin": "corpus:custom-directive-bad-arg", "sdl": "directive @d(a: Int!) on ENUM_VALUE | INPUT_FIELD_DEFINITION | ARGUMENT_DEFINITION enum E { X @d(a: \"s\") } input I { a: Int @d } type Query { f(x: I @d(a: null)): E }", "presdl": True},
    # w3: deep copy before validation
    {"origin": "corpus:deepcopy-invalid", "sdl": "type Query  input A { a: A! }", "deepcopy": True},
    {"origin": "corpus:deepcopy-valid", "sdl": "type Query { a: Int }", "deepcopy": True},
    # w4: a wrapping type where a named type is expected
    {"origin": "corpus:wrap-root-query", "sdl": _W4, "tweaks": [["wrap_root", "query", "Obj", "l"]], "expect_invalid": "wrapper-root"},
    {"origin": "corpus:wrap-root-mutation", "sdl": _W4, "tweaks": [["wrap_root", "mutation", "Obj", "!"]], "expect_invalid": "wrapper-root"},
    {"origin": "corpus:wrap-union-member", "sdl": _W4, "tweaks": [["wrap_union_member", "U", "Obj", "l"]], "expect_invalid": "wrapper-union-member"},
    {"origin": "corpus:wrap-interface-of-interface", "sdl": _W4, "tweaks": [["wrap_interface", "I", "Obj", "l"]], "expect_invalid": "wrapper-interface"},
    {"origin": "corpus:wrap-interface-of-object", "sdl": _W4, "tweaks": [["wrap_interface", "Query", "I", "!"]], "expect_invalid": "wrapper-interface"},
    # w5 is exercised on every invalid schema (observe); w6: OneOf objects without a finite value
    {"origin": "corpus:oneof-self", "sdl": "type Query { f(a: A): Int } input A @oneOf { a: A }"},
    {"origin": "corpus:oneof-via-nonnull", "sdl": "type Query { f(a: A): Int } input A @oneOf { b: B } input B { a: A! }"},
    {"origin": "corpus:oneof-inhabited", "sdl": "type Query { f(a: A): Int } input A @oneOf { a: A, l: [A!], i: Int }"},
]


def probe_cases(ctx, rng, valid_descs):
    """shapes an independent probe found: lazily failing enum values, long input chains, deep copies,
    wrapping types in named positions, OneOf cycles (mutation of returned lists happens in observe)"""
    cases = [dict(c) for c in PROBE_CORPUS]
    # w2: long chains of input objects (valid schemas); only the short one goes through the driver
    for n in (40, 200, 600, 1200):
        for mode in ("nonnull", "default"):
            cases.append({"origin": f"chain:{mode}:{n}", "sdl": G.chain_sdl(n, mode), "nodriver": n > 60, "presdl": n <= 200})
    for i, d in enumerate(valid_descs):
        sdl = G.to_sdl(d)
        # an ill-typed @deprecated on the first enum value, with and without the SDL pre-validation
        enums = [n for n, t in d["types"].items() if t["kind"] == "enum" and t["values"]]
        if enums:
            v = d["types"][enums[0]]["values"][0]
            bad = rng.choice(["1", "null", "[1]", "{a: 1}", "true", "X"])
            s2 = sdl.replace(f"enum {enums[0]} {{\n  {v}\n", f"enum {enums[0]} {{\n  {v} @deprecated(reason: {bad})\n", 1)
            if s2 != sdl:
                cases.append({"origin": f"lazyenum:{i}", "sdl": s2, "presdl": i % 2 == 0})
        # wrapping types at every position where a named type is expected
        objs = [n for n, t in d["types"].items() if t["kind"] == "object"]
        unions = [n for n, t in d["types"].items() if t["kind"] == "union"]
        holders = [n for n, t in d["types"].items() if t["kind"] in ("object", "interface")]
        anyt = list(d["types"])
        w = rng.choice(["l", "!", "l!", "!l"])
        cases.append({"origin": f"wrap:root:{i}", "sdl": sdl, "tweaks": [["wrap_root", rng.choice(["query", "mutation", "subscription"]), rng.choice(objs), w]], "expect_invalid": "wrapper-root"})
        if unions:
            cases.append({"origin": f"wrap:union:{i}", "sdl": sdl, "tweaks": [["wrap_union_member", rng.choice(unions), rng.choice(anyt), w]], "expect_invalid": "wrapper-union-member"})
        cases.append({"origin": f"wrap:iface:{i}", "sdl": sdl, "tweaks": [["wrap_interface", rng.choice(holders), rng.choice(anyt), w]], "expect_invalid": "wrapper-interface"})
    return cases


def gen_cases(ctx):
    quick = ctx.tier == "quick"
    rng = ctx.sub_rng("c20")
    cases = []
    for f in sorted((fw.VERIF / "corpus" / "C20").glob("*.json")):
        c = json.loads(f.read_text())
        cases.append({"origin": c.get("origin", "corpus:" + f.stem), "sdl": c["sdl"], "tweaks": c.get("tweaks")})
    cases += [{"origin": f"corpus:{n}", "sdl": sdl} for n, sdl in CORPUS]
    cases += [{"origin": f"corpus:{n}", "sdl": sdl, "tweaks": tw} for n, sdl, tw in VALUE_CORPUS]
    n_valid = 26 if quick else 150
    if ctx.escalate:
        n_valid *= 2
    n_double = 0 if quick else 25
    valid_descs = []
    for i in range(n_valid):
        d = G.gen_valid(rng)
        valid_descs.append(d)
        cases.append({"origin": f"valid:{i}", "sdl": G.to_sdl(d)})
        for name, fn in G.MUTATIONS:
            d2 = G.mutate(d, name, fn, rng)
            if d2 is not None:
                cases.append({"origin": f"mut:{name}:{i}", "sdl": G.to_sdl(d2)})
        # programmatic things SDL cannot express
        tws = []
        if rng.random() < 0.5:
            tws.append(["nolocs", "noloc"])
        for n, t in d["types"].items():
            if t["kind"] == "input" and rng.random() < 0.5:
                f = rng.choice(list(t["fields"]))
                tws.append(["legacy_default", n, f, None])
            if t["kind"] in ("object", "interface") and rng.random() < 0.5:
                for fn_, f in t["fields"].items():
                    if f["args"]:
                        tws.append(["legacy_default", n, fn_, rng.choice(list(f["args"]))])
                        break
        if rng.random() < 0.5:
            tws.append(["share_wrappers"])
        # defaults given as Python values (GraphQLDefaultInput(value=...)), mostly invalid, and
        # custom scalars whose callbacks raise
        for j in range(5 if quick else 8):
            vt = G.gen_value_tweaks(rng, d)
            if vt:
                cases.append({"origin": f"progv:{i}.{j}", "sdl": G.to_sdl(d), "tweaks": vt + (tws if j == 0 else [])})
        if tws:
            cases.append({"origin": f"prog:{i}", "sdl": G.to_sdl(d), "tweaks": tws})
            d3 = G.mutate(d, "required_deprecated", G.m_required_deprecated, rng)
            if d3 is not None:
                cases.append({"origin": f"prog-mut:{i}", "sdl": G.to_sdl(d3), "tweaks": tws})
        if i < n_double:
            for a in range(len(G.MUTATIONS)):
                for b in range(len(G.MUTATIONS)):
                    if a == b:
                        continue
                    d2 = G.mutate(d, *G.MUTATIONS[a], rng)
                    if d2 is None:
                        continue
                    d3 = G.mutate(d2, *G.MUTATIONS[b], rng)
                    if d3 is not None:
                        cases.append({"origin": f"mut2:{G.MUTATIONS[a][0]}+{G.MUTATIONS[b][0]}:{i}", "sdl": G.to_sdl(d3)})
    cases += probe_cases(ctx, ctx.sub_rng("c20-probe"), valid_descs)
    # a deep copy taken before validation must validate like the original (every 4th case)
    for k, c in enumerate(cases):
        if k % 4 == 0 and not c["origin"].startswith("chain:"):
            c.setdefault("deepcopy", True)
    n_rand = 800 if quick else 15000
    if ctx.escalate:
        n_rand *= 2
    for i in range(n_rand):
        cases.append({"origin": f"random:{i}", "sdl": G.to_sdl(G.gen_random(rng))})
    return cases


def explore(ctx) -> Report:
    fw.use_repo()
    cases = gen_cases(ctx)
    drv = DRIVER if ctx.driver else None
    chunks = fw.chunked(cases, fw.WORKERS * 3)
    reps = fw.pmap(_work, [(c, drv) for c in chunks])
    rep = Report()
    for r in reps:
        rep.merge(r)
    rep.rule = (
        "schemas built with build_schema(sdl, assume_valid=False, assume_valid_sdl=True) from: the corpus (F6 witnesses "
        "and boundary cases), generated valid schemas (all six kinds, interface hierarchies with covariant narrowing, "
        "recursive and OneOf input objects, custom directives, defaults), each of the %d rule-violating mutations of every "
        "generated schema%s, programmatic tweaks (directive without locations, legacy default_value, shared wrapper "
        "objects), and grammar-random type systems whose references ignore kinds; non-trivial = model or implementation "
        "reports at least one error" % (len(G.MUTATIONS), "" if ctx.tier == "quick" else " and ordered pairs of mutations on the first 25")
    )
    rep.stats["cases"] = len(cases)
    if not ctx.driver:
        rep.notes.append("model driver unavailable: correspondence and the spec oracle were skipped; only oracles (1), (3), cache ran")
    return rep


def search(ctx, rep) -> Report:
    # explore() already evaluates every oracle on every case; when something else broke (a proof,
    # the correspondence) look further with fresh seeds
    if ctx.driver is None:
        return Report(notes=["no driver: the spec oracle cannot run"])
    extra = Report()
    for k in range(2):
        sub = fw.Ctx(ctx.prop, ctx.tier, ctx.seed * 1000 + 17 + k, random.Random(ctx.seed + k), ctx.driver, ctx.model_ok, True, ctx.t0)
        cases = gen_cases(sub)
        chunks = fw.chunked(cases, fw.WORKERS * 3)
        for r in fw.pmap(_work, [(c, DRIVER) for c in chunks]):
            extra.merge(r)
        if extra.failures:
            break
    extra.disagreements = []
    return extra


def replay(ctx, payload) -> Report:
    fw.use_repo()
    case = payload.get("input") or payload["disagreements"][0]["input"]
    if isinstance(case, str):
        case = json.loads(case)
    return _work(([case], DRIVER if ctx.driver else None))
