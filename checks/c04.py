"""C04 — incremental delivery reassembles to the non-incremental response."""
from __future__ import annotations

import json

from tools import c04_collect as CO
from tools import c04_gen as G
from tools import c04_incexec as IX
from tools import c04_loop as L
from tools import fw
from tools.fw import Disagreement, Failure, Report

ID = "C04"
PROPS = "Gql.Props.C04"
DRIVER = "drv_c04"
LEVEL = "proof"
LEVEL_TEXT = (
    "Lean theorems, no size bounds. Plan: build_execution_plan partitions the grouped field set (every response key "
    "with its intact field-details list lands in exactly one part, order preserved, nothing invented; parts keyed by "
    "the filtered defer-usage set), and get_filtered_defer_usage_set returns exactly the usages without a proper "
    "ancestor among them. Format: Assemble.apply never overwrites a key; folding any list of incremental entries in "
    "any two orders that keep each stream's batches in order gives the same JSON value (assemble_order_independent, "
    "n entries, arbitrary nesting/overlap of targets; identical data when targets are disjoint or nested); folding the "
    "pieces of any well-formed cut of a reference tree (deferred fragments and stream batches nested to any depth) into "
    "the initial data never fails and gives exactly the reference (assemble_eq_reference), in every order. "
    "Collect: collect_fields / collect_subfields with live @defer (tri-state visited-fragment map) yield the same response "
    "keys and per key the same set of field nodes as with @defer disabled (collect_defer_same_keys), and collect + plan read "
    "as a cut of one object is well formed, reassembles, and has exactly the non-incremental response keys once each "
    "(collect_plan_cut). "
    "Executor: IncExec.incCut is a denotational model of the incremental executor itself for error-free @defer requests over "
    "C02's schema/document/data model (collect with live defer usages over the real document, build_execution_plan per object "
    "with the defer-usage set of the running (sub-)executor, one execution group per new defer-usage set, recursion into every "
    "field value and list item); for every request on which it answers, its answer is a well-formed cut, so folding the delivered "
    "pieces into the initial data in any parent-before-child order never overwrites or misses a target and gives the tree the same "
    "recursion builds with nothing cut out (incExec_assemble_partial, incExec_assemble_any_order, incCut_wellformed). "
    "For every document in which no inline fragment or fragment spread carries @defer (inline fragments, named spreads, type "
    "conditions, @skip/@include, aliases, arguments, variables, lists, interfaces/unions all allowed; refClassDoc) that tree is "
    "proved to be exactly - keys, key order, values - the data of the specification's response (Spec.executeRequest, GraphQL s6) "
    "to the document, and that response has no errors (incExec_assemble_ref_partial, under C02's value-layer law OpsOk): the whole "
    "recursion skeleton of the incremental executor (collect_fields_impl with the visited map, collect_subfields, the plan of a "
    "set without defer usages, execute_fields, complete_value) computes the specification's ExecuteSelectionSet. "
    "End-to-end: every payload stream produced by experimental_execute_incrementally under a controlled event loop "
    "(all completion orders of the harness futures up to the cap x consumer pull timing x early execution on/off) is "
    "folded by the Lean Assemble.apply and decided by the Lean clauses Spec.exact / Spec.approx against the Python "
    "non-incremental response of the same operation with the directives removed."
)
LEVEL_NOTE = (
    "Trusted: Lean kernel; the hand-written plan model (tied to build_execution_plan by direct correspondence on "
    "generated FieldDetails/DeferUsage objects); the harness (event loop control, data realisation, reference run). "
    "collect_fields is modelled on unfolded selection trees of documents without fragment cycles (fragment variables out "
    "of scope) and tied by direct correspondence. The incremental executor itself is modelled denotationally for the error-free "
    "@defer-only class (Gql/Async/IncExec.lean; tied to experimental_execute_incrementally by comparing initial data and the "
    "multiset of (target path, data) pieces exactly on generated requests). Open (incExec_assemble_full): that the reference tree of "
    "the model's cut is the specification's response to the document without @defer is proved for documents without @defer "
    "(incExec_assemble_ref_partial); for documents with a live @defer it is checked by the driver on every generated "
    "case (ref=1, specerrs=0), not proved; @stream and error propagation are outside the executor model — for those the emitted "
    "pieces being a cut of the reference is what the end-to-end oracle observes on every explored run."
)
TECHNIQUE = "Lean 4 theorems + correspondence (plan) + Lean spec oracle on implementation runs under schedule control"
TRUSTED = [
    "hand-written Lean model Gql/Async/Plan.lean of build_execution_plan/get_filtered_defer_usage_set, tied to the "
    "code by calling the Python function on generated FieldDetails/DeferUsage objects",
    "hand-written Lean model Gql/Async/CollectDefer.lean of collect_fields/collect_subfields, tied to the code by calling "
    "the Python functions on generated documents (tools/c04_collect.py evaluates @skip/@include/@defer(if)/type conditions "
    "and unfolds fragments for the model)",
    "hand-written Lean model Gql/Async/IncExec.lean of the incremental executor (error-free, @defer only, synchronous data), tied to "
    "experimental_execute_incrementally by tools/c04_incexec.py (C02's generators and resolver harness; early execution off and on)",
    "Gql/Async/Assemble.lean is a specification of the delivery format's merge and of the property's two clauses "
    "(Spec.exact, Spec.approx), run through the driver on what the implementation emits",
    "tools/c04_loop.py: harness futures / async generators, quiescence detection via loop._ready",
]
ASSUMPTIONS = [
    "a stream whose source raises at an index >= initialCount: the reference list is the source cut at that "
    "index (the non-incremental executor would null the whole field); the assembled list may stop earlier "
    "(items still pending at the failure are cancelled) and the stream must be completed with errors",
    "errors are compared as the set of topmost error paths (errors below an already nulled position may be dropped)",
    "reference response computed by graphql-core's own non-incremental execute() (C02/C03 cover it)",
    "String/Int scalars, single operation, no fragment arguments; abstract types: one interface and one union per level, "
    "runtime type always one of the two members (invalid runtime types are C02/C13 matter)",
]
EXPLANATION = (
    "Theorems: plan_partition, plan_parts_characterised, filtered_set_spec, assemble_order_independent (+ exact "
    "refinements), apply_never_overwrites, assemble_eq_reference(_any_order), collect_defer_same_keys, collect_plan_cut, "
    "incExec_assemble_partial / _any_order / incCut_wellformed (executor model). Oracle: Lean Assemble.apply + Spec "
    "clauses on every payload stream of every explored schedule; plan model vs build_execution_plan; collect model vs collect_fields/collect_subfields; "
    "executor model IncExec vs experimental_execute_incrementally (initial data + piece multiset) with the merge relation as oracle on the delivered pieces."
)

CAP_QUICK = 24
CAP_THOROUGH = 120


# ----------------------------------------------------------------------------- helpers


def stream_table(doc, variables):
    """pattern ('a.b.l1') -> initialCount for every active @stream, by expanding fragments."""
    from graphql.language import FieldNode, FragmentDefinitionNode, FragmentSpreadNode, InlineFragmentNode

    frags = {d.name.value: d for d in doc.definitions if isinstance(d, FragmentDefinitionNode)}
    table = {}

    def arg_value(dr, name, default):
        for a in dr.arguments or ():
            if a.name.value == name:
                v = a.value
                if v.kind == "variable":
                    return variables.get(v.name.value, default)
                if v.kind == "boolean_value":
                    return v.value
                if v.kind == "int_value":
                    return int(v.value)
                return v.value
        return default

    def walk(selset, pattern, stack):
        for sel in selset.selections:
            if isinstance(sel, FieldNode):
                key = sel.alias.value if sel.alias else sel.name.value
                p = pattern + (key,)
                for dr in sel.directives or ():
                    if dr.name.value == "stream" and arg_value(dr, "if", True) is not False:
                        table[".".join(p)] = arg_value(dr, "initialCount", 0)
                if sel.selection_set:
                    walk(sel.selection_set, p, stack)
            elif isinstance(sel, InlineFragmentNode):
                walk(sel.selection_set, pattern, stack)
            elif isinstance(sel, FragmentSpreadNode):
                name = sel.name.value
                if name in frags and name not in stack:
                    walk(frags[name].selection_set, pattern, stack + (name,))

    for d in doc.definitions:
        if not isinstance(d, FragmentDefinitionNode):
            walk(d.selection_set, (), ())
    return table


def error_paths(formatted):
    return [e.get("path", []) for e in formatted.get("errors", []) or []]


def prepare(case):
    """Parse/validate and compute the references.  -> dict or None (invalid query)."""
    from graphql import parse, validate

    schema = G.schema()
    try:
        doc = parse(case["query"])
        sdoc = parse(case["stripped"])
        rdoc = parse(case["ref0"])
    except Exception:  # noqa: BLE001
        return None
    if validate(schema, doc) or validate(schema, sdoc):
        return None
    variables = case.get("variables") or {}
    streams = stream_table(doc, variables)
    r1, h1 = L.run_reference(G.ref_schema(), sdoc, case["data"], None, None)
    r0, h0 = L.run_reference(G.ref_schema(), rdoc, case["data"], streams, None)
    exact = not r1.get("errors") or case["noprop"]
    return {
        "doc": doc,
        "variables": variables or None,
        "mode": "exact" if exact else "approx",
        "ref": r0.get("data"),
        "refErrors": error_paths(r1) if exact else [],
        "truncated": [list(p) for p in sorted({tuple(p) for p in h0.truncated}, key=repr)],
        "r1_errors": len(r1.get("errors") or []),
        "streams": streams,
    }


def run_one(case, prep, early, mode, prefix=None, script=None, seed=0):
    ch = L.Chooser(mode, seed=seed, script=script, prefix=prefix)
    payloads, info = L.run_incremental(G.schema(), prep["doc"], case["data"], early, ch, prep["variables"])
    return payloads, info, ch


def driver_line(prep, payloads):
    obj = {
        "mode": prep["mode"],
        "ref": prep["ref"],
        "refErrors": prep["refErrors"],
        "truncated": prep["truncated"],
        "payloads": payloads,
    }
    return "asm " + " ".join(G.tok(obj, []))


def schedules_for(case, prep, cap, rng_seed, sink):
    """Run the case under the explored schedules; ``sink(sched, payloads, info, chooser)``."""
    n = 0
    complete = True
    for early in (False, True):
        for mode in ("eager", "lazy"):

            def run(prefix, early=early, mode=mode):
                payloads, info, ch = run_one(case, prep, early, mode, prefix=prefix)
                sink({"early": early, "consumer": mode, "script": ch.trace}, payloads, info, ch)
                return ch.decisions

            k, done = L.enumerate_schedules(run, cap)
            n += k
            complete = complete and done
        for s in range(2):
            payloads, info, ch = run_one(case, prep, early, "random", seed=rng_seed * 7 + s)
            sink({"early": early, "consumer": "random", "script": ch.trace}, payloads, info, ch)
            n += 1
    return n, complete


KNOWN_PRUNE_FP = "workqueue-prunes-promoted-group-with-undelivered-shared-task"


def classify(out):
    """-> (verdict, assembled-data tokens, target path of the rejected entry or None)"""
    parts = out.split(" | ")
    verdict = parts[0]
    tail = parts[1] if len(parts) > 1 else "n"
    target = None
    if len(parts) > 2 and parts[2] != "n":
        try:
            target = G.untok(parts[2].split())
        except Exception:  # noqa: BLE001
            target = None
    return verdict, tail, target


def _fingerprint(verdict, target=None, pruned=()):
    w = verdict.split()
    if w[0] == "apply-fail":
        if w[1] == "target-missing" and target is not None:
            # the known work-queue finding: observed in this very run, and the rejected entry targets
            # data that the pruned group's undelivered task produces
            for ev in pruned or ():
                for prod in ev.get("produced", ()):
                    if list(target[: len(prod)]) == list(prod):
                        return KNOWN_PRUNE_FP
        return "assemble-apply-" + w[1]
    return "assemble-" + "-".join(w[:2])


def _work(args):
    cases, cap, seed, drv = args
    fw.use_repo()
    rep = Report()
    driver = fw.Driver(drv) if drv else None
    lines, meta = [], []
    st = rep.stats
    for ci, case in cases:
        prep = prepare(case)
        if prep is None:
            st["invalid_queries"] = st.get("invalid_queries", 0) + 1
            continue
        st["cases"] = st.get("cases", 0) + 1
        if case.get("overlap_stream"):
            st["cases_overlap_stream"] = st.get("cases_overlap_stream", 0) + 1
        st["mode_" + prep["mode"]] = st.get("mode_" + prep["mode"], 0) + 1
        dtext = json.dumps(case["data"])
        if '"$type"' in dtext:
            st["cases_with_abstract_values"] = st.get("cases_with_abstract_values", 0) + 1
        if '"$rt": "async"' in dtext or '"$isof": "async"' in dtext:
            st["cases_with_awaitable_type_resolution"] = st.get("cases_with_awaitable_type_resolution", 0) + 1
        if case["noprop"]:
            st["propagation_disabled"] = st.get("propagation_disabled", 0) + 1
        if prep["truncated"]:
            st["cases_with_raising_stream_source"] = st.get("cases_with_raising_stream_source", 0) + 1
        seen = set()
        kinds = set()
        maxk = [0]

        def sink(sched, payloads, info, ch, case=case, prep=prep, seen=seen, kinds=kinds, maxk=maxk):
            rep.evaluations += 1
            maxk[0] = max(maxk[0], len([a for a in ch.trace if a != "pull"]))
            inp = {"case": _replayable(case), "schedule": sched}
            if payloads is None:
                rep.failures.append(
                    Failure("no-termination", "payload stream does not terminate under this schedule", inp, info.get("hang"), "a finite payload stream ending with hasNext=false", "C04 harness")
                )
                return
            kinds.add(info["kind"])
            key = json.dumps(payloads, sort_keys=True)
            if key in seen:
                return
            seen.add(key)
            lines.append(driver_line(prep, payloads))
            meta.append((inp, prep, payloads, list(info.get("pruned_undelivered") or [])))

        n, complete = schedules_for(case, prep, cap, seed * 100003 + ci, sink)
        st["schedules"] = st.get("schedules", 0) + n
        st["distinct_payload_streams"] = st.get("distinct_payload_streams", 0) + len(seen)
        if complete:
            st["cases_all_orders_enumerated"] = st.get("cases_all_orders_enumerated", 0) + 1
        b = "handles_%s" % (maxk[0] if maxk[0] < 5 else "5+")
        st[b] = st.get(b, 0) + 1
        if "incremental" in kinds:
            rep.nontrivial += 1
        else:
            st["cases_without_incremental_payloads"] = st.get("cases_without_incremental_payloads", 0) + 1
        if len(rep.samples) < 3 and "incremental" in kinds:
            rep.samples.append({"query": case["query"], "mode": prep["mode"], "schedules": n, "distinct_streams": len(seen)})
    L.shutdown()
    if driver is None:
        return rep
    outs = driver.run(lines)
    for (inp, prep, payloads, pruned), out in zip(meta, outs):
        verdict, tail, target = classify(out)
        if verdict == "ok":
            continue
        if verdict.startswith("bad-"):
            raise fw.InfraError(f"driver rejected input: {verdict}")
        try:
            assembled = G.untok(tail.split())
        except Exception:  # noqa: BLE001
            assembled = None
        rep.failures.append(
            Failure(
                _fingerprint(verdict, target, pruned),
                f"assembled incremental response violates the {prep['mode']} clause: {verdict}",
                inp,
                {"verdict": verdict, "rejected_entry_target": target, "work_queue_pruned_with_undelivered_task": pruned, "assembled": assembled, "payloads": payloads},
                {"mode": prep["mode"], "reference_data": prep["ref"], "reference_error_paths": prep["refErrors"], "streams_cut_at_raise": prep["truncated"]},
                "Lean Assemble.apply + Spec." + ("exact" if prep["mode"] == "exact" else "approx"),
            )
        )
    return rep


def _replayable(case):
    return {k: case[k] for k in ("query", "stripped", "ref0", "noprop", "data", "variables")}


# ----------------------------------------------------------------------------- plan correspondence


def plan_case_line(parents, parent_set, groups):
    ws = ["plan", str(len(parents))]
    ws += ["-" if p is None else str(p) for p in parents]
    ws.append(str(len(parent_set)))
    ws += [str(d) for d in parent_set]
    ws.append(str(len(groups)))
    for k, fs in groups:
        ws += [str(k), str(len(fs))] + ["-" if d is None else str(d) for d in fs]
    return " ".join(ws)


def plan_impl(parents, parent_set, groups):
    """Call the real build_execution_plan on constructed FieldDetails / DeferUsage objects."""
    from graphql.execution.collect_fields import DeferUsage, FieldDetails
    from graphql.execution.incremental.build_execution_plan import build_execution_plan
    from graphql.language import FieldNode, NameNode
    from graphql.pyutils import RefSet

    dus = []
    for d, p in enumerate(parents):
        dus.append(DeferUsage(None, None if p is None else dus[p]))  # equal-looking tuples, distinct objects
    serial = {id(d): i for i, d in enumerate(dus)}
    gfs = {}
    for k, fs in groups:
        gfs[f"k{k}"] = [FieldDetails(FieldNode(name=NameNode(value=f"k{k}")), None if d is None else dus[d]) for d in fs]
    orig = {k: list(v) for k, v in gfs.items()}
    try:
        plan = build_execution_plan(gfs, RefSet([dus[d] for d in parent_set]) if parent_set else None)
    except Exception as e:  # noqa: BLE001
        return f"crash {type(e).__name__}", None
    out = "planned " + " ".join(k[1:] for k in plan.grouped_field_set)
    parts = [plan.grouped_field_set]
    for dset, g in plan.new_grouped_field_sets.items():
        out += " | " + " ".join(str(serial[id(d)]) for d in dset) + " => " + " ".join(k[1:] for k in g)
        parts.append(g)
    # the partition property itself, evaluated on the implementation's result
    seen = []
    intact = True
    for part in parts:
        for k, v in part.items():
            seen.append(k)
            intact = intact and (v is gfs[k]) and v == orig[k]
    prop_ok = intact and sorted(seen) == sorted(orig) and all(
        [k for k in orig if k in part] == list(part) for part in parts
    )
    return out.rstrip(), prop_ok


def _plan_work(args):
    items, drv = args
    fw.use_repo()
    rep = Report()
    driver = fw.Driver(drv) if drv else None
    lines = [plan_case_line(*it) for it in items]
    outs = driver.run(lines) if driver else [None] * len(lines)
    for it, out in zip(items, outs):
        impl, prop_ok = plan_impl(*it)
        rep.evaluations += 1
        if len(it[2]) >= 2 and any(d is not None for _, fs in it[2] for d in fs):
            rep.nontrivial += 1
        inp = {"plan": {"parents": it[0], "parent_set": it[1], "groups": it[2]}}
        if prop_ok is False or prop_ok is None:
            rep.failures.append(
                Failure("plan-partition", "build_execution_plan does not partition the grouped field set (key lost, duplicated, reordered, or list replaced)", inp, impl, "every key with its own field-details list in exactly one part, order preserved", "C04-1 plan_partition")
            )
        if out is not None and " ".join(impl.split()) != " ".join(out.split()):
            rep.disagreements.append(Disagreement("build_execution_plan", inp, impl, out))
    return rep


# ----------------------------------------------------------------------------- collect_fields correspondence


def _collect_work(args):
    texts, drv = args
    fw.use_repo()
    rep = Report()
    driver = fw.Driver(drv) if drv else None
    items = []
    for text in texts:
        try:
            its = CO.run_doc(text)
        except Exception as e:  # noqa: BLE001
            rep.failures.append(Failure("collect_fields-raises", "collect_fields raises on a generated selection set", {"collect_doc": text}, type(e).__name__, "a grouped field set", "C04-4"))
            continue
        items += [(text, it) for it in its]
        if "@defer" in text:
            rep.nontrivial += 1
    outs = driver.run([it[0] for _, it in items]) if driver else [None] * len(items)
    for (text, (line, impl, prop_ok, what)), out in zip(items, outs):
        rep.evaluations += 1
        rep.stats["collect_calls_" + what.split("[")[0]] = rep.stats.get("collect_calls_" + what.split("[")[0], 0) + 1
        if prop_ok is False:
            rep.failures.append(
                Failure("collect-defer-keys-differ", "collect_fields with live @defer yields other response keys / field nodes than with @defer removed", {"collect_doc": text}, impl, "same keys, per key the same set of field nodes", "C04-4 collect_defer_same_keys")
            )
        if out is not None and out != impl:
            rep.disagreements.append(Disagreement(what.split("[")[0], {"collect_doc": text, "call": what}, impl, out))
    return rep


# ----------------------------------------------------------------------------- corpus

CORPUS = [
    # defect found by this check (fixed by repo_patches/C04_stream_item_queue_cancelled_item_hang.diff):
    # early execution, a streamed async iterator yields an awaitable item and then raises -> the
    # payload stream never terminated
    {
        "query": "query Q { l3 @stream(initialCount: 0) }",
        "stripped": "query Q { l3 }",
        "ref0": "query Q @experimental_disableErrorPropagation { l3 }",
        "noprop": False,
        "variables": {},
        "data": {"l3": {"$aiter": [{"$async": "a"}, "b", {"$async": "c"}], "raise_at": 3}},
    },
    # defect found by this check; KNOWN FINDING (not repaired, see repo_patches/REJECTED_C04_work_queue_promoted_group.diff):
    # the object `o1.o1` is a task shared by fragment L1 (pending on a slow field) and fragment F2 (child of
    # L3); when L3 completed, F2 was pruned as empty although its completed task had not been delivered, and
    # its child N was delivered into `o1.o1` before that object existed in the client's data
    {
        "query": 'query Q { o1 { ... @defer(label: "L1") { s1 o1 { s2 } } ... @defer(label: "L3") { s3 ...F2 @defer(label: "F2") } } }\nfragment F2 on T1 { o1 { ... @defer(label: "N") { s3 } } }',
        "stripped": "query Q { o1 { ... { s1 o1 { s2 } } ... { s3 ...F2 } } }\nfragment F2 on T1 { o1 { ... { s3 } } }",
        "ref0": "query Q @experimental_disableErrorPropagation { o1 { ... { s1 o1 { s2 } } ... { s3 ...F2 } } }\nfragment F2 on T1 { o1 { ... { s3 } } }",
        "noprop": False,
        "variables": {},
        "data": {"o1": {"s1": {"$async": "slow"}, "s3": "fast", "o1": {"s2": "a", "s3": "b"}}},
    },
    # O1 shape: a task shared by an announced and a not yet announced group fails
    {
        "query": 'query Q { o1 { s1 ... @defer(label:"a") { s2 ... @defer(label:"b") { n1 } } ... @defer(label:"c") { n1 } l1 @stream(initialCount:1) { s1 } } }',
        "stripped": "query Q { o1 { s1 ... { s2 ... { n1 } } ... { n1 } l1 { s1 } } }",
        "ref0": "query Q @experimental_disableErrorPropagation { o1 { s1 ... { s2 ... { n1 } } ... { n1 } l1 { s1 } } }",
        "noprop": False,
        "variables": {},
        "data": {"o1": {"s1": "1", "n1": None, "s2": {"$async": "s"}, "l1": {"$aiter": [{"s1": "a"}, {"$gate": {"s1": {"$async": "b"}}}, {"s1": "c"}], "raise_at": None}}},
    },
    # overlapping fragments, the same fragment deferred twice, deferred and non-deferred
    {
        "query": 'query Q { o1 { ...F @defer(label:"x") ...F @defer(label:"y") o1 { s1 } } ... @defer { o1 { ...F s3 o1 { s1 s2 } } } }\nfragment F on T1 { s1 s2 o1 { s2 } }',
        "stripped": "query Q { o1 { ...F ...F o1 { s1 } } ... { o1 { ...F s3 o1 { s1 s2 } } } }\nfragment F on T1 { s1 s2 o1 { s2 } }",
        "ref0": "query Q @experimental_disableErrorPropagation { o1 { ...F ...F o1 { s1 } } ... { o1 { ...F s3 o1 { s1 s2 } } } }\nfragment F on T1 { s1 s2 o1 { s2 } }",
        "noprop": False,
        "variables": {},
        "data": {"o1": {"s1": {"$async": "a"}, "s2": "b", "s3": {"$async": "c"}, "o1": {"s1": "d", "s2": {"$async": "e"}}}},
    },
    # stream source raising after initialCount; items of a nested stream inside a deferred fragment
    {
        "query": "query Q { ... @defer { l1 @stream(initialCount: 1) { s1 l3 @stream(initialCount: 0) } } l3 @stream(initialCount: 2) }",
        "stripped": "query Q { ... { l1 { s1 l3 } } l3 }",
        "ref0": "query Q @experimental_disableErrorPropagation { ... { l1 { s1 l3 } } l3 }",
        "noprop": False,
        "variables": {},
        "data": {
            "l1": {"$aiter": [{"s1": "a", "l3": ["x", {"$async": "y"}]}, {"$gate": {"s1": "b", "l3": {"$iter": ["p", "q"], "raise_at": 1}}}], "raise_at": 2},
            "l3": {"$iter": ["1", "2", "3", "4"], "raise_at": 3},
        },
    },
]


# ----------------------------------------------------------------------------- entry points


def explore(ctx) -> Report:
    fw.use_repo()
    quick = ctx.tier == "quick"
    n_cases = 170 if quick else 3000
    cap = CAP_QUICK if quick else CAP_THOROUGH
    if ctx.escalate and quick:
        n_cases = 400
    rng = ctx.sub_rng("c04-cases")
    cases = [(i, c) for i, c in enumerate(CORPUS)]
    cases += [(len(CORPUS) + i, G.gen_case(rng)) for i in range(n_cases)]
    # dedicated stream: one field shared by deferred fragments at different nesting levels
    orng = ctx.sub_rng("c04-overlap")
    n_overlap = 40 if quick else 600
    cases += [(len(cases) + i, G.gen_overlap_case(orng)) for i in range(n_overlap)]
    drv = DRIVER if ctx.driver else None
    chunks = fw.chunked(cases, fw.WORKERS * 6)
    reps = fw.pmap(_work, [(c, cap, ctx.seed, drv) for c in chunks])
    rep = Report()
    for r in reps:
        rep.merge(r)
    # plan correspondence
    prng = ctx.sub_rng("c04-plan")
    items = [G.gen_grouped_field_set(prng) for _ in range(3000 if quick else 60000)]
    preps = fw.pmap(_plan_work, [(c, drv) for c in fw.chunked(items, fw.WORKERS)])
    plan_rep = Report()
    for r in preps:
        plan_rep.merge(r)
    # collect_fields / collect_subfields correspondence
    crng = ctx.sub_rng("c04-collect")
    texts = [CO.gen_doc(crng) for _ in range(1000 if quick else 30000)]
    creps = fw.pmap(_collect_work, [(c, drv) for c in fw.chunked(texts, fw.WORKERS)])
    for r in creps:
        rep.merge(r)
    rep.stats["collect_docs"] = len(texts)
    # executor model (IncExec) vs experimental_execute_incrementally on error-free @defer requests
    n_inc = 600 if quick else 8000
    iseed = ctx.sub_rng("c04-incexec").getrandbits(48)
    seeds = list(IX.CORPUS) + [f"incexec:{iseed}:{i}" for i in range(n_inc)]
    ireps = fw.pmap(IX.work, [(c, drv) for c in fw.chunked(seeds, fw.WORKERS * 2)])
    for r in ireps:
        rep.merge(r)
    rep.stats["incexec_cases"] = n_inc
    rep.stats["plan_cases"] = plan_rep.evaluations
    rep.stats["plan_nontrivial"] = plan_rep.nontrivial
    rep.evaluations += plan_rep.evaluations
    rep.disagreements += plan_rep.disagreements
    rep.failures += plan_rep.failures
    rep.rule = (
        f"{n_cases} generated (query, data) cases + {n_overlap} cases of the dedicated overlap stream (one field shared by a "
        "deferred fragment and a fragment nested 1-2 defers deep in a sibling fragment, independent gates) + corpus over the fixed 4-level schema (objects, lists, one interface and one union per level with sync / awaitable resolve_type and none / sync / awaitable is_type_of); each under early in {{F,T}} x "
        f"consumer in {{eager, lazy}} x all completion orders of the harness handles (DFS, cap {cap} per combination) + 2 "
        "random interleavings with random pull timing; non-trivial = the run produced an initial result with pending "
        "entries and subsequent payloads (cases answered by a single response are counted separately); plus "
        f"{plan_rep.evaluations} generated grouped field sets for build_execution_plan (non-trivial: >= 2 keys and a deferred field); plus "
        f"{len(texts)} generated documents (nested / labelled / if:false defers, @skip/@include, matching and non-matching type conditions, "
        "fragments spread several times deferred and not, missing fragments) for collect_fields and one level of collect_subfields; plus "
        f"{n_inc} generated (schema, document with @defer on inline fragments and spreads, variables, conforming synchronous data) requests of "
        "C02's generators for the executor model IncExec: initial data and the multiset of (target path, data) of the delivered pieces compared "
        "exactly (key order included) for early in {F,T}, the model's reference compared with Spec.executeRequest of the document without @defer "
        "(non-trivial: at least one piece delivered)"
    )
    return rep


def search(ctx, rep) -> Report:
    # explore() already evaluates the property oracle on every run of the implementation
    if ctx.driver is None:
        return Report(notes=["model driver unavailable: the oracle is the Lean Assemble/Spec; no search possible"])
    return Report()


def replay(ctx, payload) -> Report:
    fw.use_repo()
    inp = payload["input"]
    drv = DRIVER if ctx.driver else None
    if "collect_doc" in inp:
        return _collect_work(([inp["collect_doc"]], drv))
    if "incexec_case" in inp:
        return IX.work(([inp["incexec_case"]], drv))
    if "plan" in inp:
        p = inp["plan"]
        return _plan_work(([(p["parents"], p["parent_set"], [tuple(g) for g in p["groups"]])], drv))
    case = inp["case"]
    sched = inp["schedule"]
    rep = Report()
    prep = prepare(case)
    if prep is None:
        rep.notes.append("replay: query no longer parses/validates")
        return rep
    mode = sched["consumer"]
    payloads, info, ch = run_one(case, prep, sched["early"], mode if mode != "random" else "eager", script=sched["script"])
    rep.evaluations = 1
    inp2 = {"case": case, "schedule": {**sched, "script": ch.trace}}
    if payloads is None:
        rep.failures.append(Failure("no-termination", "payload stream does not terminate", inp2, info.get("hang"), "termination", "C04 harness"))
        return rep
    out = fw.Driver(DRIVER).run([driver_line(prep, payloads)])[0] if drv else "ok | n"
    verdict, tail, target = classify(out)
    pruned = list(info.get("pruned_undelivered") or [])
    rep.samples.append({"verdict": verdict, "payloads": payloads})
    if verdict != "ok":
        rep.failures.append(
            Failure(_fingerprint(verdict, target, pruned), f"assembled incremental response violates the {prep['mode']} clause: {verdict}", inp2, {"verdict": verdict, "assembled": G.untok(tail.split()), "payloads": payloads}, {"mode": prep["mode"], "reference_data": prep["ref"]}, "Lean Assemble.apply + Spec")
        )
    return rep
