"""C12 — validation is a deterministic, compositional function of document and schema."""
from __future__ import annotations

import collections
import json
import random
from pathlib import Path

from tools import c12_extract, c12_gen, c12_rules, fw
from tools.fw import Disagreement, Failure, Report

ID = "C12"
PROPS = "Gql.Props.C12"
DRIVER = "drv_c12"
LEVEL = "proof"
LEVEL_TEXT = (
    "Lean theorems about the validation framework (ParallelVisitor with its skipping array, TypeInfoVisitor, "
    "TypeInfo as a table-driven stack machine, on_error with the error limit, the memoised context getters), "
    "for all trees, all lists of rules and all limits: each member of a parallel run evolves exactly as alone "
    "(parallel_alone) and exactly as the rule run directly under visit() with real SKIP/BREAK (parallel_alone_single_full, "
    "parallel_alone_direct, parallel_alone_direct_sdl); errors of a rule list are a permutation of the single-rule runs "
    "(rules_union, rules_union_sdl) and are reported in traversal order, ties in rule order, every rule's own sequence a "
    "subsequence (rules_order, rules_order_full); TypeInfo stacks are restored after every sub-traversal "
    "(typeinfo_balanced; the stack/register table is regenerated from type_info.py and its balance re-proved by `decide`); "
    "validate(max_errors=n) = first n of the unlimited list + the abort notice iff there are more, for every n including 0 "
    "(limit_prefix); traversal keys contain neither loc nor — for validate() — description (generated table); context "
    "caches return what recomputation returns (memo_pure_partial, exact characterisation memo_responses). "
    "Eleven document-only concrete rules (LoneAnonymousOperation, UniqueOperationNames, UniqueFragmentNames, UniqueVariableNames, "
    "UniqueArgumentNames, UniqueInputFieldNames, KnownFragmentNames, NoUnusedFragments, NoFragmentCycles, NoUndefinedVariables, "
    "NoUnusedVariables) and the context getters they call are modelled as values of the framework's rule type "
    "(Gql/Validation/Rules.lean): never BREAK / never edit (modelled_rules_never_edit), every framework theorem instantiated for any "
    "list of them (modelled_rules_compositional), and 'reports nothing iff a declarative predicate holds' for KnownFragmentNames, "
    "UniqueArgumentNames, UniqueVariableNames, LoneAnonymousOperation, UniqueOperationNames, UniqueFragmentNames (…_iff_spec; the last three have "
    "private state, the last two answer SKIP), NoUnusedFragments (noUnusedFragments_iff_spec: every fragment definition is reachable from "
    "some operation in the spread graph), NoUndefinedVariables (noUndefinedVariables_iff_spec: every variable used in an operation or in a "
    "fragment it reaches is defined by the operation), UniqueInputFieldNames (uniqueInputFieldNames_iff_spec: per object value, the stack of "
    "known-name maps never underflows) and NoUnusedVariables (noUnusedVariables_iff_spec, fully declarative; the getter form "
    "…_iff_spec_partial is kept) — ten of the eleven modelled rules, NoFragmentCycles has termination only; the context getters are characterised: get_fragment_spreads = the spreads of the selection set "
    "(fragment_spreads_iff_spec), get_recursively_referenced_fragments = reachability in the spread graph (rec_frags_iff_reachable); "
    "all three fuelled loops terminate within the model's fuel (fragment_spreads_terminates_partial, rec_frags_terminates, "
    "detect_cycle_terminates: the `<fuel>` marker is never reported). "
    "For ALL concrete rule classes (every class in validation/rules, every rule of specified_rules / specified_sdl_rules) the "
    "non-editing half of the framework's hypothesis is a regenerated proof obligation: a table of everything each enter*/leave* method "
    "can return (Python ast, following `return self.helper(...)`) is rewritten from the source on every run and the kernel decides that "
    "no entry is a node or REMOVE (rules_never_edit). "
    "The other ~30 concrete rules are otherwise tied by evaluating the property's relations directly on the implementation, including "
    "history independence (other documents that define the names this document uses are validated against the same schema object in between)."
)
LEVEL_NOTE = (
    "Compositionality is proved for the framework; that each concrete rule is a deterministic non-editing visitor "
    "reading only document, schema, TypeInfo and the context getters is an assumption *checked* on generated "
    "documents x rule subsets/orderings (incl. the empty set) x limits (incl. 0): union, per-rule call sequences alone / in parallel / "
    "directly under visit(), reprint/ignored/description invariance, determinism, no mutation, prefix law. visit() itself is "
    "C11's model; here it only provides the enter/leave sequence."
)
TECHNIQUE = "Lean 4 proofs over an executable model + generated tables (T1) + differential correspondence + metamorphic oracles on the implementation"
TRUSTED = [
    "hand-written Lean model Gql/Validation/Framework.lean (ParallelVisitor, TypeInfoVisitor, TypeInfo, validate) "
    "and Gql/Validation/Context.lean (context caches); tied to the code by scripted-rule correspondence runs "
    "(call sequences, TypeInfo stack depths, reported errors, abort) on the generated documents",
    "tools/c12_extract.py (Python ast) for QUERY_DOCUMENT_KEYS, rule lists, TypeInfo push/pop table, max_errors default; tools/c12_rules_static.py (Python ast) for the return-value table of every rule class",
    "hand-written Lean model Gql/Validation/Rules.lean of eleven document-only rules and of the context getters; tied to the code by running "
    "each rule ALONE (and all together, random sub-lists, reversed order, with limits) through the real validate() on generated documents and "
    "comparing, in order, the name quoted in each error and the identities of error.nodes (tools/c12_rules.py)",
    "the other concrete rules are not modelled: they enter through the checked assumption above",
]
ASSUMPTIONS = [
    "each concrete rule that is NOT modelled (about 30 of 41) is a deterministic visitor that reads only the document, the schema, the TypeInfo and the context getters (checked by oracles i-v and the history-independence re-run on every generated case); that none of them edits is decided on the regenerated return-value table (rules_never_edit), up to the precision of the syntactic analysis (returns of enter*/leave* methods, helpers followed two levels)",
    "the enter/leave sequence of visit() is the depth-first one with SKIP/BREAK as documented (C11)",
    "ValidationAbortedError unwinding is modelled as an immediate stop; the TypeInfo it leaves unbalanced is local to validate()",
    "rule sets range over subsets/orderings of specified_rules (resp. specified_sdl_rules); custom rules calling get_variable_usages(operation) can observe the list-extension aliasing (memo_pure_full is refuted in Lean, not a stated-clause violation)",
]
EXPLANATION = (
    "Modelled rules: modelled_rules_never_edit, modelled_rules_compositional, knownFragmentNames_iff_spec, uniqueArgumentNames_iff_spec, "
    "uniqueVariableNames_iff_spec, loneAnonymousOperation_iff_spec, uniqueOperationNames_iff_spec, uniqueFragmentNames_iff_spec, "
    "noUnusedVariables_iff_spec_partial, noUnusedVariables_iff_spec, noUnusedFragments_iff_spec, noUndefinedVariables_iff_spec, "
    "uniqueInputFieldNames_iff_spec, fragment_spreads_iff_spec, "
    "rec_frags_iff_reachable, fragment_spreads_terminates_partial, rec_frags_terminates, detect_cycle_terminates, "
    "noFragmentCycles_no_fuel_marker; correspondence: each modelled rule alone "
    "through the real validate() vs the model on documents aimed at them (duplicate names, undefined / unused fragments and variables, self-, mutual and "
    "long spread cycles reached from several roots, duplicate fragment definitions, fragment variables) and on all other executable documents of the run. "
    "Theorems: parallel_members, parallel_alone, parallel_alone_single_full, parallel_alone_direct(_sdl), rules_union(_sdl), rules_order, "
    "rules_order_full, rules_order_partial, typeinfo_balanced (+ tiTable_balanced / tiTable_regsReset on the generated table, "
    "typeinfo_restored_nested), limit_prefix, limit_length, loc_blind_* (generated tables), memo_responses, memo_pure_partial, "
    "memo_pure_full_false. Oracles on the implementation: union of single-rule runs (the empty rule set reports nothing), "
    "per-rule call sequence alone = in parallel = directly under visit(doc, TypeInfoVisitor(TypeInfo, rule)), message invariance under reprint / ignored characters / descriptions, "
    "determinism and no mutation, prefix law for max_errors. Correspondence: scripted rules through the real "
    "validate()/validate_sdl()/visit() vs the compiled model."
)

BIG = 10**9
LIMITS = [None, 0, 1, 2, 5, 100]

# --------------------------------------------------------------------------------------------------
# T1


def extract(repo, lean):
    from tools import c12_rules_static

    return c12_extract.extract(repo, lean) + c12_rules_static.extract(repo, lean)


# --------------------------------------------------------------------------------------------------
# per-process caches

_CACHE = {}


def _env():
    if "env" in _CACHE:
        return _CACHE["env"]
    fw.use_repo()
    import graphql
    from graphql import build_schema, print_schema
    from graphql.validation import specified_rules
    from graphql.validation.specified_rules import specified_sdl_rules

    schemas = [build_schema(s) for s in c12_gen.SCHEMAS]
    env = {
        "graphql": graphql,
        "schemas": schemas,
        "printed": [print_schema(s) for s in schemas],
        "rules": {r.__name__: r for r in specified_rules},
        "sdl_rules": {r.__name__: r for r in specified_sdl_rules},
        "rule_order": [r.__name__ for r in specified_rules],
        "sdl_rule_order": [r.__name__ for r in specified_sdl_rules],
        "facts": c12_extract.validate_facts(fw.REPO),
        "ti_stacks": c12_extract.type_info_table(fw.REPO)[1],
        "proxies": {},
    }
    _CACHE["env"] = env
    return env


# --------------------------------------------------------------------------------------------------
# helpers on ASTs


def _walk(node, fn):
    """Preorder over every Node reachable through dataclass fields (not through the traversal keys)."""
    from dataclasses import fields

    from graphql.language.ast import Node

    stack = [node]
    while stack:
        n = stack.pop()
        fn(n)
        kids = []
        for f in fields(n):
            if f.name == "loc":
                continue
            v = getattr(n, f.name)
            if isinstance(v, Node):
                kids.append(v)
            elif isinstance(v, (tuple, list)):
                kids += [x for x in v if isinstance(x, Node)]
        stack.extend(reversed(kids))


def _index(doc):
    idx = {}
    _walk(doc, lambda n: idx.setdefault(id(n), len(idx)))
    return idx


def _snapshot(doc):
    """Structure + scalar fields + locations of a document (for the "unmodified" check)."""
    from dataclasses import fields

    out = []

    def one(n):
        row = [type(n).__name__, (n.loc.start, n.loc.end) if n.loc else None]
        for f in fields(n):
            if f.name == "loc":
                continue
            v = getattr(n, f.name)
            if v is None or isinstance(v, (str, bool, int)):
                row.append((f.name, v))
            elif isinstance(v, (tuple, list)):
                row.append((f.name, len(v), tuple(id(x) for x in v)))
            else:
                row.append((f.name, id(v) if hasattr(v, "kind") else repr(v)))
        out.append(tuple(row))

    _walk(doc, one)
    return out


def _tree_words(doc, keys):
    """`( kind child* )` along the traversal keys `keys` (what visit() descends into), ids in preorder."""
    from graphql.language.ast import Node

    words = []
    order = {}

    def go(n):
        order[id(n)] = len(order)
        words.append("(")
        words.append(n.kind)
        for k in keys.get(n.kind, ()):
            v = getattr(n, k, None)
            if v is None:
                continue
            if isinstance(v, tuple):
                for x in v:
                    if isinstance(x, Node):
                        go(x)
            elif isinstance(v, Node):
                go(v)
        words.append(")")

    go(doc)
    return words, order


def _canon(errs):
    from graphql.validation.validate import ValidationAbortedError

    out = []
    for e in errs:
        if isinstance(e, ValidationAbortedError):
            out.append(("<ABORT>", ()))
        else:
            out.append((e.message, tuple((l.line, l.column) for l in (e.locations or ()))))
    return out


def _validate(schema, doc, rules, max_errors):
    from graphql import validate

    try:
        return _canon(validate(schema, doc, rules, max_errors))
    except Exception as e:  # noqa: BLE001
        return [("<CRASH>", (type(e).__name__,))]


def _validate_sdl(doc, schema, rules):
    from graphql.validation.validate import validate_sdl

    try:
        return _canon(validate_sdl(doc, schema, rules))
    except Exception as e:  # noqa: BLE001
        return [("<CRASH>", (type(e).__name__,))]


def _crashed(res):
    return bool(res) and res[-1][0] == "<CRASH>"


# --------------------------------------------------------------------------------------------------
# recording proxies (oracle ii)


def _proxy(rule_cls):
    """Dynamic subclass that logs every enter_*/leave_* call it receives (phase, node identity, key, path)."""
    env = _env()
    if rule_cls in env["proxies"]:
        return env["proxies"][rule_cls]
    from graphql.language.visitor import EnterLeaveVisitor

    class Rec(rule_cls):  # type: ignore[misc, valid-type]
        c12_sink: list = []
        c12_index: dict = {}

        def __init__(self, context):
            super().__init__(context)
            self._c12_log = []
            type(self).c12_sink.append(self._c12_log)
            self._c12_wrapped = {}

        def get_enter_leave_for_kind(self, kind):
            w = self._c12_wrapped.get(kind)
            if w is not None:
                return w
            el = super().get_enter_leave_for_kind(kind)
            log, index = self._c12_log, type(self).c12_index

            def wrap(fn, phase):
                if fn is None:
                    return None

                def rec(node, key, parent, path, ancestors):
                    log.append((phase, index.get(id(node), -1), key if isinstance(key, (int, str)) else None, tuple(path)))
                    return fn(node, key, parent, path, ancestors)

                return rec

            w = EnterLeaveVisitor(wrap(el.enter, "enter"), wrap(el.leave, "leave"))
            self._c12_wrapped[kind] = w
            return w

    Rec.__name__ = rule_cls.__name__
    Rec.__qualname__ = rule_cls.__qualname__
    env["proxies"][rule_cls] = Rec
    return Rec


def _direct_run(rule_cls, doc, schema, sdl, index):
    """The rule as the visitor of visit() itself (validate()'s context, TypeInfoVisitor and key map, no ParallelVisitor)."""
    import importlib

    from graphql.language import visit
    from graphql.utilities import TypeInfo, TypeInfoVisitor
    from graphql.validation import SDLValidationContext, ValidationContext

    env = _env()
    P = _proxy(rule_cls)
    P.c12_sink = []
    P.c12_index = index
    errors = []
    try:
        if sdl:
            visit(doc, P(SDLValidationContext(doc, schema, errors.append)))
        else:
            V = importlib.import_module("graphql.validation.validate")
            keys = getattr(V, "query_document_keys_to_validate", None) if env["facts"]["validate_keys"] != "<default>" else None
            ti = TypeInfo(schema)
            visit(doc, TypeInfoVisitor(ti, P(ValidationContext(schema, doc, ti, errors.append))), keys)
        res = _canon(errors)
    except Exception as e:  # noqa: BLE001
        res = [("<CRASH>", (type(e).__name__,))]
    log = [tuple(l) for l in P.c12_sink[0]] if len(P.c12_sink) == 1 else ("<instances>", len(P.c12_sink))
    P.c12_sink = []
    P.c12_index = {}
    return res, log


def _proxy_run(run, rule_classes, index):
    """run(list of proxy classes) -> (result, {rule name: call log})."""
    proxies = [_proxy(r) for r in rule_classes]
    for p in proxies:
        p.c12_sink = []
        p.c12_index = index
    res = run(proxies)
    logs = {}
    for p in proxies:
        logs[p.__name__] = [tuple(l) for l in p.c12_sink[0]] if len(p.c12_sink) == 1 else ("<instances>", len(p.c12_sink))
        p.c12_sink = []
        p.c12_index = {}
    return res, logs


# --------------------------------------------------------------------------------------------------
# metamorphic rewrites (oracle iii)

_SEPS = [" ", "\n", ",", " , ", "\t", "\n# c\n", "  ", "﻿ ", "\r\n", " #x\n,"]


def _ignored_rewrite(doc, rng):
    from graphql.language import TokenKind

    src = doc.loc.source.body
    tok = doc.loc.start_token
    pieces = []
    prev_end = None
    out = [rng.choice(["", " ", "# lead\n", "\n\n"])]
    while tok is not None:
        if tok.kind not in (TokenKind.SOF, TokenKind.EOF, TokenKind.COMMENT):
            text = src[tok.start : tok.end]
            if prev_end is not None:
                if prev_end == tok.start and rng.random() < 0.6:
                    sep = ""
                else:
                    sep = rng.choice(_SEPS)
                    if rng.random() < 0.2:
                        sep += rng.choice(_SEPS)
                out.append(sep)
            out.append(text)
            prev_end = tok.end
            pieces.append(text)
        tok = tok.next
    out.append(rng.choice(["", "\n", " # tail", ",,"]))
    return "".join(out)


def _add_descriptions(doc, rng):
    src = doc.loc.source.body
    spots = []

    def one(n):
        if hasattr(n, "description") and n.description is None and n.loc is not None:
            if n.kind == "operation_definition" and src[n.loc.start] == "{":
                return  # shorthand query: the grammar allows no description
            if rng.random() < 0.8:
                spots.append(n.loc.start)

    _walk(doc, one)
    out = src
    for k, pos in enumerate(sorted(set(spots), reverse=True)):
        d = rng.choice(['"described %d" ' % k, '"""\n  block %d\n""" ' % k, '"" '])
        out = out[:pos] + d + out[pos:]
    return out, len(spots)


def _messages(res):
    return sorted(m for m, _ in res)


# --------------------------------------------------------------------------------------------------
# scripted rules (correspondence with the Lean model)


def _mix(seed, ridx, phase, nid):
    return ((seed * 1000003 + ridx * 8191 + phase * 131 + nid * 7919 + 12345) * 2654435761) % 4294967296


def _handles(spec, ridx, phase, kind):
    h = spec[3]
    if h == 0:
        return True
    if h == 1:
        return phase == 0
    if h == 2:
        return phase == 1
    return (len(kind) + ridx) % 2 == 0 if phase == 0 else (len(kind) + ridx) % 3 != 0


def _all_kinds():
    if "kinds" not in _CACHE:
        from graphql.language import ast as A

        ks = set()
        for v in vars(A).values():
            if isinstance(v, type) and issubclass(v, A.Node) and v is not A.Node:
                ks.add(v.kind)
        _CACHE["kinds"] = sorted(ks)
    return _CACHE["kinds"]


def _scripted_class(spec, ridx, shared):
    """A rule class whose decisions are the arithmetic table of Driver/C12.lean."""
    from graphql import GraphQLError
    from graphql.language.visitor import BREAK, SKIP
    from graphql.utilities import TypeInfo
    from graphql.validation.rules import ASTValidationRule

    seed, p_skip, p_break, hmode, nested = spec

    def make(phase):
        def handler(self, node, *_args):
            nid = shared["order"].get(id(node), -1)
            ctx = self.context
            if nested and phase == 1 and node.kind in ("operation_definition", "fragment_definition") and hasattr(ctx, "get_variable_usages"):
                ctx.get_variable_usages(node)
            ti = shared.get("ti")
            if ti is None and shared["want_ti"]:
                for v in vars(ctx).values():
                    if isinstance(v, TypeInfo):
                        ti = shared["ti"] = v
            depths = [len(getattr(ti, n)) for n in shared["stacks"]] if ti is not None else None
            shared["logs"][ridx].append((ridx, phase, nid, depths))
            x = _mix(seed, ridx, phase, nid)
            d = (x // 65536) % 100
            n = (x // 7) % 3 if (x // 11) % 4 == 0 else 0
            for j in range(n):
                self.report_error(GraphQLError(f"{ridx}.{phase}.{nid}.{j}"))
            if d < p_skip:
                return SKIP
            if d < p_skip + p_break:
                shared["broke"] = True
                return BREAK
            return None

        return handler

    ns = {}
    if hmode == 0:
        ns["enter"], ns["leave"] = make(0), make(1)
    elif hmode == 1:
        ns["enter"] = make(0)
    elif hmode == 2:
        ns["leave"] = make(1)
    else:
        for k in _all_kinds():
            if _handles(spec, ridx, 0, k):
                ns["enter_" + k] = make(0)
            if _handles(spec, ridx, 1, k):
                ns["leave_" + k] = make(1)
    return type(f"Scripted{ridx}", (ASTValidationRule,), ns)


def _fmt_out(logs, errs, aborted, final, stop, with_ti):
    calls = []
    for lg in logs:
        for r, p, nid, depths in lg:
            calls.append(f"{r}.{p}.{nid}" + ("." + ".".join(map(str, depths)) if with_ti and depths is not None else ""))
    e = " ".join(errs) + (" A" if aborted else "")
    return "calls " + " ".join(calls) + "|errs " + e + "|final " + (final if final else "-") + "|stop " + ("1" if stop else "0")


def _scripted_case(doc, schema, mode, max_errors, specs):
    """(driver line, implementation output line)."""
    env = _env()
    from graphql.language import visit
    from graphql.language.ast import QUERY_DOCUMENT_KEYS
    from graphql.utilities import TypeInfo, TypeInfoVisitor
    import importlib

    V = importlib.import_module("graphql.validation.validate")

    if mode == "ti":
        keys = getattr(V, "query_document_keys_to_validate", None) if env["facts"]["validate_keys"] != "<default>" else None
        keys = keys or QUERY_DOCUMENT_KEYS
    else:
        keys = QUERY_DOCUMENT_KEYS
    words, order = _tree_words(doc, keys)
    shared = {"order": order, "logs": [[] for _ in specs], "stacks": env["ti_stacks"], "want_ti": mode == "ti", "broke": False}
    classes = [_scripted_class(sp, i, shared) for i, sp in enumerate(specs)]
    line = f"{mode} {'inf' if max_errors is None else max_errors} " + " ".join(words) + " | " + " ".join(" ".join(map(str, sp)) for sp in specs)
    final = None
    aborted = False
    try:
        if mode == "ti":
            res = _canon(V.validate(schema, doc, classes, BIG if max_errors is None else max_errors))
            aborted = bool(res) and res[-1][0] == "<ABORT>"
            errs = [m for m, _ in res if m != "<ABORT>"]
            ti = shared.get("ti")
            if ti is not None and not aborted:
                final = ".".join(str(len(getattr(ti, n))) for n in shared["stacks"])
            elif not aborted:
                final = ".".join("0" for _ in shared["stacks"])  # no handler ran: TypeInfo not observed
            out = _fmt_out(shared["logs"], errs, aborted, final, aborted, True)
        elif mode == "plain":
            res = _canon(V.validate_sdl(doc, None, classes))
            out = _fmt_out(shared["logs"], [m for m, _ in res], False, None, False, False)
        else:
            errs = []

            class Ctx:
                def report_error(self, e):
                    errs.append(e.message)

            inst = classes[0](Ctx())
            if mode == "tisingle":
                ti = TypeInfo(schema)
                shared["ti"] = ti
                visit(doc, TypeInfoVisitor(ti, inst))
                final = ".".join(str(len(getattr(ti, n))) for n in shared["stacks"])
                out = _fmt_out(shared["logs"][:1], errs, False, final, shared["broke"], True)
            else:
                visit(doc, inst)
                out = _fmt_out(shared["logs"][:1], errs, False, None, shared["broke"], False)
        out += "|wn 1"  # the tree of a parsed document satisfies the hypotheses of parallel_alone_direct
    except Exception as e:  # noqa: BLE001
        out = f"crash {type(e).__name__}: {e}"
    return line, out


# --------------------------------------------------------------------------------------------------
# one case


def _parse(text, case, **kw):
    from graphql import parse

    return parse(text, experimental_fragment_arguments=bool(case.get("frag_args")), **kw)


def _fail(rep, fp, what, case, observed, expected, source):
    rep.failures.append(Failure(fp, what, case, observed, expected, source))


def _check_case(case, rep, corr):
    env = _env()
    from graphql import print_ast, print_schema

    rng = random.Random(f"c12case:{case['seed']}")
    sdl = case["family"] == "sdl"
    schema = env["schemas"][case["schema"]] if case["schema"] is not None else None
    try:
        doc = _parse(case["text"], case)
    except Exception as e:  # noqa: BLE001 - the quantifier is over parseable documents
        rep.stats["unparseable"] = rep.stats.get("unparseable", 0) + 1
        rep.notes.append(f"generator produced an unparseable document: {type(e).__name__} {str(e)[:80]}") if len(rep.notes) < 3 else None
        return
    rulemap = env["sdl_rules"] if sdl else env["rules"]
    all_rules = env["sdl_rule_order"] if sdl else env["rule_order"]
    configs = [[r for r in cfg if r in rulemap] for cfg in case["configs"]]
    index = _index(doc)
    snap_before = _snapshot(doc)

    if sdl:
        def run(classes, max_errors=None):
            return _validate_sdl(doc, schema, classes)
    else:
        def run(classes, max_errors=BIG):
            return _validate(schema, doc, classes, max_errors)

    used = sorted({r for cfg in configs for r in cfg}, key=all_rules.index)
    # single-rule runs: through the recording subclass (gives the result and the call log at once); every
    # fourth rule also through the plain class, which must give the same answer
    single = {}
    single_logs = {}
    for k, r in enumerate(used):
        res, logs = _proxy_run(lambda ps: run(ps), [rulemap[r]], index)
        single[r] = res
        single_logs[r] = logs[r]
        if (k + len(case["text"])) % 4 == 0:
            again = run([rulemap[r]])
            rep.evaluations += 1
            if again != res:
                _fail(rep, "nondeterministic-single-rule", "a single-rule run gives two different answers", {**case, "configs": [[r]]}, again[:4], res[:4], "C12 (iv) twice the same answer")
    # (ii, direct form) the rule DIRECTLY under visit(doc, TypeInfoVisitor(TypeInfo(schema), rule)) — no
    # ParallelVisitor, SKIP/BREAK answered to visit() itself — sees the same calls and reports the same errors
    for r in used:
        if _crashed(single[r]):
            continue
        dres, dlog = _direct_run(rulemap[r], doc, schema, sdl, index)
        rep.evaluations += 1
        sub = {**case, "configs": [[r]]}
        if _crashed(dres):
            _fail(rep, "direct-run-raises", "a rule run directly under visit() raises although validate([rule]) does not", sub, dres[-1], "no exception", "C12 parallel_alone_single")
        elif dlog != single_logs[r]:
            a, b = dlog, single_logs[r]
            k = next((i for i, (x, y) in enumerate(zip(a, b)) if x != y), min(len(a), len(b)))
            _fail(rep, "direct-call-sequence-differs", "a rule sees a different enter/leave sequence directly under visit() than inside ParallelVisitor", sub,
                  {"first_difference_at": k, "direct": a[k : k + 2] if isinstance(a, list) else a, "in_parallel_visitor": b[k : k + 2] if isinstance(b, list) else b, "lengths": [len(a), len(b)]}, "identical sequences", "C12 parallel_alone_single")
        elif dres != single[r]:
            _fail(rep, "direct-errors-differ", "a rule reports different errors directly under visit() than inside ParallelVisitor", sub, dres[:4], single[r][:4], "C12 parallel_alone_single")
    any_crash = any(_crashed(v) for v in single.values())
    rep.stats["single_rule_crashes"] = rep.stats.get("single_rule_crashes", 0) + sum(1 for v in single.values() if _crashed(v))
    full_all = None
    nerr_max = 0
    for ci, cfg in enumerate(configs):
        classes = [rulemap[r] for r in cfg]
        full = run(classes)
        rep.evaluations += 1
        nerr_max = max(nerr_max, len(full))
        if ci == 0:
            full_all = full
        sub = {**case, "configs": [cfg]}
        # (i) union of the single-rule runs, as a multiset of (message, locations)
        if _crashed(full) or any(_crashed(single[r]) for r in cfg):
            if _crashed(full) and not any(_crashed(single[r]) for r in cfg):
                _fail(rep, "union-full-run-raises", "validate raises with the rule set but with none of its rules alone", sub, full[-1], "no exception", "C12 rules_union")
        else:
            want = collections.Counter()
            for r in cfg:
                want.update(single[r])
            got = collections.Counter(full)
            if got != want:
                extra = sorted((got - want).elements())[:5]
                missing = sorted((want - got).elements())[:5]
                _fail(rep, "union-differs" if cfg else "union-empty-rule-set", "errors of the rule set are not the union of the single-rule runs", sub, {"only_in_full_run": extra, "only_in_single_runs": missing}, "equal multisets", "C12 rules_union")
        # (ii) per-rule call sequences
        res2, logs = _proxy_run(lambda ps: run(ps), classes, index)
        for r in cfg:
            if logs[r] != single_logs[r] and not _crashed(full):
                a, b = logs[r], single_logs[r]
                k = next((i for i, (x, y) in enumerate(zip(a, b)) if x != y), min(len(a), len(b)))
                _fail(rep, "call-sequence-differs", "a rule sees a different enter/leave sequence inside the parallel run than alone", {**sub, "rule": r},
                      {"first_difference_at": k, "parallel": a[k : k + 2] if isinstance(a, list) else a, "alone": b[k : k + 2] if isinstance(b, list) else b, "lengths": [len(a), len(b)]}, "identical sequences", "C12 parallel_alone")
                break
        # (iv) twice the same answer
        if res2 != full:
            _fail(rep, "nondeterministic", "validating twice gives different answers", sub, res2[:6], full[:6], "C12 (iv)")
        # (v) prefix law
        if not sdl and not _crashed(full) and (ci < 2 or len(full) > 1 and ci < 5):
            for n in case["limits"]:
                lim = run(classes, n)
                n_eff = n if n is not None else int(env["facts"]["max_errors_default"] or 100)
                rep.evaluations += 1
                if len(full) <= n_eff:
                    ok = lim == full
                    want_txt = "the unlimited list"
                else:
                    ok = len(lim) == n_eff + 1 and lim[:n_eff] == full[:n_eff] and lim[-1][0] == "<ABORT>"
                    want_txt = f"first {n_eff} of the unlimited list + abort notice"
                    rep.stats["limit_hit"] = rep.stats.get("limit_hit", 0) + 1
                if not ok:
                    _fail(rep, "limit-prefix" if n != 0 else "limit-prefix-zero", "max_errors result is not the prefix of the unlimited list (+ one abort notice iff more)", {**sub, "limits": [n]},
                          {"len": len(lim), "tail": lim[-2:], "unlimited_len": len(full)}, want_txt, "C12 limit_prefix")
    # (iii) messages are invariant under reprint / ignored characters / descriptions
    if full_all is not None and not _crashed(full_all):
        base = _messages(full_all)
        cfg0 = [rulemap[r] for r in configs[0]]
        variants = []
        try:
            variants.append(("reprint", print_ast(doc)))
        except Exception as e:  # noqa: BLE001
            rep.stats["print_ast_raises"] = rep.stats.get("print_ast_raises", 0) + 1
        variants.append(("ignored", _ignored_rewrite(doc, rng)))
        variants.append(("ignored", _ignored_rewrite(doc, rng)))
        dtext, nspots = _add_descriptions(doc, rng)
        if nspots:
            variants.append(("descriptions", dtext))
        for kind, text in variants:
            try:
                d2 = _parse(text, case)
            except Exception as e:  # noqa: BLE001
                rep.stats[f"variant_unparseable_{kind}"] = rep.stats.get(f"variant_unparseable_{kind}", 0) + 1
                continue
            r2 = _validate_sdl(d2, schema, cfg0) if sdl else _validate(schema, d2, cfg0, BIG)
            rep.evaluations += 1
            rep.stats[f"variant_{kind}"] = rep.stats.get(f"variant_{kind}", 0) + 1
            if _messages(r2) != base:
                a, b = collections.Counter(_messages(r2)), collections.Counter(base)
                _fail(rep, f"messages-change-{kind}", f"reported messages change under {kind}", {**case, "configs": [configs[0]], "variant_text": text},
                      {"only_in_variant": sorted((a - b).elements())[:4], "only_in_original": sorted((b - a).elements())[:4]}, "same messages", "C12 loc_blind")
    # (iv-b) history independence: validating OTHER documents against the same schema object in between does not change
    # the answer.  The interleaved documents are built from this one: they define (as directive / type / fragment
    # definitions) exactly the names this document uses, so anything a rule remembers per schema about names it has seen
    # would show on the re-run.
    if not sdl and schema is not None and full_all is not None and not _crashed(full_all):
        import re as _re

        dnames = list(dict.fromkeys(_re.findall(r"@([_A-Za-z][_0-9A-Za-z]*)", case["text"])))[:6] + ["flag"]
        tnames = list(dict.fromkeys(_re.findall(r"\bon\s+([_A-Za-z][_0-9A-Za-z]*)", case["text"])))[:4] + ["Zed"]
        fnames = list(dict.fromkeys(_re.findall(r"\.\.\.\s*([_A-Za-z][_0-9A-Za-z]*)", case["text"])))[:4]
        locs = "QUERY | MUTATION | SUBSCRIPTION | FIELD | FRAGMENT_DEFINITION | FRAGMENT_SPREAD | INLINE_FRAGMENT | VARIABLE_DEFINITION"
        others = [
            "".join(f"directive @{n}(a: Int, if: Boolean) repeatable on {locs}\n" for n in dnames) + case["text"],
            "".join(f"type {n} {{ a: Int }}\n" for n in tnames if n != "on") + "".join(f"fragment {n} on Query {{ __typename }}\n" for n in fnames if n != "on") + "{ __typename }",
        ]
        cfg0 = [rulemap[r] for r in configs[0]]
        for text in others:
            try:
                _validate(schema, _parse(text, case), cfg0, BIG)
            except Exception:  # noqa: BLE001 - an unparseable interleaved text is simply skipped
                continue
        again = _validate(schema, doc, cfg0, BIG)
        rep.evaluations += 1
        rep.stats["history_reruns"] = rep.stats.get("history_reruns", 0) + 1
        if again != full_all:
            a, b = collections.Counter(again), collections.Counter(full_all)
            _fail(rep, "history-dependent", "validating other documents against the same schema in between changes the answer", {**case, "configs": [configs[0]], "interleaved": others},
                  {"only_after": sorted((a - b).elements())[:4], "only_before": sorted((b - a).elements())[:4]}, "the same errors", "C12 (iv) deterministic function of document and schema")
    # (iv) nothing was modified
    if _snapshot(doc) != snap_before:
        _fail(rep, "document-modified", "validation modified the document", case, "snapshot differs", "unchanged", "C12 (iv)")
    if schema is not None and print_schema(schema) != env["printed"][case["schema"]]:
        _fail(rep, "schema-modified", "validation modified the schema", case, "print_schema differs", "unchanged", "C12 (iv)")
        env["printed"][case["schema"]] = print_schema(schema)

    # statistics
    rep.stats["documents"] = rep.stats.get("documents", 0) + 1
    rep.stats[f"family_{case['family']}_{case.get('flavour', '')}"] = rep.stats.get(f"family_{case['family']}_{case.get('flavour', '')}", 0) + 1
    rep.stats["nodes_total"] = rep.stats.get("nodes_total", 0) + len(index)
    nerr = len(full_all or [])
    bucket = "errors_0" if nerr == 0 else "errors_1_5" if nerr <= 5 else "errors_6_50" if nerr <= 50 else "errors_gt50"
    rep.stats[bucket] = rep.stats.get(bucket, 0) + 1
    if nerr:
        rep.nontrivial += 1
    for m, _ in (full_all or [])[:40]:
        key = "msg:" + "".join(ch for ch in m.split("'")[0][:28])
        corr["msgkinds"].add(key)
    skipping = sum(1 for r in used if isinstance(single_logs[r], list) and len(single_logs[r]) < 2 * len(index) and r in ("ExecutableDefinitionsRule", "NoFragmentCyclesRule", "NoUnusedFragmentsRule", "UniqueOperationNamesRule"))
    rep.stats["rules_that_skip"] = rep.stats.get("rules_that_skip", 0) + skipping
    if len(rep.samples) < 3:
        rep.samples.append({"family": case["family"], "schema": case["schema"], "text": case["text"][:300], "errors": (full_all or [])[:3], "rule_configs": len(configs)})

    # correspondence with the Lean model: scripted rules through the real framework
    if corr.get("driver") and not sdl:
        _rules_lines({**case, "rule_limits": [None]}, doc, schema, rep, corr)
    if corr.get("driver"):
        nsc = case.get("scripted", 2)
        for _ in range(nsc):
            k = rng.randint(1, 4)
            specs = [(rng.randint(0, 10**6), rng.choice([0, 5, 15, 40]), rng.choice([0, 0, 1, 5]), rng.choice([0, 0, 1, 2, 3, 3]), rng.choice([0, 1])) for _ in range(k)]
            if sdl:
                mode, mx = "plain", None
            else:
                mode = rng.choice(["ti", "ti", "ti", "tisingle", "psingle"])
                if mode == "ti" and rng.random() < 0.08:
                    specs = []  # the empty rule list
                mx = rng.choice([None, None, 0, 1, 2, 5, 20]) if mode == "ti" else None
                if mode != "ti":
                    # SKIP answered to visit() on the *root* is C11's finding F5 (IndexError); not this property's subject
                    while (_mix(specs[0][0], 0, 0, 0) // 65536) % 100 < specs[0][1]:
                        specs[0] = (specs[0][0] + 1, *specs[0][1:])
            line, out = _scripted_case(doc, schema, mode, mx, specs)
            corr["lines"].append(line)
            corr["meta"].append(({**case, "scripted_mode": mode, "scripted_max": mx, "scripted_specs": specs}, out))


# --------------------------------------------------------------------------------------------------
# the modelled concrete rules (lean/Gql/Validation/Rules.lean): each ALONE through the real validate() vs the model


def _rules_lines(case, doc, schema, rep, corr, count=True):
    """One driver line per limit: every modelled rule alone (+ all of them together, + optional extra groups)
    through the real validate(); observables: reporting rule (by message kind), quoted name, identities of
    error.nodes in order, the abort notice."""
    env = _env()
    from graphql.validation.validate import query_document_keys_to_validate as keys

    words, order = c12_rules.atree_words(doc, keys)
    tree = " ".join(words)
    rulemap = env["rules"]
    modelled = [r for r in c12_rules.MODELLED if r in rulemap]
    groups = [[r] for r in modelled] + [modelled] + [g for g in case.get("extra_groups", []) if all(r in rulemap for r in g)]
    for mx in case.get("rule_limits", [None]):
        gs = groups if mx is None else groups[len(modelled):]
        hit = set()
        impl = " || ".join(c12_rules.impl_run(schema, doc, [rulemap[r] for r in g], BIG if mx is None else mx, order, hit if len(g) == 1 else None) for g in gs)
        line = f"rules {'inf' if mx is None else mx} " + "+".join(",".join(g) if g else "0" for g in gs) + " " + tree
        corr["lines"].append(line)
        corr["meta"].append(({**case, "rule_groups": gs, "rule_max": mx}, impl))
        if count and mx is None:
            for r in hit:
                rep.stats["modelled_errs_" + r] = rep.stats.get("modelled_errs_" + r, 0) + 1
            rep.stats["modelled_docs"] = rep.stats.get("modelled_docs", 0) + 1
            rep.stats["modelled_docs_clean"] = rep.stats.get("modelled_docs_clean", 0) + (0 if hit else 1)
            if "NoFragmentCyclesRule" in hit:
                rep.stats["modelled_docs_with_cycles"] = rep.stats.get("modelled_docs_with_cycles", 0) + 1


def _rules_case(case, rep, corr):
    env = _env()
    try:
        doc = _parse(case["text"], case)
    except Exception:  # noqa: BLE001
        rep.stats["unparseable"] = rep.stats.get("unparseable", 0) + 1
        return
    if not corr.get("driver"):
        return
    rep.nontrivial += 1
    _rules_lines(case, doc, env["schemas"][case["schema"]], rep, corr)



def _memo_cases(rng, n):
    """Request sequences for the context-cache model vs the real ValidationContext."""
    out = []
    for _ in range(n):
        nf = rng.randint(0, 3)
        nops = rng.randint(1, 3)
        reqs = []
        for _ in range(rng.randint(1, 8)):
            k = rng.choice(["F", "S", "R", "UO", "UF", "RU", "RU", "UF"])
            if k in ("R", "UO", "RU"):
                reqs.append((k, rng.randrange(nops)))
            elif k in ("UF", "F"):
                reqs.append((k, rng.randrange(nf + 1)))
            else:
                reqs.append((k, rng.randrange(nops + nf)))
        out.append((nf, nops, reqs))
    return out


def _memo_impl(nf, nops, reqs):
    """Run the request sequence on a real ValidationContext over a document built to match `memoPure` of
    Driver/C12.lean: operation k spreads the fragments f with (k+f) even (reachability is direct only),
    usages of op k = [$o<k>], of fragment f = [$a<f>, $b<f>]."""
    from graphql import parse
    from graphql.utilities import TypeInfo
    from graphql.validation import ValidationContext

    env = _env()
    schema = env["schemas"][2]
    defs = []
    for k in range(nops):
        spreads = " ".join(f"...G{f}" for f in range(nf) if (k + f) % 2 == 0)
        defs.append(f"query Q{k} {{ b(x: $o{k}) {spreads} }}")
    for f in range(nf):
        defs.append(f"fragment G{f} on Query {{ p: b(x: $a{f}) q: b(x: $b{f}) }}")
    doc = parse("\n".join(defs))
    ops = [d for d in doc.definitions if d.kind == "operation_definition"]
    frs = [d for d in doc.definitions if d.kind == "fragment_definition"]
    ctx = ValidationContext(schema, doc, TypeInfo(schema), lambda e: None)
    ctx._type_info.enter(doc)
    out = []
    name_no = lambda s: int(s[1:])  # noqa: E731
    for k, n in reqs:
        if k == "F":
            fr = ctx.get_fragment(f"G{n}")
            out.append("~" if fr is None else f"f{name_no(fr.name.value)}")
        elif k == "S":
            continue
        elif k == "R":
            out.append("[" + ",".join(str(name_no(f.name.value)) for f in ctx.get_recursively_referenced_fragments(ops[n])) + "]")
        elif k in ("UO", "UF", "RU"):
            if k == "UF" and n >= len(frs):
                continue
            us = ctx.get_recursive_variable_usages(ops[n]) if k == "RU" else ctx.get_variable_usages(ops[n] if k == "UO" else frs[n])
            code = {"o": 100, "a": 200, "b": 300}
            out.append("<" + ",".join(str(code[u.node.name.value[0]] + int(u.node.name.value[1:])) for u in us) + ">")
    kept = [(k, n) for k, n in reqs if k != "S" and not (k == "UF" and n >= len(frs))]
    return kept, " ".join(out)


def _work(args):
    cases, seed, drv = args
    fw.use_repo()
    rep = Report()
    corr = {"driver": drv, "lines": [], "meta": [], "msgkinds": set()}
    for case in cases:
        if case["family"] == "memo":
            kept, out = _memo_impl(case["nf"], case["nops"], [tuple(r) for r in case["reqs"]])
            corr["lines"].append(f"memo {case['nf']} " + " ".join(f"{k} {n}" for k, n in kept))
            corr["meta"].append((case, out))
            rep.evaluations += 1
            continue
        if case["family"] == "rules":
            _rules_case(case, rep, corr)
            continue
        try:
            _check_case(case, rep, corr)
        except RecursionError:
            rep.stats["recursion_errors"] = rep.stats.get("recursion_errors", 0) + 1
    if drv and corr["lines"]:
        outs = fw.Driver(drv).run(corr["lines"])
        for (case, impl), line, model in zip(corr["meta"], corr["lines"], outs):
            rep.evaluations += 1
            if line.startswith("rules "):
                rep.stats["modelled_rule_lines"] = rep.stats.get("modelled_rule_lines", 0) + 1
                rep.stats["modelled_rule_runs"] = rep.stats.get("modelled_rule_runs", 0) + model.count(" || ") + 1
                if "|u 0" in model:
                    rep.notes.append("modelled rules: node identities not unique in an encoded document")
                model = " || ".join(c12_rules.strip_rule(x.split("|u ")[0].strip()) for x in model.split(" || "))
                if impl != model:
                    gi, gm = impl.split(" || "), model.split(" || ")
                    k = next((i for i, (x, y) in enumerate(zip(gi, gm)) if x != y), 0)
                    names = case.get("rule_groups", [])
                    rep.disagreements.append(Disagreement("modelled rule " + ",".join(names[k] if k < len(names) else []), case, gi[k][:400] if k < len(gi) else impl[:400], gm[k][:400] if k < len(gm) else model[:400]))
                continue
            rep.stats["scripted_runs"] = rep.stats.get("scripted_runs", 0) + 1
            if impl != model:
                k = next((i for i, (x, y) in enumerate(zip(impl, model)) if x != y), min(len(impl), len(model)))
                rep.disagreements.append(Disagreement("framework " + str(case.get("scripted_mode", case["family"])), case, impl[max(0, k - 60) : k + 80], model[max(0, k - 60) : k + 80]))
            elif "A|" in model:
                rep.stats["scripted_aborts"] = rep.stats.get("scripted_aborts", 0) + 1
    rep.stats["message_kinds"] = sorted(corr["msgkinds"])
    return rep


# --------------------------------------------------------------------------------------------------
# case generation


def _configs(rng, order, n):
    cfgs = [list(order)]
    if n > 1:
        cfgs.append(list(reversed(order)))
    if n > 2:
        cfgs.append([])  # the empty rule set reports the empty union
    while len(cfgs) < n:
        r = rng.random()
        if r < 0.25:
            c = list(order)
            rng.shuffle(c)
        elif r < 0.5:
            c = rng.sample(order, rng.randint(2, 4))
        else:
            c = rng.sample(order, rng.randint(5, len(order) - 1))
            if rng.random() < 0.5:
                c.sort(key=order.index)
        cfgs.append(c)
    return cfgs


def _corpus_files():
    """corpus/C12/exec_witnesses.json: witnesses kept from development, always run first."""
    out = []
    f = fw.VERIF / "corpus" / "C12" / "exec_witnesses.json"
    if f.exists():
        for c in json.loads(f.read_text()):
            out.append((c["family"], c["schema"], c["text"]))
    return out


CORPUS = [
    # (family, schema, text) — built-in copy of the corpus witnesses
    ("exec", 0, "query Q($a: Int) { dog { ...F } } fragment F on Dog { isAtLocation(x: $a, y: $b) } query R { dog { ...F } }"),
    ("exec", 0, "{ dog { ...A } } fragment A on Dog { ...B } fragment B on Dog { ...A name }"),
    ("exec", 0, "type T { a: Int } { __schema { types { fields { type { fields { type { fields { name } } } } } } } }"),
    ("exec", 1, "query ($v: Filter!) { search(q: $v) { ... on Book @defer(label: \"x\") { title } ... on Author @defer(label: \"x\") { name } } books @stream(initialCount: 1) { id } }"),
    ("exec", 2, "{ a a: b(x: 1) ...on Query { a: b(x: 2) } list { a } list { a: b } }"),
]


def _cases(ctx, n_docs, n_cfg, n_scripted):
    fw.use_repo()
    rng = ctx.sub_rng("c12-docs")
    order = c12_extract.rule_lists(fw.REPO)
    cases = []

    def add(family, schema, text, flavour, **kw):
        r = random.Random(f"{ctx.seed}:{len(cases)}")
        rules = order["specified_sdl_rules"] if family == "sdl" else order["specified_rules"]
        cases.append({"family": family, "flavour": flavour, "schema": schema, "text": text, "configs": _configs(r, rules, n_cfg),
                      "limits": LIMITS if len(cases) % 2 == 0 else [0, *r.sample(LIMITS, 3)], "seed": f"{ctx.seed}:{len(cases)}", "scripted": n_scripted, **kw})

    seen = set()
    for fam, si, text in _corpus_files() + CORPUS:
        if (fam, si, text) not in seen:
            seen.add((fam, si, text))
            add(fam, si, text, "corpus")
    from graphql import build_schema

    schemas = [build_schema(s) for s in c12_gen.SCHEMAS]
    for i in range(n_docs):
        r = rng.random()
        si = rng.choice([0, 0, 1, 1, 2])
        if r < 0.2:
            add("exec", si, c12_gen.ExecGen(schemas[si], rng, 0.0).document(), "valid")
        elif r < 0.55:
            add("exec", si, c12_gen.ExecGen(schemas[si], rng, rng.choice([0.03, 0.06, 0.12])).document(), "mutant")
        elif r < 0.6:
            add("exec", si, c12_gen.ExecGen(schemas[si], rng, rng.choice([0.0, 0.06]), frag_args=True).document(), "fragargs", frag_args=True)
        elif r < 0.78:
            add("exec", si, c12_gen.grammar_random(rng), "grammar")
        elif r < 0.8:
            add("exec", si, c12_gen.many_errors(rng, rng.choice([101, 130, 230])), "many")
        else:
            ext = rng.random() < 0.5
            add("sdl", 1 if ext else None, c12_gen.sdl_document(rng, rng.choice([0.0, 0.08, 0.15]), ext)[0], "ext" if ext else "new")
    rr = ctx.sub_rng("c12-modelled-rules")
    texts = [(t, False) for t in c12_rules.CORPUS] + [(t, True) for t in c12_rules.FRAG_ARG_CORPUS]
    for _ in range(n_docs if n_docs > 1000 else (2 * n_docs) // 3):
        fa = rr.random() < 0.25
        texts.append((c12_rules.RulesGen(rr, rr.choice([0.0, 0.05, 0.15, 0.3]), fa).document(), fa))
    for k, (text, fa) in enumerate(texts):
        sub = rr.sample(c12_rules.MODELLED, rr.randint(0, 4))
        cases.append({"family": "rules", "flavour": "fragargs" if fa else "plain", "schema": rr.choice([0, 1, 2]), "text": text, "frag_args": fa,
                      "extra_groups": [sub, list(reversed(c12_rules.MODELLED))], "rule_limits": [None, rr.choice([0, 1, 2, 3, 5])], "seed": f"{ctx.seed}:r{k}"})
    for nf, nops, reqs in _memo_cases(rng, max(20, n_docs // 10)):
        cases.append({"family": "memo", "nf": nf, "nops": nops, "reqs": reqs})
    return cases


def explore(ctx) -> Report:
    if ctx.tier == "quick":
        n_docs, n_cfg, n_scr = 480, 8, 2
    else:
        n_docs, n_cfg, n_scr = 4000, 12, 3
    if ctx.escalate and ctx.tier != "quick":
        n_docs = int(n_docs * 1.5)
    cases = _cases(ctx, n_docs, n_cfg, n_scr)
    chunks = fw.chunked(cases, fw.WORKERS * 6)
    drv = DRIVER if ctx.driver else None
    reps = fw.pmap(_work, [(c, ctx.seed, drv) for c in chunks])
    rep = Report()
    kinds = set()
    for r in reps:
        kinds |= set(r.stats.pop("message_kinds", []))
        rep.merge(r)
    rep.stats["distinct_message_kinds"] = len(kinds)
    rep.stats["message_kinds_sample"] = sorted(kinds)[:60]
    rep.rule = (
        f"{n_docs} generated documents (type-directed valid, near-valid mutants with 3/6/12% injected mistakes per choice, "
        f"grammar-random, >100-error documents, SDL documents with/without a schema to extend) over 3 schemas x {n_cfg} "
        "rule configurations (all, reversed, shuffles, random subsets of specified_rules / specified_sdl_rules) x "
        "max_errors in {None,1,2,5,100}; non-trivial = the full rule set reports at least one error; each document "
        "additionally through reprint, 2 ignored-character rewrites and added descriptions; scripted-rule runs against the model; "
        "the eleven modelled concrete rules each alone, all together, reversed, random sub-lists and with limits, real validate() vs the model, on "
        "every executable document and on documents aimed at these rules (stats modelled_*)"
    )
    return rep


def search(ctx, rep) -> Report:
    # explore() already evaluates every property oracle on the implementation for every case;
    # the search widens the generated space once with a different stream
    if ctx.tier != "quick":
        return Report()
    sub = fw.Ctx(ctx.prop, ctx.tier, ctx.seed + 7919, random.Random(ctx.seed + 7919), ctx.driver, ctx.model_ok, True, ctx.t0)
    cases = _cases(sub, 240, 4, 1)
    reps = fw.pmap(_work, [(c, sub.seed, DRIVER if ctx.driver else None) for c in fw.chunked(cases, fw.WORKERS * 4)])
    out = Report()
    for r in reps:
        r.stats.pop("message_kinds", None)
        out.merge(r)
    return out


def replay(ctx, payload) -> Report:
    fw.use_repo()
    case = payload.get("input")
    if case is None and payload.get("disagreements"):
        case = payload["disagreements"][0]["input"]
    if not isinstance(case, dict):
        return Report(notes=["replay payload has no case"])
    case = {k: v for k, v in case.items() if k not in ("rule", "variant_text")}
    if "scripted_mode" in case:
        env = _env()
        doc = _parse(case["text"], case)
        schema = env["schemas"][case["schema"]] if case["schema"] is not None else None
        line, out = _scripted_case(doc, schema, case["scripted_mode"], case["scripted_max"], [tuple(s) for s in case["scripted_specs"]])
        rep = Report(evaluations=1)
        if ctx.driver:
            model = ctx.driver.run([line])[0]
            if model != out:
                rep.disagreements.append(Disagreement("framework " + case["scripted_mode"], case, out, model))
        case = {**case, "scripted": 0}
        rep.merge(_work(([case], ctx.seed, DRIVER if ctx.driver else None)))
        return rep
    return _work(([case], ctx.seed, DRIVER if ctx.driver else None))
