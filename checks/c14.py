"""C14 — field-merge validation accepts exactly what the specification accepts."""
from __future__ import annotations

import json
import signal
from pathlib import Path

from tools import c14_gen as G
from tools import fw
from tools.fw import Disagreement, Failure, Report

ID = "C14"
PROPS = "Gql.Props.C14"
DRIVER = "drv_c14"
LEVEL = "proof"
LEVEL_TEXT = (
    "Lean theorem overlap_iff (= overlap_iff_full), for every schema and every document with no bound: the model of "
    "OverlappingFieldsCanBeMergedRule as written (both memo tables with their exclusivity flag, the per-selection-set "
    "cache, TypeInfo parent types, fuel-indexed recursion with the proved bound) returns and reports at least one "
    "conflict iff the transcription of FieldsInSetCanMerge/SameResponseShape over fragment-expanded sets finds an "
    "unmergeable pair - named fragments, cyclic spreads and a fragment reached under several parents included. "
    "Also proved: do_types_conflict = not SameResponseShape on types; same_arguments = equality of argument maps up to "
    "argument order and input-object field order (natural_comparison_key is a linear order); soundness of a pair-set "
    "hit; termination with an explicit recursion bound. The executable oracle of the check is proved too: "
    "specConflictB_total (the work-list search over the specification's pairs always answers, fuel bound proved, cyclic "
    "spreads included), specConflictB_iff (it answers 'conflict' iff SpecConflict holds, given pairwise different "
    "field-node identities - reported by the driver for every case), hence overlap_iff_oracle: model of the rule and "
    "oracle agree on every schema and document. For __typename: overlap_typename_local (the rule compares everything "
    "except the return types of a pair with a __typename field) and overlap_iff_typename_of_invariance (document "
    "level, given one decidable evaluation per document); the check measures on every generated document selecting "
    "__typename that the rule agrees with the specification run on the document with __typename hidden. The model is tied to the Python code by the three-way "
    "differential run (Python rule / Lean model / Lean spec) on generated and exhaustively enumerated documents."
)
LEVEL_NOTE = (
    "Trusted: Lean kernel; hand-written model Gql/Exec/Overlap.lean (tied to the code by the correspondence "
    "run: same conflicts, same field nodes, per document); hand-written spec Gql/Exec/SpecMerge.lean (read "
    "against the GraphQL spec text); harness.  Hypotheses of overlap_iff: selection-set identities distinct, unique "
    "argument/input-field names, no __typename selection (known finding), operation roots are object types, ScalarLeafs, "
    "spread names without parentheses.  Hypothesis of specConflictB_iff / overlap_iff_oracle: field-node identities "
    "pairwise different (the serialiser numbers nodes with one counter; the driver reports the condition per case and "
    "the check stops if it ever fails).  Open: overlap_iff_typename_full (document-level statement with __typename "
    "selections allowed).  Experimental fragment arguments and __schema/__type selections are outside the statement."
)
TECHNIQUE = "Lean 4 proof (model vs spec) + three-way differential correspondence"
TRUSTED = [
    "hand-written Lean model Gql/Exec/Overlap.lean of overlapping_fields_can_be_merged.py + sort_value_node.py; "
    "tied to the code by comparing, per document, the multiset of reported conflicts (response name and the "
    "exact field nodes of fields1+fields2)",
    "hand-written Lean transcription Gql/Exec/SpecMerge.lean of FieldsInSetCanMerge / SameResponseShape "
    "(reachability reading for cyclic fragments)",
    "print_ast is injective on sorted value nodes (the model compares value trees, the code compares printed text)",
]
ASSUMPTIONS = [
    "standard documents: no experimental fragment arguments (every var_map is None)",
    "@stream: both fields of a pair must carry @stream with identical arguments or neither (incremental-delivery "
    "draft / graphql-js); checked for every pair",
    "argument names unique per field and input-object field names unique per object (other validation rules); "
    "documents violating this are compared model-vs-code only",
    "no selections of __schema / __type (introspection types are not part of the mini schema)",
    "Python recursion limit is not modelled (documents nested deeper than ~900 levels)",
]
EXPLANATION = (
    "Model = the rule as written; spec = FieldsInSetCanMerge/SameResponseShape over fragment-expanded sets. "
    "Theorems: overlap_iff (full equivalence, all documents), overlap_iff_nofrag, overlap_iff_partial, doTypesConflict_iff, "
    "sameArguments_iff(_natural), pairset_sound, terminates; oracle: specConflictB_total, specConflictB_sound, "
    "specConflictB_iff, specConflictB_false_iff, overlap_iff_oracle; __typename: overlap_typename_local, "
    "overlap_local_defs, overlap_iff_typename_of_invariance (driver field T = oracle on the document with __typename "
    "hidden; the known-finding fingerprint is only given to a miss that this oracle does not make either). "
    "Correspondence: Python rule vs model (exact conflicts); oracle: Python rule yes/no vs spec through the driver; "
    "per-case timeout on the implementation = termination oracle."
)

CORPUS_DIR = fw.VERIF / "corpus" / "C14"
TIMEOUT_S = 10


class _Timeout(Exception):
    pass


def _alarm(*_a):
    raise _Timeout()


def _validate_limited(schema, doc, cpu_seconds):
    """validate() under a CPU-time limit (ITIMER_VIRTUAL: insensitive to machine load)."""
    from graphql import validate
    from graphql.validation import OverlappingFieldsCanBeMergedRule

    old = signal.signal(signal.SIGVTALRM, _alarm)
    signal.setitimer(signal.ITIMER_VIRTUAL, cpu_seconds)
    try:
        return validate(schema, doc, [OverlappingFieldsCanBeMergedRule], max_errors=10**9)
    finally:
        signal.setitimer(signal.ITIMER_VIRTUAL, 0)
        signal.signal(signal.SIGVTALRM, old)


def run_impl(schema, doc, ser):
    """The Python rule: sorted [(response name, [field node ids])] or ('timeout'|'crash', info)."""
    try:
        try:
            errors = _validate_limited(schema, doc, TIMEOUT_S)
        except _Timeout:
            errors = _validate_limited(schema, doc, 6 * TIMEOUT_S)  # once more before calling it a hang
    except _Timeout:
        return ("timeout", None)
    except RecursionError:
        return ("timeout", "RecursionError")
    except Exception as e:  # noqa: BLE001
        return ("crash", type(e).__name__)
    out = []
    for e in errors:
        nodes = e.nodes or []
        ids = [ser.node_ids.get(id(n), 0) for n in nodes]
        first = nodes[0] if nodes else None
        rn = "?"
        if first is not None and hasattr(first, "name"):
            alias = getattr(first, "alias", None)
            rn = alias.value if alias else first.name.value
        out.append((rn, ids))
    return ("ok", sorted(out))


def parse_model(out):
    """driver line -> (impl conflicts sorted | 'fuel', spec bool|None, wf, bound, field ids unique)"""
    w = out.split(" ")
    # I <c> S <s> W <w> B <b> U <u> T <t>
    if len(w) != 12 or w[0] != "I":
        return None
    if w[1] == "fuel":
        conflicts = "fuel"
    elif w[1] == "-":
        conflicts = []
    else:
        conflicts = []
        for c in w[1].split(";"):
            rn, _kind, f1, f2 = c.split(",")
            ids = [int(x) for x in f1.split(".") if x] + [int(x) for x in f2.split(".") if x]
            conflicts.append((rn, ids))
        conflicts.sort()
    spec = {"0": False, "1": True}.get(w[3])
    blind = {"0": False, "1": True}.get(w[11])
    return conflicts, spec, w[5] == "1", int(w[7]), w[9] == "1", blind


def fingerprint(case, ser, impl_yes, spec_yes, blind_yes=None):
    q = case["query"]
    if not impl_yes and spec_yes:
        # the known finding only explains a miss that the specification with `__typename` regarded as a
        # field without return type (driver: T) does not make either; any other miss in a document that
        # happens to select __typename keeps its ordinary fingerprint
        if "__typename" in q and blind_yes in (None, False):
            return "missed-conflict-typename-meta-field"
        if case.get("noloc"):
            return "missed-conflict-document-without-locations"
        return "missed-conflict" + ("-with-fragments" if ser.n_spreads else "")
    return "spurious-conflict" + ("-with-fragments" if ser.n_spreads else "")


def _work(args):
    cases, drv = args
    fw.use_repo()
    from graphql import build_schema, parse

    rep = Report()
    driver = fw.Driver(drv) if drv else None
    st = rep.stats
    for k in ("docs", "impl_conflict", "spec_conflict", "with_spreads", "noloc", "with_args",
              "with_stream", "args_not_wf", "fields_total", "timeouts", "typename_docs",
              "typename_blind_spec_agrees", "typename_blind_spec_differs"):
        st[k] = 0
    schemas = {}
    lines, metas = [], []
    for case in cases:
        sdl = case["sdl"]
        if sdl not in schemas:
            sch = build_schema(sdl, assume_valid=True)
            schemas[sdl] = (sch, G.ser_schema(sch))
        schema, sline = schemas[sdl]
        try:
            doc = parse(case["query"], no_location=bool(case.get("noloc")))
        except Exception as e:  # noqa: BLE001
            rep.notes.append(f"generator produced unparsable document: {e!r}")
            continue
        ser = G.DocSer(schema)
        dline = ser.doc(doc)
        impl = run_impl(schema, doc, ser)
        lines.append(f"case {sline} {dline}")
        metas.append((case, ser, impl))
    outs = driver.run(lines) if driver else [None] * len(lines)
    seen_nontrivial = set()
    for (case, ser, impl), out in zip(metas, outs):
        rep.evaluations += 1
        st["docs"] += 1
        st["fields_total"] += ser.n_fields
        st["with_spreads"] += 1 if ser.n_spreads else 0
        st["noloc"] += 1 if case.get("noloc") else 0
        st["with_args"] += 1 if ser.n_args else 0
        st["with_stream"] += 1 if ser.n_stream else 0
        inp = {"sdl": case["sdl"], "query": case["query"], "noloc": bool(case.get("noloc"))}
        if impl[0] != "ok":
            st["timeouts"] += 1
            if impl[0] == "timeout":
                rep.failures.append(Failure(
                    "rule-does-not-terminate", f"the rule did not finish within {6 * TIMEOUT_S}s of CPU time ({impl[1]})",
                    inp, impl[0], "terminates", "C14 terminates"))
            else:
                rep.failures.append(Failure(
                    "rule-raises", "the rule raised " + str(impl[1]), inp, impl[1], "a list of errors", "C14"))
            continue
        impl_yes = bool(impl[1])
        st["impl_conflict"] += 1 if impl_yes else 0
        if out is None:
            continue
        m = parse_model(out)
        if m is None:
            raise fw.InfraError(f"driver output not understood: {out!r} for {inp!r}")
        conflicts, spec_yes, wf, _bound, ids_unique, blind_yes = m
        if not ids_unique:
            # hypothesis FieldIdsNodup of specConflictB_iff: the oracle is proved only with it
            raise fw.InfraError(f"serialiser gave two field nodes one identity on {inp!r}")
        st["args_not_wf"] += 0 if wf else 1
        if conflicts == "fuel":
            rep.disagreements.append(Disagreement("model-out-of-fuel (terminates theorem)", inp, impl[1], "fuel"))
        elif conflicts != impl[1]:
            rep.disagreements.append(Disagreement("conflicts", inp, impl[1], conflicts))
        if spec_yes is None:
            raise fw.InfraError(f"spec search ran out of fuel on {inp!r}")
        st["spec_conflict"] += 1 if spec_yes else 0
        # non-trivial: some response name occurs twice in some expanded set <=> the spec had a pair to look at;
        # approximated on the Python side by: at least two fields share a response name in the document
        if ser.n_fields >= 2 and (impl_yes or spec_yes or ser.n_spreads or ser.n_inline):
            seen_nontrivial.add(case["query"])
        # characterisation of the known finding (overlap_iff_typename_full, measured): on documents selecting
        # __typename the rule agrees with the specification run on the document with __typename hidden
        if wf and "__typename" in case["query"] and blind_yes is not None:
            st["typename_docs"] += 1
            if impl_yes == blind_yes:
                st["typename_blind_spec_agrees"] += 1
            else:
                st["typename_blind_spec_differs"] += 1
                if len(rep.notes) < 5:
                    rep.notes.append(f"rule differs from the typename-blind specification on {inp!r}")
        # the property: rule reports a conflict  <=>  the specification finds an unmergeable pair
        if wf and impl_yes != spec_yes:
            rep.failures.append(Failure(
                fingerprint(case, ser, impl_yes, spec_yes, blind_yes),
                "rule reports a conflict" + (" but " if impl_yes else " not, but ")
                + "FieldsInSetCanMerge/SameResponseShape " + ("rejects" if spec_yes else "accepts") + " the document",
                inp, {"rule_conflicts": impl[1]}, {"spec_conflict": spec_yes},
                "SpecMerge.specConflictB (overlap_iff)"))
    rep.nontrivial = len(seen_nontrivial)
    if metas:
        case, ser, impl = metas[len(metas) // 2]
        rep.samples.append({"query": case["query"], "noloc": bool(case.get("noloc")), "impl": impl[1] if impl[0] == "ok" else impl[0]})
    return rep


def _natle_work(args):
    """sort key of sort_value_node: Lean `naturalLe` vs `natural_comparison_key` on all pairs."""
    names, others, drv = args
    fw.use_repo()
    from graphql.pyutils import natural_comparison_key as key

    rep = Report()
    lines = [f"natle {a} {b}" for a in names for b in others]
    outs = fw.Driver(drv).run(lines)
    i = 0
    for a in names:
        for b in others:
            want = "1" if key(a) <= key(b) else "0"
            rep.evaluations += 1
            if outs[i] != want:
                rep.disagreements.append(Disagreement("natural_comparison_key", {"a": a, "b": b}, want, outs[i]))
            i += 1
    return rep


def natle_names():
    import itertools

    alpha = ["a", "B", "_", "0", "1", "9"]
    out = []
    for n in (1, 2, 3):
        out += ["".join(t) for t in itertools.product(alpha, repeat=n)]
    return out + ["a10", "a2", "a02", "a2b10", "a2b9", "x007", "x7", "x07y"]


def load_corpus():
    cases = []
    if CORPUS_DIR.is_dir():
        for p in sorted(CORPUS_DIR.glob("*.json")):
            try:
                c = json.loads(p.read_text())
                cases.append({"sdl": c["sdl"], "query": c["query"], "noloc": bool(c.get("noloc"))})
            except Exception:  # noqa: BLE001
                pass
    return cases


def _gen_chunk(args):
    """Generate in the worker (schema_info needs the library) and evaluate."""
    seed, tag, n_random, n_two, drv = args
    import random

    fw.use_repo()
    rng = random.Random(f"{seed}:c14:{tag}")
    cases = []
    while len(cases) < n_random:
        sdl = G.FIXED_SDL if rng.random() < 0.4 else G.gen_schema(rng)
        _, info = G.schema_info(sdl)
        for _ in range(min(12, n_random - len(cases))):
            cases.append(G.gen_random_case(rng, sdl, info))
    cases += [G.gen_two_context_case(rng) for _ in range(n_two)]
    return _work((cases, drv))


def explore(ctx) -> Report:
    fw.use_repo()
    drv = DRIVER if ctx.driver else None
    quick = ctx.tier == "quick"
    n_random = 2000 if quick else 40000
    n_two = 700 if quick else 12000
    if ctx.escalate and quick:
        n_random, n_two = 6000, 3000
    rep = Report()
    # corpus first
    corpus = load_corpus()
    if corpus:
        rep.merge(_work((corpus, drv)))
    if drv:
        names = natle_names()
        for r in fw.pmap(_natle_work, [(c, names, drv) for c in fw.chunked(names, fw.WORKERS)]):
            rep.merge(r)
    # exhaustive fragment graphs
    exh_small = list(G.exhaustive_space(1, 3, G.EXH_ROOTS_SMALL)) + list(G.exhaustive_space(2, 1, G.EXH_ROOTS_SMALL))
    if quick:
        exh = exh_small + list(G.exhaustive_space(2, 2, G.EXH_ROOTS))
    else:
        exh = exh_small + list(G.exhaustive_space(2, 2, G.EXH_ROOTS_SMALL))
        exh += list(G.exhaustive_space(2, 3, G.EXH_ROOTS)) + list(G.exhaustive_space(3, 2, G.EXH_ROOTS[:1]))
        exh += list(G.exhaustive_space(4, 1, G.EXH_ROOTS[:2]))
    jobs = [(c, drv) for c in fw.chunked(exh, fw.WORKERS * 2)]
    for r in fw.pmap(_work, jobs):
        rep.merge(r)
    n_exh = len(exh)
    # random + targeted
    k = fw.WORKERS * 2
    jobs = [(ctx.seed, i, n_random // k + 1, n_two // k + 1, drv) for i in range(k)]
    for r in fw.pmap(_gen_chunk, jobs):
        rep.merge(r)
    rep.exhaustive = True
    rep.stats["exhaustive_docs"] = n_exh
    rep.rule = (
        "documents over generated schemas (objects, interfaces, a union, list/non-null wrapped leaves): "
        f"{n_exh} exhaustively enumerated fragment graphs (2 fragments x <=2 items quick; 2x<=3, 3x<=2, 4x1 thorough; "
        "items: aliased leaves of equal/different type, spreads and nested spreads of every fragment incl. itself, an "
        "exclusive inline fragment) under 3 roots that reach F1/F2 under exclusive and overlapping parents in both orders; "
        "seeded random documents (aliases from a 5-name pool, 0-5 mutually recursive fragments, arguments incl. variables "
        "and input objects with permuted keys, @stream, 30% parsed without locations) and the targeted 'two contexts' "
        "family. Non-trivial = at least two fields and (a conflict on either side or a fragment/inline fragment present); "
        "counted as distinct query texts."
    )
    return rep


def search(ctx, rep) -> Report:
    if ctx.driver is None:
        return Report(notes=["model driver unavailable: the property oracle is the Lean spec; no search possible"])
    # explore() already evaluated the oracle on every case; add a fresh seeded batch
    import random

    out = Report()
    k = fw.WORKERS
    jobs = [(ctx.seed + 7919, f"s{i}", 400, 200, DRIVER) for i in range(k)]
    for r in fw.pmap(_gen_chunk, jobs):
        out.merge(r)
    return out


def replay(ctx, payload) -> Report:
    fw.use_repo()
    inp = payload["input"]
    return _work(([{"sdl": inp["sdl"], "query": inp["query"], "noloc": bool(inp.get("noloc"))}], DRIVER if ctx.driver else None))
