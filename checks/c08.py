"""C08 — printing a parsed document and parsing it again gives the same AST."""
from __future__ import annotations

import itertools
import json
import random
from collections import Counter
from pathlib import Path

from tools import c08_extract, c08_gen as G, fw
from tools.fw import Disagreement, Failure, Report

ID = "C08"
PROPS = "Gql.Props.C08"
DRIVER = "drv_c08"
LEVEL = "proof"
LEVEL_TEXT = (
    "Lean theorems, for all inputs with no bound: (1) strings - print_string / print_block_string (any width, with and "
    "without minimize, re-indented by any amount) followed by the lexer return the value character for character, for "
    "every value made of Unicode scalar values and verbatim leading+trailing surrogate pairs (Paired: everything a STRING "
    "/ BLOCK_STRING token can carry; printString_roundtrip_paired, block_roundtrip_paired, block_indent_roundtrip_paired); "
    "every value the lexer produces from a block string literal is block-representable (the hypothesis is forced); "
    "is_printable_as_block_string implies block-representable; (2) with the real parser model (C01's crash-faithful "
    "model of parser.py): parse_type(print t) = t for every type tree, parse_value / parse_const_value(print v) = v for "
    "every well-formed value tree in every layout the printer can choose (render_lex for values), and "
    "parse(print d) = d for documents of (stages 1-2) operations and fragment definitions with descriptions, variable "
    "definitions (defaults, const directives; on fragments under the experimental flag), fields, arguments, directives, "
    "fragment spreads and inline fragments, and (stage 3) schema, scalar, object, interface, union, enum, input object "
    "and directive definitions with descriptions, argument definitions in both layouts, `&` / `|` lists, repeatable, "
    "directives on directive definitions under the flag, and the type-system extensions (extend schema / scalar / type / "
    "interface / union / enum / input) - including the printer's `query` keyword before a shorthand query that follows "
    "a definition or extension without a block. For the type entry point also with no well-formedness hypothesis "
    "(parse_wf_type: every tree parse_type returns is a typed tree), and for the value / const-value entry points with "
    "no hypothesis on the tree or the source text (parse_wf_value_full, roundtrip_value_parsed_full: whatever "
    "parse_value / parse_const_value returns for ANY source text - verbatim surrogate pairs inside strings included - "
    "prints to text that parses back to the same tree, given only no max_tokens and object width >= 4; inversion of the "
    "lexer for NAME, INT / FLOAT, STRING and BLOCK_STRING tokens, string values are Paired). The converse for documents is proved for its first two layers (arguments, "
    "directives, selection sets, variable definitions, operation and fragment definitions: "
    "parse_wf_selection_set_partial, parse_wf_executable_definition_partial). Not yet: arguments on fragment spreads and "
    "`extend directive` (both behind experimental flags). "
    "The full document statement (roundtrip_full) is evaluated directly on the implementation for every generated "
    "source and programmatic tree."
)
LEVEL_NOTE = (
    "Trusted: Lean kernel; the hand-written models Gql/Text/PrintString.lean, BlockString.lean, Gql/Syntax/Printer.lean "
    "(tied to the code by byte-for-byte correspondence on every enumerated string and generated tree of the run), the "
    "shared lexer and parser models (Gql/Text/Lexer.lean, Gql/Syntax/Parser.lean; tied by C01/C09's correspondence); the "
    "harness. Not proved: round trip for the remaining document node kinds (arguments on fragment spreads, `extend "
    "directive`) and, for documents beyond operation / fragment definitions (type-system definitions, extensions, the "
    "keyword dispatch of parse_definition), the converse 'every parsed tree is one of the typed well-formed trees'; at "
    "the document level (not for the value entry points any more) string values and descriptions copied from a source "
    "that holds a surrogate pair verbatim are outside the typed trees (Exec.gdefsWf asks for scalar values; "
    "corpus/C08/verbatim_surrogate_pair.json) - all covered by the implementation-side round-trip oracle, not by a theorem."
)
TECHNIQUE = "Lean 4 proof about executable models + T1 table + differential correspondence + round-trip oracle"
TRUSTED = [
    "hand-written Lean models of print_string / print_block_string / is_printable_as_block_string / print_ast, "
    "compared byte for byte with the implementation on every enumerated string and every generated tree of this run",
    "lexer model Gql/Text/Lexer.lean (shared; tied to lexer.py by tools/lexcorr.py and here by the token-level "
    "round trip evaluated on the implementation)",
    "T1: escape table and width literals are read from the working tree with Python's ast module",
]
ASSUMPTIONS = [
    "WF = image of the parser: names and number texts lexically valid, enum values other than true/false/null, "
    "fragment names other than `on`, non-Const node classes, `None` vs `()` exactly as the parser yields them "
    "(trees with `()`/`None`/`block=None` swapped are checked to print like, and re-parse to, their normal form), "
    "string values made of Unicode scalar values and verbatim leading+trailing surrogate pairs (Val.wfP; proved forced "
    "for the value entry points: parse_wf_value_full - a lone surrogate cannot be written in any source text); the "
    "document-level typed trees (Exec.gdefsWf) still take scalar values only",
    "a StringValueNode with block=True is in the domain only if its value is BlockRepresentable (no CR, first and last "
    "line not blank, single line or some line unindented) - proved forced: the lexer produces no other block value "
    "(lex_block_representable); other block values are checked to print and re-parse without an exception, "
    "changing nothing but that string's value",
    "that print_string escapes C0/C1 controls other than LF, CR, quote and backslash is not needed for the round trip "
    "(the lexer accepts them raw); it is checked as print_string's documented contract (theorem "
    "escape_table_covers_controls + oracle print_string-raw-control), because the property's anchor names it",
    "parser depth: generated trees are shallow (selection depth <= 5, value depth <= 5); CPython recursion limits "
    "are C01's subject",
]
EXPLANATION = (
    "Theorems (Gql/Props/C08.lean): escape_table_* (T1, decide), printString_roundtrip, block_roundtrip, "
    "block_indent_roundtrip, lex_block_representable, printable_representable, type_print_lex, roundtrip_type, "
    "parse_wf_type, roundtrip_type_parsed, render_lex_value, roundtrip_value, render_lex_document_partial, "
    "roundtrip_document_partial (parser model = "
    "Gql.Syntax.parseSource); roundtrip_full is the stated full Prop. Correspondence: model text = implementation text "
    "for print_string / print_block_string (both minimize) / is_printable_as_block_string (exhaustive over a 12-symbol "
    "alphabet + random scalar strings) and print_ast (every generated tree incl. ()/None variants and the repo fixtures). "
    "Oracles on the implementation: parse(print(d)) == d and print(parse(print(d))) == print(d) for every generated source "
    "(document / value / const value / type; both experimental flags) and every programmatic tree; token-level string "
    "round trip; is_printable_as_block_string implies block-representable."
)

ALPHABET = ["a", " ", "\t", "\n", "\r", '"', "\\", "\x0c", " ", "é", "😀", "#"]
HAVE_PRINTER = True

FP_SHORTHAND = "print-shorthand-query-after-open-definition"

extract = c08_extract.extract


# ----------------------------------------------------------------------------- implementation side helpers


def _lex1(text):
    """The single token of `text` followed by EOF, as (kind_name, value) or ('error', message)."""
    from graphql.error import GraphQLSyntaxError
    from graphql.language import Lexer, Source, TokenKind

    try:
        lx = Lexer(Source(text))
        t = lx.advance()
        e = lx.advance()
        if e.kind != TokenKind.EOF:
            return ("trailing-" + e.kind.name, t.value)
        return (t.kind.name, t.value)
    except GraphQLSyntaxError as e:
        return ("error", e.message)
    except Exception as e:  # noqa: BLE001
        return ("crash", type(e).__name__)


def _parse_fn(entry):
    from graphql.language import parse, parse_const_value, parse_type, parse_value

    return {"document": parse, "value": parse_value, "const_value": parse_const_value, "type": parse_type}[entry]


def _string_oracles(s, rep_flag, out, where="direct"):
    """Token-level round trip of one string value on the implementation.  `rep_flag`: Lean's
    BlockRepresentable(s) (None when the driver is unavailable: the Python transcription is used)."""
    from graphql.language.block_string import is_printable_as_block_string, print_block_string
    from graphql.language.print_string import print_string

    inp = {"kind": "string", "value": fw.cps(s)}
    res = {}
    try:
        ps = print_string(s)
    except Exception as e:  # noqa: BLE001
        out.append(Failure("print_string-raises", "print_string raises", inp, type(e).__name__, "text", "C08-1"))
        ps = None
    if ps is not None:
        got = _lex1(ps)
        if got != ("STRING", s):
            out.append(
                Failure(
                    "print_string-roundtrip", "print_string(s) does not lex back to s", dict(inp, block=False),
                    [got[0], fw.cps(got[1]) if isinstance(got[1], str) else got[1]], ["STRING", fw.cps(s)],
                    "C08-1 printString_roundtrip",
                )
            )
    res["ps"] = ps
    rep_v = G.py_block_representable(s) if rep_flag is None else rep_flag
    for mini in (False, True):
        try:
            pb = print_block_string(s, mini)
        except Exception as e:  # noqa: BLE001
            out.append(
                Failure("print_block_string-raises", "print_block_string raises", dict(inp, block=True, minimize=mini),
                        type(e).__name__, "text", "C08-2")
            )
            res["pb%d" % mini] = None
            continue
        res["pb%d" % mini] = pb
        got = _lex1(pb)
        if rep_v:
            if got != ("BLOCK_STRING", s):
                out.append(
                    Failure(
                        "print_block_string-roundtrip",
                        "print_block_string(v) does not lex back to v for a block-representable v",
                        dict(inp, block=True, minimize=mini),
                        [got[0], fw.cps(got[1]) if isinstance(got[1], str) else got[1]],
                        ["BLOCK_STRING", fw.cps(s)], "C08-2 block_roundtrip",
                    )
                )
        elif got[0] != "BLOCK_STRING":
            out.append(
                Failure(
                    "print_block_string-not-a-block-string",
                    "print_block_string(v) of a non-representable value is not a single block string literal",
                    dict(inp, block=True, minimize=mini), list(got), "a BLOCK_STRING token (any value)", "C08-2 outside WF",
                )
            )
    try:
        ipb = bool(is_printable_as_block_string(s))
    except Exception as e:  # noqa: BLE001
        out.append(Failure("is_printable-raises", "is_printable_as_block_string raises", inp, type(e).__name__, "bool", "C08-2"))
        ipb = None
    res["ipb"] = ipb
    if ipb and not rep_v:
        out.append(
            Failure(
                "printable-not-representable",
                "is_printable_as_block_string accepts a value no block string literal can denote",
                inp, True, False, "C08-2 printable_representable",
            )
        )
    return res


def _is_open_then_shorthand(d):
    """Does the document contain a shorthand-printable query right after a definition without a block?"""
    from graphql.language import ast as A

    defs = getattr(d, "definitions", None) or ()
    for prev, cur in zip(defs, defs[1:]):
        if not isinstance(cur, A.OperationDefinitionNode):
            continue
        if cur.operation != A.OperationType.QUERY or cur.name or cur.variable_definitions or cur.directives or cur.description:
            continue
        for attr in ("fields", "values", "operation_types"):
            if hasattr(prev, attr) and not getattr(prev, attr) and not isinstance(prev, A.SchemaDefinitionNode):
                return True
    return False


def _roundtrip(entry, flags, d, what, inp, out):
    """The property's relations on a tree `d` (parsed or programmatic): print, re-parse, compare,
    re-print.  Returns the printed text or None."""
    from graphql.error import GraphQLError
    from graphql.language import print_ast

    f = _parse_fn(entry)
    try:
        t = print_ast(d)
    except Exception as e:  # noqa: BLE001
        out.append(Failure(f"{what}-print-raises", "print_ast raises on a well-formed tree", inp, f"{type(e).__name__}: {e}"[:200], "text", "C08 printer_total"))
        return None
    special = entry == "document" and _is_open_then_shorthand(d)
    try:
        d2 = f(t, no_location=True, **flags)
    except GraphQLError as e:
        fp = FP_SHORTHAND if special else f"{what}-reparse-fails"
        out.append(Failure(fp, "printed text does not parse", dict(inp, printed=t), e.message[:200], "parses to the same tree", "C08 roundtrip_full"))
        return t
    except Exception as e:  # noqa: BLE001
        out.append(Failure(f"{what}-reparse-crashes", "parser crashes on printed text", dict(inp, printed=t), type(e).__name__, "parses", "C08 roundtrip_full"))
        return t
    if d2 != d:
        from tools.astwire import to_wire

        fp = FP_SHORTHAND if special else f"{what}-tree-differs"
        out.append(
            Failure(fp, "parse(print(d)) differs from d", dict(inp, printed=t), to_wire(d2)[:600], to_wire(d)[:600], "C08 roundtrip_full")
        )
        return t
    try:
        t2 = print_ast(d2)
    except Exception as e:  # noqa: BLE001
        out.append(Failure(f"{what}-reprint-raises", "print_ast raises on the re-parsed tree", inp, type(e).__name__, "text", "C08"))
        return t
    if t2 != t:
        out.append(Failure(f"{what}-not-a-fixed-point", "print(parse(print(d))) differs from print(d)", dict(inp, printed=t), t2[:400], t[:400], "C08 print_fixed_point"))
    return t


def _mask_block_values(v):
    """Tree with the value of every block string replaced by a constant (for the outside-WF check)."""
    if isinstance(v, list):
        return [_mask_block_values(x) for x in v]
    if isinstance(v, tuple):
        cls, fields = v
        if cls == "StringValueNode" and fields.get("block") is True:
            return (cls, dict(fields, value="?"))
        return (cls, {k: _mask_block_values(x) for k, x in fields.items()})
    return v


def _from_real(node):
    """Real graphql node -> generator tree (dict form), via the wire format."""
    from tools.astwire import to_wire

    toks = to_wire(node).split(" ")
    pos = 0

    def val():
        nonlocal pos
        t = toks[pos]
        pos += 1
        if t == "~":
            return None
        if t == "#t":
            return True
        if t == "#f":
            return False
        if t.startswith("s:"):
            b = t[2:]
            return "".join(chr(int(x)) for x in b.split(",")) if b else ""
        if t == "[":
            items = []
            while toks[pos] != "]":
                items.append(val())
            pos += 1
            return items
        cls = toks[pos]
        pos += 1
        fields = {}
        while toks[pos] != ")":
            k = toks[pos]
            pos += 1
            fields[k] = val()
        pos += 1
        return (cls, fields)

    return val()


def _spoil_block(rng, tree):
    """Replace the value of one block string by a non-representable value.  Returns (tree, done?)."""
    done = [False]
    bad = ["\na", "a\n", " ", "\r", "a\rb", " a\n b", "\n", "a\r\nb", "\t\n x", "a\n \n"]

    def go(v):
        if isinstance(v, list):
            return [go(x) for x in v]
        if isinstance(v, tuple):
            cls, fields = v
            if cls == "StringValueNode" and fields.get("block") is True and not done[0] and rng.random() < 0.7:
                done[0] = True
                return (cls, dict(fields, value=rng.choice(bad)))
            return (cls, {k: go(x) for k, x in fields.items()})
        return v

    return go(tree), done[0]


# ----------------------------------------------------------------------------- workers


def _work_strings(args):
    strings, drv, tag = args
    fw.use_repo()
    rep = Report()
    driver = fw.Driver(drv) if drv else None
    lines = ["all " + fw.cps(s) for s in strings]
    outs = driver.run(lines) if driver else None
    cats = Counter()
    for i, s in enumerate(strings):
        if outs is not None:
            m_ps, m_pb0, m_pb1, m_ipb, m_rep = (x.strip() for x in outs[i].split("|"))
            rep_flag = m_rep == "1"
            if G.py_block_representable(s) != rep_flag:
                rep.disagreements.append(
                    Disagreement("BlockRepresentable-transcription(generator)", {"value": fw.cps(s)}, G.py_block_representable(s), rep_flag)
                )
        else:
            rep_flag = None
        res = _string_oracles(s, rep_flag, rep.failures)
        rep.evaluations += 4
        if outs is not None:
            for comp, impl, model in (
                ("print_string", res["ps"], m_ps),
                ("print_block_string(minimize=False)", res["pb0"], m_pb0),
                ("print_block_string(minimize=True)", res["pb1"], m_pb1),
            ):
                if impl is None or fw.cps(impl) != model.strip():
                    rep.disagreements.append(Disagreement(comp, {"value": fw.cps(s)}, None if impl is None else fw.cps(impl), model))
            if res["ipb"] is None or ("1" if res["ipb"] else "0") != m_ipb:
                rep.disagreements.append(Disagreement("is_printable_as_block_string", {"value": fw.cps(s)}, res["ipb"], m_ipb))
        if any(ch in s for ch in '\r\n"\\\x0c \t '):
            rep.nontrivial += 1
        if rep_flag or (rep_flag is None and G.py_block_representable(s)):
            cats["block_representable"] += 1
        if res["ipb"]:
            cats["printable_as_block"] += 1
        if '"""' in s:
            cats["has_triple_quote"] += 1
        if "\r" in s:
            cats["has_cr"] += 1
        if len(s) > 70:
            cats["longer_than_70"] += 1
    for k, v in cats.items():
        rep.stats[f"strings[{tag}].{k}"] = v
    rep.stats[f"strings[{tag}].count"] = len(strings)
    if strings:
        s = strings[len(strings) // 2]
        from graphql.language.block_string import print_block_string
        from graphql.language.print_string import print_string

        rep.samples.append({"value": s, "print_string": print_string(s), "print_block_string": print_block_string(s)})
    return rep


def _shrink_document(case_inp, entry, flags):
    """Sub-documents of one and two consecutive definitions of a failing document, evaluated as
    programmatic trees (so that shrinking does not depend on the printed text being parseable).
    Returns the failures of the first (smallest) failing sub-document, or None."""
    if entry != "document":
        return None
    from graphql.language import parse
    from graphql.language.ast import DocumentNode
    from tools.astwire import to_wire

    try:
        d = parse(case_inp["source"], no_location=True, **flags)
    except Exception:  # noqa: BLE001
        return None
    defs = d.definitions
    for width in (1, 2):
        for i in range(len(defs) - width + 1):
            sub = DocumentNode(definitions=tuple(defs[i : i + width]))
            fails = []
            inp = {"kind": "wire", "entry": entry, "flags": flags, "wire": to_wire(sub)}
            _roundtrip(entry, flags, sub, "parsed", inp, fails)
            if fails:
                return fails
    return None


def _check_source(entry, flags, src, out, stats=None):
    """Oracle for one source text: if it parses, printing and re-parsing gives the same tree and
    printing is a fixed point.  Returns the parsed tree or None."""
    from graphql.error import GraphQLError

    f = _parse_fn(entry)
    inp = {"kind": "source", "entry": entry, "flags": flags, "source": src}
    try:
        d = f(src, no_location=True, **flags)
    except GraphQLError:
        return None
    except Exception as e:  # noqa: BLE001
        out.append(Failure("parse-crashes", "parser raises a non-GraphQL exception", inp, type(e).__name__, "tree or GraphQLSyntaxError", "C01"))
        return None
    t = _roundtrip(entry, flags, d, "parsed", inp, out)
    if stats is not None and t is not None:
        if any(len(ln) > 80 for ln in t.split("\n")):
            stats["printed_has_line_over_80"] += 1
        if "(\n" in t:
            stats["wrapped_arguments"] += 1
        if '"""' in t:
            stats["printed_has_block_string"] += 1
    return d


def _work_docs(args):
    seeds, drv, tag = args
    fw.use_repo()
    from tools.astwire import from_wire, to_wire

    rep = Report()
    driver = fw.Driver(drv) if drv else None
    stats = Counter()
    kinds = Counter()
    model_lines, model_meta = [], []
    rep_lines, rep_meta = [], []
    seen = set()
    for seed, idx in seeds:
        rng = random.Random(f"c08:{seed}:{idx}")
        case = G.gen_case(rng, idx)
        entry, flags = case["entry"], case["flags"]
        w = G.wire(case["tree"])
        if w not in seen:
            seen.add(w)
            if case["strings"] or len(case["tokens"]) >= 8:
                rep.nontrivial += 1
        stats[f"entry.{case['flavour']}"] += 1
        stats["flag.fragment_arguments"] += int(flags["experimental_fragment_arguments"])
        stats["flag.directives_on_directive_definitions"] += int(flags["experimental_directives_on_directive_definitions"])
        stats["tokens_total"] += len(case["tokens"])
        stats["string_literals"] += len(case["strings"])
        stats["block_string_literals"] += sum(1 for _, b in case["strings"] if b)
        kinds.update(case["kinds"])
        for v, b in case["strings"]:
            if b:
                rep_lines.append("rep " + fw.cps(v))
                rep_meta.append(v)
        # (1) source -> parse -> print -> parse / print
        for k in range(2):
            src = G.render(rng, case["tokens"])
            fails = []
            d = _check_source(entry, flags, src, fails, stats)
            rep.evaluations += 1
            if fails:
                small = _shrink_document(fails[0].input, entry, flags)
                rep.failures += small or fails
            if d is None:
                stats["generated_source_rejected"] += 1
                if len(rep.notes) < 3:
                    rep.notes.append(f"generator produced a source the parser rejects: {src[:200]!r}")
                continue
            if k == 0:
                try:
                    prog = from_wire(w)
                except Exception as e:  # noqa: BLE001
                    raise fw.InfraError(f"from_wire failed on a generated tree: {e!r}") from e
                if prog != d:
                    stats["generator_tree_differs_from_parse"] += 1
                    if len(rep.notes) < 3:
                        rep.notes.append(f"generator self-check: tree differs from parse of its own source {src[:200]!r}")
        # (2) programmatic tree
        try:
            prog = from_wire(w)
        except Exception as e:  # noqa: BLE001
            raise fw.InfraError(f"from_wire failed on a generated tree: {e!r}") from e
        inp = {"kind": "wire", "entry": entry, "flags": flags, "wire": w}
        t = _roundtrip(entry, flags, prog, "programmatic", inp, rep.failures)
        rep.evaluations += 1
        if t is not None and driver and HAVE_PRINTER:
            model_lines.append("print " + w)
            model_meta.append(("wf", w, t))
        # (3) () / None / block=None variants print like, and re-parse to, the normal form
        var, changed = G.empty_tuple_variant(rng, case["tree"])
        if changed:
            wv = G.wire(var)
            inpv = {"kind": "wire-variant", "entry": entry, "flags": flags, "wire": wv, "normal_form": w}
            rep.evaluations += 1
            stats["empty_tuple_variants"] += 1
            try:
                from graphql.language import print_ast

                tv = print_ast(from_wire(wv))
                if t is not None and tv != t:
                    rep.failures.append(
                        Failure("empty-vs-none-prints-differently", "a tree with ()/None/block=None swapped prints differently from its normal form", inpv, tv[:400], t[:400], "C08 roundtrip_full (normal form)")
                    )
                if driver and HAVE_PRINTER:
                    model_lines.append("print " + wv)
                    model_meta.append(("variant", wv, tv))
            except Exception as e:  # noqa: BLE001
                rep.failures.append(Failure("variant-print-raises", "print_ast raises on a tree with ()/None swapped", inpv, type(e).__name__, "text", "C08 printer_total"))
        # (4) non-representable block value: no exception, only that value changes
        spoiled, done = _spoil_block(rng, case["tree"])
        if done:
            ws = G.wire(spoiled)
            inps = {"kind": "wire-outside-wf", "entry": entry, "flags": flags, "wire": ws}
            rep.evaluations += 1
            stats["outside_wf_block_values"] += 1
            try:
                from graphql.language import print_ast

                ts = print_ast(from_wire(ws))
                d3 = _parse_fn(entry)(ts, no_location=True, **flags)
                if _mask_block_values(_from_real(d3)) != _mask_block_values(_from_real(from_wire(ws))):
                    rep.failures.append(
                        Failure("outside-wf-changes-more-than-the-value", "a non-representable block value changes more than that value", inps, to_wire(d3)[:400], ws[:400], "C08 outside WF")
                    )
                if driver and HAVE_PRINTER:
                    model_lines.append("print " + ws)
                    model_meta.append(("outside-wf", ws, ts))
            except Exception as e:  # noqa: BLE001
                rep.failures.append(Failure("outside-wf-raises", "printing / re-parsing a non-representable block value raises", inps, f"{type(e).__name__}: {e}"[:200], "no exception", "C08 outside WF"))
        if len(rep.samples) < 2 and case["strings"]:
            rep.samples.append({"entry": entry, "flags": flags, "source": G.render(random.Random(0), case["tokens"], "space")[:300], "printed": (t or "")[:300]})
    if driver:
        outs = driver.run(rep_lines)
        for v, o in zip(rep_meta, outs):
            if o != "1":
                rep.disagreements.append(Disagreement("BlockRepresentable-transcription(generator)", {"value": fw.cps(v)}, True, o))
        outs = driver.run(model_lines) if model_lines else []
        for (kind, w, t), o in zip(model_meta, outs):
            rep.evaluations += 1
            want = ("ok " + fw.cps(t)).strip()
            if o.strip() != want:
                rep.disagreements.append(Disagreement(f"print_ast({kind} tree)", {"kind": "wire", "wire": w}, want[:2000], o[:2000]))
    for k, v in stats.items():
        rep.stats[f"docs.{k}"] = v
    for k, v in kinds.items():
        rep.stats[f"kind.{k}"] = v
    rep.stats["docs.count"] = len(seeds)
    return rep


def _work_fixture(args):
    name, src, drv = args
    fw.use_repo()
    from tools.astwire import to_wire

    rep = Report()
    for flags in (
        {"experimental_fragment_arguments": False, "experimental_directives_on_directive_definitions": False},
        {"experimental_fragment_arguments": True, "experimental_directives_on_directive_definitions": True},
    ):
        d = _check_source("document", flags, src, rep.failures)
        rep.evaluations += 1
        if d is not None and drv and HAVE_PRINTER:
            from graphql.language import print_ast

            t = print_ast(d)
            o = fw.Driver(drv).run(["print " + to_wire(d)])[0]
            rep.evaluations += 1
            if o.strip() != ("ok " + fw.cps(t)).strip():
                rep.disagreements.append(Disagreement("print_ast(fixture)", {"kind": "fixture", "name": name}, "text", o[:200]))
    rep.stats["fixtures"] = 1
    return rep


# ----------------------------------------------------------------------------- corpus


def _corpus():
    d = fw.VERIF / "corpus" / "C08"
    items = []
    for p in sorted(d.glob("*.json")):
        try:
            items.append((p.name, json.loads(p.read_text())))
        except Exception as e:  # noqa: BLE001
            raise fw.InfraError(f"corpus file {p} unreadable: {e!r}") from e
    return items


def _run_case(ctx, inp) -> Report:
    """Evaluate one stored case (corpus entry or replay payload input)."""
    fw.use_repo()
    rep = Report()
    kind = inp.get("kind")
    drv = DRIVER if ctx.driver else None
    if kind == "string":
        s = fw.uncps(inp["value"])
        r = _work_strings(([s], drv, "replay"))
        rep.merge(r)
        if len(s) == 1 and (ord(s) < 0x20 or 0x7F <= ord(s) < 0xA0):
            from graphql.language.print_string import print_string

            if s in print_string(s):
                rep.failures.append(Failure("print_string-raw-control", "print_string emits a control character unescaped", inp, fw.cps(print_string(s)), "an escape sequence", "C08-1 escape_table_covers_controls"))
    elif kind == "source":
        # `source_cps` (space separated code points) for texts JSON cannot hold: verbatim surrogate pairs
        src = fw.uncps(inp["source_cps"]) if "source_cps" in inp else inp["source"]
        d = _check_source(inp["entry"], inp["flags"], src, rep.failures)
        if inp.get("must_parse") and d is None and not rep.failures:
            rep.failures.append(Failure("corpus-source-rejected", "a stored source text no longer parses", inp, "GraphQLSyntaxError", "a tree", "C08 roundtrip_value_parsed_full"))
        rep.evaluations += 1
    elif kind in ("wire", "wire-variant", "wire-outside-wf"):
        from tools.astwire import from_wire

        node = from_wire(inp["wire"])
        if kind == "wire":
            t = _roundtrip(inp.get("entry", "document"), inp.get("flags", {}), node, "programmatic", inp, rep.failures)
        else:
            from graphql.language import print_ast

            try:
                t = print_ast(node)
                if kind == "wire-variant":
                    tn = print_ast(from_wire(inp["normal_form"]))
                    if tn != t:
                        rep.failures.append(Failure("empty-vs-none-prints-differently", "variant prints differently", inp, t[:400], tn[:400], "C08"))
                else:
                    _parse_fn(inp["entry"])(t, no_location=True, **inp["flags"])
            except Exception as e:  # noqa: BLE001
                rep.failures.append(Failure(f"{kind}-raises", "raises", inp, type(e).__name__, "no exception", "C08"))
                t = None
        rep.evaluations += 1
        if t is not None and ctx.driver and HAVE_PRINTER:
            o = ctx.driver.run(["print " + inp["wire"]])[0]
            want = ("ok " + fw.cps(t)).strip()
            if o.strip() != want:
                rep.disagreements.append(Disagreement("print_ast", inp, want[:2000], o[:2000]))
    else:
        raise fw.InfraError(f"unknown case kind {kind!r}")
    return rep


# ----------------------------------------------------------------------------- entry points


def strings_upto(n):
    for ln in range(n + 1):
        for t in itertools.product(ALPHABET, repeat=ln):
            yield "".join(t)


def _controls_oracle(rep):
    """Documented contract of print_string (docstring; theorem escape_table_covers_controls): C0 controls,
    DEL and C1 controls are printed as escape sequences.  The round trip itself does not depend on it."""
    fw.use_repo()
    from graphql.language.print_string import print_string

    for c in list(range(0x20)) + list(range(0x7F, 0xA0)):
        rep.evaluations += 1
        try:
            out = print_string(chr(c))
        except Exception:  # noqa: BLE001
            continue  # reported by the string oracles
        if chr(c) in out:
            rep.failures.append(
                Failure(
                    "print_string-raw-control",
                    "print_string emits a control character unescaped (its documented contract: control characters are "
                    "replaced with escape sequences)",
                    {"kind": "string", "value": str(c)}, fw.cps(out), "an escape sequence", "C08-1 escape_table_covers_controls",
                )
            )


def explore(ctx) -> Report:
    fw.use_repo()
    import time as _time

    rep = Report()
    drv = DRIVER if ctx.driver else None
    thorough = ctx.tier == "thorough"
    t_phase = [_time.time()]
    phases = []

    def phase(name):
        now = _time.time()
        phases.append(f"{name}={now - t_phase[0]:.1f}s")
        t_phase[0] = now

    # corpus first
    for name, inp in _corpus():
        r = _run_case(ctx, inp)
        rep.stats["corpus.cases"] = rep.stats.get("corpus.cases", 0) + 1
        rep.merge(r)
    phase("corpus")
    # the repository's own fixtures (kitchen sinks, a large schema and query)
    fx = []
    for p in sorted((fw.REPO / "tests" / "fixtures").glob("*.graphql")):
        try:
            text = p.read_text()
        except OSError:
            continue
        if thorough or len(text) < 20000:  # the two large fixtures only in the thorough tier
            fx.append((p.name, text))
    for r in fw.pmap(_work_fixture, [(name, src, drv) for name, src in fx]):
        rep.merge(r)
    phase("fixtures")
    n = 5 if thorough else 4
    if ctx.escalate and not thorough:
        n = 5
    exhaustive = list(strings_upto(n))
    if thorough:
        # length 6 over the 8 symbols that matter for block strings
        sub = ["a", " ", "\t", "\n", "\r", '"', "\\", "\u2028"]
        exhaustive += ["".join(t) for t in itertools.product(sub, repeat=6)]
    rng = ctx.sub_rng("c08-strings")
    n_rand = 40000 if thorough else 3000
    randoms = [G.rand_string(rng, 14, long_p=0.08) for _ in range(n_rand)]
    randoms += [G.rand_block_value(rng, G.py_block_representable, 14) for _ in range(n_rand // 2)]
    jobs = [(c, drv, "exhaustive") for c in fw.chunked(exhaustive, fw.WORKERS * 3)]
    jobs += [(c, drv, "random") for c in fw.chunked(randoms, fw.WORKERS)]
    for r in fw.pmap(_work_strings, jobs):
        rep.merge(r)
    phase("strings")
    n_docs = 100000 if thorough else 3000
    if ctx.escalate:
        n_docs *= 2
    seeds = [(ctx.seed, i) for i in range(n_docs)]
    for r in fw.pmap(_work_docs, [(c, drv, "docs") for c in fw.chunked(seeds, fw.WORKERS * 4)]):
        rep.merge(r)
    phase("documents")
    rep.notes.append("phase wall times: " + ", ".join(phases))
    rep.exhaustive = True
    rep.rule = (
        f"(a) all {len(exhaustive)} strings of length <= {n} over the 12-symbol alphabet {ALPHABET!r} (exhaustive; thorough tier "
        "also all strings of length 6 over the 8 symbols a, space, tab, LF, CR, quote, backslash, U+2028) and "
        f"{len(randoms)} seeded random strings over all Unicode scalar values, each printed quoted, as a block string and as "
        "a minimized block string; non-trivial = contains a blank, line terminator, quote, backslash, FF or U+2028; "
        f"(b) {n_docs} seeded grammar-directed cases (documents: executable / type system / extensions / mixed; values; const "
        "values; types; both experimental flags), each rendered to two random source texts and built programmatically; "
        "non-trivial = distinct tree (by wire text) containing a string literal or at least 8 tokens"
    )
    _controls_oracle(rep)
    return rep


def search(ctx, rep) -> Report:
    # every generated case is already evaluated by the property's own relations on the implementation;
    # after a break, widen: longer exhaustive strings (explore honours ctx.escalate) and more documents
    if rep.failures:
        return Report()
    extra = Report()
    drv = DRIVER if ctx.driver else None
    seeds = [(ctx.seed + 7919, i) for i in range(20000)]
    for r in fw.pmap(_work_docs, [(c, drv, "search") for c in fw.chunked(seeds, fw.WORKERS * 4)]):
        extra.merge(r)
    extra.disagreements = []
    return extra


def replay(ctx, payload) -> Report:
    inp = payload.get("input")
    if not isinstance(inp, dict):
        ds = payload.get("disagreements") or []
        if ds and isinstance(ds[0].get("input"), dict):
            inp = ds[0]["input"]
            if "kind" not in inp and "value" in inp:
                inp = dict(inp, kind="string")
        else:
            raise fw.InfraError("replay file has no case input")
    return _run_case(ctx, inp)
